(* Lemmas about Model/Conv.v : finite sums, the scatter through el3d_orig, the convolution formula,
   convexity (bounds / constants), the normalised radius kernel, volume preservation. *)
From Coq Require Import ZArith QArith List Lia Bool Ring Reals Lra.
From Pymoto Require Import Base.Num Base.SparseLin Model.Grid Model.Pad Model.Conv Proofs.GridP Proofs.PadP.
Import ListNotations.
Open Scope Z_scope.

(* ------------------------------------------------------------------ finite sums over a commutative ring *)
Section Sums.
  Context {K : Type} `{Num K}.
  Hypothesis Rth : ring_theory (@nzero K _) none_ nadd nmul nsub nopp (@eq K).
  Add Ring KringC : Rth.

  Lemma nsum_cons a (l : list K) : nsum (a :: l) = (a + nsum l)%num.
  Proof. reflexivity. Qed.

  Lemma nsum_app (a b : list K) : nsum (a ++ b) = (nsum a + nsum b)%num.
  Proof. induction a as [|x a IH]; cbn [app]; rewrite ?nsum_cons; [cbn; ring | rewrite IH; ring]. Qed.

  Lemma nsum_flat_map {A} (F : A -> K) {B} (g : B -> list A) (l : list B) :
    nsum (map F (flat_map g l)) = nsum (map (fun b => nsum (map F (g b))) l).
  Proof.
    induction l as [|b l IH]; [reflexivity|].
    cbn [flat_map map]. rewrite map_app, nsum_app, nsum_cons, IH. reflexivity.
  Qed.

  Lemma zrange_succ n : 0 <= n -> zrange (n + 1) = zrange n ++ [n].
  Proof.
    intros Hn. unfold zrange. replace (Z.to_nat (n + 1)) with (S (Z.to_nat n)) by lia.
    rewrite seq_S, map_app. cbn [map Nat.add]. rewrite Z2Nat.id by lia. reflexivity.
  Qed.

  Lemma zsum_nonpos n (f : Z -> K) : n <= 0 -> zsum n f = nzero.
  Proof. intros Hn. unfold zsum, zrange. replace (Z.to_nat n) with 0%nat by lia. reflexivity. Qed.

  Lemma zsum_succ n (f : Z -> K) : 0 <= n -> zsum (n + 1) f = (zsum n f + f n)%num.
  Proof.
    intros Hn. unfold zsum. rewrite zrange_succ by lia. rewrite map_app, nsum_app. cbn [map]. rewrite nsum_cons.
    cbn [nsum fold_right]. ring.
  Qed.

  Lemma zsum_ext n (f h : Z -> K) : (forall i, 0 <= i < n -> f i = h i) -> zsum n f = zsum n h.
  Proof. intros E. unfold zsum. f_equal. apply map_zrange_ext. exact E. Qed.

  (* induction principle packaged for sums *)
  Lemma zsum_ind (P : Z -> Prop) : (forall n, n <= 0 -> P n) -> (forall n, 0 <= n -> P n -> P (n + 1)) -> forall n, P n.
  Proof.
    intros H0 HS n. destruct (Z_lt_le_dec n 0) as [Hn|Hn]; [apply H0; lia|].
    pattern n. apply natlike_ind; [apply H0; lia | | exact Hn].
    intros m Hm IH. apply HS; assumption.
  Qed.

  Lemma zsum_zero n : zsum n (fun _ => nzero) = (nzero : K).
  Proof.
    pattern n. apply zsum_ind; clear n.
    - intros n Hn. apply zsum_nonpos; exact Hn.
    - intros n Hn IH. rewrite zsum_succ by exact Hn. rewrite IH. ring.
  Qed.

  Lemma zsum_add n (f h : Z -> K) : zsum n (fun i => (f i + h i)%num) = (zsum n f + zsum n h)%num.
  Proof.
    pattern n. apply zsum_ind; clear n.
    - intros n Hn. rewrite !zsum_nonpos by exact Hn. ring.
    - intros n Hn IH. rewrite !zsum_succ by exact Hn. rewrite IH. ring.
  Qed.

  Lemma zsum_scale n a (f : Z -> K) : zsum n (fun i => (a * f i)%num) = (a * zsum n f)%num.
  Proof.
    pattern n. apply zsum_ind; clear n.
    - intros n Hn. rewrite !zsum_nonpos by exact Hn. ring.
    - intros n Hn IH. rewrite !zsum_succ by exact Hn. rewrite IH. ring.
  Qed.

  Lemma zsum_scale_r n a (f : Z -> K) : zsum n (fun i => (f i * a)%num) = (zsum n f * a)%num.
  Proof.
    rewrite (zsum_ext n _ (fun i => (a * f i)%num)) by (intros; ring). rewrite zsum_scale. ring.
  Qed.

  Lemma zsum_swap n m (f : Z -> Z -> K) :
    zsum n (fun i => zsum m (fun j => f i j)) = zsum m (fun j => zsum n (fun i => f i j)).
  Proof.
    pattern n. apply zsum_ind; clear n.
    - intros n Hn. rewrite zsum_nonpos by exact Hn.
      rewrite (zsum_ext m _ (fun _ => nzero)) by (intros; apply zsum_nonpos; exact Hn).
      symmetry. apply zsum_zero.
    - intros n Hn IH. rewrite zsum_succ by exact Hn. rewrite IH.
      rewrite <- zsum_add. apply zsum_ext. intros j Hj. rewrite zsum_succ by exact Hn. reflexivity.
  Qed.

  Lemma zsum_single n a (v : Z -> K) : 0 <= a < n ->
    zsum n (fun i => if i =? a then v i else nzero) = v a.
  Proof.
    revert a. pattern n. apply zsum_ind; clear n.
    - intros n Hn a Ha. lia.
    - intros n Hn IH a Ha. rewrite zsum_succ by exact Hn.
      destruct (Z.eqb_spec n a) as [E|E].
      + subst a. rewrite (zsum_ext n _ (fun _ => nzero)).
        * rewrite zsum_zero. ring.
        * intros i Hi. destruct (Z.eqb_spec i n); [lia | reflexivity].
      + rewrite IH by lia. ring.
  Qed.

  Lemma zsum_split n m (f : Z -> K) : 0 <= m -> 0 <= n ->
    zsum (m + n) f = (zsum m f + zsum n (fun i => f (m + i)%Z))%num.
  Proof.
    intros Hm. pattern n. apply zsum_ind; clear n.
    - intros n Hn Hn'. assert (n = 0) by lia. subst. rewrite Z.add_0_r. rewrite (zsum_nonpos 0) by lia. ring.
    - intros n Hn IH _. rewrite Z.add_assoc. rewrite !zsum_succ by lia. rewrite IH by lia. ring.
  Qed.

  Lemma zsum_rev n (f : Z -> K) : zsum n f = zsum n (fun i => f (n - 1 - i)).
  Proof.
    revert f. pattern n. apply zsum_ind; clear n.
    - intros n Hn f. rewrite !zsum_nonpos by exact Hn. reflexivity.
    - intros n Hn IH f. rewrite (zsum_succ n f) by exact Hn.
      replace (zsum (n + 1) (fun i => f (n + 1 - 1 - i))) with (zsum (1 + n) (fun i => f (n + 1 - 1 - i)))
        by (f_equal; lia).
      rewrite zsum_split by lia.
      replace 1 with (0 + 1) at 1 by lia. rewrite (zsum_succ 0) by lia. rewrite (zsum_nonpos 0) by lia.
      rewrite (IH f).
      replace (n + 1 - 1 - 0) with n by lia.
      rewrite (zsum_ext n (fun i => f (n + 1 - 1 - (1 + i))) (fun i => f (n - 1 - i))) by (intros; f_equal; lia).
      ring.
  Qed.

  Lemma zsum_shift_ext n (f h : Z -> K) a : (forall i, 0 <= i < n -> f (a + i) = h i) ->
    zsum n (fun i => f (a + i)) = zsum n h.
  Proof. intros E. apply zsum_ext. exact E. Qed.

  (* sums over the three-dimensional box *)
  Lemma zsum3_ext nx ny nz (f h : Z -> Z -> Z -> K) :
    (forall a b c, 0 <= a < nx -> 0 <= b < ny -> 0 <= c < nz -> f a b c = h a b c) ->
    zsum3 nx ny nz f = zsum3 nx ny nz h.
  Proof.
    intros E. unfold zsum3. apply zsum_ext. intros a Ha. apply zsum_ext. intros b Hb. apply zsum_ext. intros c Hc.
    apply E; assumption.
  Qed.

  Lemma zsum3_single nx ny nz a b c (v : Z -> Z -> Z -> K) : 0 <= a < nx -> 0 <= b < ny -> 0 <= c < nz ->
    zsum3 nx ny nz (fun i j k => if (i =? a) && (j =? b) && (k =? c) then v i j k else nzero) = v a b c.
  Proof.
    intros Ha Hb Hc. unfold zsum3.
    rewrite (zsum_ext nx _ (fun i => if i =? a then zsum ny (fun j => zsum nz (fun k =>
               if (j =? b) && (k =? c) then v i j k else nzero)) else nzero)).
    2:{ intros i Hi. destruct (i =? a); cbn [andb]; [reflexivity|].
        rewrite (zsum_ext ny _ (fun _ => nzero)) by (intros; apply zsum_zero). apply zsum_zero. }
    rewrite zsum_single by exact Ha.
    rewrite (zsum_ext ny _ (fun j => if j =? b then zsum nz (fun k => if k =? c then v a j k else nzero) else nzero)).
    2:{ intros j Hj. destruct (j =? b); cbn [andb]; [reflexivity|]. apply zsum_zero. }
    rewrite zsum_single by exact Hb. apply zsum_single. exact Hc.
  Qed.

  Lemma nsum_positions (F : Z * Z * Z -> K) nx ny nz :
    nsum (map F (positions nx ny nz)) = zsum3 nx ny nz (fun i j k => F (i, j, k)).
  Proof.
    unfold positions, zsum3, zsum. rewrite nsum_flat_map. f_equal. apply map_ext. intros i.
    rewrite nsum_flat_map. f_equal. apply map_ext. intros j. rewrite map_map. reflexivity.
  Qed.

  (* ---------------------------------------------------------------- scatter: y[dst t] += val t *)
  Lemma vget_vaddat (y : list K) i e v : (e < length y)%nat ->
    vget (vaddat y i v) e = if Nat.eqb i e then (vget y e + v)%num else vget y e.
  Proof.
    revert i e. induction y as [|h y IH]; intros i e He; cbn in He; [lia|].
    destruct i as [|i], e as [|e]; cbn [vaddat Nat.eqb]; unfold vget in *; cbn [nth]; try reflexivity.
    apply IH. lia.
  Qed.

  Lemma scatter_fold {T} (dst : T -> nat) (val : T -> K) (ts : list T) (y : list K) e : (e < length y)%nat ->
    vget (fold_left (fun y t => vaddat y (dst t) (val t)) ts y) e =
    (vget y e + nsum (map (fun t => if Nat.eqb (dst t) e then val t else nzero) ts))%num.
  Proof.
    revert y. induction ts as [|t ts IH]; intros y He; cbn [fold_left map].
    - cbn. ring.
    - rewrite IH by (rewrite vaddat_length; exact He). rewrite vget_vaddat by exact He. rewrite nsum_cons.
      destruct (Nat.eqb (dst t) e); ring.
  Qed.

  Lemma vget_vzero m e : vget (@vzero K _ m) e = nzero.
  Proof. unfold vget, vzero. apply nth_repeat_same. Qed.
End Sums.

Lemma fold_left_ext_fn {A B} (F G : A -> B -> A) l y : (forall y t, F y t = G y t) -> fold_left F l y = fold_left G l y.
Proof. intros E. revert y. induction l as [|t l IH]; intros y; cbn; [reflexivity|]. rewrite E. apply IH. Qed.

Lemma fold_left_length_pres {A B} (F : list A -> B -> list A) l y :
  (forall y t, length (F y t) = length y) -> length (fold_left F l y) = length y.
Proof. intros E. revert y. induction l as [|t l IH]; intros y; cbn; [reflexivity|]. rewrite IH. apply E. Qed.

Lemma fc_response_length {K} `{Num K} (f : @fconv K) (x : list K) : length (fc_response f x) = length x.
Proof.
  unfold fc_response. rewrite fold_left_length_pres.
  - unfold vzero. apply repeat_length.
  - intros y [[a b] d]. apply vaddat_length.
Qed.

(* ------------------------------------------------------------------ the convolution formula *)
Section ConvFormula.
  Context {K : Type} `{Num K}.
  Hypothesis Rth : ring_theory (@nzero K _) none_ nadd nmul nsub nopp (@eq K).
  Add Ring KringF : Rth.

  Variable f : @fconv K.
  Let c := fc_pad f.
  Hypothesis Hp : pads_nonneg c.
  Hypothesis Hd : dims_ok c.
  Hypothesis Hok : pad_ok c.
  (* odd kernel: weights.shape = 2 * pad_sizes + 1 (the constructor asserts odd sizes and sets pad = size // 2) *)
  Hypothesis Hodd : shape3 (fc_w f) = (2 * ppx c + 1, 2 * ppy c + 1, 2 * ppz c + 1).

  Lemma dims_wf : wf (pg c).
  Proof. destruct Hd as (Dx & Dy & Dz). unfold wf. lia. Qed.
  Lemma sx1_nelx : sx1 c = nelx (pg c). Proof. destruct Hd as (Dx & Dy & Dz). unfold sx1. lia. Qed.
  Lemma sy1_nely : sy1 c = nely (pg c). Proof. destruct Hd as (Dx & Dy & Dz). unfold sy1. lia. Qed.
  Lemma sz1_nz1 : sz1 c = nz1 (pg c). Proof. unfold sz1, nz1. lia. Qed.

  (* every entry of y3d lands in y at the element number of its position, and nothing else does *)
  Theorem fc_response_at (x : list K) a b d :
    Z.of_nat (length x) = nel (pg c) ->
    0 <= a < nelx (pg c) -> 0 <= b < nely (pg c) -> 0 <= d < nz1 (pg c) ->
    zget (fc_response f x) (elemnumber (pg c) a b d) = fc_y3d_at f x a b d.
  Proof.
    intros Hx Ha Hb Hdd.
    pose proof dims_wf as Hwf. pose proof sx1_nelx as Ex. pose proof sy1_nely as Ey. pose proof sz1_nz1 as Ez.
    pose proof (elem_range (pg c) a b d Ha Hb Hdd) as Hr.
    unfold fc_response. fold c. cbv zeta.
    set (eo := el3d_orig c). set (xp := xpad_arr c (fc_uov f) x).
    set (V := fun i j k => conv_valid_at (fc_w f) (fun i0 j0 k0 => nth3 xp i0 j0 k0 nzero) i j k).
    rewrite fold_left_ext_fn with
      (G := fun y (t : Z * Z * Z) => vaddat y (match t with (i, j, k) => Z.to_nat (nth3 eo i j k 0) end)
                                        (match t with (i, j, k) => V i j k end))
      by (intros y [[i j] k]; reflexivity).
    unfold zget. change (nth (Z.to_nat (elemnumber (pg c) a b d)) ?l nzero) with (vget l (Z.to_nat (elemnumber (pg c) a b d))).
    rewrite (scatter_fold Rth) by (unfold vzero; rewrite repeat_length; lia).
    rewrite vget_vzero. rewrite (nsum_positions Rth).
    rewrite (zsum3_ext (sx1 c) (sy1 c) (sz1 c) _
               (fun i j k => if (i =? a) && (j =? b) && (k =? d) then V i j k else nzero)).
    - rewrite (zsum3_single Rth) by lia.
      replace (nadd nzero (V a b d)) with (V a b d) by ring.
      unfold V, fc_y3d_at, conv_valid_at. fold c. rewrite Hodd.
      apply zsum3_ext. intros qa qb qc Hqa Hqb Hqc. f_equal.
      unfold xp. apply (xpad_arr_nth3 c Hp Hok); lia.
    - intros i j k Hi Hj Hk. unfold eo, el3d_orig. rewrite tab3_nth3 by assumption.
      destruct (Nat.eqb_spec (Z.to_nat (elemnumber (pg c) i j k)) (Z.to_nat (elemnumber (pg c) a b d))) as [E|E].
      + assert (Hr' : 0 <= elemnumber (pg c) i j k < nel (pg c)) by (apply elem_range; try assumption; lia).
        assert (E' : elemnumber (pg c) i j k = elemnumber (pg c) a b d) by lia.
        apply elem_inj in E'; try assumption; try lia.
        destruct E' as (E1 & E2 & E3). subst.
        rewrite !Z.eqb_refl. reflexivity.
      + destruct (Z.eqb_spec i a); destruct (Z.eqb_spec j b); destruct (Z.eqb_spec k d); cbn [andb]; try reflexivity.
        subst. congruence.
  Qed.

  (* C09 conv formula: y_e = sum_q w[q] * ext(x)(e - (q - pad))  (user overrides applied on top of ext) *)
  Theorem fc_conv_formula (x : list K) a b d :
    Z.of_nat (length x) = nel (pg c) ->
    0 <= a < nelx (pg c) -> 0 <= b < nely (pg c) -> 0 <= d < nz1 (pg c) ->
    zget (fc_response f x) (elemnumber (pg c) a b d) =
    zsum3 (2 * ppx c + 1) (2 * ppy c + 1) (2 * ppz c + 1) (fun qa qb qc =>
      nmul (wget (fc_w f) qa qb qc)
           (apply_ovs (fc_uov f) (a + 2 * ppx c - qa) (b + 2 * ppy c - qb) (d + 2 * ppz c - qc)
              (ext3 c x (a - (qa - ppx c)) (b - (qb - ppy c)) (d - (qc - ppz c))))).
  Proof.
    intros Hx Ha Hb Hdd. rewrite fc_response_at by assumption.
    pose proof sx1_nelx as Ex. pose proof sy1_nely as Ey. pose proof sz1_nz1 as Ez.
    unfold fc_y3d_at, conv_valid_at. fold c. rewrite Hodd.
    apply zsum3_ext. intros qa qb qc Hqa Hqb Hqc. f_equal.
    rewrite (xpad_at_ext3_user c Hp Hd Hok) by lia.
    f_equal; try lia. f_equal; lia.
  Qed.
End ConvFormula.

(* ------------------------------------------------------------------ order facts over the reals *)
Section RealSums.
  Open Scope R_scope.
  Let RthR := num_ring_R.

  Lemma zsumR_succ n (f : Z -> R) : (0 <= n)%Z -> zsum (n + 1) f = zsum n f + f n.
  Proof. intros Hn. apply (zsum_succ RthR n f Hn). Qed.

  Lemma zsumR_le n (f h : Z -> R) : (forall i, (0 <= i < n)%Z -> f i <= h i) -> zsum n f <= zsum n h.
  Proof.
    pattern n. apply zsum_ind; clear n.
    - intros n Hn _. rewrite !zsum_nonpos by exact Hn. apply Rle_refl.
    - intros n Hn IH E. rewrite !zsumR_succ by exact Hn.
      apply Rplus_le_compat; [apply IH; intros; apply E; lia | apply E; lia].
  Qed.

  Lemma zsumR_nonneg n (f : Z -> R) : (forall i, (0 <= i < n)%Z -> 0 <= f i) -> 0 <= zsum n f.
  Proof.
    intros E. pose proof (zsumR_le n (fun _ => 0) f E) as L.
    pose proof (zsum_zero RthR n) as Z0. change (@nzero R NumR) with 0 in Z0. rewrite Z0 in L. exact L.
  Qed.

  Lemma zsum3R_le nx ny nz (f h : Z -> Z -> Z -> R) :
    (forall a b c, (0 <= a < nx)%Z -> (0 <= b < ny)%Z -> (0 <= c < nz)%Z -> f a b c <= h a b c) ->
    zsum3 nx ny nz f <= zsum3 nx ny nz h.
  Proof.
    intros E. unfold zsum3. apply zsumR_le. intros a Ha. apply zsumR_le. intros b Hb. apply zsumR_le. intros c Hc.
    apply E; assumption.
  Qed.

  Lemma zsum3R_scale nx ny nz (a : R) (f : Z -> Z -> Z -> R) :
    zsum3 nx ny nz (fun i j k => a * f i j k) = a * zsum3 nx ny nz f.
  Proof.
    unfold zsum3.
    rewrite <- (zsum_scale RthR nx a). apply (zsum_ext nx). intros i Hi.
    rewrite <- (zsum_scale RthR ny a). apply (zsum_ext ny). intros j Hj.
    apply (zsum_scale RthR nz a).
  Qed.

  (* a weighted sum with non-negative weights lies between lo and hi times the total weight *)
  Lemma zsum3R_convex nx ny nz (w v : Z -> Z -> Z -> R) lo hi :
    (forall a b c, (0 <= a < nx)%Z -> (0 <= b < ny)%Z -> (0 <= c < nz)%Z -> 0 <= w a b c) ->
    (forall a b c, (0 <= a < nx)%Z -> (0 <= b < ny)%Z -> (0 <= c < nz)%Z -> lo <= v a b c <= hi) ->
    lo * zsum3 nx ny nz w <= zsum3 nx ny nz (fun a b c => w a b c * v a b c) <= hi * zsum3 nx ny nz w.
  Proof.
    intros Hw Hv. rewrite <- !zsum3R_scale. split; apply zsum3R_le; intros a b c Ha Hb Hc;
      specialize (Hw a b c Ha Hb Hc); specialize (Hv a b c Ha Hb Hc); nra.
  Qed.
End RealSums.

(* ------------------------------------------------------------------ constants and bounds (FilterConv) *)
Definition no_const {K} (c : padcfg K) : Prop :=
  is_const (mx0 c) = false /\ is_const (mx1 c) = false /\ is_const (my0 c) = false /\
  is_const (my1 c) = false /\ is_const (mz0 c) = false /\ is_const (mz1 c) = false.

Lemma ext1_no_const {K} (m0 m1 : bmode K) n i : 1 <= n -> is_const m0 = false -> is_const m1 = false ->
  exists t, 0 <= t < n /\ ext1 m0 m1 n i = SIdx t.
Proof.
  intros Hn H0 H1. destruct (ext1 m0 m1 n i) as [t|v] eqn:E.
  - exists t. split; [eapply ext1_idx_range; eassumption | reflexivity].
  - exfalso. unfold ext1 in E.
    destruct (i <? 0); [|destruct (n <=? i)]; [destruct m0|destruct m1|]; cbn in *; congruence.
Qed.

(* without constant padding every position of the extended field holds the value of some element *)
Lemma ext3_no_const {K} `{Num K} (c : padcfg K) (x : list K) A B D : dims_ok c -> no_const c ->
  exists e, 0 <= e < nel (pg c) /\ ext3 c x A B D = zget x e.
Proof.
  intros Hd (C1 & C2 & C3 & C4 & C5 & C6). destruct Hd as (Dx & Dy & Dz).
  destruct (ext1_no_const (mz0 c) (mz1 c) (sz1 c) D ltac:(unfold sz1; lia) C5 C6) as (d' & Hd' & Ed).
  destruct (ext1_no_const (my0 c) (my1 c) (sy1 c) B ltac:(unfold sy1; lia) C3 C4) as (b' & Hb' & Eb).
  destruct (ext1_no_const (mx0 c) (mx1 c) (sx1 c) A ltac:(unfold sx1; lia) C1 C2) as (a' & Ha' & Ea).
  exists (elemnumber (pg c) a' b' d'). split.
  - apply elem_range; unfold sx1, sy1, sz1, nz1 in *; lia.
  - unfold ext3. rewrite Ed, Eb, Ea. reflexivity.
Qed.

Section ConvBounds.
  Open Scope R_scope.
  Variable f : @fconv R.
  Let c := fc_pad f.
  Hypothesis Hp : pads_nonneg c.
  Hypothesis Hd : dims_ok c.
  Hypothesis Hok : pad_ok c.
  Hypothesis Hodd : shape3 (fc_w f) = (2 * ppx c + 1, 2 * ppy c + 1, 2 * ppz c + 1)%Z.
  Hypothesis Hnc : no_const c.
  Hypothesis Hnu : fc_uov f = [].
  (* non-negative kernel that sums to one *)
  Hypothesis Hw0 : forall qa qb qc, (0 <= qa < 2 * ppx c + 1)%Z -> (0 <= qb < 2 * ppy c + 1)%Z ->
                   (0 <= qc < 2 * ppz c + 1)%Z -> 0 <= wget (fc_w f) qa qb qc.
  Hypothesis Hw1 : zsum3 (2 * ppx c + 1) (2 * ppy c + 1) (2 * ppz c + 1) (wget (fc_w f)) = 1.

  Theorem fc_bounds (x : list R) lo hi a b d :
    Z.of_nat (length x) = nel (pg c) ->
    (forall e, (0 <= e < nel (pg c))%Z -> lo <= zget x e <= hi) ->
    (0 <= a < nelx (pg c))%Z -> (0 <= b < nely (pg c))%Z -> (0 <= d < nz1 (pg c))%Z ->
    lo <= zget (fc_response f x) (elemnumber (pg c) a b d) <= hi.
  Proof.
    intros Hx Hb' Ha Hb Hdd.
    rewrite (fc_conv_formula num_ring_R f Hp Hd Hok Hodd) by assumption. fold c.
    rewrite Hnu.
    pose proof (zsum3R_convex (2 * ppx c + 1) (2 * ppy c + 1) (2 * ppz c + 1) (wget (fc_w f))
                  (fun qa qb qc => ext3 c x (a - (qa - ppx c)) (b - (qb - ppy c)) (d - (qc - ppz c))) lo hi Hw0) as Hc.
    rewrite Hw1 in Hc. cbn [apply_ovs fold_left].
    change (@nmul R NumR) with Rmult.
    assert (Hv : forall qa qb qc, (0 <= qa < 2 * ppx c + 1)%Z -> (0 <= qb < 2 * ppy c + 1)%Z ->
                 (0 <= qc < 2 * ppz c + 1)%Z ->
                 lo <= ext3 c x (a - (qa - ppx c)) (b - (qb - ppy c)) (d - (qc - ppz c)) <= hi).
    { intros qa qb qc _ _ _.
      destruct (ext3_no_const c x (a - (qa - ppx c))%Z (b - (qb - ppy c))%Z (d - (qc - ppz c))%Z Hd Hnc) as (e & He & E).
      rewrite E. apply Hb'. exact He. }
    specialize (Hc Hv). lra.
  Qed.

  (* a constant field is mapped to the same constant *)
  Theorem fc_constant (x : list R) v a b d :
    Z.of_nat (length x) = nel (pg c) ->
    (forall e, (0 <= e < nel (pg c))%Z -> zget x e = v) ->
    (0 <= a < nelx (pg c))%Z -> (0 <= b < nely (pg c))%Z -> (0 <= d < nz1 (pg c))%Z ->
    zget (fc_response f x) (elemnumber (pg c) a b d) = v.
  Proof.
    intros Hx Hc Ha Hb Hdd.
    assert (B : v <= zget (fc_response f x) (elemnumber (pg c) a b d) <= v).
    { apply fc_bounds; try assumption. intros e He. rewrite Hc by exact He. lra. }
    lra.
  Qed.
End ConvBounds.

(* ------------------------------------------------------------------ the kernel of set_filter_radius *)
Lemma tab3_shape3 {A} nx ny nz (F : Z -> Z -> Z -> A) : 1 <= nx -> 1 <= ny -> 1 <= nz ->
  shape3 (tab3 nx ny nz F) = (nx, ny, nz).
Proof.
  intros Hx Hy Hz. unfold shape3, tab3. rewrite !hd_nth0.
  change 0%nat with (Z.to_nat 0).
  rewrite map_zrange_length. rewrite nth_map_zrange by lia. rewrite map_zrange_length.
  rewrite nth_map_zrange by lia. rewrite map_zrange_length.
  f_equal; [f_equal|]; lia.
Qed.

Lemma map3_tab3 {K} (h : K -> K) nx ny nz (F : Z -> Z -> Z -> K) :
  map3 h (tab3 nx ny nz F) = tab3 nx ny nz (fun i j k => h (F i j k)).
Proof.
  unfold map3, tab3. rewrite map_map. apply map_ext. intros i. rewrite map_map. apply map_ext. intros j.
  rewrite map_map. reflexivity.
Qed.

Lemma sum3_tab3 {K} `{Num K} nx ny nz (F : Z -> Z -> Z -> K) : sum3 (tab3 nx ny nz F) = zsum3 nx ny nz F.
Proof.
  unfold sum3, tab3, zsum3, zsum. rewrite map_map. f_equal. apply map_ext. intros i. rewrite map_map. reflexivity.
Qed.

Section RadiusKernel.
  Open Scope R_scope.
  Variables dlx dly dlz sx sy sz : Z.
  Variable wtab : Z -> R.
  Hypothesis Hx : (0 <= dlx)%Z.
  Hypothesis Hy : (0 <= dly)%Z.
  Hypothesis Hz : (0 <= dlz)%Z.
  Hypothesis Hw : forall k, 0 <= wtab k.         (* max(0, .) *)
  Hypothesis Hc : 0 < wtab 0.                    (* the centre weight is the radius, r > 0 *)

  Let F (a b c : Z) : R :=
    wtab (((a - dlx) * sx) * ((a - dlx) * sx) + ((b - dly) * sy) * ((b - dly) * sy)
          + ((c - dlz) * sz) * ((c - dlz) * sz))%Z.
  Let S := zsum3 (2 * dlx + 1) (2 * dly + 1) (2 * dlz + 1) F.
  Let w := radius_kernel dlx dly dlz sx sy sz wtab.

  Lemma radius_kernel_eq : w = tab3 (2 * dlx + 1) (2 * dly + 1) (2 * dlz + 1) (fun a b c => F a b c / S).
  Proof.
    unfold w, radius_kernel, normalise3, cone_raw. cbv zeta. rewrite sum3_tab3. fold F. fold S.
    rewrite map3_tab3. reflexivity.
  Qed.

  Lemma radius_S_pos : 0 < S.
  Proof.
    assert (Hc' : 0 < F dlx dly dlz).
    { unfold F. replace ((dlx - dlx) * sx * ((dlx - dlx) * sx) + (dly - dly) * sy * ((dly - dly) * sy)
                         + (dlz - dlz) * sz * ((dlz - dlz) * sz))%Z with 0%Z by ring. exact Hc. }
    pose proof (zsum3R_le (2 * dlx + 1) (2 * dly + 1) (2 * dlz + 1)
                  (fun i j k => if (i =? dlx)%Z && (j =? dly)%Z && (k =? dlz)%Z then F i j k else @nzero R NumR) F) as L.
    rewrite (zsum3_single num_ring_R (2 * dlx + 1) (2 * dly + 1) (2 * dlz + 1) dlx dly dlz F) in L by lia.
    fold S in L. apply Rlt_le_trans with (1 := Hc'). apply L.
    intros a b c _ _ _. destruct ((a =? dlx)%Z && (b =? dly)%Z && (c =? dlz)%Z); [apply Rle_refl | apply Hw].
  Qed.

  Theorem radius_kernel_normalised :
    shape3 w = (2 * dlx + 1, 2 * dly + 1, 2 * dlz + 1)%Z /\
    (forall qa qb qc, (0 <= qa < 2 * dlx + 1)%Z -> (0 <= qb < 2 * dly + 1)%Z -> (0 <= qc < 2 * dlz + 1)%Z ->
       0 <= wget w qa qb qc) /\
    zsum3 (2 * dlx + 1) (2 * dly + 1) (2 * dlz + 1) (wget w) = 1.
  Proof.
    pose proof radius_S_pos as HS. rewrite radius_kernel_eq. split; [|split].
    - apply tab3_shape3; lia.
    - intros qa qb qc Ha Hb Hcc. unfold wget. rewrite tab3_nth3 by assumption.
      apply Rmult_le_pos; [apply Hw | left; apply Rinv_0_lt_compat; exact HS].
    - rewrite (zsum3_ext _ _ _ _ (fun a b c => / S * F a b c)).
      + rewrite zsum3R_scale. fold S. field. lra.
      + intros a b c Ha Hb Hcc. unfold wget. rewrite tab3_nth3 by assumption. unfold Rdiv. apply Rmult_comm.
  Qed.

  (* the cone kernel is invariant under the mirror of every axis *)
  Theorem radius_kernel_mirror qa qb qc :
    (0 <= qa < 2 * dlx + 1)%Z -> (0 <= qb < 2 * dly + 1)%Z -> (0 <= qc < 2 * dlz + 1)%Z ->
    wget w (2 * dlx - qa) qb qc = wget w qa qb qc /\
    wget w qa (2 * dly - qb) qc = wget w qa qb qc /\
    wget w qa qb (2 * dlz - qc) = wget w qa qb qc.
  Proof.
    intros Ha Hb Hcc. rewrite radius_kernel_eq. unfold wget. rewrite !tab3_nth3 by lia.
    unfold F. repeat split; f_equal; f_equal; ring.
  Qed.
End RadiusKernel.

(* ------------------------------------------------------------------ volume preservation: 1-D core *)
Section Volume1D.
  Open Scope R_scope.
  Let RthR := num_ring_R.

  Lemma zsumR_add n (f h : Z -> R) : zsum n (fun i => f i + h i) = zsum n f + zsum n h.
  Proof. apply (zsum_add RthR). Qed.
  Lemma zsumR_scale n a (f : Z -> R) : zsum n (fun i => a * f i) = a * zsum n f.
  Proof. apply (zsum_scale RthR). Qed.
  Lemma zsumR_split n m (f : Z -> R) : (0 <= m)%Z -> (0 <= n)%Z ->
    zsum (m + n) f = zsum m f + zsum n (fun i => f (m + i)%Z).
  Proof. apply (zsum_split RthR). Qed.
  Lemma zsumR_rev n (f : Z -> R) : zsum n f = zsum n (fun i => f (n - 1 - i)%Z).
  Proof. apply (zsum_rev RthR). Qed.
  Lemma zsumR_swap n m (f : Z -> Z -> R) :
    zsum n (fun i => zsum m (fun j => f i j)) = zsum m (fun j => zsum n (fun i => f i j)).
  Proof. apply (zsum_swap RthR). Qed.

  (* the sum of a P-periodic function over any window of length P *)
  Lemma periodic_window P (h : Z -> R) : (0 <= P)%Z -> (forall i, h (i + P)%Z = h i) ->
    forall s, zsum P (fun i => h (s + i)%Z) = zsum P h.
  Proof.
    intros HP Hper.
    assert (Step : forall s, zsum P (fun i => h (s + 1 + i)%Z) = zsum P (fun i => h (s + i)%Z)).
    { intros s.
      pose proof (zsumR_succ P (fun i => h (s + i)%Z) HP) as A. cbv beta in A.
      pose proof (zsumR_split P 1 (fun i => h (s + i)%Z) ltac:(lia) HP) as B. cbv beta in B.
      replace (1 + P)%Z with (P + 1)%Z in B by lia. rewrite A in B.
      replace 1%Z with (0 + 1)%Z in B at 1 by lia.
      rewrite (zsumR_succ 0) in B by lia. rewrite (zsum_nonpos 0) in B by lia.
      replace (s + 0)%Z with s in B by lia. rewrite Hper in B.
      rewrite (zsum_ext P (fun i => h (s + 1 + i)%Z) (fun i => h (s + (1 + i))%Z)) by (intros; f_equal; lia).
      change (@nzero R NumR) with 0 in B. lra. }
    assert (Up : forall k, (0 <= k)%Z -> forall s, zsum P (fun i => h (s + k + i)%Z) = zsum P (fun i => h (s + i)%Z)).
    { intros k Hk. pattern k. apply natlike_ind; [| |exact Hk].
      - intros s. apply zsum_ext. intros; f_equal; lia.
      - intros m Hm IH s. rewrite <- (IH s). rewrite <- (Step (s + m)%Z).
        apply zsum_ext. intros; f_equal; lia. }
    intros s. destruct (Z_lt_le_dec s 0) as [Hs|Hs].
    - rewrite <- (Up (- s)%Z ltac:(lia) s). apply zsum_ext. intros; f_equal; lia.
    - rewrite <- (zsum_ext P (fun i => h (0 + s + i)%Z)) by (intros; f_equal; lia).
      rewrite (Up s Hs 0%Z). apply zsum_ext. intros; f_equal; lia.
  Qed.

  Variable n : Z.
  Hypothesis Hn : (1 <= n)%Z.
  Variable g : Z -> R.

  Lemma sym_full_period : zsum (n + n) (fun i => g (sym_idx n i)) = 2 * zsum n g.
  Proof.
    rewrite zsumR_split by lia.
    rewrite (zsum_ext n (fun i => g (sym_idx n i)) g) by (intros i Hi; rewrite sym_idx_in by lia; reflexivity).
    rewrite (zsum_ext n (fun i => g (sym_idx n (n + i))) (fun i => g (n - 1 - i)%Z)).
    - rewrite <- zsumR_rev. lra.
    - intros i Hi. rewrite sym_idx_hi by lia. f_equal. lia.
  Qed.

  (* number of window positions reading element j at offsets +t and -t: together every element is read twice *)
  Lemma sym_pair_sum t :
    zsum n (fun a => g (sym_idx n (a + t))) + zsum n (fun a => g (sym_idx n (a - t))) = 2 * zsum n g.
  Proof.
    assert (E : zsum n (fun a => g (sym_idx n (a - t))) = zsum n (fun a => g (sym_idx n (t - n + a)))).
    { rewrite zsumR_rev. apply zsum_ext. intros a Ha.
      rewrite <- (sym_idx_reflect n (n - 1 - a - t)) by lia. f_equal. f_equal. lia. }
    rewrite E. rewrite Rplus_comm.
    rewrite (zsum_ext n (fun a => g (sym_idx n (a + t))) (fun a => g (sym_idx n (t - n + (n + a))))) by (intros; f_equal; f_equal; lia).
    rewrite <- (zsumR_split n n (fun i => g (sym_idx n (t - n + i)))) by lia.
    rewrite (periodic_window (n + n) (fun i => g (sym_idx n i))) ; [apply sym_full_period | lia |].
    intros i. replace (i + (n + n))%Z with (i + 2 * n)%Z by lia. rewrite sym_idx_period by lia. reflexivity.
  Qed.

  (* halving: a sum over a symmetric index range equals the sum of the half-symmetrised terms *)
  Lemma zsum_half m (Phi Psi : Z -> R) :
    (forall q, (0 <= q < m)%Z -> Phi q + Phi (m - 1 - q)%Z = 2 * Psi q) -> zsum m Phi = zsum m Psi.
  Proof.
    intros E. pose proof (zsumR_rev m Phi) as Rv.
    assert (D : zsum m Phi + zsum m (fun q => Phi (m - 1 - q)%Z) = 2 * zsum m Psi).
    { rewrite <- zsumR_add. rewrite <- zsumR_scale. apply zsum_ext. exact E. }
    lra.
  Qed.
End Volume1D.

(* ------------------------------------------------------------------ volume preservation: 3-D lift *)
Section Volume3D.
  Open Scope R_scope.
  Let RthR := num_ring_R.

  Lemma zsum_zsum3 n kx ky kz (F : Z -> Z -> Z -> Z -> R) :
    zsum n (fun i => zsum3 kx ky kz (fun qa qb qc => F i qa qb qc)) =
    zsum3 kx ky kz (fun qa qb qc => zsum n (fun i => F i qa qb qc)).
  Proof.
    unfold zsum3. rewrite zsumR_swap. apply zsum_ext. intros qa _.
    rewrite zsumR_swap. apply zsum_ext. intros qb _. apply zsumR_swap.
  Qed.

  Lemma zsum3_exchange nx ny nz kx ky kz (F : Z -> Z -> Z -> Z -> Z -> Z -> R) :
    zsum3 nx ny nz (fun a b d => zsum3 kx ky kz (fun qa qb qc => F a b d qa qb qc)) =
    zsum3 kx ky kz (fun qa qb qc => zsum3 nx ny nz (fun a b d => F a b d qa qb qc)).
  Proof.
    unfold zsum3 at 1.
    rewrite (zsum_ext nx _ (fun a => zsum3 kx ky kz (fun qa qb qc => zsum ny (fun b => zsum nz (fun d => F a b d qa qb qc))))).
    - rewrite zsum_zsum3. reflexivity.
    - intros a _.
      rewrite (zsum_ext ny _ (fun b => zsum3 kx ky kz (fun qa qb qc => zsum nz (fun d => F a b d qa qb qc))))
        by (intros b _; apply zsum_zsum3).
      apply zsum_zsum3.
  Qed.

  Lemma zsum3_perm nx ny nz (F : Z -> Z -> Z -> R) :
    zsum nz (fun k => zsum ny (fun j => zsum nx (fun i => F i j k))) = zsum3 nx ny nz F.
  Proof.
    unfold zsum3. rewrite zsumR_swap.
    rewrite (zsum_ext ny _ (fun j => zsum nx (fun i => zsum nz (fun k => F i j k)))) by (intros; apply zsumR_swap).
    apply zsumR_swap.
  Qed.

  Variables nx ny nz px py pz : Z.
  Hypothesis Hnx : (1 <= nx)%Z.
  Hypothesis Hny : (1 <= ny)%Z.
  Hypothesis Hnz : (1 <= nz)%Z.
  Variable w : Z -> Z -> Z -> R.
  Let kx := (2 * px + 1)%Z.
  Let ky := (2 * py + 1)%Z.
  Let kz := (2 * pz + 1)%Z.
  (* the kernel is invariant under the mirror of every axis *)
  Hypothesis Hmx : forall qa qb qc, (0 <= qa < kx)%Z -> (0 <= qb < ky)%Z -> (0 <= qc < kz)%Z ->
                   w (2 * px - qa)%Z qb qc = w qa qb qc.
  Hypothesis Hmy : forall qa qb qc, (0 <= qa < kx)%Z -> (0 <= qb < ky)%Z -> (0 <= qc < kz)%Z ->
                   w qa (2 * py - qb)%Z qc = w qa qb qc.
  Hypothesis Hmz : forall qa qb qc, (0 <= qa < kx)%Z -> (0 <= qb < ky)%Z -> (0 <= qc < kz)%Z ->
                   w qa qb (2 * pz - qc)%Z = w qa qb qc.
  Variable G : Z -> Z -> Z -> R.

  Let sxi (a q : Z) : Z := sym_idx nx (a + px - q).
  Let syi (b q : Z) : Z := sym_idx ny (b + py - q).
  Let szi (d q : Z) : Z := sym_idx nz (d + pz - q).

  Theorem sym_conv_volume :
    zsum3 nx ny nz (fun a b d => zsum3 kx ky kz (fun qa qb qc => w qa qb qc * G (sxi a qa) (syi b qb) (szi d qc))) =
    zsum3 kx ky kz w * zsum3 nx ny nz G.
  Proof.
    rewrite zsum3_exchange.
    (* V, Vx, Vxy: the field summed over the window positions of 3, 2, 1 axes *)
    set (Vx := fun qb qc => zsum ny (fun b => zsum nx (fun i => zsum nz (fun d => G i (syi b qb) (szi d qc))))).
    set (Vxy := fun qc => zsum nz (fun d => zsum ny (fun j => zsum nx (fun i => G i j (szi d qc))))).
    set (C := zsum nz (fun k => zsum ny (fun j => zsum nx (fun i => G i j k)))).
    assert (Px : forall qa qb qc,
               zsum3 nx ny nz (fun a b d => G (sxi a qa) (syi b qb) (szi d qc)) +
               zsum3 nx ny nz (fun a b d => G (sxi a (2 * px - qa)) (syi b qb) (szi d qc)) = 2 * Vx qb qc).
    { intros qa qb qc. unfold zsum3.
      pose proof (sym_pair_sum nx Hnx (fun i => zsum ny (fun b => zsum nz (fun d => G i (syi b qb) (szi d qc)))) (px - qa)%Z) as P.
      cbv beta in P.
      rewrite (zsum_ext nx (fun a => zsum ny (fun b => zsum nz (fun d => G (sxi a qa) (syi b qb) (szi d qc))))
                 (fun a => zsum ny (fun b => zsum nz (fun d => G (sym_idx nx (a + (px - qa))) (syi b qb) (szi d qc)))))
        by (intros a _; unfold sxi; replace (a + px - qa)%Z with (a + (px - qa))%Z by lia; reflexivity).
      rewrite (zsum_ext nx (fun a => zsum ny (fun b => zsum nz (fun d => G (sxi a (2 * px - qa)) (syi b qb) (szi d qc))))
                 (fun a => zsum ny (fun b => zsum nz (fun d => G (sym_idx nx (a - (px - qa))) (syi b qb) (szi d qc)))))
        by (intros a _; unfold sxi; replace (a + px - (2 * px - qa))%Z with (a - (px - qa))%Z by lia; reflexivity).
      rewrite P. unfold Vx. rewrite zsumR_swap. reflexivity. }
    assert (Py : forall qb qc, Vx qb qc + Vx (2 * py - qb)%Z qc = 2 * Vxy qc).
    { intros qb qc. unfold Vx.
      pose proof (sym_pair_sum ny Hny (fun j => zsum nx (fun i => zsum nz (fun d => G i j (szi d qc)))) (py - qb)%Z) as P.
      cbv beta in P.
      rewrite (zsum_ext ny (fun b => zsum nx (fun i => zsum nz (fun d => G i (syi b qb) (szi d qc))))
                 (fun b => zsum nx (fun i => zsum nz (fun d => G i (sym_idx ny (b + (py - qb))) (szi d qc)))))
        by (intros b _; unfold syi; replace (b + py - qb)%Z with (b + (py - qb))%Z by lia; reflexivity).
      rewrite (zsum_ext ny (fun b => zsum nx (fun i => zsum nz (fun d => G i (syi b (2 * py - qb)) (szi d qc))))
                 (fun b => zsum nx (fun i => zsum nz (fun d => G i (sym_idx ny (b - (py - qb))) (szi d qc)))))
        by (intros b _; unfold syi; replace (b + py - (2 * py - qb))%Z with (b - (py - qb))%Z by lia; reflexivity).
      rewrite P. unfold Vxy. f_equal.
      rewrite (zsum_ext ny _ (fun j => zsum nz (fun d => zsum nx (fun i => G i j (szi d qc))))) by (intros; apply zsumR_swap).
      apply zsumR_swap. }
    assert (Pz : forall qc, Vxy qc + Vxy (2 * pz - qc)%Z = 2 * C).
    { intros qc. unfold Vxy.
      pose proof (sym_pair_sum nz Hnz (fun k => zsum ny (fun j => zsum nx (fun i => G i j k))) (pz - qc)%Z) as P.
      cbv beta in P.
      rewrite (zsum_ext nz (fun d => zsum ny (fun j => zsum nx (fun i => G i j (szi d qc))))
                 (fun d => zsum ny (fun j => zsum nx (fun i => G i j (sym_idx nz (d + (pz - qc)))))))
        by (intros d _; unfold szi; replace (d + pz - qc)%Z with (d + (pz - qc))%Z by lia; reflexivity).
      rewrite (zsum_ext nz (fun d => zsum ny (fun j => zsum nx (fun i => G i j (szi d (2 * pz - qc)))))
                 (fun d => zsum ny (fun j => zsum nx (fun i => G i j (sym_idx nz (d - (pz - qc)))))))
        by (intros d _; unfold szi; replace (d + pz - (2 * pz - qc))%Z with (d - (pz - qc))%Z by lia; reflexivity).
      rewrite P. reflexivity. }
    (* pull the weight out of the sum over window positions *)
    rewrite (zsum3_ext kx ky kz _ (fun qa qb qc =>
               w qa qb qc * zsum3 nx ny nz (fun a b d => G (sxi a qa) (syi b qb) (szi d qc))))
      by (intros; apply zsum3R_scale).
    unfold zsum3 at 1.
    (* x axis *)
    rewrite (zsum_half kx _ (fun qa => zsum ky (fun qb => zsum kz (fun qc => w qa qb qc * Vx qb qc)))).
    2:{ intros qa Hqa. replace (kx - 1 - qa)%Z with (2 * px - qa)%Z by (unfold kx; lia).
        rewrite <- zsumR_add. rewrite <- zsumR_scale. apply zsum_ext. intros qb Hqb.
        rewrite <- zsumR_add. rewrite <- zsumR_scale. apply zsum_ext. intros qc Hqc.
        rewrite Hmx by assumption.
        specialize (Px qa qb qc). nra. }
    (* y axis *)
    rewrite (zsum_ext kx _ (fun qa => zsum ky (fun qb => zsum kz (fun qc => w qa qb qc * Vxy qc)))).
    2:{ intros qa Hqa. apply zsum_half. intros qb Hqb.
        replace (ky - 1 - qb)%Z with (2 * py - qb)%Z by (unfold ky; lia).
        rewrite <- zsumR_add. rewrite <- zsumR_scale. apply zsum_ext. intros qc Hqc.
        rewrite Hmy by assumption.
        specialize (Py qb qc). nra. }
    (* z axis *)
    rewrite (zsum_ext kx _ (fun qa => zsum ky (fun qb => zsum kz (fun qc => w qa qb qc * C)))).
    2:{ intros qa Hqa. apply zsum_ext. intros qb Hqb. apply zsum_half. intros qc Hqc.
        replace (kz - 1 - qc)%Z with (2 * pz - qc)%Z by (unfold kz; lia).
        rewrite Hmz by assumption.
        specialize (Pz qc). nra. }
    fold (zsum3 kx ky kz (fun qa qb qc => w qa qb qc * C)).
    rewrite (zsum3_ext kx ky kz _ (fun qa qb qc => C * w qa qb qc)) by (intros; apply Rmult_comm).
    rewrite zsum3R_scale. unfold C. rewrite zsum3_perm. apply Rmult_comm.
  Qed.
End Volume3D.

(* ------------------------------------------------------------------ flat sums and sums over the element box *)
Section FlatSums.
  Context {K : Type} `{Num K}.
  Hypothesis Rth : ring_theory (@nzero K _) none_ nadd nmul nsub nopp (@eq K).
  Add Ring KringS : Rth.

  Lemma nsum_zsum (l : list K) : nsum l = zsum (Z.of_nat (length l)) (fun i => zget l i).
  Proof.
    induction l as [|a l IH] using rev_ind; [reflexivity|].
    rewrite (nsum_app Rth), app_length. cbn [length].
    replace (Z.of_nat (length l + 1)) with (Z.of_nat (length l) + 1) by lia.
    rewrite (zsum_succ Rth) by lia. rewrite IH. f_equal.
    - apply zsum_ext. intros i Hi. unfold zget. rewrite app_nth1 by lia. reflexivity.
    - unfold zget. rewrite Nat2Z.id. rewrite nth_middle. cbn. ring.
  Qed.

  Lemma zsum_mul m n (g : Z -> K) : 0 <= m -> 0 <= n ->
    zsum (m * n) g = zsum m (fun i => zsum n (fun j => g (i * n + j))).
  Proof.
    intros Hm Hn. pattern m. apply natlike_ind; [| |exact Hm].
    - rewrite !zsum_nonpos by lia. reflexivity.
    - intros k Hk IH. unfold Z.succ. rewrite (zsum_succ Rth) by exact Hk. rewrite <- IH.
      replace ((k + 1) * n) with (k * n + n) by lia. apply (zsum_split Rth); nia.
  Qed.

  (* sum over the flat element vector = sum over the element box, via the element numbering *)
  Lemma nsum_elem_box (g : grid) (l : list K) : wf g -> Z.of_nat (length l) = nel g ->
    nsum l = zsum3 (nelx g) (nely g) (nz1 g) (fun a b d => zget l (elemnumber g a b d)).
  Proof.
    intros (Hx & Hy & Hz) Hl. rewrite nsum_zsum, Hl. unfold nel.
    replace (nelx g * nely g * nz1 g) with ((nz1 g * nely g) * nelx g) by lia.
    assert (Hz1 : 0 <= nz1 g) by (unfold nz1; lia).
    rewrite zsum_mul by nia. rewrite zsum_mul by lia.
    unfold zsum3, elemnumber. symmetry.
    rewrite (zsum_ext (nelx g) _ (fun a => zsum (nz1 g) (fun d => zsum (nely g) (fun b =>
               zget l ((d * nely g + b) * nelx g + a))))) by (intros; apply (zsum_swap Rth)).
    rewrite (zsum_swap Rth (nelx g)).
    apply zsum_ext. intros d _. apply (zsum_swap Rth).
  Qed.
End FlatSums.

(* ------------------------------------------------------------------ volume preservation of FilterConv *)
Definition all_sym {K} (c : padcfg K) : Prop :=
  mx0 c = BSym /\ mx1 c = BSym /\ my0 c = BSym /\ my1 c = BSym /\ mz0 c = BSym /\ mz1 c = BSym.

Lemma ext1_sym_all {K} n i : 1 <= n -> ext1 (@BSym K) BSym n i = SIdx (sym_idx n i).
Proof.
  intros Hn. unfold ext1. destruct (Z.ltb_spec i 0); [reflexivity|]. destruct (Z.leb_spec n i); [reflexivity|].
  rewrite sym_idx_in by lia. reflexivity.
Qed.

Section ConvVolume.
  Open Scope R_scope.
  Variable f : @fconv R.
  Let c := fc_pad f.
  Hypothesis Hp : pads_nonneg c.
  Hypothesis Hd : dims_ok c.
  Hypothesis Hodd : shape3 (fc_w f) = (2 * ppx c + 1, 2 * ppy c + 1, 2 * ppz c + 1)%Z.
  Hypothesis Hsym : all_sym c.
  Hypothesis Hnu : fc_uov f = [].
  Hypothesis Hmx : forall qa qb qc, (0 <= qa < 2 * ppx c + 1)%Z -> (0 <= qb < 2 * ppy c + 1)%Z -> (0 <= qc < 2 * ppz c + 1)%Z ->
                   wget (fc_w f) (2 * ppx c - qa) qb qc = wget (fc_w f) qa qb qc.
  Hypothesis Hmy : forall qa qb qc, (0 <= qa < 2 * ppx c + 1)%Z -> (0 <= qb < 2 * ppy c + 1)%Z -> (0 <= qc < 2 * ppz c + 1)%Z ->
                   wget (fc_w f) qa (2 * ppy c - qb) qc = wget (fc_w f) qa qb qc.
  Hypothesis Hmz : forall qa qb qc, (0 <= qa < 2 * ppx c + 1)%Z -> (0 <= qb < 2 * ppy c + 1)%Z -> (0 <= qc < 2 * ppz c + 1)%Z ->
                   wget (fc_w f) qa qb (2 * ppz c - qc) = wget (fc_w f) qa qb qc.

  Lemma all_sym_pad_ok : pad_ok c.
  Proof.
    destruct Hsym as (E1 & E2 & E3 & E4 & E5 & E6). unfold pad_ok, axis_ok.
    rewrite E1, E2, E3, E4, E5, E6. cbn. auto.
  Qed.

  (* total volume: sum y = (sum of the kernel) * sum x, for every pad size (also beyond the domain size) *)
  Theorem fc_volume (x : list R) :
    Z.of_nat (length x) = nel (pg c) ->
    nsum (fc_response f x) =
    zsum3 (2 * ppx c + 1) (2 * ppy c + 1) (2 * ppz c + 1) (wget (fc_w f)) * nsum x.
  Proof.
    intros Hx. pose proof all_sym_pad_ok as Hok. pose proof (dims_wf f Hd) as Hwf. fold c in Hwf.
    assert (Hly : Z.of_nat (length (fc_response f x)) = nel (pg c)) by (rewrite fc_response_length; exact Hx).
    rewrite (nsum_elem_box num_ring_R (pg c) (fc_response f x) Hwf Hly).
    rewrite (nsum_elem_box num_ring_R (pg c) x Hwf Hx).
    pose proof (sx1_nelx f Hd) as Ex. pose proof (sy1_nely f Hd) as Ey. pose proof (sz1_nz1 f) as Ez. fold c in Ex, Ey, Ez.
    destruct Hsym as (E1 & E2 & E3 & E4 & E5 & E6).
    destruct Hd as (Dx & Dy & Dz).
    rewrite <- (sym_conv_volume (nelx (pg c)) (nely (pg c)) (nz1 (pg c)) (ppx c) (ppy c) (ppz c)
                 Dx Dy ltac:(unfold nz1; lia) (wget (fc_w f)) Hmx Hmy Hmz (fun a b d => zget x (elemnumber (pg c) a b d))).
    apply zsum3_ext. intros a b d Ha Hb Hdd.
    rewrite (fc_conv_formula num_ring_R f Hp ltac:(unfold dims_ok; fold c; auto) Hok Hodd) by assumption. fold c.
    rewrite Hnu. apply zsum3_ext. intros qa qb qc Hqa Hqb Hqc.
    cbn [apply_ovs fold_left]. change (@nmul R NumR) with Rmult. f_equal.
    unfold ext3. rewrite E1, E2, E3, E4, E5, E6.
    rewrite !ext1_sym_all by (unfold sx1, sy1, sz1; lia).
    rewrite Ex, Ey, Ez. f_equal. f_equal; f_equal; lia.
  Qed.
End ConvVolume.

(* with a kernel that sums to one the total volume is preserved *)
Theorem fc_volume_preserved (f : @fconv R) (x : list R) :
  let c := fc_pad f in
  pads_nonneg c -> dims_ok c ->
  shape3 (fc_w f) = (2 * ppx c + 1, 2 * ppy c + 1, 2 * ppz c + 1) ->
  all_sym c -> fc_uov f = [] ->
  (forall qa qb qc, 0 <= qa < 2 * ppx c + 1 -> 0 <= qb < 2 * ppy c + 1 -> 0 <= qc < 2 * ppz c + 1 ->
     wget (fc_w f) (2 * ppx c - qa) qb qc = wget (fc_w f) qa qb qc /\
     wget (fc_w f) qa (2 * ppy c - qb) qc = wget (fc_w f) qa qb qc /\
     wget (fc_w f) qa qb (2 * ppz c - qc) = wget (fc_w f) qa qb qc) ->
  zsum3 (2 * ppx c + 1) (2 * ppy c + 1) (2 * ppz c + 1) (wget (fc_w f)) = 1%R ->
  Z.of_nat (length x) = nel (pg c) ->
  nsum (fc_response f x) = nsum x.
Proof.
  intros c Hp Hd Hodd Hsym Hnu Hm Hw1 Hx.
  rewrite (fc_volume f Hp Hd Hodd Hsym Hnu) by (try exact Hx; intros qa qb qc Ha Hb Hc; apply (Hm qa qb qc Ha Hb Hc)).
  fold c. rewrite Hw1. apply Rmult_1_l.
Qed.

(* ------------------------------------------------------------------ the triple list of FilterConv is well-formed *)
Lemma ext3_idx_range {K} (c : padcfg K) A B D : dims_ok c -> 0 <= ext3_idx c A B D < nel (pg c).
Proof.
  intros (Dx & Dy & Dz).
  assert (Hn : 1 <= nel (pg c)) by (unfold nel, nz1; nia).
  unfold ext3_idx.
  destruct (ext1 (mz0 c) (mz1 c) (sz1 c) D) as [d'|] eqn:Ed; [|lia].
  destruct (ext1 (my0 c) (my1 c) (sy1 c) B) as [b'|] eqn:Eb; [|lia].
  destruct (ext1 (mx0 c) (mx1 c) (sx1 c) A) as [a'|] eqn:Ea; [|lia].
  apply ext1_idx_range in Ed; [|unfold sz1; lia].
  apply ext1_idx_range in Eb; [|unfold sy1; lia].
  apply ext1_idx_range in Ea; [|unfold sx1; lia].
  apply elem_range; unfold sx1, sy1, sz1, nz1 in *; lia.
Qed.

Lemma in_positions nx ny nz a b d : In (a, b, d) (positions nx ny nz) <-> 0 <= a < nx /\ 0 <= b < ny /\ 0 <= d < nz.
Proof.
  unfold positions. rewrite in_flat_map. split.
  - intros (i & Hi & H2). apply in_flat_map in H2 as (j & Hj & H3). apply in_map_iff in H3 as (k & E & Hk).
    inversion E; subst. apply in_zrange in Hi, Hj, Hk. auto.
  - intros (Ha & Hb & Hd). exists a. split; [apply in_zrange; exact Ha|].
    apply in_flat_map. exists b. split; [apply in_zrange; exact Hb|].
    apply in_map_iff. exists d. split; [reflexivity | apply in_zrange; exact Hd].
Qed.

Section Triples.
  Context {K : Type} `{Num K}.
  Variable f : @fconv K.
  Let c := fc_pad f.
  Hypothesis Hp : pads_nonneg c.
  Hypothesis Hd : dims_ok c.
  Hypothesis Hok : pad_ok c.
  Hypothesis Hodd : shape3 (fc_w f) = (2 * ppx c + 1, 2 * ppy c + 1, 2 * ppz c + 1).

  (* every destination and every source of the triple list is an element number: the adjoint theorem of
     Base/SparseLin.v (apply_adjoint) applies to FilterConv *)
  Theorem fc_triples_bounded : tbounded (Z.to_nat (nel (pg c))) (Z.to_nat (nel (pg c))) (fc_triples f).
  Proof.
    pose proof (sx1_nelx f Hd) as Ex. pose proof (sy1_nely f Hd) as Ey. pose proof (sz1_nz1 f) as Ez. fold c in Ex, Ey, Ez.
    unfold tbounded. apply Forall_forall. intros [[ds sr] cf] Hin.
    unfold fc_triples in Hin. fold c in Hin. cbv zeta in Hin. rewrite Hodd in Hin.
    apply in_flat_map in Hin as ([[a b] d] & Hpos & Hin).
    apply in_positions in Hpos as (Ha & Hb & Hdd).
    apply in_flat_map in Hin as ([[qa qb] qc] & Hq & Hin).
    apply in_positions in Hq as (Hqa & Hqb & Hqc).
    destruct (ov_any _ _ _ _) in Hin; [destruct Hin|].
    destruct Hin as [E|[]].
    pose proof (f_equal (fun t : nat * nat * K => fst (fst t)) E) as E1.
    pose proof (f_equal (fun t : nat * nat * K => snd (fst t)) E) as E2.
    cbn [fst snd] in E1, E2. subst ds sr. clear E.
    split.
    - unfold el3d_orig. rewrite tab3_nth3 by assumption.
      pose proof (elem_range (pg c) a b d ltac:(lia) ltac:(lia) ltac:(lia)). lia.
    - rewrite (el3d_pad_nth3 c Hp Hok) by lia.
      pose proof (ext3_idx_range c (a + (2 * ppx c + 1 - 1) - qa - ppx c) (b + (2 * ppy c + 1 - 1) - qb - ppy c)
                    (d + (2 * ppz c + 1 - 1) - qc - ppz c) Hd). lia.
  Qed.
End Triples.

(* ------------------------------------------------------------------ the triple-list form of the response *)
Section Linearised.
  Context {K : Type} `{Num K}.
  Hypothesis Rth : ring_theory (@nzero K _) none_ nadd nmul nsub nopp (@eq K).
  Add Ring KringL : Rth.

  (* entry e of apply T m x: the sum of the contributions of the triples with destination e *)
  Lemma apply_vget (T : list (@triple K)) m (x : list K) e : (e < m)%nat ->
    vget (apply T m x) e =
    nsum (map (fun t : @triple K => match t with (d, s, c) => if Nat.eqb d e then nmul c (vget x s) else nzero end) T).
  Proof.
    intros He. unfold apply.
    rewrite fold_left_ext_fn with
      (G := fun y (t : @triple K) => vaddat y (fst (fst t)) (nmul (snd t) (vget x (snd (fst t)))))
      by (intros y [[d s] c]; reflexivity).
    rewrite (scatter_fold Rth) by (unfold vzero; rewrite repeat_length; exact He).
    rewrite vget_vzero.
    rewrite (map_ext _ (fun t : @triple K => match t with (d, s, c) => if Nat.eqb d e then nmul c (vget x s) else nzero end))
      by (intros [[d s] c]; reflexivity).
    ring.
  Qed.

  (* the value written by the last matching override does not depend on the base value *)
  Lemma apply_ovs_any (ovs : list (override K)) i j k base :
    apply_ovs ovs i j k base = if ov_any ovs i j k then apply_ovs ovs i j k nzero else base.
  Proof.
    unfold apply_ovs, ov_any. revert base. induction ovs as [|o ovs IH] using rev_ind; intros base; [reflexivity|].
    rewrite !fold_left_app, existsb_app. cbn [fold_left existsb].
    destruct (ov_hit o i j k) as [v|]; cbn [orb].
    - rewrite orb_true_r. reflexivity.
    - rewrite orb_false_r. apply IH.
  Qed.

  Variable f : @fconv K.
  Let c := fc_pad f.
  Hypothesis Hp : pads_nonneg c.
  Hypothesis Hd : dims_ok c.
  Hypothesis Hok : pad_ok c.
  Hypothesis Hodd : shape3 (fc_w f) = (2 * ppx c + 1, 2 * ppy c + 1, 2 * ppz c + 1).

  Let ovs := pad_overrides c ++ fc_uov f.

  Lemma elem_eqb_coords a b d i j k :
    0 <= a < nelx (pg c) -> 0 <= b < nely (pg c) -> 0 <= d < nz1 (pg c) ->
    0 <= i < nelx (pg c) -> 0 <= j < nely (pg c) -> 0 <= k < nz1 (pg c) ->
    Nat.eqb (Z.to_nat (elemnumber (pg c) i j k)) (Z.to_nat (elemnumber (pg c) a b d)) = (i =? a) && (j =? b) && (k =? d).
  Proof.
    intros Ha Hb Hdd Hi Hj Hk. pose proof (dims_wf f Hd) as Hwf. fold c in Hwf.
    pose proof (elem_range (pg c) a b d Ha Hb Hdd). pose proof (elem_range (pg c) i j k Hi Hj Hk).
    destruct (Nat.eqb_spec (Z.to_nat (elemnumber (pg c) i j k)) (Z.to_nat (elemnumber (pg c) a b d))) as [E|E].
    - assert (E' : elemnumber (pg c) i j k = elemnumber (pg c) a b d) by lia.
      assert (E'' : i = a /\ j = b /\ k = d) by (apply (elem_inj (pg c)); try assumption; lia).
      destruct E'' as (E1 & E2 & E3). subst.
      rewrite !Z.eqb_refl. reflexivity.
    - destruct (Z.eqb_spec i a); destruct (Z.eqb_spec j b); destruct (Z.eqb_spec k d); cbn [andb]; try reflexivity.
      subst. congruence.
  Qed.

  Theorem fc_response_lin_at (x : list K) a b d :
    Z.of_nat (length x) = nel (pg c) ->
    0 <= a < nelx (pg c) -> 0 <= b < nely (pg c) -> 0 <= d < nz1 (pg c) ->
    zget (fc_response_lin f x) (elemnumber (pg c) a b d) = zget (fc_response f x) (elemnumber (pg c) a b d).
  Proof.
    intros Hx Ha Hb Hdd.
    pose proof (sx1_nelx f Hd) as Ex. pose proof (sy1_nely f Hd) as Ey. pose proof (sz1_nz1 f) as Ez. fold c in Ex, Ey, Ez.
    pose proof (elem_range (pg c) a b d Ha Hb Hdd) as Hr.
    rewrite (fc_response_at Rth f Hp Hd Hok Hodd) by assumption.
    unfold fc_response_lin, zget.
    change (nth (Z.to_nat (elemnumber (pg c) a b d)) ?l nzero) with (vget l (Z.to_nat (elemnumber (pg c) a b d))).
    assert (Laff : length (fc_affine f (length x)) = length x).
    { unfold fc_affine. fold c. cbv zeta. destruct (shape3 (fc_w f)) as [[kx ky] kz].
      rewrite fold_left_length_pres; [unfold vzero; apply repeat_length|].
      intros y [[i j] k]. apply vaddat_length. }
    rewrite (vget_vadd Rth) by (rewrite apply_length, Laff; reflexivity).
    (* linear part *)
    rewrite apply_vget by lia.
    unfold fc_triples. fold c. fold ovs. cbv zeta. rewrite Hodd.
    rewrite (nsum_flat_map Rth). rewrite (nsum_positions Rth).
    rewrite (zsum3_ext (sx1 c) (sy1 c) (sz1 c) _ (fun i j k =>
               if (i =? a) && (j =? b) && (k =? d) then
                 zsum3 (2 * ppx c + 1) (2 * ppy c + 1) (2 * ppz c + 1) (fun qa qb qc =>
                   if ov_any ovs (i + (2 * ppx c + 1 - 1) - qa) (j + (2 * ppy c + 1 - 1) - qb) (k + (2 * ppz c + 1 - 1) - qc)
                   then nzero
                   else nmul (wget (fc_w f) qa qb qc)
                          (zget x (nth3 (el3d_pad c) (i + (2 * ppx c + 1 - 1) - qa) (j + (2 * ppy c + 1 - 1) - qb)
                                     (k + (2 * ppz c + 1 - 1) - qc) 0)))
               else nzero)).
    2:{ intros i j k Hi Hj Hk. rewrite (nsum_flat_map Rth). rewrite (nsum_positions Rth).
        unfold el3d_orig. rewrite tab3_nth3 by assumption.
        rewrite <- (elem_eqb_coords a b d i j k) by lia.
        destruct (Nat.eqb (Z.to_nat (elemnumber (pg c) i j k)) (Z.to_nat (elemnumber (pg c) a b d))) eqn:E.
        - apply zsum3_ext. intros qa qb qc _ _ _.
          destruct (ov_any ovs _ _ _); cbn [map nsum fold_right]; [reflexivity|].
          rewrite E. unfold zget, vget. ring.
        - rewrite (zsum3_ext _ _ _ _ (fun _ _ _ => nzero)).
          + unfold zsum3. rewrite (zsum_ext _ _ (fun _ => nzero)); [apply (zsum_zero Rth)|].
            intros. rewrite (zsum_ext _ _ (fun _ => nzero)); [apply (zsum_zero Rth)|]. intros. apply (zsum_zero Rth).
          + intros qa qb qc _ _ _. destruct (ov_any ovs _ _ _); cbn [map nsum fold_right]; [reflexivity|].
            rewrite E. ring. }
    rewrite (zsum3_single Rth) by lia.
    (* affine part *)
    unfold fc_affine. fold c. fold ovs. cbv zeta. rewrite Hodd.
    rewrite fold_left_ext_fn with
      (G := fun y (t : Z * Z * Z) => vaddat y (match t with (i, j, k) => Z.to_nat (nth3 (el3d_orig c) i j k 0) end)
              (match t with (i, j, k) =>
                 zsum3 (2 * ppx c + 1) (2 * ppy c + 1) (2 * ppz c + 1) (fun qa qb qc =>
                   if ov_any ovs (i + (2 * ppx c + 1 - 1) - qa) (j + (2 * ppy c + 1 - 1) - qb) (k + (2 * ppz c + 1 - 1) - qc)
                   then nmul (wget (fc_w f) qa qb qc)
                          (apply_ovs ovs (i + (2 * ppx c + 1 - 1) - qa) (j + (2 * ppy c + 1 - 1) - qb)
                             (k + (2 * ppz c + 1 - 1) - qc) nzero)
                   else nzero) end))
      by (intros y [[i j] k]; reflexivity).
    rewrite (scatter_fold Rth) by (unfold vzero; rewrite repeat_length; lia).
    rewrite vget_vzero. rewrite (nsum_positions Rth).
    rewrite (zsum3_ext (sx1 c) (sy1 c) (sz1 c) _ (fun i j k =>
               if (i =? a) && (j =? b) && (k =? d) then
                 zsum3 (2 * ppx c + 1) (2 * ppy c + 1) (2 * ppz c + 1) (fun qa qb qc =>
                   if ov_any ovs (i + (2 * ppx c + 1 - 1) - qa) (j + (2 * ppy c + 1 - 1) - qb) (k + (2 * ppz c + 1 - 1) - qc)
                   then nmul (wget (fc_w f) qa qb qc)
                          (apply_ovs ovs (i + (2 * ppx c + 1 - 1) - qa) (j + (2 * ppy c + 1 - 1) - qb)
                             (k + (2 * ppz c + 1 - 1) - qc) nzero)
                   else nzero)
               else nzero)).
    2:{ intros i j k Hi Hj Hk. unfold el3d_orig. rewrite tab3_nth3 by assumption.
        rewrite (elem_eqb_coords a b d i j k) by lia. reflexivity. }
    rewrite (zsum3_single Rth) by lia.
    (* put the two sums together *)
    unfold fc_y3d_at, conv_valid_at. fold c. rewrite Hodd.
    replace (nadd nzero (zsum3 (2 * ppx c + 1) (2 * ppy c + 1) (2 * ppz c + 1) (fun qa qb qc =>
               if ov_any ovs (a + (2 * ppx c + 1 - 1) - qa) (b + (2 * ppy c + 1 - 1) - qb) (d + (2 * ppz c + 1 - 1) - qc)
               then nmul (wget (fc_w f) qa qb qc)
                      (apply_ovs ovs (a + (2 * ppx c + 1 - 1) - qa) (b + (2 * ppy c + 1 - 1) - qb)
                         (d + (2 * ppz c + 1 - 1) - qc) nzero)
               else nzero)))
      with (zsum3 (2 * ppx c + 1) (2 * ppy c + 1) (2 * ppz c + 1) (fun qa qb qc =>
               if ov_any ovs (a + (2 * ppx c + 1 - 1) - qa) (b + (2 * ppy c + 1 - 1) - qb) (d + (2 * ppz c + 1 - 1) - qc)
               then nmul (wget (fc_w f) qa qb qc)
                      (apply_ovs ovs (a + (2 * ppx c + 1 - 1) - qa) (b + (2 * ppy c + 1 - 1) - qb)
                         (d + (2 * ppz c + 1 - 1) - qc) nzero)
               else nzero)) by ring.
    unfold zsum3.
    rewrite <- (zsum_add Rth). apply zsum_ext. intros qa _.
    rewrite <- (zsum_add Rth). apply zsum_ext. intros qb _.
    rewrite <- (zsum_add Rth). apply zsum_ext. intros qc _.
    unfold xpad_at. fold ovs. rewrite (apply_ovs_any ovs _ _ _ (zget x _)).
    destruct (ov_any ovs _ _ _); ring.
  Qed.
End Linearised.

(* adjointness of the triple-list model: <w, T x> = <T^T w, x>  (instance of SparseLin.apply_adjoint) *)
Theorem fc_triples_adjoint {K : Type} `{Num K} :
  ring_theory (@nzero K _) none_ nadd nmul nsub nopp (@eq K) ->
  forall f : @fconv K, let c := fc_pad f in
  pads_nonneg c -> dims_ok c -> pad_ok c ->
  shape3 (fc_w f) = (2 * ppx c + 1, 2 * ppy c + 1, 2 * ppz c + 1) ->
  forall w x : list K, length w = Z.to_nat (nel (pg c)) -> length x = Z.to_nat (nel (pg c)) ->
  dot w (apply (fc_triples f) (Z.to_nat (nel (pg c))) x) = dot (fc_sensitivity_lin f (Z.to_nat (nel (pg c))) w) x.
Proof.
  intros Rth f c Hp Hd Hok Hodd w x Hw Hx. unfold fc_sensitivity_lin.
  apply (apply_adjoint Rth); try assumption. apply fc_triples_bounded; assumption.
Qed.

(* ------------------------------------------------------------------ end to end: FilterConv(radius=...) *)
Section RadiusFilter.
  Variable g : grid.
  Variables dlx dly dlz sx sy sz : Z.
  Variable wtab : Z -> R.
  Variables bx0 bx1 by0 by1 bz0 bz1 : bmode R.
  Hypothesis Hgx : 1 <= nelx g.
  Hypothesis Hgy : 1 <= nely g.
  Hypothesis Hgz : 1 <= nelz g \/ (nelz g = 0 /\ dlz = 0).
  (* delem = min(n, int(...)) : between 0 and the number of elements of the axis *)
  Hypothesis Hdx : 0 <= dlx <= nelx g.
  Hypothesis Hdy : 0 <= dly <= nely g.
  Hypothesis Hdz : 0 <= dlz <= nelz g.
  Hypothesis Hw : forall k, (0 <= wtab k)%R.
  Hypothesis Hc : (0 < wtab 0)%R.

  Let f : @fconv R := mk_fconv g (radius_kernel dlx dly dlz sx sy sz wtab) bx0 bx1 by0 by1 bz0 bz1 [].

  Lemma half_odd d : 0 <= d -> (2 * d + 1) / 2 = d.
  Proof. intros Hd. symmetry. apply Z.div_unique with (r := 1); lia. Qed.

  Lemma radius_filter_cfg :
    fc_pad f = {| pg := g; ppx := dlx; ppy := dly; ppz := dlz;
                  mx0 := bx0; mx1 := bx1; my0 := by0; my1 := by1; mz0 := bz0; mz1 := bz1 |} /\
    fc_w f = radius_kernel dlx dly dlz sx sy sz wtab /\ fc_uov f = [].
  Proof.
    unfold f, mk_fconv.
    destruct (radius_kernel_normalised dlx dly dlz sx sy sz wtab ltac:(lia) ltac:(lia) ltac:(lia) Hw Hc) as (Hs & _ & _).
    rewrite Hs. cbn [fc_pad fc_w fc_uov map]. rewrite !half_odd by lia. auto.
  Qed.

  (* every radius kernel: all hypotheses of the convolution / bounds theorems hold, whatever the boundary modes *)
  Theorem radius_filter_ok : let c := fc_pad f in
    pads_nonneg c /\ dims_ok c /\ pad_ok c /\
    shape3 (fc_w f) = (2 * ppx c + 1, 2 * ppy c + 1, 2 * ppz c + 1) /\ fc_uov f = [] /\
    (forall qa qb qc, 0 <= qa < 2 * ppx c + 1 -> 0 <= qb < 2 * ppy c + 1 -> 0 <= qc < 2 * ppz c + 1 ->
       (0 <= wget (fc_w f) qa qb qc)%R) /\
    zsum3 (2 * ppx c + 1) (2 * ppy c + 1) (2 * ppz c + 1) (wget (fc_w f)) = 1%R.
  Proof.
    destruct radius_filter_cfg as (Ec & Ew & Eu). cbv zeta. rewrite Ec, Ew, Eu. cbn [ppx ppy ppz].
    destruct (radius_kernel_normalised dlx dly dlz sx sy sz wtab ltac:(lia) ltac:(lia) ltac:(lia) Hw Hc) as (Hs & Hn & H1).
    split; [unfold pads_nonneg; cbn; lia|].
    split; [unfold dims_ok; cbn; lia|].
    split; [unfold pad_ok, axis_ok, sx1, sy1, sz1; cbn; repeat split; left; lia|].
    auto.
  Qed.

  Theorem radius_filter_bounds (x : list R) lo hi a b d :
    is_const bx0 = false -> is_const bx1 = false -> is_const by0 = false -> is_const by1 = false ->
    is_const bz0 = false -> is_const bz1 = false ->
    Z.of_nat (length x) = nel g ->
    (forall e, 0 <= e < nel g -> (lo <= zget x e <= hi)%R) ->
    0 <= a < nelx g -> 0 <= b < nely g -> 0 <= d < nz1 g ->
    (lo <= zget (fc_response f x) (elemnumber g a b d) <= hi)%R.
  Proof.
    intros C1 C2 C3 C4 C5 C6 Hx Hb Ha Hb' Hd.
    destruct radius_filter_ok as (P1 & P2 & P3 & P4 & P5 & P6 & P7).
    assert (Eg : pg (fc_pad f) = g) by (destruct radius_filter_cfg as (Ec & _ & _); rewrite Ec; reflexivity).
    assert (Hnc : no_const (fc_pad f)).
    { destruct radius_filter_cfg as (Ec & _ & _). rewrite Ec. unfold no_const. cbn. auto 10. }
    pose proof (fc_bounds f P1 P2 P3 P4 Hnc P5 P6 P7 x lo hi a b d) as B.
    rewrite Eg in B. apply B; assumption.
  Qed.
End RadiusFilter.

(* FilterConv(radius=...) with the default (all symmetric) boundaries preserves the volume *)
Theorem radius_filter_volume (g : grid) (dlx dly dlz sx sy sz : Z) (wtab : Z -> R) (x : list R) :
  1 <= nelx g -> 1 <= nely g -> (1 <= nelz g \/ (nelz g = 0 /\ dlz = 0)) ->
  0 <= dlx <= nelx g -> 0 <= dly <= nely g -> 0 <= dlz <= nelz g ->
  (forall k, (0 <= wtab k)%R) -> (0 < wtab 0%Z)%R ->
  Z.of_nat (length x) = nel g ->
  nsum (fc_response (mk_fconv g (radius_kernel dlx dly dlz sx sy sz wtab) BSym BSym BSym BSym BSym BSym []) x) = nsum x.
Proof.
  intros Hgx Hgy Hgz Hdx Hdy Hdz Hw Hc Hx.
  destruct (radius_filter_ok g dlx dly dlz sx sy sz wtab BSym BSym BSym BSym BSym BSym Hgx Hgy Hgz Hdx Hdy Hdz Hw Hc)
    as (P1 & P2 & P3 & P4 & P5 & P6 & P7).
  destruct (radius_filter_cfg g dlx dly dlz sx sy sz wtab BSym BSym BSym BSym BSym BSym Hdx Hdy Hdz Hw Hc) as (Ec & Ew & Eu).
  apply fc_volume_preserved; try assumption.
  - rewrite Ec. unfold all_sym. cbn. auto 10.
  - rewrite Ec, Ew. cbn [ppx ppy ppz]. intros qa qb qc Ha Hb Hcc.
    apply radius_kernel_mirror; assumption.
Qed.

(* ------------------------------------------------------------------ the constructor establishes the shape hypotheses *)
(* "assert weights.shape[i] % 2 == 1" + "pad_sizes = [v // 2 for v in shape]":  shape = 2 * pad + 1, pad >= 0 *)
Lemma mk_fconv_odd {K} `{Num K} (g : grid) (w : arr3 K) (bx0 bx1 by0 by1 bz0 bz1 : bmode K) upts kx ky kz :
  shape3 w = (kx, ky, kz) -> kx mod 2 = 1 -> ky mod 2 = 1 -> kz mod 2 = 1 ->
  let f := mk_fconv g w bx0 bx1 by0 by1 bz0 bz1 upts in
  let c := fc_pad f in
  pads_nonneg c /\ shape3 (fc_w f) = (2 * ppx c + 1, 2 * ppy c + 1, 2 * ppz c + 1) /\
  pg c = g /\ fc_w f = w /\
  (mx0 c, mx1 c, my0 c, my1 c, mz0 c, mz1 c) = (bx0, bx1, by0, by1, bz0, bz1).
Proof.
  intros Hs Hx Hy Hz. unfold mk_fconv. rewrite Hs. cbn [fc_pad fc_w ppx ppy ppz pg mx0 mx1 my0 my1 mz0 mz1].
  assert (Lx : 0 <= kx) by (unfold shape3 in Hs; injection Hs as <- _ _; lia).
  assert (Ly : 0 <= ky) by (unfold shape3 in Hs; injection Hs as _ <- _; lia).
  assert (Lz : 0 <= kz) by (unfold shape3 in Hs; injection Hs as _ _ <-; lia).
  pose proof (Z.div_mod kx 2 ltac:(lia)). pose proof (Z.div_mod ky 2 ltac:(lia)). pose proof (Z.div_mod kz 2 ltac:(lia)).
  assert (0 <= kx / 2) by (apply Z.div_pos; lia).
  assert (0 <= ky / 2) by (apply Z.div_pos; lia).
  assert (0 <= kz / 2) by (apply Z.div_pos; lia).
  split; [unfold pads_nonneg; cbn; lia|].
  split; [rewrite Hs; f_equal; [f_equal|]; lia|].
  auto.
Qed.

(* ------------------------------------------------------------------ set_filter_radius never pads beyond the domain *)
Lemma radius_delem_le (r dx : Q) (n : Z) : radius_delem r dx n <= n.
Proof. unfold radius_delem. apply Z.le_min_l. Qed.

(* ------------------------------------------------------------------ concrete instances (non-vacuity) *)
Definition ex_w : arr3 Q := [[[1#8]; [1#8]; [0]]; [[1#8]; [1#4]; [1#8]]; [[0]; [1#8]; [1#8]]]%Q.
Definition ex_f : @fconv Q :=
  mk_fconv {| nelx := 3; nely := 2; nelz := 0 |} ex_w BSym BEdge BWrap (BConst 5%Q) BSym BSym [].

Lemma ex_config_ok :
  pads_nonneg (fc_pad ex_f) /\ dims_ok (fc_pad ex_f) /\ pad_ok (fc_pad ex_f) /\
  shape3 (fc_w ex_f) = (2 * ppx (fc_pad ex_f) + 1, 2 * ppy (fc_pad ex_f) + 1, 2 * ppz (fc_pad ex_f) + 1) /\
  el3d_pad (fc_pad ex_f) = [[[3]; [0]; [3]; [0]]; [[3]; [0]; [3]; [0]]; [[4]; [1]; [4]; [0]]; [[5]; [2]; [5]; [0]];
                            [[5]; [2]; [5]; [0]]] /\
  fc_response ex_f [1; 2; 3; 4; 5; 6]%Q = [(11#4); (7#2); (17#4); (29#8); (33#8); (19#4)]%Q.
Proof.
  split; [|split; [|split; [|split; [|split]]]].
  - unfold pads_nonneg. cbn. lia.
  - unfold dims_ok. cbn. lia.
  - unfold pad_ok, axis_ok. cbn. lia.
  - reflexivity.
  - vm_compute. reflexivity.
  - vm_compute. reflexivity.
Qed.

Definition ex_wR : arr3 R :=
  [[[1/16]; [1/8]; [1/16]]; [[1/8]; [1/4]; [1/8]]; [[1/16]; [1/8]; [1/16]]]%R.
Definition ex_fR : @fconv R :=
  mk_fconv {| nelx := 4; nely := 3; nelz := 0 |} ex_wR BSym BSym BSym BSym BSym BSym [].

Lemma ex_kernel_ok : exists f : @fconv R, let c := fc_pad f in
  pads_nonneg c /\ dims_ok c /\ pad_ok c /\ no_const c /\ all_sym c /\ fc_uov f = [] /\ ppx c = 1 /\ ppy c = 1 /\
  shape3 (fc_w f) = (2 * ppx c + 1, 2 * ppy c + 1, 2 * ppz c + 1) /\
  (forall qa qb qc, 0 <= qa < 2 * ppx c + 1 -> 0 <= qb < 2 * ppy c + 1 -> 0 <= qc < 2 * ppz c + 1 ->
     (0 <= wget (fc_w f) qa qb qc)%R /\
     wget (fc_w f) (2 * ppx c - qa) qb qc = wget (fc_w f) qa qb qc /\
     wget (fc_w f) qa (2 * ppy c - qb) qc = wget (fc_w f) qa qb qc /\
     wget (fc_w f) qa qb (2 * ppz c - qc) = wget (fc_w f) qa qb qc) /\
  zsum3 (2 * ppx c + 1) (2 * ppy c + 1) (2 * ppz c + 1) (wget (fc_w f)) = 1%R.
Proof.
  exists ex_fR. cbv zeta.
  assert (Epx : ppx (fc_pad ex_fR) = 1) by reflexivity.
  assert (Epy : ppy (fc_pad ex_fR) = 1) by reflexivity.
  assert (Epz : ppz (fc_pad ex_fR) = 0) by reflexivity.
  rewrite Epx, Epy, Epz.
  split; [unfold pads_nonneg; rewrite Epx, Epy, Epz; lia|].
  split; [unfold dims_ok; cbn; lia|].
  split; [unfold pad_ok, axis_ok; cbn; auto|].
  split; [unfold no_const; cbn; auto 10|].
  split; [unfold all_sym; cbn; auto 10|].
  split; [reflexivity|]. split; [reflexivity|]. split; [reflexivity|]. split; [reflexivity|].
  split.
  - intros qa qb qc Ha Hb Hc.
    assert (Hq : (qa = 0 \/ qa = 1 \/ qa = 2) /\ (qb = 0 \/ qb = 1 \/ qb = 2) /\ qc = 0) by lia.
    destruct Hq as ([?|[?|?]] & [?|[?|?]] & ?); subst; (split; [unfold wget, nth3, ex_fR, ex_wR; simpl; lra | repeat split; reflexivity]).
  - unfold zsum3, zsum, wget, nth3, ex_fR, ex_wR. simpl. lra.
Qed.
