(* Lemmas about Model/Fs.v: reading after open-for-writing / open-for-appending / remove. *)
From Coq Require Import ZArith List Bool Lia.
From Pymoto Require Import Base.Cmp Base.Bytes Model.Fs.
Import ListNotations.
Open Scope Z_scope.

Lemma Zl_eqb_iff a b : Zl_eqb a b = true <-> a = b.
Proof. apply list_eqb_spec. intros x y. apply Z.eqb_eq. Qed.

Lemma Zl_eqb_same a : Zl_eqb a a = true.
Proof. now apply Zl_eqb_iff. Qed.

Lemma Zl_eqb_neq a b : a <> b -> Zl_eqb a b = false.
Proof. intros H. destruct (Zl_eqb a b) eqn:E; [|reflexivity]. apply Zl_eqb_iff in E. contradiction. Qed.

Lemma fs_read_set_same : forall fs name bytes, fs_read (dict_set fs name bytes) name = Some bytes.
Proof.
  induction fs as [|[n b] t IH]; intros name bytes; cbn.
  - now rewrite Zl_eqb_same.
  - destruct (Zl_eqb n name) eqn:E; cbn; rewrite E; [reflexivity|apply IH].
Qed.

Lemma fs_read_set_other : forall fs name bytes other, other <> name ->
  fs_read (dict_set fs name bytes) other = fs_read fs other.
Proof.
  induction fs as [|[n b] t IH]; intros name bytes other Hne; cbn.
  - rewrite Zl_eqb_neq by congruence. reflexivity.
  - destruct (Zl_eqb n name) eqn:E; cbn.
    + apply Zl_eqb_iff in E. subst n. rewrite Zl_eqb_neq by congruence. reflexivity.
    + destruct (Zl_eqb n other); [reflexivity|now apply IH].
Qed.

(* open(name, "w"): whatever the file held before, afterwards it holds exactly what was written *)
Theorem fs_open_w_read fs name bytes : fs_read (fs_open_w fs name bytes) name = Some bytes.
Proof. apply fs_read_set_same. Qed.

Theorem fs_open_w_other fs name bytes other : other <> name ->
  fs_read (fs_open_w fs name bytes) other = fs_read fs other.
Proof. apply fs_read_set_other. Qed.

(* open(name, "a+"): the writes follow the previous content; a missing file is created *)
Theorem fs_open_a_read fs name bytes :
  fs_read (fs_open_a fs name bytes) name
  = Some (match fs_read fs name with Some old => old ++ bytes | None => bytes end).
Proof. apply fs_read_set_same. Qed.

Theorem fs_open_a_other fs name bytes other : other <> name ->
  fs_read (fs_open_a fs name bytes) other = fs_read fs other.
Proof. apply fs_read_set_other. Qed.

Lemma fs_remove_read : forall fs name, fs_read (fs_remove fs name) name = None.
Proof.
  induction fs as [|[n b] t IH]; intros name; cbn; [reflexivity|].
  destruct (Zl_eqb n name) eqn:E; cbn; [apply IH|]. rewrite E. apply IH.
Qed.

Lemma fs_remove_other : forall fs name other, other <> name ->
  fs_read (fs_remove fs name) other = fs_read fs other.
Proof.
  induction fs as [|[n b] t IH]; intros name other Hne; cbn; [reflexivity|].
  destruct (Zl_eqb n name) eqn:E; cbn.
  - apply Zl_eqb_iff in E. subst n. rewrite Zl_eqb_neq by congruence. now apply IH.
  - destruct (Zl_eqb n other); [reflexivity|now apply IH].
Qed.
