(* Meaning of the convergence test of CG.solve (Model/CGExit.v), for blocks of any width. *)
From Coq Require Import QArith List Bool Lia Lqa.
From Pymoto Require Import Model.CGExit.
Import ListNotations.
Open Scope Q_scope.

Lemma column_pass tol r b :
  0 <= b -> Qle_bool (r / (if Qeq_bool b 0 then 1 else b)) tol = true -> column_bound tol r b.
Proof.
  intros Hb H. apply Qle_bool_iff in H. unfold column_bound.
  destruct (Qeq_bool b 0) eqn:E.
  - unfold Qdiv in H. setoid_replace (/ 1) with 1 in H by reflexivity. rewrite Qmult_1_r in H. exact H.
  - assert (Hpos : 0 < b).
    { apply Qeq_bool_neq in E. apply Qle_lteq in Hb. destruct Hb as [Hb|Hb]; [exact Hb|]. exfalso. apply E. symmetry. exact Hb. }
    apply (Qmult_le_r _ _ b Hpos) in H.
    unfold Qdiv in H. rewrite <- Qmult_assoc in H. rewrite (Qmult_comm (/ b)) in H.
    rewrite Qmult_inv_r in H by (intro Z; rewrite Z in Hpos; discriminate Hpos).
    rewrite Qmult_1_r in H. exact H.
Qed.

(* the test passes => every column satisfies its bound (relative; absolute for zero columns of b) *)
Theorem exit_test_sound tol : forall nr nb,
  all_nonneg nb -> exit_test tol nr nb = true -> columns_bound tol nr nb.
Proof.
  induction nr as [|r nr IH]; intros nb Hnb H; [exact I|].
  destruct nb as [|b nb]; [exact I|].
  inversion Hnb as [|? ? Hb Hnb']; subst.
  unfold exit_test in H. cbn in H. apply andb_true_iff in H. destruct H as [H1 H2].
  split.
  - apply column_pass; assumption.
  - apply IH; assumption.
Qed.

(* a zero residual passes for every right-hand side, for any non-negative tolerance *)
Theorem exit_test_zero_residual tol : qnonneg tol -> forall nb k, exit_test tol (zeros k) nb = true.
Proof.
  unfold qnonneg, zeros. intros Ht nb k. revert nb. induction k as [|k IH]; intros nb; [reflexivity|].
  destruct nb as [|b nb]; [reflexivity|].
  unfold exit_test. cbn. apply andb_true_iff. split.
  - apply Qle_bool_iff. unfold Qdiv. rewrite Qmult_0_l. exact Ht.
  - apply IH.
Qed.
