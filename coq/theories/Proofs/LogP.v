(* Lemmas about Model/Log.v: one header line, one row per call, row k starts with k, equal column counts,
   columns are the formatted logged values, rows split back into their columns. *)
From Coq Require Import ZArith List Lia Bool.
From Pymoto Require Import Base.Bytes Model.Grid Model.Log Proofs.BytesP Proofs.FsP.
Import ListNotations.
Open Scope Z_scope.

Section LogP.
  Variable V : Type.
  Variable fmt : V -> str.
  Notation lval := (lval V).
  Notation sig_cols := (sig_cols V fmt).
  Notation all_cols := (all_cols V fmt).
  Notation log_step := (log_step V fmt).
  Notation log_run := (log_run V fmt).

  (* the values one signal contributes, in the order they are visited *)
  Definition sig_vals (v : lval) : list V :=
    match v with
    | LNum x => [x]
    | LArr shape data forder =>
      flat_map (fun idx => match nth_error data (Z.to_nat (offset shape idx)) with Some x => [x] | None => [] end)
               (iter_indices shape forder)
    end.
  Definition call_vals (c : list (str * lval)) : list V := flat_map (fun tv => sig_vals (snd tv)) c.

  (* a value ScalarToFile can format: scalars, and arrays that have entries (np.nditer refuses empty arrays) *)
  Definition loggable (v : lval) : Prop :=
    match v with LNum _ => True | LArr shape _ _ => lsize shape <> 0 end.

  Lemma sig_cols_ok tag v : loggable v -> exists cols, sig_cols tag v = Ok cols.
  Proof.
    destruct v as [x|shape data fo]; cbn; intros H; [eauto|].
    destruct (Z.eqb_spec (lsize shape) 0); [contradiction|eauto].
  Qed.

  Lemma all_cols_ok c : Forall (fun tv => loggable (snd tv)) c -> exists cols, all_cols c = Ok cols.
  Proof.
    induction 1 as [|[tag v] t Hv _ (b & IH)]; cbn; [eauto|].
    destruct (sig_cols_ok tag v Hv) as (a & ->). rewrite IH. eauto.
  Qed.

  (* the texts of the columns are the formatted values, in order *)
  Lemma opt_cols_snd {I} (g : I -> option V) (name : I -> str) : forall l,
    map snd (flat_map (fun i => match g i with Some x => [(name i, fmt x)] | None => [] end) l)
    = map fmt (flat_map (fun i => match g i with Some x => [x] | None => [] end) l).
  Proof.
    induction l as [|i l IH]; [reflexivity|]. cbn [flat_map]. rewrite !map_app, IH. now destruct (g i).
  Qed.

  Lemma sig_cols_vals tag v cols : sig_cols tag v = Ok cols -> map snd cols = map fmt (sig_vals v).
  Proof.
    destruct v as [x|shape data fo]; unfold Log.sig_cols, sig_vals.
    - intros E. inversion E. reflexivity.
    - destruct (lsize shape =? 0); [discriminate|]. intros E. inversion E; subst. clear E.
      apply (opt_cols_snd (fun idx => nth_error data (Z.to_nat (offset shape idx)))).
  Qed.

  Lemma all_cols_vals c cols : all_cols c = Ok cols -> map snd cols = map fmt (call_vals c).
  Proof.
    revert cols. induction c as [|[tag v] t IH]; intros cols E; cbn in E.
    - inversion E. reflexivity.
    - destruct (sig_cols tag v) as [a|] eqn:Ea; [|discriminate].
      destruct (all_cols t) as [b|] eqn:Eb; [|discriminate]. inversion E; subst.
      unfold call_vals. cbn [flat_map snd]. rewrite !map_app. f_equal.
      + now apply sig_cols_vals in Ea.
      + now apply IH.
  Qed.

  (* the column names depend on tags, shapes, memory order and entry counts only *)
  Definition same_shape (v w : lval) : Prop :=
    match v, w with
    | LNum _, LNum _ => True
    | LArr s d f, LArr s' d' f' => s = s' /\ f = f' /\ length d = length d'
    | _, _ => False
    end.

  Lemma opt_cols_fst {I} (g g' : I -> option V) (name : I -> str) : forall l,
    (forall i, g i = None <-> g' i = None) ->
    map fst (flat_map (fun i => match g i with Some x => [(name i, fmt x)] | None => [] end) l)
    = map fst (flat_map (fun i => match g' i with Some x => [(name i, fmt x)] | None => [] end) l).
  Proof.
    intros l H. induction l as [|i l IH]; [reflexivity|]. cbn [flat_map]. rewrite !map_app, IH. f_equal.
    specialize (H i). destruct (g i), (g' i); try reflexivity.
    - destruct H as [_ H]. discriminate (H eq_refl).
    - destruct H as [H _]. discriminate (H eq_refl).
  Qed.

  Lemma sig_cols_names tag v w a b :
    same_shape v w -> sig_cols tag v = Ok a -> sig_cols tag w = Ok b -> map fst a = map fst b.
  Proof.
    destruct v as [x|s d f], w as [y|s' d' f']; unfold same_shape, Log.sig_cols; try tauto.
    - intros _ E1 E2. inversion E1; inversion E2. reflexivity.
    - intros (<- & <- & Hl). destruct (lsize s =? 0); [discriminate|].
      intros E1 E2. inversion E1; inversion E2; subst. clear E1 E2.
      apply (opt_cols_fst (fun idx => nth_error d (Z.to_nat (offset s idx)))
                          (fun idx => nth_error d' (Z.to_nat (offset s idx)))).
      intros i. rewrite !nth_error_None, Hl. tauto.
  Qed.

  Definition same_call (c c' : list (str * lval)) : Prop :=
    Forall2 (fun tv tw => fst tv = fst tw /\ same_shape (snd tv) (snd tw)) c c'.

  Lemma all_cols_names c c' a b :
    same_call c c' -> all_cols c = Ok a -> all_cols c' = Ok b -> map fst a = map fst b.
  Proof.
    intros H. revert a b. induction H as [|[t v] [t' w] l l' (Et & Hs) _ IH]; intros a b E1 E2; cbn in *.
    - inversion E1; inversion E2. reflexivity.
    - subst t'. destruct (sig_cols t v) as [a1|] eqn:Ea; [|discriminate].
      destruct (all_cols l) as [a2|] eqn:Ea2; [|discriminate].
      destruct (sig_cols t w) as [b1|] eqn:Eb; [|discriminate].
      destruct (all_cols l') as [b2|] eqn:Eb2; [|discriminate].
      inversion E1; inversion E2; subst. rewrite !map_app. f_equal.
      + eapply sig_cols_names; eauto.
      + now apply IH.
  Qed.

  (* ---- the state machine ---- *)
  Definition header_of (sep : str) (cols : list (str * str)) : str := join sep (s2z "Iteration" :: map fst cols).
  Definition row_of (sep : str) (k : Z) (cols : list (str * str)) : str := join sep (dec k :: map snd cols).
  Fixpoint rows_from (sep : str) (k : Z) (colss : list (list (str * str))) : list str :=
    match colss with [] => [] | c :: t => row_of sep k c :: rows_from sep (k + 1) t end.

  Lemma run_from_pos sep : forall calls colss k lines,
    1 <= k -> Forall2 (fun c cols => all_cols c = Ok cols) calls colss ->
    log_run sep (mkL k lines) calls = Ok (mkL (k + Z.of_nat (length calls)) (lines ++ rows_from sep k colss)).
  Proof.
    induction calls as [|c rest IH]; intros colss k lines Hk H; inversion H as [|? cols ? restc Hc Hr]; subst.
    - cbn. now rewrite Z.add_0_r, app_nil_r.
    - cbn [log_run]. unfold log_step. rewrite Hc. cbn [l_iter l_lines].
      destruct (Z.eqb_spec k 0); [lia|].
      rewrite (IH restc) by (try lia; assumption). cbn [rows_from length].
      rewrite <- app_assoc. cbn [app]. f_equal. f_equal. lia.
  Qed.

  (* a history of n >= 1 calls produces: the header (from the first call), then rows 0 .. n-1 *)
  Theorem run_init sep c0 rest cols0 restc :
    all_cols c0 = Ok cols0 -> Forall2 (fun c cols => all_cols c = Ok cols) rest restc ->
    log_run sep l_init (c0 :: rest) =
    Ok (mkL (Z.of_nat (length (c0 :: rest))) (header_of sep cols0 :: rows_from sep 0 (cols0 :: restc))).
  Proof.
    intros H0 Hr. cbn [log_run]. unfold log_step, l_init. rewrite H0. cbn [l_iter l_lines Z.eqb].
    rewrite (run_from_pos sep rest restc) by (try lia; assumption).
    cbn [rows_from app length]. f_equal. f_equal. lia.
  Qed.

  Lemma rows_from_length sep : forall colss k, length (rows_from sep k colss) = length colss.
  Proof. induction colss as [|c t IH]; intros k; cbn; [reflexivity|now rewrite IH]. Qed.

  Lemma rows_from_nth sep : forall colss k j d,
    (j < length colss)%nat -> nth j (rows_from sep k colss) d = row_of sep (k + Z.of_nat j) (nth j colss []).
  Proof.
    induction colss as [|c t IH]; intros k j d Hj; [cbn in Hj; lia|].
    destruct j as [|j]; cbn [rows_from nth].
    - now rewrite Z.add_0_r.
    - rewrite IH by (cbn in Hj; lia). f_equal. lia.
  Qed.

  (* ---- reading a row back (single separator character that occurs in no column text) ---- *)
  Theorem row_splits c k cols :
    0 <= k -> ~ is_digit c -> Forall (fun col => Forall (fun x => x <> c) (snd col)) cols ->
    split_on c (row_of [c] k cols) = dec k :: map snd cols.
  Proof.
    intros Hk Hc Hfree. unfold row_of. apply split_join; [discriminate|]. constructor.
    - eapply Forall_impl; [|apply dec_digits; exact Hk]. intros x Hx E. subst. contradiction.
    - apply Forall_forall. intros s Hs. apply in_map_iff in Hs as (col & <- & Hin).
      rewrite Forall_forall in Hfree. now apply Hfree.
  Qed.

  (* ---- the shape theorem, stated on the inputs ---- *)
  Lemma same_shape_refl v : same_shape v v.
  Proof. destruct v; cbn; auto. Qed.
  Lemma same_call_refl c : same_call c c.
  Proof. induction c as [|tv t IH]; constructor; auto using same_shape_refl. Qed.

  Lemma Forall2_nth' {A B} (R : A -> B -> Prop) : forall l l' k d d',
    Forall2 R l l' -> (k < length l)%nat -> R (nth k l d) (nth k l' d').
  Proof.
    intros l l' k d d' H. revert k. induction H as [|x y l l' Hxy _ IH]; intros k Hk; [cbn in Hk; lia|].
    destruct k as [|k]; [exact Hxy|]. cbn. apply IH. cbn in Hk. lia.
  Qed.

  Lemma Forall2_length' {A B} (R : A -> B -> Prop) l l' : Forall2 R l l' -> length l = length l'.
  Proof. induction 1; cbn; congruence. Qed.

  Lemma all_cols_exist calls :
    Forall (Forall (fun tv => loggable (snd tv))) calls ->
    exists colss, Forall2 (fun c cols => all_cols c = Ok cols) calls colss.
  Proof.
    induction 1 as [|c t Hc _ (colss & IH)]; [exists []; constructor|].
    destruct (all_cols_ok c Hc) as (cols & E). exists (cols :: colss). now constructor.
  Qed.

  Theorem log_shape sep c0 rest :
    Forall (fun tv => loggable (snd tv)) c0 ->
    Forall (fun c => same_call c0 c /\ Forall (fun tv => loggable (snd tv)) c) rest ->
    exists st names,
      log_run sep l_init (c0 :: rest) = Ok st /\
      l_iter st = Z.of_nat (length (c0 :: rest)) /\
      length (l_lines st) = S (length (c0 :: rest)) /\
      nth 0 (l_lines st) [] = join sep (s2z "Iteration" :: names) /\
      forall k, (k < length (c0 :: rest))%nat ->
        nth (S k) (l_lines st) [] = join sep (dec (Z.of_nat k) :: map fmt (call_vals (nth k (c0 :: rest) []))) /\
        length (call_vals (nth k (c0 :: rest) [])) = length names.
  Proof.
    intros H0 Hrest.
    assert (Hall : Forall (Forall (fun tv => loggable (snd tv))) (c0 :: rest)).
    { constructor; [exact H0|]. eapply Forall_impl; [|exact Hrest]. intros c (_ & Hc). exact Hc. }
    destruct (all_cols_exist _ Hall) as (colss & HF). inversion HF as [|? cols0 ? restc Hc0 Hr]; subst.
    eexists. exists (map fst cols0). split; [apply (run_init sep c0 rest cols0 restc Hc0 Hr)|].
    cbn [l_iter l_lines]. split; [reflexivity|]. split.
    { cbn [length]. rewrite rows_from_length. cbn [length]. now rewrite (Forall2_length' _ _ _ Hr). }
    split; [reflexivity|].
    intros k Hk. cbn [nth].
    assert (Hkc : (k < length (cols0 :: restc))%nat) by (rewrite <- (Forall2_length' _ _ _ HF); exact Hk).
    rewrite rows_from_nth by exact Hkc. rewrite Z.add_0_l. unfold row_of.
    pose proof (Forall2_nth' _ _ _ k [] [] HF Hk) as Ek. cbv beta in Ek.
    rewrite (all_cols_vals _ _ Ek). split; [reflexivity|].
    assert (Hsame : same_call c0 (nth k (c0 :: rest) [])).
    { destruct k as [|k]; [apply same_call_refl|]. cbn [nth]. rewrite Forall_forall in Hrest.
      apply Hrest, nth_In. cbn in Hk. lia. }
    pose proof (all_cols_names _ _ _ _ Hsame Hc0 Ek) as En.
    apply (f_equal (@length str)) in En. rewrite !map_length in En.
    rewrite map_length, En.
    rewrite <- (map_length snd (nth k (cols0 :: restc) [])), (all_cols_vals _ _ Ek), map_length. reflexivity.
  Qed.

  (* a row reads back: first column is the iteration number, the others are the texts *)
  Theorem row_parses c k texts :
    0 <= k -> ~ is_digit c -> Forall (Forall (fun x => x <> c)) texts ->
    split_on c (join [c] (dec k :: texts)) = dec k :: texts /\ parse_dec (dec k) = Some k.
  Proof.
    intros Hk Hc Hfree. split; [|now apply parse_dec_dec].
    apply split_join; [discriminate|]. constructor; [|exact Hfree].
    eapply Forall_impl; [|apply dec_digits; exact Hk]. intros x Hx E. subst. contradiction.
  Qed.

  (* repaired defect F23: an array with exactly one entry is logged as one column named tag[0] *)
  Theorem single_entry_logged tag x fo : sig_cols tag (LArr [1] [x] fo) = Ok [(tag ++ s2z "[0]", fmt x)].
  Proof. destruct fo; reflexivity. Qed.

  (* ---- the file system: ANY previous content of the target file is gone after the first response ---- *)
  Notation log_response := (log_response V fmt).
  Notation log_fs_run := (log_fs_run V fmt).
  Notation log_event := (log_event V fmt).

  Lemma unlines_snoc ls l : unlines (ls ++ [l]) = unlines ls ++ l ++ [10].
  Proof. unfold unlines. rewrite flat_map_app. cbn. now rewrite app_nil_r. Qed.

  (* one response on the file system refines one step of the line-list model: if (from the second call on) the file
     holds the lines of the state, it does so afterwards; at the first call NOTHING is assumed about the file *)
  Lemma log_response_refines fs m sigs st st' :
    0 <= m_iter m -> l_iter st = m_iter m ->
    (m_iter m <> 0 -> fs_read fs (m_saveto m) = Some (log_file st)) ->
    log_step (m_sep m) st sigs = Ok st' ->
    exists fs' m', log_response fs m sigs = Ok (fs', m') /\
      m_saveto m' = m_saveto m /\ m_sep m' = m_sep m /\ m_iter m' = l_iter st' /\ 1 <= m_iter m' /\
      fs_read fs' (m_saveto m) = Some (log_file st') /\
      forall other, other <> m_saveto m -> fs_read fs' other = fs_read fs other.
  Proof.
    intros Hpos Hit Hfile Hstep. unfold Log.log_step in Hstep. unfold Log.log_response.
    destruct (all_cols sigs) as [cols|e]; [|discriminate]. injection Hstep as Hst. subst st'.
    eexists. eexists. split; [reflexivity|]. cbn [Log.m_saveto Log.m_sep Log.m_iter l_iter l_lines].
    rewrite Hit. repeat split; try lia.
    - unfold log_file. cbn [l_lines]. rewrite fs_open_a_read.
      destruct (Z.eqb_spec (m_iter m) 0) as [E0|E0].
      + rewrite fs_open_w_read. cbn [unlines flat_map]. rewrite app_nil_r. reflexivity.
      + rewrite (Hfile E0). unfold log_file. now rewrite unlines_snoc.
    - intros other Hne. rewrite fs_open_a_other by exact Hne.
      destruct (m_iter m =? 0); [now apply fs_open_w_other|reflexivity].
  Qed.

  Lemma log_fs_run_refines : forall calls fs m st st',
    0 <= m_iter m -> l_iter st = m_iter m ->
    (m_iter m <> 0 -> fs_read fs (m_saveto m) = Some (log_file st)) ->
    log_run (m_sep m) st calls = Ok st' ->
    exists fs' m', log_fs_run fs m calls = Ok (fs', m') /\
      m_saveto m' = m_saveto m /\ m_sep m' = m_sep m /\ m_iter m' = l_iter st' /\
      (m_iter m' <> 0 -> fs_read fs' (m_saveto m) = Some (log_file st')) /\
      forall other, other <> m_saveto m -> fs_read fs' other = fs_read fs other.
  Proof.
    induction calls as [|c rest IH]; intros fs m st st' Hpos Hit Hfile Hrun; cbn [Log.log_run Log.log_fs_run] in *.
    - inversion Hrun; subst st'. exists fs, m. repeat split; auto.
    - destruct (log_step (m_sep m) st c) as [st1|e] eqn:Hs; [|discriminate].
      destruct (log_response_refines fs m c st st1 Hpos Hit Hfile Hs)
        as (fs1 & m1 & -> & Hsv & Hsp & Hi1 & Hp1 & Hf1 & Ho1).
      rewrite <- Hsp in Hrun. rewrite <- Hsv in Hf1.
      destruct (IH fs1 m1 st1 st') as (fs' & m' & Hr & Hsv' & Hsp' & Hi' & Hf' & Ho');
        [lia|now symmetry|intros _; exact Hf1|exact Hrun|].
      exists fs', m'. rewrite Hr. repeat split; try congruence.
      + intros Hne. rewrite <- Hsv. now apply Hf'.
      + intros other Hne. rewrite Ho' by congruence. now apply Ho1.
  Qed.

  (* the number of steps taken *)
  Lemma log_run_iter sep : forall calls st st', log_run sep st calls = Ok st' ->
    l_iter st' = l_iter st + Z.of_nat (length calls).
  Proof.
    induction calls as [|c rest IH]; intros st st' H; cbn [Log.log_run] in H.
    - inversion H. cbn. lia.
    - destruct (log_step sep st c) as [st1|] eqn:Hs; [|discriminate]. rewrite (IH _ _ H).
      unfold Log.log_step in Hs. destruct (all_cols c); [|discriminate]. inversion Hs. cbn [l_iter length]. lia.
  Qed.

  (* a new module instance (iteration 0), n >= 1 calls, ANY file system before: the file holds exactly the lines of
     the line-list model (header + n rows); every other file is untouched *)
  Theorem log_any_fs fs saveto sep c0 rest st :
    log_run sep l_init (c0 :: rest) = Ok st ->
    exists fs' m', log_fs_run fs (mkM saveto sep 0) (c0 :: rest) = Ok (fs', m') /\
      m_iter m' = Z.of_nat (length (c0 :: rest)) /\
      fs_read fs' saveto = Some (log_file st) /\
      forall other, other <> saveto -> fs_read fs' other = fs_read fs other.
  Proof.
    intros Hrun.
    destruct (log_fs_run_refines (c0 :: rest) fs (mkM saveto sep 0) l_init st) as (fs' & m' & Hr & _ & _ & Hi & Hf & Ho);
      cbn [Log.m_iter Log.m_sep Log.m_saveto]; try lia; try reflexivity; [exact Hrun|].
    cbn [Log.m_saveto] in *. pose proof (log_run_iter _ _ _ _ Hrun) as Hn. cbn [l_init l_iter] in Hn.
    exists fs', m'. repeat split; try assumption; [lia|].
    apply Hf. rewrite Hi, Hn. cbn [length]. lia.
  Qed.

  (* the statement of the property on the file system, from the inputs: whatever the files were before *)
  Theorem log_file_any_fs fs saveto sep c0 rest :
    Forall (fun tv => loggable (snd tv)) c0 ->
    Forall (fun c => same_call c0 c /\ Forall (fun tv => loggable (snd tv)) c) rest ->
    exists fs' m' lines names,
      log_fs_run fs (mkM saveto sep 0) (c0 :: rest) = Ok (fs', m') /\
      m_iter m' = Z.of_nat (length (c0 :: rest)) /\
      fs_read fs' saveto = Some (unlines lines) /\
      (forall other, other <> saveto -> fs_read fs' other = fs_read fs other) /\
      length lines = S (length (c0 :: rest)) /\
      nth 0 lines [] = join sep (s2z "Iteration" :: names) /\
      forall k, (k < length (c0 :: rest))%nat ->
        nth (S k) lines [] = join sep (dec (Z.of_nat k) :: map fmt (call_vals (nth k (c0 :: rest) []))) /\
        length (call_vals (nth k (c0 :: rest) [])) = length names.
  Proof.
    intros H0 Hrest. destruct (log_shape sep c0 rest H0 Hrest) as (st & names & Hrun & _ & Hlen & Hhd & Hrows).
    destruct (log_any_fs fs saveto sep c0 rest st Hrun) as (fs' & m' & Hr & Hi & Hf & Ho).
    exists fs', m', (l_lines st), names.
    split; [exact Hr|]. split; [exact Hi|]. split; [exact Hf|]. split; [exact Ho|]. split; [exact Hlen|].
    split; [exact Hhd|exact Hrows].
  Qed.

  (* in a history of events, consecutive calls of one module instance are a run of log_fs_run *)
  Fixpoint log_world_run (w : lworld) (events : list (levent V)) : res (lworld) :=
    match events with
    | [] => Ok w
    | e :: rest => match log_event w e with Err x => Err x | Ok w' => log_world_run w' rest end
    end.

  Lemma lset_nth_get {A} : forall (l : list A) k x y, nth_error l k = Some y -> nth_error (lset_nth l k x) k = Some x.
  Proof.
    induction l as [|a l IH]; intros [|k] x y H; cbn in *; try discriminate; [reflexivity|]. eapply IH; eauto.
  Qed.

  Lemma lset_nth_twice {A} : forall (l : list A) k x y, lset_nth (lset_nth l k x) k y = lset_nth l k y.
  Proof. induction l as [|a l IH]; intros [|k] x y; cbn; try reflexivity. now rewrite IH. Qed.

  Lemma lset_nth_same {A} : forall (l : list A) k x, nth_error l k = Some x -> lset_nth l k x = l.
  Proof.
    induction l as [|a l IH]; intros [|k] x H; cbn in *; try discriminate.
    - now inversion H.
    - now rewrite IH.
  Qed.

  Theorem world_calls_are_run id : forall calls fs mods m fs' m',
    nth_error mods id = Some m -> log_fs_run fs m calls = Ok (fs', m') ->
    log_world_run (fs, mods) (map (LCall id) calls) = Ok (fs', lset_nth mods id m').
  Proof.
    induction calls as [|c rest IH]; intros fs mods m fs' m' Hm Hrun; cbn [Log.log_fs_run map log_world_run] in *.
    - inversion Hrun; subst. now rewrite lset_nth_same.
    - destruct (log_response fs m c) as [[fs1 m1]|e] eqn:Hs; [|discriminate].
      unfold Log.log_event. rewrite Hm, Hs.
      rewrite (IH fs1 (lset_nth mods id m1) m1 fs' m' (lset_nth_get _ _ _ _ Hm) Hrun).
      now rewrite lset_nth_twice.
  Qed.

  (* ---- reset() / sensitivity() between the responses change neither the instances nor the files ---- *)
  Lemma lset_nth_length {A} : forall (l : list A) k x, length (lset_nth l k x) = length l.
  Proof. induction l as [|a l IH]; intros [|k] x; cbn; try reflexivity. now rewrite IH. Qed.

  Lemma quiet_event_noop w e w' : l_quiet V e = true -> log_event w e = Ok w' -> w' = w.
  Proof.
    destruct w as [fs mods]. destruct e as [sv sp|i sg|n c|n|i|i]; cbn [l_quiet]; try discriminate; intros _;
      unfold Log.log_event; destruct (nth_error mods i); intros H; now inversion H.
  Qed.

  Lemma quiet_event_valid fs mods e : l_quiet V e = true ->
    match e with LReset i | LSens i => (i < length mods)%nat | _ => True end -> log_event (fs, mods) e = Ok (fs, mods).
  Proof.
    destruct e as [sv sp|i sg|n c|n|i|i]; cbn [l_quiet]; try discriminate; intros _ Hi; unfold Log.log_event;
      (destruct (nth_error mods i) eqn:E; [reflexivity|apply nth_error_None in E; lia]).
  Qed.

  (* whatever a history with reset / sensitivity events leaves behind, the history without them leaves behind too *)
  Theorem world_run_strip : forall events w w',
    log_world_run w events = Ok w' -> log_world_run w (l_strip V events) = Ok w'.
  Proof.
    induction events as [|e rest IH]; intros w w' H; cbn [log_world_run l_strip filter] in *; [exact H|].
    destruct (log_event w e) as [w1|x] eqn:He; [|discriminate].
    destruct (l_quiet V e) eqn:Hq; cbn [negb].
    - rewrite (quiet_event_noop _ _ _ Hq He) in H. apply IH. exact H.
    - cbn [log_world_run]. rewrite He. apply IH. exact H.
  Qed.

  (* the calls of one instance, with reset / sensitivity events of ANY existing instance in between (also before the
     first and after the last call), are the run of log_fs_run on the calls alone: same files, same iteration number *)
  Theorem world_calls_with_resets id : forall events calls fs mods m fs' m',
    nth_error mods id = Some m ->
    Forall (fun e => match e with LCall i _ => i = id | LReset i | LSens i => (i < length mods)%nat | _ => False end) events ->
    l_strip V events = map (LCall id) calls ->
    log_fs_run fs m calls = Ok (fs', m') ->
    log_world_run (fs, mods) events = Ok (fs', lset_nth mods id m').
  Proof.
    induction events as [|e rest IH]; intros calls fs mods m fs' m' Hm Hall Hstrip Hrun.
    - destruct calls; [|discriminate]. cbn in *. inversion Hrun; subst. now rewrite lset_nth_same.
    - inversion Hall as [|e0 r0 He Hrest]; subst. cbn [log_world_run].
      destruct e as [sv sp|i sg|n c|n|i|i]; try contradiction.
      + subst i. cbn [l_strip filter l_quiet negb] in Hstrip. destruct calls as [|c calls]; [discriminate|].
        cbn [map] in Hstrip. injection Hstrip as Hc Hstrip. subst c.
        cbn [Log.log_fs_run] in Hrun. destruct (log_response fs m sg) as [[fs1 m1]|x] eqn:Hs; [|discriminate].
        unfold Log.log_event. rewrite Hm, Hs.
        rewrite (IH calls fs1 (lset_nth mods id m1) m1 fs' m' (lset_nth_get _ _ _ _ Hm)); [now rewrite lset_nth_twice| |exact Hstrip|exact Hrun].
        eapply Forall_impl; [|exact Hrest]. intros a Ha. destruct a; try exact Ha; now rewrite lset_nth_length.
      + rewrite (quiet_event_valid fs mods (LReset i) eq_refl He). eapply IH; eauto.
      + rewrite (quiet_event_valid fs mods (LSens i) eq_refl He). eapply IH; eauto.
  Qed.
End LogP.

(* ---- C order: the multi-indices of a shape are visited with offsets 0, 1, 2, ... ---- *)
Lemma zrange_succ n : 0 <= n -> zrange (n + 1) = zrange n ++ [n].
Proof.
  intros Hn. unfold zrange. replace (Z.to_nat (n + 1)) with (Z.to_nat n + 1)%nat by lia.
  rewrite seq_app, map_app. cbn. f_equal. f_equal. lia.
Qed.

Lemma seq_add_map b : forall a, seq a b = map (Nat.add a) (seq 0 b).
Proof.
  induction b as [|b IH]; intros a; cbn [seq map]; [reflexivity|]. f_equal; [lia|].
  rewrite (IH (S a)), <- seq_shift, map_map. apply map_ext. intros x. lia.
Qed.

Lemma zrange_add a b : 0 <= a -> 0 <= b -> zrange (a + b) = zrange a ++ map (Z.add a) (zrange b).
Proof.
  intros Ha Hb. unfold zrange. replace (Z.to_nat (a + b)) with (Z.to_nat a + Z.to_nat b)%nat by lia.
  rewrite seq_app, map_app. f_equal. cbn [plus].
  rewrite (seq_add_map (Z.to_nat b) (Z.to_nat a)). rewrite !map_map. apply map_ext. intros x. lia.
Qed.

Lemma lsize_nonneg shape : Forall (fun s => 0 <= s) shape -> 0 <= lsize shape.
Proof. induction 1 as [|s t Hs _ IH]; unfold lsize in *; cbn [fold_right]; [lia|nia]. Qed.

Theorem indices_offsets : forall shape, Forall (fun s => 0 <= s) shape ->
  map (offset shape) (indices shape) = zrange (lsize shape).
Proof.
  induction 1 as [|s t Hs Ht IH]; [reflexivity|].
  cbn [indices lsize fold_right]. fold (lsize t).
  pose proof (lsize_nonneg t Ht) as Hm.
  assert (E : forall l, map (offset (s :: t)) (flat_map (fun i => map (cons i) (indices t)) l)
                        = flat_map (fun i => map (Z.add (i * lsize t)) (zrange (lsize t))) l).
  { induction l as [|i l IHl]; [reflexivity|]. cbn [flat_map]. rewrite map_app, IHl. f_equal.
    rewrite map_map. cbn [offset]. rewrite <- IH, map_map. reflexivity. }
  rewrite E. clear E.
  rewrite <- (Z2Nat.id s Hs). generalize (Z.to_nat s) as n. clear Hs.
  induction n as [|n IHn]; [reflexivity|].
  rewrite Nat2Z.inj_succ. unfold Z.succ. rewrite zrange_succ by lia. rewrite flat_map_app, IHn.
  cbn [flat_map]. rewrite app_nil_r. rewrite Z.mul_add_distr_r, Z.mul_1_l.
  rewrite (zrange_add (Z.of_nat n * lsize t) (lsize t)) by nia. reflexivity.
Qed.

Lemma flat_map_map' {A B C} (f : A -> B) (h : B -> list C) l : flat_map h (map f l) = flat_map (fun x => h (f x)) l.
Proof. induction l as [|x t IH]; [reflexivity|]. cbn. now rewrite IH. Qed.

Lemma flat_map_ext_in' {A B} (f g : A -> list B) l : (forall a, In a l -> f a = g a) -> flat_map f l = flat_map g l.
Proof.
  induction l as [|x t IH]; intros H; [reflexivity|]. cbn. rewrite (H x) by now left.
  rewrite IH; [reflexivity|]. intros a Ha. apply H. now right.
Qed.

Lemma enumerate_all {A} (data : list A) :
  flat_map (fun k => match nth_error data k with Some x => [x] | None => [] end) (seq 0 (length data)) = data.
Proof.
  induction data as [|x t IH] using rev_ind; [reflexivity|].
  rewrite app_length. cbn [length]. rewrite seq_app, flat_map_app. cbn [seq flat_map plus].
  rewrite nth_error_app2, Nat.sub_diag by lia. cbn [nth_error]. rewrite app_nil_r. f_equal.
  rewrite <- IH at 2. apply flat_map_ext_in'. intros a Ha. apply in_seq in Ha.
  now rewrite nth_error_app1 by lia.
Qed.

(* a C-contiguous array with as many entries as its shape says is logged entry by entry in C order *)
Theorem sig_vals_c_order V (shape : list Z) (data : list V) :
  Forall (fun s => 0 <= s) shape -> Z.of_nat (length data) = lsize shape ->
  sig_vals V (LArr shape data false) = data.
Proof.
  intros Hs Hl. unfold sig_vals, iter_indices.
  rewrite <- (flat_map_map' (offset shape)
                (fun o => match nth_error data (Z.to_nat o) with Some x => [x] | None => [] end)).
  rewrite indices_offsets by exact Hs. rewrite <- Hl. unfold zrange. rewrite Nat2Z.id, flat_map_map'.
  rewrite <- (enumerate_all data) at 2. apply flat_map_ext. intros k. now rewrite Nat2Z.id.
Qed.
