(* Lemmas about Model/B64.v: base64 round trip for all byte lists, length, little-endian header round trip,
   VTK block reading. *)
From Coq Require Import ZArith List Lia Bool.
From Pymoto Require Import Base.Bytes Model.B64.
Import ListNotations.
Open Scope Z_scope.

(* the arithmetic alphabet is the RFC 4648 table *)
Example alphabet_ok :
  map enc_char (map Z.of_nat (seq 0 64)) = s2z "ABCDEFGHIJKLMNOPQRSTUVWXYZabcdefghijklmnopqrstuvwxyz0123456789+/".
Proof. vm_compute. reflexivity. Qed.

Definition sextets : list Z := map Z.of_nat (seq 0 64).
Lemma sextet_in s : 0 <= s < 64 -> In s sextets.
Proof.
  intros Hs. unfold sextets. apply in_map_iff. exists (Z.to_nat s). split; [lia|].
  apply in_seq. lia.
Qed.

Lemma dec_enc_char s : 0 <= s < 64 -> dec_char (enc_char s) = Some s.
Proof.
  intros Hs.
  assert (H : forallb (fun t => match dec_char (enc_char t) with Some u => u =? t | None => false end) sextets = true)
    by (vm_compute; reflexivity).
  rewrite forallb_forall in H. specialize (H s (sextet_in s Hs)).
  destruct (dec_char (enc_char s)) as [u|]; [|discriminate]. apply Z.eqb_eq in H. now subst.
Qed.

Lemma enc_char_not_pad s : 0 <= s < 64 -> (enc_char s =? pad_char) = false.
Proof.
  intros Hs.
  assert (H : forallb (fun t => negb (enc_char t =? pad_char)) sextets = true) by (vm_compute; reflexivity).
  rewrite forallb_forall in H. specialize (H s (sextet_in s Hs)). now apply negb_true_iff in H.
Qed.

(* induction on lists in steps of three *)
Lemma list_ind3 {A} (P : list A -> Prop) :
  P [] -> (forall a, P [a]) -> (forall a b, P [a; b]) ->
  (forall a b c t, P t -> P (a :: b :: c :: t)) -> forall l, P l.
Proof.
  intros H0 H1 H2 H3 l.
  assert (H : P l /\ (forall a, P (a :: l)) /\ (forall a b, P (a :: b :: l))).
  { induction l as [|x l (IH0 & IH1 & IH2)].
    - repeat split; auto.
    - split; [apply IH1 | split; [intros a; apply IH2 | intros a b; apply H3; exact IH0]]. }
  apply H.
Qed.

Ltac dm x k := pose proof (Z.div_mod x k ltac:(lia)); pose proof (Z.mod_pos_bound x k ltac:(lia)).

Lemma sx0 a : byte_ok a -> 0 <= a / 4 < 64.
Proof. unfold byte_ok. intros Ha. dm a 4. lia. Qed.
Lemma sx1 a b : byte_ok b -> 0 <= (a mod 4) * 16 + b / 16 < 64.
Proof. unfold byte_ok. intros Hb. dm a 4. dm b 16. lia. Qed.
Lemma sx1' a : 0 <= (a mod 4) * 16 < 64.
Proof. dm a 4. lia. Qed.
Lemma sx2 b c : byte_ok c -> 0 <= (b mod 16) * 4 + c / 64 < 64.
Proof. unfold byte_ok. intros Hc. dm b 16. dm c 64. lia. Qed.
Lemma sx2' b : 0 <= (b mod 16) * 4 < 64.
Proof. dm b 16. lia. Qed.
Lemma sx3 c : 0 <= c mod 64 < 64.
Proof. apply Z.mod_pos_bound. lia. Qed.

(* reassembling the bytes from the sextets *)
Lemma by0 a b : byte_ok b -> (a / 4) * 4 + ((a mod 4) * 16 + b / 16) / 16 = a.
Proof.
  unfold byte_ok. intros Hb. dm a 4. dm b 16.
  assert (E : ((a mod 4) * 16 + b / 16) / 16 = a mod 4).
  { symmetry. apply (Z.div_unique _ 16 _ (b / 16)); lia. }
  rewrite E. lia.
Qed.
Lemma by0' a : (a / 4) * 4 + ((a mod 4) * 16) / 16 = a.
Proof. rewrite Z.div_mul by lia. dm a 4. lia. Qed.
Lemma by1 a b c : byte_ok b -> byte_ok c ->
  (((a mod 4) * 16 + b / 16) mod 16) * 16 + ((b mod 16) * 4 + c / 64) / 4 = b.
Proof.
  unfold byte_ok. intros Hb Hc. dm a 4. dm b 16. dm c 64.
  assert (E1 : ((a mod 4) * 16 + b / 16) mod 16 = b / 16).
  { symmetry. apply (Z.mod_unique _ 16 (a mod 4)); lia. }
  assert (E2 : ((b mod 16) * 4 + c / 64) / 4 = b mod 16).
  { symmetry. apply (Z.div_unique _ 4 _ (c / 64)); lia. }
  rewrite E1, E2. lia.
Qed.
Lemma by1' a b : byte_ok b -> (((a mod 4) * 16 + b / 16) mod 16) * 16 + ((b mod 16) * 4) / 4 = b.
Proof.
  unfold byte_ok. intros Hb. dm a 4. dm b 16.
  assert (E1 : ((a mod 4) * 16 + b / 16) mod 16 = b / 16).
  { symmetry. apply (Z.mod_unique _ 16 (a mod 4)); lia. }
  rewrite E1, Z.div_mul by lia. lia.
Qed.
Lemma by2 b c : byte_ok c -> (((b mod 16) * 4 + c / 64) mod 4) * 64 + c mod 64 = c.
Proof.
  unfold byte_ok. intros Hc. dm b 16. dm c 64.
  assert (E1 : ((b mod 16) * 4 + c / 64) mod 4 = c / 64).
  { symmetry. apply (Z.mod_unique _ 4 (b mod 16)); lia. }
  rewrite E1. lia.
Qed.

(* RFC 4648 round trip, for every byte list *)
Theorem b64_roundtrip : forall bs, bytes_ok bs -> b64_decode (b64_encode bs) = Some bs.
Proof.
  unfold bytes_ok. intros bs. induction bs as [| a | a b | a b c t IH] using list_ind3; intros Hok.
  - reflexivity.
  - inversion Hok as [|? ? Ha _]; subst.
    cbn [b64_encode b64_decode].
    rewrite (dec_enc_char _ (sx0 a Ha)), (dec_enc_char _ (sx1' a)).
    rewrite Z.eqb_refl. rewrite (by0' a). reflexivity.
  - inversion Hok as [|? ? Ha Hok1]; subst. inversion Hok1 as [|? ? Hb _]; subst.
    cbn [b64_encode b64_decode].
    rewrite (dec_enc_char _ (sx0 a Ha)), (dec_enc_char _ (sx1 a b Hb)).
    rewrite (enc_char_not_pad _ (sx2' b)), (dec_enc_char _ (sx2' b)).
    rewrite Z.eqb_refl. rewrite (by0 a b Hb), (by1' a b Hb). reflexivity.
  - inversion Hok as [|? ? Ha Hok1]; subst. inversion Hok1 as [|? ? Hb Hok2]; subst.
    inversion Hok2 as [|? ? Hc Hok3]; subst.
    cbn [b64_encode b64_decode].
    rewrite (dec_enc_char _ (sx0 a Ha)), (dec_enc_char _ (sx1 a b Hb)).
    rewrite (enc_char_not_pad _ (sx2 b c Hc)), (dec_enc_char _ (sx2 b c Hc)).
    rewrite (enc_char_not_pad _ (sx3 c)), (dec_enc_char _ (sx3 c)).
    rewrite (IH Hok3).
    rewrite (by0 a b Hb), (by1 a b c Hb Hc), (by2 b c Hc). reflexivity.
Qed.

(* encoded length: 4 * ceil(n / 3) *)
Lemma b64_encode_length : forall bs, length (b64_encode bs) = (4 * ((length bs + 2) / 3))%nat.
Proof.
  intros bs. induction bs as [| a | a b | a b c t IH] using list_ind3; try reflexivity.
  cbn [b64_encode length]. rewrite IH.
  replace (S (S (S (length t))) + 2)%nat with (length t + 2 + 1 * 3)%nat by lia.
  rewrite Nat.div_add by lia. lia.
Qed.

(* every character of an encoding is in the alphabet or '=' *)
Lemma enc_char_text s : 0 <= s < 64 -> dec_char (enc_char s) <> None.
Proof. intros H. rewrite dec_enc_char by exact H. discriminate. Qed.

(* ---- little-endian integers ---- *)
Lemma le_roundtrip : forall n v, 0 <= v < 256 ^ Z.of_nat n -> le_value (le_bytes n v) = v.
Proof.
  induction n as [|n IH]; intros v Hv.
  - cbn in *. lia.
  - cbn [le_bytes le_value].
    rewrite Nat2Z.inj_succ, Z.pow_succ_r in Hv by lia.
    rewrite IH.
    + pose proof (Z.div_mod v 256). lia.
    + split; [apply Z.div_pos; lia | apply Z.div_lt_upper_bound; lia].
Qed.

Lemma le_bytes_ok : forall n v, bytes_ok (le_bytes n v).
Proof.
  induction n as [|n IH]; intros v; cbn; constructor.
  - apply Z.mod_pos_bound. lia.
  - apply IH.
Qed.

Lemma le_bytes_length : forall n v, length (le_bytes n v) = n.
Proof. induction n as [|n IH]; intros v; cbn; [reflexivity | now rewrite IH]. Qed.

Theorem le64_roundtrip : forall v, 0 <= v < 2 ^ 64 -> le_value (le64 v) = v.
Proof. intros v Hv. apply le_roundtrip. exact Hv. Qed.

(* ---- the VTK block: header and data are recovered ---- *)
Lemma le64_b64_length v : length (b64_encode (le64 v)) = 12%nat.
Proof. rewrite b64_encode_length. unfold le64. rewrite le_bytes_length. reflexivity. Qed.

Theorem vtk_block_data_roundtrip : forall raw, bytes_ok raw -> vtk_block_data (vtk_block raw) = Some raw.
Proof.
  intros raw Hraw. unfold vtk_block_data, vtk_block.
  rewrite skipn_app, le64_b64_length, Nat.sub_diag.
  rewrite skipn_all2 by (rewrite le64_b64_length; lia).
  cbn [skipn app]. apply b64_roundtrip. exact Hraw.
Qed.

(* the header holds the length of the base64 TEXT of the data (as the code writes it) *)
Theorem vtk_block_header_roundtrip : forall raw,
  Z.of_nat (length (b64_encode raw)) < 2 ^ 64 ->
  vtk_block_header (vtk_block raw) = Some (Z.of_nat (length (b64_encode raw))).
Proof.
  intros raw Hlen. unfold vtk_block_header, vtk_block.
  rewrite firstn_app, le64_b64_length, Nat.sub_diag.
  rewrite firstn_all2 by (rewrite le64_b64_length; lia).
  cbn [firstn]. rewrite app_nil_r.
  rewrite b64_roundtrip by apply le_bytes_ok.
  cbn [option_map]. rewrite le64_roundtrip by lia. reflexivity.
Qed.

(* decoding is injective on what it accepts: two byte lists with the same encoding are equal *)
Corollary b64_encode_inj : forall x y, bytes_ok x -> bytes_ok y -> b64_encode x = b64_encode y -> x = y.
Proof.
  intros x y Hx Hy E. apply (f_equal b64_decode) in E.
  rewrite !b64_roundtrip in E by assumption. now inversion E.
Qed.
