(* Theorems about Model/OC.v over the real numbers (instance ROOps). *)
From Coq Require Import ZArith List Bool Reals Lra Lia.
From Pymoto Require Import Model.Concat Model.OC Proofs.ConcatP Proofs.ActiveSetP.
Import ListNotations.
Open Scope R_scope.

Definition ROOps : OOps R :=
  {| o0 := 0; ohalf := / 2; oten := 10; ohuge := 10 ^ 40; oadd := Rplus; osub := Rminus; omul := Rmult; odiv := Rdiv;
     oopp := Ropp; osqrt := sqrt; oabs := Rabs; oltb := Rltb; oleb := Rleb;
     osuml := fun l => fold_left Rplus l 0 |}.

Notation omaxR := (omax ROOps).
Notation ominR := (omin ROOps).
Notation oclipR := (oclip ROOps).

(* ------------------------------------------------------------------ max / min / clip *)
Lemma omax_spec a b : (a <= omaxR a b /\ b <= omaxR a b) /\ (omaxR a b = a \/ omaxR a b = b).
Proof.
  unfold omax. cbn [oltb ROOps]. destruct (Rltb a b) eqn:E; [apply Rltb_true in E | apply Rltb_false in E]; split; try lra; auto.
Qed.

Lemma omin_spec a b : (ominR a b <= a /\ ominR a b <= b) /\ (ominR a b = a \/ ominR a b = b).
Proof.
  unfold omin. cbn [oltb ROOps]. destruct (Rltb b a) eqn:E; [apply Rltb_true in E | apply Rltb_false in E]; split; try lra; auto.
Qed.

Lemma omax_mono a a' b : a <= a' -> omaxR a b <= omaxR a' b.
Proof.
  intros H. destruct (omax_spec a b) as [[A1 A2] [A3 | A3]], (omax_spec a' b) as [[B1 B2] _]; lra.
Qed.

Lemma omin_mono a a' b : a <= a' -> ominR a b <= ominR a' b.
Proof.
  intros H. destruct (omin_spec a b) as [[A1 A2] _], (omin_spec a' b) as [[B1 B2] [B3 | B3]]; lra.
Qed.

Lemma oclip_mono a a' lo hi : a <= a' -> oclipR a lo hi <= oclipR a' lo hi.
Proof. intros H. unfold oclip. apply omin_mono, omax_mono, H. Qed.

Lemma oclip_range a lo hi : lo <= hi -> lo <= oclipR a lo hi <= hi.
Proof.
  intros H. unfold oclip.
  destruct (omax_spec a lo) as [[A1 A2] _]. destruct (omin_spec (omaxR a lo) hi) as [[B1 B2] [B3 | B3]]; lra.
Qed.

Lemma oclip_id a lo hi : lo <= a <= hi -> oclipR a lo hi = a.
Proof.
  intros H. unfold oclip.
  destruct (omax_spec a lo) as [[A1 A2] [A3 | A3]]; destruct (omin_spec (omaxR a lo) hi) as [[B1 B2] [B3 | B3]]; lra.
Qed.

(* ------------------------------------------------------------------ one entry of the update *)
(* bounds and move limit: for EVERY multiplier lam and EVERY gradient value g *)
Theorem oc_elem_box lam mv xmn xmx x g : xmn <= x <= xmx -> 0 <= mv ->
  xmn <= oc_elem ROOps lam mv xmn xmx x g <= xmx /\
  x - mv <= oc_elem ROOps lam mv xmn xmx x g <= x + mv.
Proof.
  intros Hx Hm. unfold oc_elem. cbn [osub oadd ROOps].
  destruct (omax_spec xmn (x - mv)) as [[L1 L2] [L3 | L3]];
  destruct (omin_spec xmx (x + mv)) as [[H1 H2] [H3 | H3]];
  match goal with |- context [oclip ROOps ?a ?lo ?hi] => pose proof (oclip_range a lo hi) as C end;
  lra.
Qed.

(* monotone in the multiplier: a larger lam gives a smaller (or equal) entry *)
Theorem oc_elem_antitone lam lam' mv xmn xmx x g : 0 < lam <= lam' -> 0 <= x -> g <= 0 ->
  oc_elem ROOps lam' mv xmn xmx x g <= oc_elem ROOps lam mv xmn xmx x g.
Proof.
  intros [Hl Hll] Hx Hg. unfold oc_elem. apply oclip_mono. cbn [omul osqrt odiv oopp ROOps].
  apply Rmult_le_compat_l; [exact Hx|]. apply sqrt_le_1_alt. unfold Rdiv.
  apply Rmult_le_compat_l; [lra|]. apply Rinv_le_contravar; assumption.
Qed.

(* an entry that already satisfies x * sqrt(-g/lam) = x inside its box is left unchanged *)
Lemma oc_elem_fixed lam mv xmn xmx x g : xmn <= x <= xmx -> 0 <= mv -> x * sqrt (- g / lam) = x ->
  oc_elem ROOps lam mv xmn xmx x g = x.
Proof.
  intros Hx Hm E. unfold oc_elem. cbn [omul osqrt odiv oopp osub oadd ROOps]. rewrite E.
  apply oclip_id.
  destruct (omax_spec xmn (x - mv)) as [[L1 L2] [L3 | L3]];
  destruct (omin_spec xmx (x + mv)) as [[H1 H2] [H3 | H3]]; lra.
Qed.

(* ------------------------------------------------------------------ the vector update *)
Lemma combine3_nth {A B} (x : list A) (g : list B) j dx dg : (j < length x)%nat -> length g = length x ->
  nth j (combine (seq 0 (length x)) (combine x g)) (0%nat, (dx, dg)) = (j, (nth j x dx, nth j g dg)).
Proof.
  intros Hj Hl. rewrite combine_nth by (rewrite combine_length, seq_length; lia).
  rewrite seq_nth by exact Hj. rewrite combine_nth by lia. reflexivity.
Qed.

Lemma oc_xnew_length pr lam (x g : list R) : length g = length x -> length (oc_xnew ROOps pr lam x g) = length x.
Proof. intros H. unfold oc_xnew. rewrite map_length, !combine_length, seq_length. lia. Qed.

Lemma oc_xnew_nth pr lam (x g : list R) j : (j < length x)%nat -> length g = length x ->
  nth j (oc_xnew ROOps pr lam x g) 0 =
  oc_elem ROOps lam (move pr) (bget ROOps (bmin pr) j) (bget ROOps (bmax pr) j) (nth j x 0) (nth j g 0).
Proof.
  intros Hj Hl. unfold oc_xnew.
  rewrite nth_map_in with (d := (0%nat, (0, 0))) by (rewrite !combine_length, seq_length; lia).
  rewrite combine3_nth by assumption. reflexivity.
Qed.

Definition in_box (pr : oc_params) (x : list R) : Prop :=
  forall j, (j < length x)%nat -> bget ROOps (bmin pr) j <= nth j x 0 <= bget ROOps (bmax pr) j.
Definition within_move (mv : R) (x y : list R) : Prop :=
  length y = length x /\ forall j, (j < length x)%nat -> Rabs (nth j y 0 - nth j x 0) <= mv.

(* C17 bounds + move limit, for every lam and every gradient *)
Theorem oc_xnew_box pr lam (x g : list R) : in_box pr x -> 0 <= move pr -> length g = length x ->
  in_box pr (oc_xnew ROOps pr lam x g) /\ within_move (move pr) x (oc_xnew ROOps pr lam x g).
Proof.
  intros Hb Hm Hl. pose proof (oc_xnew_length pr lam x g Hl) as Hlen. split; [|split; [exact Hlen|]].
  - intros j Hj. rewrite Hlen in Hj. rewrite oc_xnew_nth by assumption.
    apply oc_elem_box; [apply Hb; exact Hj | exact Hm].
  - intros j Hj. rewrite oc_xnew_nth by assumption.
    destruct (oc_elem_box lam (move pr) (bget ROOps (bmin pr) j) (bget ROOps (bmax pr) j) (nth j x 0) (nth j g 0) (Hb j Hj) Hm) as [_ H].
    apply Rabs_le. lra.
Qed.

(* ------------------------------------------------------------------ sums *)
Lemma osum_shift (l : list R) a : fold_left Rplus l a = a + fold_left Rplus l 0.
Proof.
  revert a. induction l as [|b l IH]; intros a; cbn; [lra|]. rewrite IH, (IH (0 + b)). lra.
Qed.

Lemma osum_cons a (l : list R) : osum ROOps (a :: l) = a + osum ROOps l.
Proof. unfold osum. cbn [osuml ROOps fold_left]. rewrite osum_shift. lra. Qed.

Lemma osum_le (a b : list R) : length a = length b -> (forall j, (j < length a)%nat -> nth j a 0 <= nth j b 0) ->
  osum ROOps a <= osum ROOps b.
Proof.
  revert b. induction a as [|u a IH]; intros [|v b] Hl H; cbn in Hl; try lia.
  - lra.
  - rewrite !osum_cons. pose proof (H 0%nat ltac:(cbn; lia)) as H0. cbn in H0.
    assert (osum ROOps a <= osum ROOps b).
    { apply IH; [lia|]. intros j Hj. apply (H (S j)). cbn. lia. }
    lra.
Qed.

Definition nonneg (x : list R) : Prop := forall j, (j < length x)%nat -> 0 <= nth j x 0.
Definition nonpos (g : list R) : Prop := forall j, (j < length g)%nat -> nth j g 0 <= 0.

(* the volume of the update is antitone in the multiplier *)
Theorem volume_antitone pr lam lam' (x g : list R) : 0 < lam <= lam' -> nonneg x -> nonpos g -> length g = length x ->
  osum ROOps (oc_xnew ROOps pr lam' x g) <= osum ROOps (oc_xnew ROOps pr lam x g).
Proof.
  intros Hl Hx Hg Hlen. apply osum_le.
  - rewrite !oc_xnew_length by exact Hlen. reflexivity.
  - intros j Hj. rewrite oc_xnew_length in Hj by exact Hlen. rewrite !oc_xnew_nth by assumption.
    apply oc_elem_antitone; [exact Hl | apply Hx; exact Hj | apply Hg; lia].
Qed.

(* np.minimum(dfdx, 0) makes every gradient non-positive *)
Lemma clip_grad_nonpos (g : list R) : nonpos (clip_grad ROOps g) /\ length (clip_grad ROOps g) = length g.
Proof.
  unfold clip_grad. split; [|apply map_length]. intros j Hj. rewrite map_length in Hj.
  rewrite nth_map_in with (d := 0) by exact Hj. destruct (omin_spec (nth j g 0) 0) as [[_ H] _]. exact H.
Qed.

(* ------------------------------------------------------------------ bisection *)
Section Bisect.
  Variable pr : @oc_params R.
  Variable maxvol : R.
  Variables x g : list R.
  Let xn (lam : R) : list R := oc_xnew ROOps pr lam x g.
  Let vol (lam : R) : R := osum ROOps (xn lam).
  Let tol : R := l1l2tol pr.
  Hypothesis tol_nonneg : 0 <= tol.

  (* over R, with a non-negative tolerance, the "no representable midpoint" guard of fix bd6675c never fires *)
  Lemma guard_false l1 l2 : tol < l2 - l1 -> oleb ROOps (/ 2 * (l1 + l2)) l1 || oleb ROOps l2 (/ 2 * (l1 + l2)) = false.
  Proof.
    intros T. cbn [oleb ROOps]. apply orb_false_iff.
    split; (destruct (Rleb _ _) eqn:Q; [apply Rleb_true in Q; lra | reflexivity]).
  Qed.

  (* the loop invariant and exit condition.  On exit:  l1 <= a <= b <= l2,  b - a <= tol,  the interval was
     halved k times, an end that moved carries its volume test, and the design bound to `xnew` is the update at
     the end that moved last (or the old binding when the body never ran). *)
  Definition bis_post (l1 l2 : R) (last : option (list R)) (a b : R) (lst : option (list R)) : Prop :=
    l1 <= a /\ a <= b /\ b <= l2 /\ b - a <= tol /\
    (exists k : nat, b - a = (l2 - l1) / 2 ^ k) /\
    (a = l1 \/ vol a > maxvol) /\ (b = l2 \/ vol b <= maxvol) /\
    ((lst = last /\ a = l1 /\ b = l2) \/
     (lst = Some (xn a) /\ vol a > maxvol) \/ (lst = Some (xn b) /\ vol b <= maxvol)).

  Lemma bisect_invariant fuel : forall l1 l2 last a b lst, l1 <= l2 ->
    bisect ROOps pr maxvol x g fuel l1 l2 last = BisDone a b lst -> bis_post l1 l2 last a b lst.
  Proof.
    induction fuel as [|fuel IH]; intros l1 l2 last a b lst Hle E.
    - cbn [bisect] in E. cbn [oltb osub ROOps] in E. fold tol in E.
      destruct (Rltb tol (l2 - l1)) eqn:T; [discriminate|]. apply Rltb_false in T.
      injection E as <- <- <-. unfold bis_post.
      split; [lra|]. split; [lra|]. split; [lra|]. split; [lra|]. split; [exists 0%nat; cbn; lra|].
      split; [left; reflexivity|]. split; [left; reflexivity|]. left. repeat split; reflexivity.
    - cbn [bisect] in E. cbn [oltb osub oadd omul ohalf o0 ROOps] in E. fold tol in E.
      destruct (Rltb tol (l2 - l1)) eqn:T; [apply Rltb_true in T | apply Rltb_false in T].
      + rewrite (guard_false l1 l2 T) in E.
        set (lmid := / 2 * (l1 + l2)) in *.
        assert (Hmid : l1 <= lmid <= l2) by (unfold lmid; lra).
        fold (xn lmid) in E. fold (vol lmid) in E.
        destruct (Rltb 0 (vol lmid - maxvol)) eqn:V; [apply Rltb_true in V | apply Rltb_false in V].
        * destruct (IH lmid l2 (Some (xn lmid)) a b lst (proj2 Hmid) E) as [P1 [P2 [P3 [P4 [[k P5] [P6 [P7 P8]]]]]]].
          unfold bis_post. split; [lra|]. split; [lra|]. split; [lra|]. split; [lra|].
          split; [exists (S k); rewrite P5; unfold lmid; cbn [pow]; field; apply pow_nonzero; lra|].
          split; [destruct P6 as [-> | P6]; [right; lra | right; exact P6]|].
          split; [exact P7|].
          destruct P8 as [[-> [-> ->]] | [P8 | P8]];
            [right; left; split; [reflexivity | lra] | right; left; exact P8 | right; right; exact P8].
        * destruct (IH l1 lmid (Some (xn lmid)) a b lst (proj1 Hmid) E) as [P1 [P2 [P3 [P4 [[k P5] [P6 [P7 P8]]]]]]].
          unfold bis_post. split; [lra|]. split; [lra|]. split; [lra|]. split; [lra|].
          split; [exists (S k); rewrite P5; unfold lmid; cbn [pow]; field; apply pow_nonzero; lra|].
          split; [exact P6|].
          split; [destruct P7 as [-> | P7]; [right; lra | right; exact P7]|].
          destruct P8 as [[-> [-> ->]] | [P8 | P8]];
            [right; right; split; [reflexivity | lra] | right; left; exact P8 | right; right; exact P8].
      + injection E as <- <- <-. unfold bis_post.
        split; [lra|]. split; [lra|]. split; [lra|]. split; [lra|]. split; [exists 0%nat; cbn; lra|].
        split; [left; reflexivity|]. split; [left; reflexivity|]. left. repeat split; reflexivity.
  Qed.

  (* termination with an explicit step count: k halvings suffice as soon as (l2 - l1)/2^k <= tol *)
  Lemma bisect_terminates : forall k fuel l1 l2 last, (l2 - l1) / 2 ^ k <= tol -> (k <= fuel)%nat ->
    bisect ROOps pr maxvol x g fuel l1 l2 last <> BisOutOfFuel.
  Proof.
    induction k as [|k IH]; intros fuel l1 l2 last Hk Hf.
    - cbn in Hk. destruct fuel; cbn [bisect]; cbn [oltb osub ROOps]; fold tol;
        (destruct (Rltb tol (l2 - l1)) eqn:T; [apply Rltb_true in T; lra | discriminate]).
    - destruct fuel as [|fuel]; [lia|]. cbn [bisect]. cbn [oltb osub oadd omul ohalf o0 ROOps]. fold tol.
      destruct (Rltb tol (l2 - l1)) eqn:T; [|discriminate]. apply Rltb_true in T. rewrite (guard_false l1 l2 T).
      assert (Hp : 2 ^ k <> 0) by (apply pow_nonzero; lra).
      destruct (Rltb 0 _); apply IH; try lia.
      + replace ((l2 - / 2 * (l1 + l2)) / 2 ^ k) with ((l2 - l1) / 2 ^ S k) by (cbn [pow]; field; exact Hp). exact Hk.
      + replace ((/ 2 * (l1 + l2) - l1) / 2 ^ k) with ((l2 - l1) / 2 ^ S k) by (cbn [pow]; field; exact Hp). exact Hk.
  Qed.

  (* for a positive tolerance such a k exists *)
  Lemma halvings_exist (w : R) : 0 < tol -> exists k : nat, w / 2 ^ k <= tol.
  Proof.
    intros Ht. destruct (Rle_lt_dec w 0) as [Hw | Hw].
    - exists 0%nat. cbn. lra.
    - destruct (archimed (w / tol)) as [Hup _].
      assert (Hpos : 0 < w / tol) by (apply Rdiv_lt_0_compat; assumption).
      assert (Hz : (0 < up (w / tol))%Z) by (apply lt_IZR; lra).
      exists (Z.to_nat (up (w / tol))).
      assert (Hpow : IZR (up (w / tol)) < 2 ^ Z.to_nat (up (w / tol))).
      { rewrite <- (Z2Nat.id (up (w / tol))) at 1 by lia. rewrite <- INR_IZR_INZ.
        generalize (Z.to_nat (up (w / tol))). intros n. induction n as [|n IHn]; [cbn; lra|].
        rewrite S_INR. cbn [pow]. assert (1 <= 2 ^ n) by (apply pow_R1_Rle; lra). lra. }
      assert (Hp : 0 < 2 ^ Z.to_nat (up (w / tol))) by (apply pow_lt; lra).
      apply Rmult_le_reg_r with (2 ^ Z.to_nat (up (w / tol))); [exact Hp|].
      unfold Rdiv. rewrite Rmult_assoc, Rinv_l by lra. rewrite Rmult_1_r.
      assert (w < tol * 2 ^ Z.to_nat (up (w / tol))).
      { apply Rlt_trans with (tol * IZR (up (w / tol))).
        - apply Rmult_lt_reg_r with (/ tol); [apply Rinv_0_lt_compat; exact Ht|].
          rewrite (Rmult_comm tol), Rmult_assoc, Rinv_r by lra. unfold Rdiv in Hup. lra.
        - apply Rmult_lt_compat_l; assumption. }
      lra.
  Qed.
End Bisect.

(* consequences for the design the bisection returns: when both ends of the multiplier interval have moved
   ("the target volume is bracketed inside [l1init, l2init]") the returned design's volume differs from the
   target by at most the volume difference across the final interval, whose length is <= l1l2tol *)
Theorem bisect_volume_bracket (pr : @oc_params R) maxvol (x g : list R) fuel l1 l2 last a b xnew :
  0 <= l1l2tol pr -> 0 <= l1 <= l2 -> nonneg x -> nonpos g -> length g = length x ->
  bisect ROOps pr maxvol x g fuel l1 l2 last = BisDone a b (Some xnew) -> a <> l1 -> b <> l2 ->
  let vol := fun lam => osum ROOps (oc_xnew ROOps pr lam x g) in
  l1 < a <= b /\ b < l2 /\ b - a <= l1l2tol pr /\
  (xnew = oc_xnew ROOps pr a x g \/ xnew = oc_xnew ROOps pr b x g) /\
  vol b <= maxvol < vol a /\ vol b <= osum ROOps xnew <= vol a /\
  Rabs (osum ROOps xnew - maxvol) <= vol a - vol b.
Proof.
  intros Htol [H0 Hle] Hx Hg Hlen E Ha Hb vol.
  destruct (bisect_invariant pr maxvol x g Htol fuel l1 l2 last a b (Some xnew) Hle E) as [P1 [P2 [P3 [P4 [_ [P6 [P7 P8]]]]]]].
  destruct P6 as [P6 | P6]; [contradiction|]. destruct P7 as [P7 | P7]; [contradiction|].
  assert (Hla : l1 < a) by lra. assert (Hbl : b < l2) by lra.
  assert (Hanti : vol b <= vol a) by (apply volume_antitone; [lra | assumption..]).
  fold (vol a) in P6. fold (vol b) in P7.
  destruct P8 as [[_ [Ea _]] | [[Ex Hv] | [Ex Hv]]]; [contradiction | |]; injection Ex as ->.
  - fold (vol a). repeat split; try lra; auto. apply Rabs_le. lra.
  - fold (vol b). repeat split; try lra; auto. apply Rabs_le. lra.
Qed.

(* ------------------------------------------------------------------ the bracket-growing loop (fix of F19) *)
Lemma oc_lower_length pr (x : list R) : length (oc_lower ROOps pr x) = length x.
Proof. unfold oc_lower. rewrite map_length, combine_length, seq_length. lia. Qed.

Lemma oc_lower_nth pr (x : list R) j : (j < length x)%nat ->
  nth j (oc_lower ROOps pr x) 0 = omaxR (bget ROOps (bmin pr) j) (nth j x 0 - move pr).
Proof.
  intros Hj. unfold oc_lower.
  rewrite nth_map_in with (d := (0%nat, 0)) by (rewrite combine_length, seq_length; lia).
  rewrite combine_nth by (rewrite seq_length; reflexivity). rewrite seq_nth by exact Hj. reflexivity.
Qed.

(* every entry of the update is >= its lower bound max(xmin, x - move) *)
Lemma oc_xnew_ge_lower pr lam (x g : list R) j : in_box pr x -> 0 <= move pr -> length g = length x -> (j < length x)%nat ->
  nth j (oc_lower ROOps pr x) 0 <= nth j (oc_xnew ROOps pr lam x g) 0.
Proof.
  intros Hb Hm Hl Hj. rewrite oc_lower_nth, oc_xnew_nth by assumption. unfold oc_elem. cbn [osub oadd ROOps].
  specialize (Hb j Hj).
  match goal with |- _ <= oclip ROOps ?a ?lo ?hi => assert (H : lo <= hi); [|destruct (oclip_range a lo hi H); assumption] end.
  destruct (omax_spec (bget ROOps (bmin pr) j) (nth j x 0 - move pr)) as [_ [E | E]];
  destruct (omin_spec (bget ROOps (bmax pr) j) (nth j x 0 + move pr)) as [_ [F | F]]; rewrite E, F; lra.
Qed.

Lemma any_above_false (xn lower : list R) : any_above ROOps xn lower = false -> length lower = length xn ->
  forall j, (j < length xn)%nat -> nth j xn 0 <= nth j lower 0.
Proof.
  unfold any_above. intros H Hl j Hj.
  assert (Hall : forall q, In q (combine xn lower) -> oltb ROOps (snd q) (fst q) = false).
  { intros q Hq. destruct (oltb ROOps (snd q) (fst q)) eqn:E; [|reflexivity]. exfalso.
    assert (T : existsb (fun q => oltb ROOps (snd q) (fst q)) (combine xn lower) = true)
      by (apply existsb_exists; exists q; split; assumption).
    rewrite T in H. discriminate. }
  assert (Hin : In (nth j xn 0, nth j lower 0) (combine xn lower)).
  { rewrite <- combine_nth by (symmetry; exact Hl). apply nth_In. rewrite combine_length. lia. }
  specialize (Hall _ Hin). cbn [fst snd oltb ROOps] in Hall. apply Rltb_false in Hall. exact Hall.
Qed.

Section Grow.
  Variable pr : @oc_params R.
  Variable maxvol : R.
  Variables x g : list R.
  Let xn (lam : R) : list R := oc_xnew ROOps pr lam x g.
  Let vol (lam : R) : R := osum ROOps (xn lam).

  (* on exit: the multiplier is l2 * 10^k, xnew is the update at it, and the loop test is false *)
  Lemma grow_invariant fuel : forall l2 l2g xng,
    grow ROOps pr maxvol x g fuel l2 (xn l2) = GrowDone l2g xng ->
    xng = xn l2g /\ (exists k : nat, l2g = l2 * 10 ^ k) /\
    (vol l2g <= maxvol \/ any_above ROOps (xn l2g) (oc_lower ROOps pr x) = false \/ 10 ^ 40 <= l2g).
  Proof.
    induction fuel as [|fuel IH]; intros l2 l2g xng E; cbn [grow] in E;
      cbn [oltb osub omul oten ohuge o0 ROOps] in E; fold (vol l2) in E.
    - destruct (Rltb 0 (vol l2 - maxvol)) eqn:T1; cbn [andb] in E.
      + destruct (any_above ROOps (xn l2) (oc_lower ROOps pr x)) eqn:T2; cbn [andb] in E.
        * destruct (Rltb l2 (10 ^ 40)) eqn:T3; [discriminate|]. apply Rltb_false in T3.
          injection E as <- <-. split; [reflexivity|]. split; [exists 0%nat; cbn; lra | right; right; exact T3].
        * injection E as <- <-. split; [reflexivity|]. split; [exists 0%nat; cbn; lra | right; left; exact T2].
      + apply Rltb_false in T1. injection E as <- <-. split; [reflexivity|]. split; [exists 0%nat; cbn; lra | left; lra].
    - destruct (Rltb 0 (vol l2 - maxvol)) eqn:T1; cbn [andb] in E.
      + destruct (any_above ROOps (xn l2) (oc_lower ROOps pr x)) eqn:T2; cbn [andb] in E.
        * destruct (Rltb l2 (10 ^ 40)) eqn:T3.
          -- fold (xn (l2 * 10)) in E. destruct (IH _ _ _ E) as [I1 [[k I2] I3]].
             split; [exact I1|]. split; [exists (S k); rewrite I2; cbn [pow]; ring | exact I3].
          -- apply Rltb_false in T3. injection E as <- <-. split; [reflexivity|]. split; [exists 0%nat; cbn; lra | right; right; exact T3].
        * injection E as <- <-. split; [reflexivity|]. split; [exists 0%nat; cbn; lra | right; left; exact T2].
      + apply Rltb_false in T1. injection E as <- <-. split; [reflexivity|]. split; [exists 0%nat; cbn; lra | left; lra].
  Qed.

  (* the loop ends after k steps as soon as l2 * 10^k >= 1e40 *)
  Lemma grow_terminates : forall k fuel l2 xn0, 10 ^ 40 <= l2 * 10 ^ k -> (k <= fuel)%nat ->
    grow ROOps pr maxvol x g fuel l2 xn0 <> GrowOutOfFuel.
  Proof.
    induction k as [|k IH]; intros fuel l2 xn0 Hk Hf.
    - cbn in Hk. destruct fuel; cbn [grow]; cbn [oltb ohuge ROOps];
        (destruct (Rltb l2 (10 ^ 40)) eqn:T; [apply Rltb_true in T; lra | rewrite andb_false_r; discriminate]).
    - destruct fuel as [|fuel]; [lia|]. cbn [grow]. cbn [oltb omul oten ohuge ROOps].
      destruct (_ && _ && _); [|discriminate]. apply IH; [|lia].
      replace (l2 * 10 * 10 ^ k) with (l2 * 10 ^ S k) by (cbn [pow]; ring). exact Hk.
  Qed.

  (* whenever the target volume is reachable from below within the move limits (sum of the lower bounds <= maxvol)
     the grown multiplier -- unless it hit 1e40 -- gives a volume <= maxvol: the bisection starts bracketed *)
  Theorem grow_brackets fuel l2 l2g xng : in_box pr x -> 0 <= move pr -> length g = length x ->
    grow ROOps pr maxvol x g fuel l2 (xn l2) = GrowDone l2g xng ->
    osum ROOps (oc_lower ROOps pr x) <= maxvol -> l2g < 10 ^ 40 ->
    xng = xn l2g /\ vol l2g <= maxvol.
  Proof.
    intros Hb Hm Hl E Hreach Hh. destruct (grow_invariant fuel l2 l2g xng E) as [I1 [_ [I3 | [I3 | I3]]]].
    - split; assumption.
    - split; [exact I1|]. apply Rle_trans with (osum ROOps (oc_lower ROOps pr x)); [|exact Hreach].
      apply osum_le.
      + unfold xn. rewrite oc_xnew_length, oc_lower_length by exact Hl. reflexivity.
      + apply any_above_false; [exact I3|]. unfold xn. rewrite oc_xnew_length, oc_lower_length by exact Hl. reflexivity.
    - lra.
  Qed.
End Grow.

Lemma growth_steps_exist (l2 : R) : 0 < l2 -> exists k : nat, 10 ^ 40 <= l2 * 10 ^ k.
Proof.
  intros Hl. set (pr0 := mkParams 0 0 0%nat (BScalar 0) (BScalar 0) 0 0 0 l2 0).
  destruct (halvings_exist pr0 (10 ^ 40) Hl) as [k Hk]. cbn [l1l2tol pr0] in Hk.
  exists k. assert (H2 : 0 < 2 ^ k) by (apply pow_lt; lra).
  assert (H10 : 2 ^ k <= 10 ^ k) by (apply pow_incr; lra).
  assert (10 ^ 40 <= l2 * 2 ^ k).
  { apply Rmult_le_reg_r with (/ 2 ^ k); [apply Rinv_0_lt_compat; exact H2|].
    rewrite Rmult_assoc, Rinv_r by lra. unfold Rdiv in Hk. lra. }
  apply Rle_trans with (l2 * 2 ^ k); [assumption | apply Rmult_le_compat_l; lra].
Qed.

(* one OC step of the repaired code: bracket growing followed by bisection.  If the volume is reachable from below
   within the move limits (sum of max(xmin, x-move) <= maxvol), the multiplier did not hit 1e40, and the lower end
   of the interval moved (the volume is reachable from above inside the interval), the new design is the update at
   one end of a final interval [a, b] of length <= l1l2tol with vol(b) <= maxvol < vol(a), and its volume differs
   from maxvol by at most vol(a) - vol(b) *)
Theorem oc_step_volume (pr : @oc_params R) maxvol (x g : list R) gfuel bfuel l2g xng a b xnew :
  in_box pr x -> 0 <= move pr -> nonneg x -> nonpos g -> length g = length x ->
  0 <= l1l2tol pr -> 0 <= l1init pr <= l2init pr ->
  grow ROOps pr maxvol x g gfuel (l2init pr) (oc_xnew ROOps pr (l2init pr) x g) = GrowDone l2g xng ->
  bisect ROOps pr maxvol x g bfuel (l1init pr) l2g (Some xng) = BisDone a b (Some xnew) ->
  osum ROOps (oc_lower ROOps pr x) <= maxvol -> l2g < 10 ^ 40 -> a <> l1init pr ->
  let vol := fun lam => osum ROOps (oc_xnew ROOps pr lam x g) in
  l1init pr < a <= b /\ b - a <= l1l2tol pr /\
  (xnew = oc_xnew ROOps pr a x g \/ xnew = oc_xnew ROOps pr b x g) /\
  vol b <= maxvol < vol a /\ vol b <= osum ROOps xnew <= vol a /\
  Rabs (osum ROOps xnew - maxvol) <= vol a - vol b.
Proof.
  intros Hb Hm Hx Hg Hlen Htol [H0 H12] Eg Eb Hreach Hh Ha vol.
  destruct (grow_brackets pr maxvol x g gfuel (l2init pr) l2g xng Hb Hm Hlen Eg Hreach Hh) as [Exng Hvol].
  destruct (grow_invariant pr maxvol x g gfuel (l2init pr) l2g xng Eg) as [_ [[k Ek] _]].
  assert (Hl2 : l2init pr <= l2g).
  { rewrite Ek. assert (1 <= 10 ^ k) by (apply pow_R1_Rle; lra).
    assert (0 <= l2init pr) by lra. nra. }
  assert (Hle : l1init pr <= l2g) by lra.
  destruct (bisect_invariant pr maxvol x g Htol bfuel (l1init pr) l2g (Some xng) a b (Some xnew) Hle Eb) as [P1 [P2 [P3 [P4 [_ [P6 [P7 P8]]]]]]].
  destruct P6 as [P6 | P6]; [contradiction|]. fold (vol a) in P6.
  assert (P7' : vol b <= maxvol) by (destruct P7 as [-> | P7]; [exact Hvol | exact P7]).
  assert (Hla : l1init pr < a) by lra.
  assert (Hanti : vol b <= vol a) by (apply volume_antitone; [lra | assumption..]).
  assert (Cases : xnew = oc_xnew ROOps pr a x g \/ xnew = oc_xnew ROOps pr b x g).
  { destruct P8 as [[Ex [Ea _]] | [[Ex _] | [Ex _]]]; [contradiction | injection Ex as ->; left; reflexivity | injection Ex as ->; right; reflexivity]. }
  split; [lra|]. split; [exact P4|]. split; [exact Cases|]. split; [lra|].
  destruct Cases as [-> | ->]; [fold (vol a) | fold (vol b)]; (split; [lra | apply Rabs_le; lra]).
Qed.

(* ------------------------------------------------------------------ the whole run *)
Fixpoint chain (mv : R) (l : list (list R)) : Prop :=
  match l with
  | a :: ((b :: _) as t) => within_move mv a b /\ chain mv t
  | _ => True
  end.

Lemma within_move_refl mv (x : list R) : 0 <= mv -> within_move mv x x.
Proof. intros H. split; [reflexivity|]. intros j _. rewrite Rminus_diag_eq by reflexivity. rewrite Rabs_R0. exact H. Qed.

Section Run.
  Variable pr : @oc_params R.
  Variable obs : nat -> list (pstate R) -> R * list (pstate R).
  Variable maxvol : R.
  Variable bfuel : nat.
  Variables (vars : list (pstate R)) (vals0 : list R) (cum : list Z).
  Hypothesis Hcat : concatenate_to_array vars = Some (vals0, cum).
  Hypothesis Hmove : 0 <= move pr.
  (* the network returns, for every variable, a sensitivity of the size of its state *)
  Hypothesis obs_wf : forall it st g c,
    concatenate_to_array (obtain_sensitivities ROOps (snd (obs it st)) st) = Some (g, c) ->
    length g = length (concat (map pflat st)).

  (* every design the run produces, in order: the design at each response() call and the final one *)
  Definition all_designs (t : oc_trace) : list (list R) := map fst (designs t) ++ [final t].

  Definition good (xval : list R) (states : list (pstate R)) : Prop :=
    length xval = length vals0 /\ in_box pr xval /\ length states = length vars /\
    concat (map pflat states) = xval.

  Definition design_ok (d : list R * list (pstate R)) : Prop :=
    in_box pr (fst d) /\ concat (map pflat (snd d)) = fst d /\ length (snd d) = length vars.

  Lemma write_back_length nv (xn : list R) c : length (write_back nv xn c) = nv.
  Proof. unfold write_back. rewrite map_length, seq_length. reflexivity. Qed.

  Theorem oc_loop_invariant : forall n it xval states f, good xval states ->
    let t := oc_loop ROOps pr obs maxvol bfuel cum n it xval states f in
    Forall design_ok (designs t) /\
    in_box pr (final t) /\ concat (map pflat (final_states t)) = final t /\
    (exists L, all_designs t = xval :: L) /\ chain (move pr) (all_designs t).
  Proof.
    induction n as [|n IH]; intros it xval states f G; destruct G as [G1 [G2 [G3 G4]]].
    - cbn. split; [constructor|]. split; [exact G2|]. split; [exact G4|]. split; [exists []; reflexivity | exact I].
    - cbn zeta. cbn [oc_loop].
      set (fg := obs it states).
      (* every early exit has the same shape *)
      assert (Stop : forall (w : list bool) (s : oc_stop),
                let t := cons_design xval states (mkTrace [] w s xval states) in
                Forall design_ok (designs t) /\ in_box pr (final t) /\ concat (map pflat (final_states t)) = final t /\
                (exists L, all_designs t = xval :: L) /\ chain (move pr) (all_designs t)).
      { intros w s. cbn. split; [constructor; [unfold design_ok; cbn [fst snd]; auto | constructor]|].
        split; [exact G2|]. split; [exact G4|]. split; [exists [xval]; reflexivity|].
        split; [apply within_move_refl; exact Hmove | exact I]. }
      destruct (oltb ROOps _ (tolf pr)); [apply (Stop [] StopTolF)|].
      destruct (concatenate_to_array (obtain_sensitivities ROOps (snd fg) states)) as [[g c]|] eqn:Eg; [|apply (Stop [] StopValueError)].
      assert (Hg : length (clip_grad ROOps g) = length xval).
      { rewrite (proj2 (clip_grad_nonpos g)). rewrite (obs_wf it states g c Eg). rewrite G4. reflexivity. }
      cbn zeta.
      destruct (grow ROOps pr maxvol xval (clip_grad ROOps g) bfuel (l2init pr) (oc_xnew ROOps pr (l2init pr) xval (clip_grad ROOps g))) as [|l2g xng] eqn:Egr.
      { apply (Stop [_] StopOutOfFuel). }
      destruct (bisect ROOps pr maxvol xval (clip_grad ROOps g) bfuel (l1init pr) l2g (Some xng)) as [|a b lst] eqn:Eb.
      { apply (Stop [_] StopOutOfFuel). }
      destruct lst as [xn|]; [|apply (Stop [_] StopUnbound)].
      (* the new design is an OC update of xval for some multiplier (from the growing or the bisection loop) *)
      assert (Hxn : in_box pr xn /\ within_move (move pr) xval xn).
      { assert (Cases : exists lam, xn = oc_xnew ROOps pr lam xval (clip_grad ROOps g)).
        { destruct (grow_invariant pr maxvol xval (clip_grad ROOps g) bfuel (l2init pr) l2g xng Egr) as [Exng _].
          clear -Eb Exng.
          assert (Gen : forall fuel l1 l2 last, bisect ROOps pr maxvol xval (clip_grad ROOps g) fuel l1 l2 last = BisDone a b (Some xn) ->
                        last = Some xn \/ exists lam, xn = oc_xnew ROOps pr lam xval (clip_grad ROOps g)).
          { induction fuel as [|fuel IHf]; intros l1 l2 last E; cbn [bisect] in E.
            - destruct (oltb ROOps _ _); [discriminate|]. injection E as _ _ ->. left. reflexivity.
            - destruct (oltb ROOps _ _); [|injection E as _ _ ->; left; reflexivity].
              destruct (_ || _); [injection E as _ _ ->; left; reflexivity|].
              destruct (oltb ROOps _ _); (destruct (IHf _ _ _ E) as [H | H]; [right; eexists; injection H as <-; reflexivity | right; exact H]). }
          destruct (Gen _ _ _ _ Eb) as [H | H]; [|exact H].
          injection H as <-. eexists. exact Exng. }
        destruct Cases as [lam ->]. apply oc_xnew_box; assumption. }
      destruct Hxn as [Hbox Hmv].
      destruct (oltb ROOps _ (tolx pr)); [apply (Stop [_] StopTolX)|].
      assert (Hlen : length xn = length vals0) by (rewrite (proj1 Hmv); exact G1).
      pose proof (write_back_roundtrip vars vals0 cum xn Hcat Hlen) as [Wb1 _].
      assert (G' : good xn (write_back (length states) xn cum)).
      { rewrite G3. unfold good. split; [exact Hlen|]. split; [exact Hbox|]. split; [apply write_back_length | exact Wb1]. }
      specialize (IH (S it) xn (write_back (length states) xn cum) (fst fg) G').
      cbn zeta in IH. destruct IH as [I1 [I2 [I3 [[L I4] I5]]]].
      set (rec := oc_loop ROOps pr obs maxvol bfuel cum n (S it) xn (write_back (length states) xn cum) (fst fg)) in *.
      cbn [cons_design cons_warn designs final final_states warns stop].
      split; [constructor; [unfold design_ok; cbn [fst snd]; auto | exact I1]|].
      split; [exact I2|]. split; [exact I3|].
      unfold all_designs in *. cbn [designs cons_design cons_warn final map app fst].
      split; [eexists; reflexivity|].
      rewrite I4 in *. cbn [chain]. split; [exact Hmv | exact I5].
  Qed.
End Run.

(* minimize_oc as a whole: every design it produces lies in the box, consecutive designs differ by at most
   the move limit in every entry, and at every response() call the variable signals hold exactly the pieces
   of the current design (write-back to the right signals) *)
Theorem minimize_oc_invariant (pr : @oc_params R) obs maxvol bfuel vars t :
  0 <= move pr ->
  (forall it st g c, concatenate_to_array (obtain_sensitivities ROOps (snd (obs it st)) st) = Some (g, c) ->
                     length g = length (concat (map pflat st))) ->
  in_box pr (concat (map pflat vars)) ->
  minimize_oc ROOps pr obs maxvol bfuel vars = Some t ->
  Forall (design_ok pr vars) (designs t) /\
  Forall (in_box pr) (all_designs t) /\ chain (move pr) (all_designs t) /\
  concat (map pflat (final_states t)) = final t /\
  hd_error (all_designs t) = Some (concat (map pflat vars)).
Proof.
  intros Hm Hobs Hbox. unfold minimize_oc.
  destruct (concatenate_to_array vars) as [[vals0 cum]|] eqn:Hcat; [|discriminate].
  intros E. injection E as <-.
  assert (Hv : vals0 = concat (map pflat vars)).
  { rewrite concatenate_spec in Hcat. destruct (no_none vars); [|discriminate]. injection Hcat as <- _. reflexivity. }
  assert (G : good pr vars vals0 vals0 vars).
  { unfold good. split; [reflexivity|]. split; [rewrite Hv; exact Hbox|]. split; [reflexivity | symmetry; exact Hv]. }
  change (o0 ROOps) with 0.
  match goal with |- context [oc_loop ROOps pr obs ?m bfuel cum (maxit pr) 0%nat vals0 vars 0] => set (mv := m) end.
  pose proof (oc_loop_invariant pr obs mv bfuel vars vals0 cum Hcat Hm Hobs
                (maxit pr) 0%nat vals0 vars 0 G) as [I1 [I2 [I3 [[L I4] I5]]]].
  split; [exact I1|]. split.
  - unfold all_designs in *. apply Forall_app. split; [|constructor; [exact I2 | constructor]].
    apply Forall_map. eapply Forall_impl; [|exact I1]. intros d [H _]. exact H.
  - split; [exact I5|]. split; [exact I3|]. rewrite I4, Hv. reflexivity.
Qed.

(* ------------------------------------------------------------------ fixed point for  f = sum c_i / x_i *)
Lemma osum_map_scale (k : R) (f : R -> R) (c : list R) :
  osum ROOps (map (fun ci => k * f ci) c) = k * fold_right Rplus 0 (map f c).
Proof. induction c as [|a c IH]; cbn [map fold_right]; [unfold osum; cbn; lra|]. rewrite osum_cons, IH. lra. Qed.

Lemma sum_sqrt_pos (c : list R) : (forall ci, In ci c -> 0 < ci) -> c <> [] -> 0 < fold_right Rplus 0 (map sqrt c).
Proof.
  intros Hc Hne. destruct c as [|a c]; [congruence|]. cbn [map fold_right].
  assert (0 < sqrt a) by (apply sqrt_lt_R0, Hc; left; reflexivity).
  assert (0 <= fold_right Rplus 0 (map sqrt c)).
  { clear -Hc. induction c as [|b c IH]; cbn; [lra|].
    assert (0 <= sqrt b) by apply sqrt_pos.
    assert (0 <= fold_right Rplus 0 (map sqrt c)) by (apply IH; intros ci Hi; apply Hc; destruct Hi; [left; assumption | right; right; assumption]).
    lra. }
  lra.
Qed.

(* the analytic optimum x*_i = V sqrt(c_i) / sum_j sqrt(c_j) of  min sum c_i/x_i  s.t. sum x_i = V  is a fixed
   point of the update with multiplier (sum_j sqrt(c_j) / V)^2, and it has volume V *)
Theorem oc_fixed_point (pr : @oc_params R) (c : list R) (V : R) :
  (forall ci, In ci c -> 0 < ci) -> c <> [] -> 0 < V -> 0 <= move pr ->
  let S := fold_right Rplus 0 (map sqrt c) in
  let xs := map (fun ci => V / S * sqrt ci) c in
  let g := map (fun ci => - ci / (V / S * sqrt ci) ^ 2) c in
  in_box pr xs ->
  oc_xnew ROOps pr ((S / V) ^ 2) xs g = xs /\ osum ROOps xs = V.
Proof.
  intros Hc Hne HV Hm S xs g Hbox.
  assert (HS : 0 < S) by (apply sum_sqrt_pos; assumption).
  assert (Lx : length xs = length c) by (unfold xs; apply map_length).
  assert (Lg : length g = length xs) by (unfold g, xs; rewrite !map_length; reflexivity).
  split.
  - apply nth_ext with (d := 0) (d' := 0); [apply oc_xnew_length; exact Lg|].
    intros j Hj. rewrite oc_xnew_length in Hj by exact Lg. rewrite oc_xnew_nth by assumption.
    apply oc_elem_fixed; [apply Hbox; exact Hj | exact Hm|].
    assert (Hjc : (j < length c)%nat) by lia.
    unfold xs, g. rewrite (nth_map_in (fun ci => V / S * sqrt ci) c j 0 0 Hjc).
    rewrite (nth_map_in (fun ci => - ci / (V / S * sqrt ci) ^ 2) c j 0 0 Hjc).
    set (ci := nth j c 0). assert (Hci : 0 < ci) by (apply Hc, nth_In; exact Hjc).
    set (s := sqrt ci). assert (Hs : 0 < s) by (apply sqrt_lt_R0; exact Hci).
    assert (Ess : ci = s * s) by (unfold s; rewrite sqrt_sqrt; lra).
    replace (- (- ci / (V / S * s) ^ 2) / (S / V) ^ 2) with 1.
    + rewrite sqrt_1. lra.
    + rewrite Ess. field. repeat split; lra.
  - unfold xs. rewrite (osum_map_scale (V / S) sqrt c). fold S. field. lra.
Qed.

(* ------------------------------------------------------------------ non-vacuity witnesses *)
Lemma default_step_count : (100000 - 0) / 2 ^ 30 <= 1 / 10000.
Proof. cbn [pow]. lra. Qed.

From Coq Require Import PrimFloat.
(* objective sum c_i / x_i, c = (1, 4, 9), evaluated in binary64 on the states of the variable signals *)
Definition demo_c : list float := [1; 4; 9]%float.
Definition demo_obs (it : nat) (st : list (pstate float)) : float * list (pstate float) :=
  match concatenate_to_array st with
  | Some (xv, cum) =>
      (fold_left PrimFloat.add (map (fun q => (fst q / snd q)%float) (combine demo_c xv)) 0%float,
       write_back (length st) (map (fun q => (- (fst q) / (snd q * snd q))%float) (combine demo_c xv)) cum)
  | None => (0%float, [])
  end.
Definition demo_vars : list (pstate float) := [PScalar 0.5%float; PArray [0.5; 0.5]%float].
Definition demo_params : @oc_params float :=
  mkParams (tolx default_params_float) (tolf default_params_float) 3 (bmin default_params_float) (bmax default_params_float)
           (move default_params_float) (l1init default_params_float) (l2init default_params_float)
           (l1l2tol default_params_float) (warn_eps default_params_float).

Lemma demo_run :
  exists t, minimize_oc FloatOOps demo_params demo_obs None 200 demo_vars = Some t /\
            stop t = StopTolX /\ length (designs t) = 3%nat /\ length (final t) = 3%nat /\
            warns t = [false; false; false].
Proof. eexists. split; [vm_compute; reflexivity|]. vm_compute. repeat split; reflexivity. Qed.
