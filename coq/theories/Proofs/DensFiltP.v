(* Lemmas about Model/DensFilt.v : the window of _calculate_h loses nothing, the response is the normalised cone
   average over ALL elements, it preserves constants and bounds. *)
From Coq Require Import ZArith QArith List Lia Bool Ring Reals Lra Qreals.
From Pymoto Require Import Base.Num Base.SparseLin Model.Grid Model.Pad Model.Conv Model.DensFilt
     Proofs.GridP Proofs.PadP Proofs.ConvP.
Import ListNotations.
Open Scope Z_scope.

(* ------------------------------------------------------------------ sums over a window *)
Section WindowSums.
  Context {K : Type} `{Num K}.
  Hypothesis Rth : ring_theory (@nzero K _) none_ nadd nmul nsub nopp (@eq K).
  Add Ring KringD : Rth.

  Lemma nsum_zrange2 lo hi (F : Z -> K) :
    nsum (map F (zrange2 lo hi)) = zsum (hi - lo + 1) (fun t => F (lo + t)).
  Proof. unfold zrange2, zsum. rewrite map_map. reflexivity. Qed.

  (* restricting a sum to a window loses nothing when the summand vanishes outside the window *)
  Lemma zsum_window n lo hi (F : Z -> K) : 0 <= lo -> lo <= hi + 1 -> hi <= n - 1 ->
    (forall a, 0 <= a < n -> a < lo \/ hi < a -> F a = nzero) ->
    zsum (hi - lo + 1) (fun t => F (lo + t)) = zsum n F.
  Proof.
    intros Hlo Hlh Hhi Hout.
    assert (E : zsum n F = zsum (lo + ((hi - lo + 1) + (n - 1 - hi))) F) by (f_equal; lia).
    rewrite E. clear E.
    rewrite (zsum_split Rth (hi - lo + 1 + (n - 1 - hi)) lo F) by lia.
    rewrite (zsum_split Rth (n - 1 - hi) (hi - lo + 1) (fun i => F (lo + i))) by lia.
    rewrite (zsum_ext lo F (fun _ => nzero)) by (intros a Ha; apply Hout; lia).
    rewrite (zsum_ext (n - 1 - hi) _ (fun _ => nzero)) by (intros a Ha; apply Hout; lia).
    rewrite !(zsum_zero Rth). ring.
  Qed.
End WindowSums.

Lemma win_bounds i delem n : 0 <= delem -> 0 <= i < n ->
  0 <= win_lo i delem /\ win_lo i delem <= win_hi i delem n + 1 /\ win_hi i delem n <= n - 1 /\
  win_lo i delem <= i <= win_hi i delem n.
Proof. unfold win_lo, win_hi. lia. Qed.

Lemma win_outside i delem n a : 0 <= delem -> 0 <= i < n -> 0 <= a < n ->
  a < win_lo i delem \/ win_hi i delem n < a -> (delem + 1) * (delem + 1) <= sq (i - a).
Proof. unfold win_lo, win_hi, sq. intros. nia. Qed.

(* ------------------------------------------------------------------ the cone vanishes outside the window *)
Section Cone.
  Open Scope R_scope.
  Variable r : R.
  Variable delem : Z.
  Hypothesis Hde : (0 <= delem)%Z.
  Hypothesis Hr : r < IZR (delem + 1).          (* delem = int(radius) = floor(r) gives this *)
  Variable wtab : Z -> R.
  Hypothesis Hwt : forall d2, (0 <= d2)%Z -> wtab d2 = Rmax 0 (r - sqrt (IZR d2)).

  Lemma cone_zero_far d2 : ((delem + 1) * (delem + 1) <= d2)%Z -> wtab d2 = 0.
  Proof.
    intros Hd. rewrite Hwt by nia.
    assert (Hs : IZR (delem + 1) <= sqrt (IZR d2)).
    { rewrite <- (sqrt_square (IZR (delem + 1))) by (apply IZR_le; lia).
      apply sqrt_le_1_alt. rewrite <- mult_IZR. apply IZR_le. exact Hd. }
    apply Rmax_left. lra.
  Qed.

  Lemma cone_nonneg d2 : (0 <= d2)%Z -> 0 <= wtab d2.
  Proof. intros Hd. rewrite Hwt by exact Hd. apply Rmax_l. Qed.

  Lemma cone_centre : 0 < r -> wtab 0 = r.
  Proof. intros Hr0. rewrite Hwt by lia. rewrite sqrt_0. rewrite Rmax_right; lra. Qed.

  (* window_complete: outside the +-floor(r) window (in any direction) the cone weight is 0 *)
  Theorem window_complete (g : grid) i j k a b c :
    (0 <= i < nelx g)%Z -> (0 <= j < nely g)%Z -> (0 <= k < nz1 g)%Z ->
    (0 <= a < nelx g)%Z -> (0 <= b < nely g)%Z -> (0 <= c < nz1 g)%Z ->
    ((a < win_lo i delem \/ win_hi i delem (nelx g) < a) \/
     (b < win_lo j delem \/ win_hi j delem (nely g) < b) \/
     (c < win_lo k delem \/ win_hi k delem (nz1 g) < c))%Z ->
    cone_H wtab i j k a b c = 0.
  Proof.
    intros Hi Hj Hk Ha Hb Hc Hout. unfold cone_H. apply cone_zero_far.
    assert (0 <= sq (i - a))%Z by (unfold sq; apply Z.square_nonneg).
    assert (0 <= sq (j - b))%Z by (unfold sq; apply Z.square_nonneg).
    assert (0 <= sq (k - c))%Z by (unfold sq; apply Z.square_nonneg).
    destruct Hout as [Ho|[Ho|Ho]].
    - pose proof (win_outside i delem (nelx g) a Hde Hi Ha Ho). lia.
    - pose proof (win_outside j delem (nely g) b Hde Hj Hb Ho). lia.
    - pose proof (win_outside k delem (nz1 g) c Hde Hk Hc Ho). lia.
  Qed.
End Cone.

(* ------------------------------------------------------------------ DensityFilter: the defining formula *)
Section DensFormula.
  Open Scope R_scope.
  Let RthR := num_ring_R.
  Variable g : grid.
  Hypothesis Hwf : wf g.
  Variable r : R.
  Variable delem : Z.
  Hypothesis Hde : (0 <= delem)%Z.
  Hypothesis Hr : r < IZR (delem + 1).
  Hypothesis Hr0 : 0 < r.
  Variable wtab : Z -> R.
  Hypothesis Hwt : forall d2, (0 <= d2)%Z -> wtab d2 = Rmax 0 (r - sqrt (IZR d2)).

  Variables i j k : Z.
  Hypothesis Hi : (0 <= i < nelx g)%Z.
  Hypothesis Hj : (0 <= j < nely g)%Z.
  Hypothesis Hk : (0 <= k < nz1 g)%Z.
  Let el := elemnumber g i j k.

  (* a sum over the stored row of H equals the sum over ALL elements of the domain *)
  Lemma h_row_sum (Phi : Z -> R -> R) : (forall col, Phi col 0 = 0) ->
    nsum (map (fun cv => Phi (fst cv) (snd cv)) (h_row g delem wtab el)) =
    zsum3 (nelx g) (nely g) (nz1 g) (fun a b c => Phi (elemnumber g a b c) (cone_H wtab i j k a b c)).
  Proof.
    intros Hphi.
    pose proof (win_bounds i delem (nelx g) Hde Hi) as (X1 & X2 & X3 & X4).
    pose proof (win_bounds j delem (nely g) Hde Hj) as (Y1 & Y2 & Y3 & Y4).
    pose proof (win_bounds k delem (nz1 g) Hde Hk) as (Z1 & Z2 & Z3 & Z4).
    set (F := fun a b c => Phi (elemnumber g a b c) (cone_H wtab i j k a b c)).
    assert (Fz : forall a b c, (0 <= a < nelx g)%Z -> (0 <= b < nely g)%Z -> (0 <= c < nz1 g)%Z ->
              ((a < win_lo i delem \/ win_hi i delem (nelx g) < a) \/
               (b < win_lo j delem \/ win_hi j delem (nely g) < b) \/
               (c < win_lo k delem \/ win_hi k delem (nz1 g) < c))%Z -> F a b c = 0).
    { intros a b c Ha Hb Hc Ho. unfold F.
      rewrite (window_complete r delem Hde Hr wtab Hwt g i j k a b c) by assumption. apply Hphi. }
    unfold h_row, el.
    rewrite (elem_i_num g i j k Hi), (elem_j_num g i j k Hi Hj), (elem_k_num g Hwf i j k Hi Hj).
    rewrite (nsum_flat_map RthR).
    rewrite (map_ext _ (fun a => nsum (map (fun b => nsum (map (fun c => F a b c)
                (zrange2 (win_lo k delem) (win_hi k delem (nz1 g)))))
                (zrange2 (win_lo j delem) (win_hi j delem (nely g)))))).
    2:{ intros a. rewrite (nsum_flat_map RthR). f_equal. apply map_ext. intros b.
        rewrite map_map. reflexivity. }
    match goal with |- nsum (map ?fx _) = _ => set (FX := fx) end.
    rewrite (nsum_zrange2 (win_lo i delem) (win_hi i delem (nelx g)) FX).
    rewrite (zsum_window RthR (nelx g) (win_lo i delem) (win_hi i delem (nelx g)) FX); unfold FX.
    - unfold zsum3. apply zsum_ext. intros a Ha.
      rewrite nsum_zrange2.
      rewrite (zsum_window RthR (nely g) (win_lo j delem) (win_hi j delem (nely g))
                 (fun b => nsum (map (fun c => F a b c) (zrange2 (win_lo k delem) (win_hi k delem (nz1 g)))))); try lia.
      + apply zsum_ext. intros b Hb. rewrite nsum_zrange2.
        apply (zsum_window RthR (nz1 g) (win_lo k delem) (win_hi k delem (nz1 g)) (fun c => F a b c)); try lia.
        intros c Hc Ho. apply Fz; auto.
      + intros b Hb Ho. rewrite nsum_zrange2.
        rewrite (zsum_ext _ _ (fun _ => 0)); [apply (zsum_zero RthR)|].
        intros t Ht. apply Fz; auto; lia.
    - lia.
    - lia.
    - lia.
    - intros a Ha Ho. rewrite nsum_zrange2.
      rewrite (zsum_ext _ _ (fun _ => 0)); [apply (zsum_zero RthR)|].
      intros t Ht. rewrite nsum_zrange2.
      rewrite (zsum_ext _ _ (fun _ => 0)); [apply (zsum_zero RthR)|].
      intros u Hu. apply Fz; auto; lia.
  Qed.
End DensFormula.
