(* Lemmas about Model/DensFilt.v : the window of _calculate_h loses nothing, the response is the normalised cone
   average over ALL elements, it preserves constants and bounds. *)
From Coq Require Import ZArith QArith List Lia Bool Ring Reals Lra Qreals.
From Pymoto Require Import Base.Num Base.SparseLin Model.Grid Model.Pad Model.Conv Model.DensFilt
     Proofs.GridP Proofs.PadP Proofs.ConvP.
Import ListNotations.
Open Scope Z_scope.

(* ------------------------------------------------------------------ sums over a window *)
Section WindowSums.
  Context {K : Type} `{Num K}.
  Hypothesis Rth : ring_theory (@nzero K _) none_ nadd nmul nsub nopp (@eq K).
  Add Ring KringD : Rth.

  Lemma nsum_zrange2 lo hi (F : Z -> K) :
    nsum (map F (zrange2 lo hi)) = zsum (hi - lo + 1) (fun t => F (lo + t)).
  Proof. unfold zrange2, zsum. rewrite map_map. reflexivity. Qed.

  (* restricting a sum to a window loses nothing when the summand vanishes outside the window *)
  Lemma zsum_window n lo hi (F : Z -> K) : 0 <= lo -> lo <= hi + 1 -> hi <= n - 1 ->
    (forall a, 0 <= a < n -> a < lo \/ hi < a -> F a = nzero) ->
    zsum (hi - lo + 1) (fun t => F (lo + t)) = zsum n F.
  Proof.
    intros Hlo Hlh Hhi Hout.
    assert (E : zsum n F = zsum (lo + ((hi - lo + 1) + (n - 1 - hi))) F) by (f_equal; lia).
    rewrite E. clear E.
    rewrite (zsum_split Rth (hi - lo + 1 + (n - 1 - hi)) lo F) by lia.
    rewrite (zsum_split Rth (n - 1 - hi) (hi - lo + 1) (fun i => F (lo + i))) by lia.
    rewrite (zsum_ext lo F (fun _ => nzero)) by (intros a Ha; apply Hout; lia).
    rewrite (zsum_ext (n - 1 - hi) _ (fun _ => nzero)) by (intros a Ha; apply Hout; lia).
    rewrite !(zsum_zero Rth). ring.
  Qed.
End WindowSums.

Lemma win_bounds i delem n : 0 <= delem -> 0 <= i < n ->
  0 <= win_lo i delem /\ win_lo i delem <= win_hi i delem n + 1 /\ win_hi i delem n <= n - 1 /\
  win_lo i delem <= i <= win_hi i delem n.
Proof. unfold win_lo, win_hi. lia. Qed.

Lemma win_outside i delem n a : 0 <= delem -> 0 <= i < n -> 0 <= a < n ->
  a < win_lo i delem \/ win_hi i delem n < a -> (delem + 1) * (delem + 1) <= sq (i - a).
Proof. unfold win_lo, win_hi, sq. intros. nia. Qed.

(* ------------------------------------------------------------------ the cone vanishes outside the window *)
Section Cone.
  Open Scope R_scope.
  Variable r : R.
  Variable delem : Z.
  Hypothesis Hde : (0 <= delem)%Z.
  Hypothesis Hr : r < IZR (delem + 1).          (* delem = int(radius) = floor(r) gives this *)
  Variable wtab : Z -> R.
  Hypothesis Hwt : forall d2, (0 <= d2)%Z -> wtab d2 = Rmax 0 (r - sqrt (IZR d2)).

  Lemma cone_zero_far d2 : ((delem + 1) * (delem + 1) <= d2)%Z -> wtab d2 = 0.
  Proof.
    intros Hd. rewrite Hwt by nia.
    assert (Hs : IZR (delem + 1) <= sqrt (IZR d2)).
    { rewrite <- (sqrt_square (IZR (delem + 1))) by (apply IZR_le; lia).
      apply sqrt_le_1_alt. rewrite <- mult_IZR. apply IZR_le. exact Hd. }
    apply Rmax_left. lra.
  Qed.

  Lemma cone_nonneg d2 : (0 <= d2)%Z -> 0 <= wtab d2.
  Proof. intros Hd. rewrite Hwt by exact Hd. apply Rmax_l. Qed.

  Lemma cone_centre : 0 < r -> wtab 0 = r.
  Proof. intros Hr0. rewrite Hwt by lia. rewrite sqrt_0. rewrite Rmax_right; lra. Qed.

  (* window_complete: outside the +-floor(r) window (in any direction) the cone weight is 0 *)
  Theorem window_complete (g : grid) i j k a b c :
    (0 <= i < nelx g)%Z -> (0 <= j < nely g)%Z -> (0 <= k < nz1 g)%Z ->
    (0 <= a < nelx g)%Z -> (0 <= b < nely g)%Z -> (0 <= c < nz1 g)%Z ->
    ((a < win_lo i delem \/ win_hi i delem (nelx g) < a) \/
     (b < win_lo j delem \/ win_hi j delem (nely g) < b) \/
     (c < win_lo k delem \/ win_hi k delem (nz1 g) < c))%Z ->
    cone_H wtab i j k a b c = 0.
  Proof.
    intros Hi Hj Hk Ha Hb Hc Hout. unfold cone_H. apply cone_zero_far.
    assert (0 <= sq (i - a))%Z by (unfold sq; apply Z.square_nonneg).
    assert (0 <= sq (j - b))%Z by (unfold sq; apply Z.square_nonneg).
    assert (0 <= sq (k - c))%Z by (unfold sq; apply Z.square_nonneg).
    destruct Hout as [Ho|[Ho|Ho]].
    - pose proof (win_outside i delem (nelx g) a Hde Hi Ha Ho). lia.
    - pose proof (win_outside j delem (nely g) b Hde Hj Hb Ho). lia.
    - pose proof (win_outside k delem (nz1 g) c Hde Hk Hc Ho). lia.
  Qed.
End Cone.

(* ------------------------------------------------------------------ DensityFilter: the defining formula *)
Section DensFormula.
  Open Scope R_scope.
  Let RthR := num_ring_R.
  Variable g : grid.
  Hypothesis Hwf : wf g.
  Variable r : R.
  Variable delem : Z.
  Hypothesis Hde : (0 <= delem)%Z.
  Hypothesis Hr : r < IZR (delem + 1).
  Hypothesis Hr0 : 0 < r.
  Variable wtab : Z -> R.
  Hypothesis Hwt : forall d2, (0 <= d2)%Z -> wtab d2 = Rmax 0 (r - sqrt (IZR d2)).

  Variables i j k : Z.
  Hypothesis Hi : (0 <= i < nelx g)%Z.
  Hypothesis Hj : (0 <= j < nely g)%Z.
  Hypothesis Hk : (0 <= k < nz1 g)%Z.
  Let el := elemnumber g i j k.

  (* a sum over the stored row of H equals the sum over ALL elements of the domain *)
  Lemma h_row_sum (Phi : Z -> R -> R) : (forall col, Phi col 0 = 0) ->
    nsum (map (fun cv => Phi (fst cv) (snd cv)) (h_row g delem wtab el)) =
    zsum3 (nelx g) (nely g) (nz1 g) (fun a b c => Phi (elemnumber g a b c) (cone_H wtab i j k a b c)).
  Proof.
    intros Hphi.
    pose proof (win_bounds i delem (nelx g) Hde Hi) as (X1 & X2 & X3 & X4).
    pose proof (win_bounds j delem (nely g) Hde Hj) as (Y1 & Y2 & Y3 & Y4).
    pose proof (win_bounds k delem (nz1 g) Hde Hk) as (Z1 & Z2 & Z3 & Z4).
    set (F := fun a b c => Phi (elemnumber g a b c) (cone_H wtab i j k a b c)).
    assert (Fz : forall a b c, (0 <= a < nelx g)%Z -> (0 <= b < nely g)%Z -> (0 <= c < nz1 g)%Z ->
              ((a < win_lo i delem \/ win_hi i delem (nelx g) < a) \/
               (b < win_lo j delem \/ win_hi j delem (nely g) < b) \/
               (c < win_lo k delem \/ win_hi k delem (nz1 g) < c))%Z -> F a b c = 0).
    { intros a b c Ha Hb Hc Ho. unfold F.
      rewrite (window_complete r delem Hde Hr wtab Hwt g i j k a b c) by assumption. apply Hphi. }
    unfold h_row, el.
    rewrite (elem_i_num g i j k Hi), (elem_j_num g i j k Hi Hj), (elem_k_num g Hwf i j k Hi Hj).
    rewrite (nsum_flat_map RthR).
    rewrite (map_ext _ (fun a => nsum (map (fun b => nsum (map (fun c => F a b c)
                (zrange2 (win_lo k delem) (win_hi k delem (nz1 g)))))
                (zrange2 (win_lo j delem) (win_hi j delem (nely g)))))).
    2:{ intros a. rewrite (nsum_flat_map RthR). f_equal. apply map_ext. intros b.
        rewrite map_map. reflexivity. }
    match goal with |- nsum (map ?fx _) = _ => set (FX := fx) end.
    rewrite (nsum_zrange2 (win_lo i delem) (win_hi i delem (nelx g)) FX).
    rewrite (zsum_window RthR (nelx g) (win_lo i delem) (win_hi i delem (nelx g)) FX); unfold FX.
    - unfold zsum3. apply zsum_ext. intros a Ha.
      rewrite nsum_zrange2.
      rewrite (zsum_window RthR (nely g) (win_lo j delem) (win_hi j delem (nely g))
                 (fun b => nsum (map (fun c => F a b c) (zrange2 (win_lo k delem) (win_hi k delem (nz1 g)))))); try lia.
      + apply zsum_ext. intros b Hb. rewrite nsum_zrange2.
        apply (zsum_window RthR (nz1 g) (win_lo k delem) (win_hi k delem (nz1 g)) (fun c => F a b c)); try lia.
        intros c Hc Ho. apply Fz; auto.
      + intros b Hb Ho. rewrite nsum_zrange2.
        rewrite (zsum_ext _ _ (fun _ => 0)); [apply (zsum_zero RthR)|].
        intros t Ht. apply Fz; auto; lia.
    - lia.
    - lia.
    - lia.
    - intros a Ha Ho. rewrite nsum_zrange2.
      rewrite (zsum_ext _ _ (fun _ => 0)); [apply (zsum_zero RthR)|].
      intros t Ht. rewrite nsum_zrange2.
      rewrite (zsum_ext _ _ (fun _ => 0)); [apply (zsum_zero RthR)|].
      intros u Hu. apply Fz; auto; lia.
  Qed.

  Let Hfull (a b c : Z) : R := cone_H wtab i j k a b c.
  Let Ssum : R := zsum3 (nelx g) (nely g) (nz1 g) Hfull.

  Lemma el_range : (0 <= el < nel g)%Z.
  Proof. apply elem_range; assumption. Qed.

  Lemma dens_Hx_full (x : list R) :
    dens_Hx g delem wtab x el =
    zsum3 (nelx g) (nely g) (nz1 g) (fun a b c => Hfull a b c * zget x (elemnumber g a b c)).
  Proof.
    unfold dens_Hx. change (@nmul R NumR) with Rmult.
    rewrite (h_row_sum (fun col v => v * zget x col)) by (intros; ring). reflexivity.
  Qed.

  Lemma rowsum_full : rowsum g delem wtab el = Ssum.
  Proof.
    unfold rowsum.
    rewrite (map_ext snd (fun cv : Z * R => (fun (_ : Z) (v : R) => v) (fst cv) (snd cv))) by reflexivity.
    rewrite (h_row_sum (fun _ v => v)) by reflexivity. reflexivity.
  Qed.

  Lemma Hfull_nonneg a b c : 0 <= Hfull a b c.
  Proof.
    unfold Hfull, cone_H. apply (cone_nonneg r wtab Hwt).
    assert (0 <= sq (i - a))%Z by (unfold sq; apply Z.square_nonneg).
    assert (0 <= sq (j - b))%Z by (unfold sq; apply Z.square_nonneg).
    assert (0 <= sq (k - c))%Z by (unfold sq; apply Z.square_nonneg). lia.
  Qed.

  (* the row sum is positive: the diagonal entry is r > 0 *)
  Lemma Ssum_pos : 0 < Ssum.
  Proof.
    assert (Hc : Hfull i j k = r).
    { unfold Hfull, cone_H, sq. replace ((i - i) * (i - i) + (j - j) * (j - j) + (k - k) * (k - k))%Z with 0%Z by ring.
      apply (cone_centre r wtab Hwt Hr0). }
    pose proof (zsum3R_le (nelx g) (nely g) (nz1 g)
                  (fun a b c => if (a =? i)%Z && (b =? j)%Z && (c =? k)%Z then Hfull a b c else @nzero R NumR) Hfull) as L.
    rewrite (zsum3_single num_ring_R (nelx g) (nely g) (nz1 g) i j k Hfull) in L by assumption.
    fold Ssum in L. rewrite Hc in L. apply Rlt_le_trans with (1 := Hr0). apply L.
    intros a b c _ _ _. destruct ((a =? i)%Z && (b =? j)%Z && (c =? k)%Z); [apply Rle_refl | apply Hfull_nonneg].
  Qed.

  (* the response entry of element el, for any nonpadding option *)
  Lemma dens_response_at kmax nonpad (x : list R) :
    zget (dens_response g delem wtab kmax nonpad x) el =
    zsum3 (nelx g) (nely g) (nz1 g) (fun a b c => Hfull a b c * zget x (elemnumber g a b c)) /
    dens_Hs g delem wtab kmax nonpad el.
  Proof.
    pose proof el_range as He. unfold dens_response, zget at 1. cbv zeta.
    rewrite nth_map_zrange by exact He. change (@ndiv R NumR) with Rdiv.
    rewrite dens_Hx_full. reflexivity.
  Qed.

  (* C09 cone formula: y_i = sum_j H_ij x_j / sum_j H_ij with H_ij = max(0, r - dist(i,j)) for ALL pairs *)
  Theorem dens_cone_formula kmax (x : list R) :
    zget (dens_response g delem wtab kmax None x) el =
    zsum3 (nelx g) (nely g) (nz1 g) (fun a b c =>
        Rmax 0 (r - sqrt (IZR (sq (i - a) + sq (j - b) + sq (k - c)))) * zget x (elemnumber g a b c)) /
    zsum3 (nelx g) (nely g) (nz1 g) (fun a b c => Rmax 0 (r - sqrt (IZR (sq (i - a) + sq (j - b) + sq (k - c))))).
  Proof.
    rewrite dens_response_at. unfold dens_Hs, dens_Hs_of. rewrite rowsum_full. unfold Ssum.
    assert (E : forall a b c, Hfull a b c = Rmax 0 (r - sqrt (IZR (sq (i - a) + sq (j - b) + sq (k - c))))).
    { intros a b c. unfold Hfull, cone_H. apply Hwt.
      assert (0 <= sq (i - a))%Z by (unfold sq; apply Z.square_nonneg).
      assert (0 <= sq (j - b))%Z by (unfold sq; apply Z.square_nonneg).
      assert (0 <= sq (k - c))%Z by (unfold sq; apply Z.square_nonneg). lia. }
    f_equal; apply zsum3_ext; intros a b c _ _ _; rewrite E; reflexivity.
  Qed.

  (* the same holds for the elements listed in nonpadding *)
  Theorem dens_nonpadding_member kmax l (x : list R) : zmem el l = true ->
    zget (dens_response g delem wtab kmax (Some l) x) el = zget (dens_response g delem wtab kmax None x) el.
  Proof.
    intros Hm. rewrite !dens_response_at. unfold dens_Hs, dens_Hs_of. rewrite Hm. reflexivity.
  Qed.

  (* convex combination: bounds and constants (normalisation by the own row sum, i.e. no nonpadding) *)
  Theorem dens_bounds kmax (x : list R) lo hi :
    (forall e, (0 <= e < nel g)%Z -> lo <= zget x e <= hi) ->
    lo <= zget (dens_response g delem wtab kmax None x) el <= hi.
  Proof.
    intros Hb. rewrite dens_response_at. unfold dens_Hs, dens_Hs_of. rewrite rowsum_full.
    pose proof Ssum_pos as HS.
    pose proof (zsum3R_convex (nelx g) (nely g) (nz1 g) Hfull (fun a b c => zget x (elemnumber g a b c)) lo hi
                  (fun a b c _ _ _ => Hfull_nonneg a b c)) as Hc.
    fold Ssum in Hc.
    assert (Hv : forall a b c, (0 <= a < nelx g)%Z -> (0 <= b < nely g)%Z -> (0 <= c < nz1 g)%Z ->
                 lo <= zget x (elemnumber g a b c) <= hi).
    { intros a b c Ha Hb' Hc'. apply Hb. apply elem_range; assumption. }
    specialize (Hc Hv). cbv beta in Hc.
    set (N := zsum3 (nelx g) (nely g) (nz1 g) (fun a b c => Hfull a b c * zget x (elemnumber g a b c))) in *.
    assert (Hinv : 0 < / Ssum) by (apply Rinv_0_lt_compat; exact HS).
    assert (E : Ssum * / Ssum = 1) by (field; lra).
    unfold Rdiv. split.
    - replace lo with (lo * Ssum * / Ssum) by (rewrite Rmult_assoc, E; ring).
      apply Rmult_le_compat_r; lra.
    - replace hi with (hi * Ssum * / Ssum) by (rewrite Rmult_assoc, E; ring).
      apply Rmult_le_compat_r; lra.
  Qed.

  Theorem dens_constant kmax (x : list R) v :
    (forall e, (0 <= e < nel g)%Z -> zget x e = v) ->
    zget (dens_response g delem wtab kmax None x) el = v.
  Proof.
    intros Hc.
    assert (B : v <= zget (dens_response g delem wtab kmax None x) el <= v).
    { apply dens_bounds. intros e He. rewrite Hc by exact He. lra. }
    lra.
  Qed.
End DensFormula.

(* the blocks written by the loop have exactly the announced lengths: nwind = len(elcomp), so the slice
   assignments h_rows[indstart:ncum[el]] = ... are shape-consistent and the blocks are contiguous *)
Lemma zrange2_length lo hi : length (zrange2 lo hi) = Z.to_nat (hi - lo + 1).
Proof. unfold zrange2. rewrite map_length. apply zrange_length. Qed.

Lemma flat_map_const_length {A B} (f : A -> list B) l m : (forall a, length (f a) = m) ->
  length (flat_map f l) = (length l * m)%nat.
Proof.
  intros E. induction l as [|a l IH]; [reflexivity|]. cbn [flat_map length]. rewrite app_length, E, IH. lia.
Qed.

Lemma h_row_length {K} (g : grid) delem (wtab : Z -> K) el :
  0 <= delem -> wf g -> 0 <= el < nel g ->
  Z.of_nat (length (h_row g delem wtab el)) = nwind g delem el.
Proof.
  intros Hde Hwf He.
  destruct (elem_num_inv g Hwf el He) as (Hi & Hj & Hk & _).
  pose proof (win_bounds (elem_i g el) delem (nelx g) Hde Hi) as (X1 & X2 & X3 & X4).
  pose proof (win_bounds (elem_j g el) delem (nely g) Hde Hj) as (Y1 & Y2 & Y3 & Y4).
  pose proof (win_bounds (elem_k g el) delem (nz1 g) Hde Hk) as (Z1 & Z2 & Z3 & Z4).
  unfold h_row, nwind.
  rewrite flat_map_const_length with (m := (Z.to_nat (win_hi (elem_j g el) delem (nely g) - win_lo (elem_j g el) delem + 1) *
                                           Z.to_nat (win_hi (elem_k g el) delem (nz1 g) - win_lo (elem_k g el) delem + 1))%nat).
  - rewrite zrange2_length. nia.
  - intros a. rewrite flat_map_const_length with (m := Z.to_nat (win_hi (elem_k g el) delem (nz1 g) - win_lo (elem_k g el) delem + 1)).
    + rewrite zrange2_length. reflexivity.
    + intros b. rewrite map_length. apply zrange2_length.
Qed.

(* the cone matrix is symmetric (which is why _sensitivity may use H instead of its transpose) *)
Lemma cone_H_symmetric {K} (wtab : Z -> K) i j k a b c : cone_H wtab i j k a b c = cone_H wtab a b c i j k.
Proof. unfold cone_H, sq. f_equal. ring. Qed.

(* int(radius) for a non-negative rational radius is its floor *)
Lemma dens_delem_spec (q : Q) : (0 <= q)%Q ->
  0 <= dens_delem q /\ (Q2R q < IZR (dens_delem q + 1))%R.
Proof.
  intros Hq. unfold dens_delem, qtrunc. destruct q as [a d]. unfold Qle in Hq. cbn in *.
  assert (Ha : 0 <= a) by lia.
  rewrite Z.quot_div_nonneg by lia.
  split; [apply Z.div_pos; lia|].
  unfold Q2R. cbn [Qnum Qden].
  assert (Hd : (0 < IZR (Z.pos d))%R) by (apply IZR_lt; lia).
  apply Rmult_lt_reg_r with (r := IZR (Z.pos d)); [exact Hd|].
  rewrite Rmult_assoc, Rinv_l, Rmult_1_r by lra.
  rewrite <- mult_IZR. apply IZR_lt.
  pose proof (Z.mul_succ_div_gt a (Z.pos d) ltac:(lia)). lia.
Qed.

(* a concrete instance of the cone hypotheses *)
Lemma ex_cone_ok : exists (wtab : Z -> R) (r : R) (delem : Z),
  0 <= delem /\ (r < IZR (delem + 1))%R /\ (0 < r)%R /\
  (forall d2, 0 <= d2 -> wtab d2 = Rmax 0 (r - sqrt (IZR d2))) /\
  (3 < win_lo 5 delem) /\ cone_H wtab 5 0 0 3 0 0 = 0%R.
Proof.
  exists (fun d2 => Rmax 0 (3 / 2 - sqrt (IZR d2))), (3 / 2)%R, 1.
  assert (Hr : (3 / 2 < IZR (1 + 1))%R) by (cbn; lra).
  split; [lia|]. split; [exact Hr|]. split; [lra|]. split; [reflexivity|]. split; [reflexivity|].
  unfold cone_H.
  apply (cone_zero_far (3 / 2)%R 1 ltac:(lia) Hr (fun d2 => Rmax 0 (3 / 2 - sqrt (IZR d2))) (fun d2 _ => eq_refl)).
  unfold sq. lia.
Qed.
