(* C10 -- theorems about Model/MMAvars.v: concatenation / split / write-back / bound expansion. *)
From Coq Require Import Arith List Bool Lia.
From Pymoto Require Import Model.MMAvars.
Import ListNotations.

Section VarsP.
  Context {A : Type}.
  Variable d : A.
  Local Notation dflt := (@Arr A []).

  Definition lens (vs : list (sval A)) : list nat := map (fun v => length (flat v)) vs.
  (* running sums s+l1, s+l1+l2, ... *)
  Fixpoint cumfrom (s : nat) (ls : list nat) : list nat :=
    match ls with [] => [] | l :: t => (s + l) :: cumfrom (s + l) t end.
  Definition cumlens (vs : list (sval A)) : list nat := 0 :: cumfrom 0 (lens vs).
  (* sum of the first i lengths *)
  Definition psum (i : nat) (ls : list nat) : nat := fold_right plus 0 (firstn i ls).
  Definition total (vs : list (sval A)) : nat := fold_right plus 0 (lens vs).

  (* ---- _concatenate_to_array computes the flattened values and the running lengths *)
  Lemma concat_gen vs : forall acc cum,
    fold_left (fun acc v => let vals := fst acc ++ flat v in (vals, snd acc ++ [length vals])) vs (acc, cum)
    = (acc ++ flat_map flat vs, cum ++ cumfrom (length acc) (lens vs)).
  Proof.
    induction vs as [|v vs IH]; intros acc cum; cbn.
    - rewrite !app_nil_r. reflexivity.
    - rewrite IH. cbn. rewrite app_length, <- !app_assoc. reflexivity.
  Qed.

  Theorem concat_spec vs : concat_to_array vs = (flat_map flat vs, cumlens vs).
  Proof. unfold concat_to_array. rewrite concat_gen. reflexivity. Qed.

  Lemma length_cumfrom ls : forall s, length (cumfrom s ls) = length ls.
  Proof. induction ls; intros; cbn; auto. Qed.

  Lemma nth_cumfrom ls : forall s i, i < length ls -> nth i (cumfrom s ls) 0 = s + psum (S i) ls.
  Proof.
    induction ls as [|l ls IH]; intros s i Hi; [cbn in Hi; lia|].
    destruct i as [|i]; cbn [cumfrom nth].
    - unfold psum. cbn. lia.
    - rewrite IH by (cbn in Hi; lia). unfold psum. cbn. lia.
  Qed.

  Lemma nth_cumlens vs i : i <= length vs -> nth i (cumlens vs) 0 = psum i (lens vs).
  Proof.
    intros Hi. unfold cumlens. destruct i as [|i]; [reflexivity|]. cbn [nth].
    rewrite nth_cumfrom by (unfold lens; rewrite map_length; lia). reflexivity.
  Qed.

  Lemma psum_S i ls : i < length ls -> psum (S i) ls = psum i ls + nth i ls 0.
  Proof.
    revert i. induction ls as [|l ls IH]; intros i Hi; [cbn in Hi; lia|].
    destruct i as [|i]; unfold psum in *; cbn; [lia|]. cbn in Hi. specialize (IH i ltac:(lia)). cbn in IH. lia.
  Qed.

  Lemma psum_all ls : psum (length ls) ls = fold_right plus 0 ls.
  Proof. unfold psum. rewrite firstn_all. reflexivity. Qed.

  Lemma psum_mono ls : forall i k, i <= k -> psum i ls <= psum k ls.
  Proof.
    induction ls as [|l ls IH]; intros i k H; [unfold psum; rewrite !firstn_nil; lia|].
    destruct i as [|i]; [unfold psum at 1; cbn; lia|]. destruct k as [|k]; [lia|].
    unfold psum in *. cbn. specialize (IH i k ltac:(lia)). lia.
  Qed.

  Lemma length_flat_map vs : length (flat_map flat vs) = total vs.
  Proof. induction vs as [|v vs IH]; cbn; [reflexivity|]. rewrite app_length, IH. reflexivity. Qed.

  Lemma nth_lens vs i : i < length vs -> nth i (lens vs) 0 = length (flat (nth i vs dflt)).
  Proof.
    intros Hi. unfold lens. rewrite (nth_indep _ 0 ((fun v => length (flat v)) dflt)) by (rewrite map_length; exact Hi).
    apply (map_nth (fun v : sval A => length (flat v))).
  Qed.

  (* what lies at the range of signal i inside the concatenated vector *)
  Lemma skipn_psum vs : forall i, i < length vs ->
    skipn (psum i (lens vs)) (flat_map flat vs) = flat (nth i vs dflt) ++ flat_map flat (skipn (S i) vs).
  Proof.
    induction vs as [|v vs IH]; intros i Hi; [cbn in Hi; lia|].
    destruct i as [|i]; [reflexivity|].
    unfold psum. cbn [lens map firstn fold_right flat_map nth skipn].
    rewrite skipn_app, skipn_all2 by lia.
    replace (length (flat v) + _ - length (flat v)) with (psum i (lens vs)) by (unfold psum, lens; lia).
    cbn [app]. apply IH. cbn in Hi. lia.
  Qed.

  Lemma slice_range vs i : i < length vs ->
    slice (flat_map flat vs) (nth i (cumlens vs) 0) (nth (S i) (cumlens vs) 0) = flat (nth i vs dflt).
  Proof.
    intros Hi. unfold slice. rewrite !nth_cumlens by lia.
    rewrite psum_S by (unfold lens; rewrite map_length; exact Hi).
    replace (psum i (lens vs) + nth i (lens vs) 0 - psum i (lens vs)) with (nth i (lens vs) 0) by lia.
    rewrite skipn_psum by exact Hi. rewrite nth_lens by exact Hi.
    rewrite firstn_app, firstn_all, Nat.sub_diag. cbn. apply app_nil_r.
  Qed.

  Lemma nth_map_seq {B : Type} (f : nat -> B) n i (b : B) : i < n -> nth i (map f (seq 0 n)) b = f i.
  Proof.
    intros Hi. rewrite (nth_indep _ b (f 0)) by (rewrite map_length, seq_length; exact Hi).
    rewrite (map_nth f), seq_nth by exact Hi. reflexivity.
  Qed.

  Lemma nth_of_skipn (k : nat) : forall (l : list A) a t, skipn k l = a :: t -> nth k l d = a.
  Proof.
    induction k as [|k IH]; intros l a t E; destruct l as [|x l]; cbn in E; try discriminate.
    - injection E as -> _. reflexivity.
    - cbn. eapply IH. exact E.
  Qed.

  Lemma last_nth (l : list nat) : forall x, last (x :: l) 0 = nth (length l) (x :: l) 0.
  Proof.
    induction l as [|a l IH]; intros x; [reflexivity|].
    change (last (x :: a :: l) 0) with (last (a :: l) 0). rewrite IH. reflexivity.
  Qed.

  (* ---- C10_split_concat *)
  Theorem split_concat (vs : list (sval A)) :
    split_from_array (fst (concat_to_array vs)) (snd (concat_to_array vs)) = Some (map flat vs).
  Proof.
    rewrite concat_spec. cbn [fst snd]. unfold split_from_array.
    assert (Ll : length (lens vs) = length vs) by (unfold lens; apply map_length).
    assert (last (cumlens vs) 0 = length (flat_map flat vs)) as ->.
    { rewrite length_flat_map. unfold total. unfold cumlens at 1. rewrite last_nth, length_cumfrom, Ll.
      change (0 :: cumfrom 0 (lens vs)) with (cumlens vs). rewrite nth_cumlens by lia. rewrite <- Ll. apply psum_all. }
    rewrite Nat.eqb_refl. f_equal.
    assert (length (cumlens vs) - 1 = length vs) as ->.
    { unfold cumlens. cbn [length]. rewrite length_cumfrom. unfold lens. rewrite map_length. lia. }
    apply (nth_ext _ _ [] (flat dflt)).
    - rewrite !map_length, seq_length. reflexivity.
    - intros i Hi. rewrite map_length, seq_length in Hi.
      rewrite nth_map_seq by exact Hi. rewrite slice_range by exact Hi.
      symmetry. apply (map_nth (@flat A)).
  Qed.

  (* ---- C10_writeback_ranges: the ranges [cum i, cum (i+1)) are consecutive, start at 0, end at n, and every index
     of [0, n) lies in exactly one of them *)
  Theorem ranges_partition (vs : list (sval A)) :
    nth 0 (cumlens vs) 0 = 0 /\ nth (length vs) (cumlens vs) 0 = total vs /\
    (forall i, i < length vs -> nth i (cumlens vs) 0 <= nth (S i) (cumlens vs) 0) /\
    (forall j, j < total vs -> exists i, i < length vs /\ nth i (cumlens vs) 0 <= j < nth (S i) (cumlens vs) 0) /\
    (forall j i k, i < length vs -> k < length vs ->
       nth i (cumlens vs) 0 <= j < nth (S i) (cumlens vs) 0 -> nth k (cumlens vs) 0 <= j < nth (S k) (cumlens vs) 0 -> i = k).
  Proof.
    assert (Ll : length (lens vs) = length vs) by (unfold lens; apply map_length).
    split; [reflexivity|]. split.
    { rewrite nth_cumlens by lia. rewrite <- Ll. apply psum_all. }
    split.
    { intros i Hi. rewrite !nth_cumlens by lia. apply psum_mono. lia. }
    split.
    - intros j Hj.
      (* the smallest i with j < psum (S i) *)
      assert (forall k, k <= length vs -> j < psum k (lens vs) ->
                        exists i, i < k /\ psum i (lens vs) <= j < psum (S i) (lens vs)) as Hex.
      { induction k as [|k IHk]; intros Hk Hlt; [unfold psum in Hlt; cbn in Hlt; lia|].
        destruct (le_lt_dec (psum k (lens vs)) j) as [Hge | Hlt'].
        - exists k. split; [lia | split; assumption].
        - destruct (IHk ltac:(lia) Hlt') as [i [Hi Hr]]. exists i. split; [lia | exact Hr]. }
      destruct (Hex (length vs) (le_n _)) as [i [Hi Hr]].
      { rewrite <- Ll, psum_all. exact Hj. }
      exists i. split; [exact Hi|]. rewrite !nth_cumlens by lia. exact Hr.
    - intros j i k Hi Hk. rewrite !nth_cumlens by lia. intros [R1 R2] [R3 R4].
      destruct (lt_eq_lt_dec i k) as [[Hlt | ->] | Hgt]; [exfalso | reflexivity | exfalso].
      + pose proof (psum_mono (lens vs) (S i) k ltac:(lia)). lia.
      + pose proof (psum_mono (lens vs) (S k) i ltac:(lia)). lia.
  Qed.

  (* write-back after concatenation: every signal gets exactly its own values back; a signal holding one value gets a
     scalar (also when it was a 1-element array), all others an array *)
  Theorem writeback_concat (vs : list (sval A)) : let c := concat_to_array vs in
    map flat (writeback d (fst c) (snd c) (length vs)) = map flat vs /\
    forall i, i < length vs ->
      (exists a, nth i (writeback d (fst c) (snd c) (length vs)) dflt = Scal a) <-> length (flat (nth i vs dflt)) = 1.
  Proof.
    cbv zeta. rewrite concat_spec. cbn [fst snd].
    assert (Hnth : forall i, i < length vs ->
              nth i (writeback d (flat_map flat vs) (cumlens vs) (length vs)) dflt =
              if length (flat (nth i vs dflt)) =? 1
              then Scal (nth (nth i (cumlens vs) 0) (flat_map flat vs) d) else Arr (flat (nth i vs dflt))).
    { intros i Hi. unfold writeback.
      rewrite nth_map_seq by exact Hi. cbv beta zeta.
      rewrite slice_range by exact Hi.
      replace (nth (S i) (cumlens vs) 0 - nth i (cumlens vs) 0) with (length (flat (nth i vs dflt))); [reflexivity|].
      rewrite !nth_cumlens by lia. rewrite psum_S by (unfold lens; rewrite map_length; exact Hi).
      rewrite nth_lens by exact Hi. lia. }
    split.
    - apply (nth_ext _ _ (flat dflt) (flat dflt)).
      + unfold writeback. rewrite !map_length, seq_length. reflexivity.
      + intros i Hi. unfold writeback in Hi. rewrite !map_length, seq_length in Hi.
        rewrite !map_nth. rewrite Hnth by exact Hi.
        destruct (Nat.eqb_spec (length (flat (nth i vs dflt))) 1) as [E | E]; [|reflexivity].
        (* one value: it is the first element of this signal's range *)
        pose proof (skipn_psum vs i Hi) as Sk. rewrite <- nth_cumlens in Sk by lia.
        cbn [flat]. destruct (flat (nth i vs dflt)) as [|a [|b t]] eqn:Ef; try discriminate.
        f_equal. eapply nth_of_skipn. exact Sk.
    - intros i Hi. rewrite Hnth by exact Hi.
      destruct (Nat.eqb_spec (length (flat (nth i vs dflt))) 1) as [E | E]; split; intros H; auto.
      + eexists. reflexivity.
      + destruct H as [a Ha]. discriminate.
      + contradiction.
  Qed.

  (* ---- C10_bounds_expansion *)
  Lemma length_assign_range (l : list A) a b v : length (assign_range l a b v) = length l.
  Proof. unfold assign_range. rewrite map_length, combine_length, seq_length. apply Nat.min_id. Qed.

  Lemma nth_assign_range (l : list A) a b v j : j < length l ->
    nth j (assign_range l a b v) d = if (a <=? j) && (j <? b) then v else nth j l d.
  Proof.
    intros Hj. unfold assign_range.
    set (f := fun p : nat * A => if (a <=? fst p) && (fst p <? b) then v else snd p).
    rewrite (nth_indep _ d (f (0, d))) by (rewrite map_length, combine_length, seq_length, Nat.min_id; exact Hj).
    rewrite (map_nth f), combine_nth by (rewrite seq_length; reflexivity).
    rewrite seq_nth by exact Hj. reflexivity.
  Qed.

  Lemma fill_ranges_inv (vs : list (sval A)) (vals : list A) (zero : A) : forall k, k <= length vs -> k <= length vals ->
    let e := fold_left (fun acc i => assign_range acc (nth i (cumlens vs) 0) (nth (S i) (cumlens vs) 0) (nth i vals d))
                       (seq 0 k) (repeat zero (total vs)) in
    length e = total vs /\
    forall i j, i < k -> nth i (cumlens vs) 0 <= j < nth (S i) (cumlens vs) 0 -> nth j e d = nth i vals d.
  Proof.
    destruct (ranges_partition vs) as [_ [Hlast [Hmono [_ Huniq]]]].
    induction k as [|k IH]; intros Hk Hk'; cbv zeta.
    - cbn. rewrite repeat_length. split; [reflexivity | intros i j Hi; lia].
    - rewrite seq_S, fold_left_app. cbn [plus fold_left].
      destruct (IH ltac:(lia) ltac:(lia)) as [L Hin]. cbv zeta in L, Hin.
      set (e := fold_left _ (seq 0 k) _) in *.
      split; [rewrite length_assign_range; exact L|].
      intros i j Hi [R1 R2].
      assert (nth (S i) (cumlens vs) 0 <= total vs) as Hle.
      { rewrite <- Hlast. rewrite !nth_cumlens by lia. apply psum_mono. lia. }
      rewrite nth_assign_range by lia.
      destruct (Nat.eq_dec i k) as [-> | Ne].
      + replace (nth k (cumlens vs) 0 <=? j) with true by (symmetry; apply Nat.leb_le; lia).
        replace (j <? nth (S k) (cumlens vs) 0) with true by (symmetry; apply Nat.ltb_lt; lia). reflexivity.
      + destruct ((nth k (cumlens vs) 0 <=? j) && (j <? nth (S k) (cumlens vs) 0)) eqn:T.
        * apply andb_true_iff in T as [T1 T2]. apply Nat.leb_le in T1. apply Nat.ltb_lt in T2.
          exfalso. apply Ne. apply (Huniq j i k); try lia.
        * apply Hin; [lia | split; assumption].
  Qed.

  (* per-signal entries land on exactly that signal's range *)
  Theorem expand_per_signal (vs : list (sval A)) (l : list A) (zero : A) : length l = length vs ->
    exists e, expand_bound d zero (total vs) (length vs) (cumlens vs) (BList l) = Some e /\ length e = total vs /\
              forall i j, i < length vs -> nth i (cumlens vs) 0 <= j < nth (S i) (cumlens vs) 0 -> nth j e d = nth i l d.
  Proof.
    intros Hl. unfold expand_bound. rewrite Hl, Nat.eqb_refl. unfold fill_ranges. rewrite Hl.
    destruct (fill_ranges_inv vs l zero (length vs) (le_n _) ltac:(lia)) as [L Hin]. cbv zeta in L, Hin.
    eexists. rewrite L, Nat.eqb_refl. split; [reflexivity | split; [exact L | exact Hin]].
  Qed.

  Theorem expand_scalar (a zero : A) n nvars cum : expand_bound d zero n nvars cum (BScal a) = Some (repeat a n).
  Proof. reflexivity. Qed.

  Theorem expand_per_variable (l : list A) (zero : A) n nvars cum : length l = n -> length l <> nvars ->
    expand_bound d zero n nvars cum (BList l) = Some l.
  Proof.
    intros Hn Hv. unfold expand_bound. destruct (Nat.eqb_spec (length l) nvars); [contradiction|].
    rewrite Hn, Nat.eqb_refl. reflexivity.
  Qed.

  (* a sequence that is neither one-per-signal nor one-per-variable is rejected (RuntimeError) *)
  Theorem expand_rejects (l : list A) (zero : A) n nvars cum : length l <> n -> length l <> nvars ->
    expand_bound d zero n nvars cum (BList l) = None.
  Proof.
    intros Hn Hv. unfold expand_bound. destruct (Nat.eqb_spec (length l) nvars); [contradiction|].
    destruct (Nat.eqb_spec (length l) n); [contradiction | reflexivity].
  Qed.

  (* ---- the sensitivity row of one response: block i is the sensitivity of signal i, or 0*state when it is None *)
  Definition sens_fits (st : sval A) (g : option (sval A)) : Prop :=
    match g with Some v => length (flat v) = length (flat st) | None => True end.

  Lemma flat_smap (f : A -> A) (v : sval A) : flat (smap f v) = map f (flat v).
  Proof. destruct v; reflexivity. Qed.

  Lemma sens_items_lens (z : A -> A) (states : list (sval A)) (sens : list (option (sval A))) :
    Forall2 sens_fits states sens ->
    lens (map (fun p => sens_item z (fst p) (snd p)) (combine states sens)) = lens states.
  Proof.
    induction 1 as [|st g states sens Hf _ IH]; [reflexivity|].
    cbn [combine map lens]. unfold lens in IH. rewrite IH. f_equal.
    destruct g as [v|]; cbn [sens_item fst snd]; [exact Hf|]. rewrite flat_smap, map_length. reflexivity.
  Qed.

  Lemma sens_items_nth (z : A -> A) (states : list (sval A)) (sens : list (option (sval A))) :
    Forall2 sens_fits states sens -> forall i, i < length states ->
    nth i (map (fun p => sens_item z (fst p) (snd p)) (combine states sens)) dflt
    = sens_item z (nth i states dflt) (nth i sens None).
  Proof.
    induction 1 as [|st g states sens _ _ IH]; intros i Hi; [cbn in Hi; lia|].
    destruct i as [|i]; [reflexivity|]. cbn [combine map nth]. apply IH. cbn in Hi. lia.
  Qed.

  Theorem sens_row_blocks (z : A -> A) (states : list (sval A)) (sens : list (option (sval A))) :
    Forall2 sens_fits states sens ->
    let row := sens_row z states sens in
    length row = total states /\
    forall i, i < length states ->
      slice row (nth i (cumlens states) 0) (nth (S i) (cumlens states) 0)
      = match nth i sens None with Some g => flat g | None => map z (flat (nth i states dflt)) end.
  Proof.
    intros HF row. subst row. unfold sens_row. rewrite concat_spec. cbn [fst].
    set (its := map (fun p => sens_item z (fst p) (snd p)) (combine states sens)).
    assert (HL : lens its = lens states) by (apply sens_items_lens; exact HF).
    assert (Hlen : length its = length states).
    { pose proof (f_equal (@length nat) HL) as E. unfold lens in E. rewrite !map_length in E. exact E. }
    split.
    - rewrite length_flat_map. unfold total. rewrite HL. reflexivity.
    - intros i Hi. replace (cumlens states) with (cumlens its) by (unfold cumlens; rewrite HL; reflexivity).
      rewrite slice_range by lia. unfold its. rewrite sens_items_nth by assumption.
      destruct (nth i sens None) as [g|]; cbn [sens_item]; [reflexivity | apply flat_smap].
  Qed.
End VarsP.

(* ================================================================================================================
   Typed layer: whatever the dtypes of the variable signals, the concatenated design vector is float64; therefore the
   expanded bound vectors are float64 and hold the given values (converted to float64 once, never truncated), and
   the written-back states are float64. *)
Lemma promote_F64_l t : promote F64 t = F64.
Proof. destruct t; reflexivity. Qed.
Lemma promote_F64_r t : promote t F64 = F64.
Proof. destruct t; reflexivity. Qed.
Lemma promote_comm a b : promote a b = promote b a.
Proof. destruct a, b; reflexivity. Qed.
Lemma promote_idem a : promote a a = a.
Proof. destruct a; reflexivity. Qed.

Lemma set_at_app (pre post : list nat) y x : set_at (pre ++ y :: post) (length pre) x = pre ++ x :: post.
Proof. induction pre as [|p pre IH]; cbn; [reflexivity | rewrite IH; reflexivity]. Qed.

Lemma fill_ranges_inv_length {A : Type} (d zero : A) (xs : list A) cum (vals : list A) :
  length (fill_ranges d zero (length xs) cum vals) = length xs /\ True.
Proof.
  split; [|exact I]. unfold fill_ranges.
  assert (G : forall ks acc, length acc = length xs ->
            length (fold_left (fun acc i => assign_range acc (nth i cum 0) (nth (S i) cum 0) (nth i vals d)) ks acc) = length xs).
  { induction ks as [|k ks IH]; intros acc Ha; [exact Ha|]. cbn [fold_left]. apply IH. rewrite length_assign_range. exact Ha. }
  apply G. apply repeat_length.
Qed.

Section TypedP.
  Context {A : Type}.
  Variable d : A.
  Variable conv : dtype -> dtype -> A -> A.

  Local Notation tstate := (tstate A).
  Local Notation untag := (untag conv).

  (* ---- the dtype of the design vector: float64, for every list of states *)
  Lemma concat_loop_dtype (vs : list tstate) : forall i st r,
    fst (fst st) = F64 -> concat_loop conv i vs st = Some r -> fst (fst r) = F64.
  Proof.
    induction vs as [|s vs IH]; intros i st r Hst E; cbn in E.
    - injection E as <-. exact Hst.
    - destruct s as [|dt v]; [discriminate|].
      eapply IH; [|exact E]. destruct st as [[t xs] c]. cbn in Hst. subst t. unfold concat_body, np_append. cbv zeta. cbn [fst snd]. apply promote_F64_l.
  Qed.

  Theorem concat_t_dtype (vs : list tstate) r : concat_to_array_t conv vs = Some r -> fst (fst r) = F64.
  Proof. apply concat_loop_dtype. reflexivity. Qed.

  (* ---- ValueError exactly when a state is None *)
  Lemma concat_loop_none (vs : list tstate) : forall i st,
    concat_loop conv i vs st = None <-> existsb is_tnone vs = true.
  Proof.
    induction vs as [|s vs IH]; intros i st; cbn.
    - split; discriminate.
    - destruct s as [|dt v]; cbn; [split; reflexivity | apply IH].
  Qed.

  Theorem concat_t_none (vs : list tstate) : concat_to_array_t conv vs = None <-> existsb is_tnone vs = true.
  Proof. apply concat_loop_none. Qed.

  (* ---- the values: the untyped model applied to the states converted to float64 (each entry once) *)
  Hypothesis conv_F64_id : forall a, conv F64 F64 a = a.

  Lemma map_conv_id (l : list A) : map (conv F64 F64) l = l.
  Proof. induction l as [|a l IH]; cbn; [reflexivity | rewrite conv_F64_id, IH; reflexivity]. Qed.

  Lemma flat_untag dt v : flat (untag (TVal dt v)) = map (conv dt F64) (flat v).
  Proof. destruct v; reflexivity. Qed.

  Lemma concat_loop_spec (vs : list tstate) : forall i acc done,
    existsb is_tnone vs = false -> length done = S i ->
    concat_loop conv i vs ((F64, acc), done ++ repeat 0 (length vs))
    = Some ((F64, acc ++ flat_map flat (map untag vs)), done ++ cumfrom (length acc) (lens (map untag vs))).
  Proof.
    induction vs as [|s vs IH]; intros i acc done Hn Hd.
    - cbn. rewrite !app_nil_r. reflexivity.
    - destruct s as [|dt v]; [discriminate|]. cbn in Hn.
      cbn [concat_loop length repeat]. unfold concat_body, np_append. cbn [fst snd].
      rewrite promote_F64_l, map_conv_id, <- Hd, set_at_app.
      replace (done ++ length (acc ++ map (conv dt F64) (flat v)) :: repeat 0 (length vs))
        with ((done ++ [length (acc ++ map (conv dt F64) (flat v))]) ++ repeat 0 (length vs))
        by (rewrite <- app_assoc; reflexivity).
      rewrite IH; [|exact Hn | rewrite app_length; cbn; lia].
      cbn [map flat_map lens cumfrom]. rewrite flat_untag, !app_length, <- !app_assoc. reflexivity.
  Qed.

  Theorem concat_t_spec (vs : list tstate) : existsb is_tnone vs = false ->
    concat_to_array_t conv vs = Some ((F64, fst (concat_to_array (map untag vs))), snd (concat_to_array (map untag vs))).
  Proof.
    intros Hn. pose proof (concat_loop_spec vs 0 [] [0] Hn eq_refl) as E.
    rewrite concat_spec. exact E.
  Qed.

  (* ---- bound expansion against a float64 design vector *)
  Lemma fill_ranges_t_F64 (zero : A) (xs : list A) cum sdt (l : list A) : forall k, k <= length l ->
    fold_left (fun acc i => assign_range_t conv acc (nth i cum 0) (nth (S i) cum 0) sdt (nth i l d))
              (seq 0 k) (F64, repeat zero (length xs))
    = (F64, fold_left (fun acc i => assign_range acc (nth i cum 0) (nth (S i) cum 0) (nth i (map (conv sdt F64) l) d))
                      (seq 0 k) (repeat zero (length xs))).
  Proof.
    induction k as [|k IH]; intros Hk; [reflexivity|].
    rewrite seq_S, !fold_left_app. cbn [plus fold_left]. rewrite IH by lia.
    unfold assign_range_t. cbn [fst snd]. f_equal. f_equal.
    rewrite (nth_indep (map (conv sdt F64) l) d (conv sdt F64 d)) by (rewrite map_length; lia).
    symmetry. apply map_nth.
  Qed.

  Lemma length_fill_ranges_t (zero : A) (xval : tarr A) cum sdt (l : list A) :
    length (snd (fill_ranges_t d conv zero xval cum sdt l)) = length (snd xval).
  Proof.
    unfold fill_ranges_t.
    assert (G : forall ks acc, length (snd acc) = length (snd xval) ->
              length (snd (fold_left (fun acc i => assign_range_t conv acc (nth i cum 0) (nth (S i) cum 0) sdt (nth i l d)) ks acc))
              = length (snd xval)).
    { induction ks as [|k ks IH]; intros acc Ha; [exact Ha|]. cbn [fold_left]. apply IH.
      unfold assign_range_t. cbn [snd]. rewrite length_assign_range. exact Ha. }
    apply G. unfold zeros_like. cbn [snd]. apply repeat_length.
  Qed.

  Lemma as_float_F64 (l : list A) : as_float conv (F64, l) = (F64, l).
  Proof. unfold as_float. cbn [fst snd]. rewrite map_conv_id. reflexivity. Qed.

  Lemma map_repeat (f : A -> A) a n : map f (repeat a n) = repeat (f a) n.
  Proof. induction n as [|n IH]; cbn; [reflexivity | rewrite IH; reflexivity]. Qed.

  Theorem expand_t_per_signal (zero : A) (xs : list A) nvars cum sdt (l : list A) : length l = nvars ->
    expand_bound_t d conv zero (F64, xs) nvars cum (TBList sdt l)
    = option_map (pair F64) (expand_bound d zero (length xs) nvars cum (BList (map (conv sdt F64) l))).
  Proof.
    intros Hl. unfold expand_bound_t, expand_bound. rewrite map_length, Hl, Nat.eqb_refl.
    rewrite length_fill_ranges_t. cbn [snd]. rewrite Nat.eqb_refl.
    destruct (fill_ranges_inv_length d zero xs cum (map (conv sdt F64) l)) as [-> _]. rewrite Nat.eqb_refl.
    unfold fill_ranges_t, fill_ranges, zeros_like. cbn [fst snd option_map]. rewrite map_length.
    rewrite fill_ranges_t_F64 by lia. rewrite as_float_F64. reflexivity.
  Qed.

  Theorem expand_t_scalar (zero : A) (xs : list A) nvars cum sdt (a : A) :
    expand_bound_t d conv zero (F64, xs) nvars cum (TBScal sdt a) = Some (F64, repeat (conv sdt F64 a) (length xs)).
  Proof.
    unfold expand_bound_t, scal_times_ones_like. cbn [fst snd]. rewrite promote_F64_r, repeat_length, Nat.eqb_refl.
    rewrite as_float_F64. reflexivity.
  Qed.

  (* one entry per variable (a list, a tuple, an array of any dtype): converted to a float64 array *)
  Theorem expand_t_per_variable (zero : A) (xval : tarr A) nvars cum sdt (l : list A) : length l <> nvars ->
    expand_bound_t d conv zero xval nvars cum (TBList sdt l)
    = if length l =? length (snd xval) then Some (F64, map (conv sdt F64) l) else None.
  Proof.
    intros Hv. unfold expand_bound_t. destruct (Nat.eqb_spec (length l) nvars); [contradiction | reflexivity].
  Qed.

  Theorem expand_move_t_per_signal (zero : A) (xs : list A) nvars cum sdt (l : list A) : length l = nvars ->
    expand_move_t d conv zero (F64, xs) nvars cum (TBList sdt l)
    = Some (F64, fill_ranges d zero (length xs) cum (map (conv sdt F64) l)).
  Proof.
    intros Hl. unfold expand_move_t. rewrite Hl, Nat.eqb_refl.
    unfold fill_ranges_t, fill_ranges, zeros_like. cbn [fst snd]. rewrite map_length.
    rewrite fill_ranges_t_F64 by lia. reflexivity.
  Qed.

  (* whatever the dtype of the design vector and of the specification: what MMA.response leaves in xmin / xmax is float64 *)
  Theorem expand_t_dtype (zero : A) (xval : tarr A) nvars cum b r :
    expand_bound_t d conv zero xval nvars cum b = Some r -> fst r = F64.
  Proof. unfold expand_bound_t. destruct (_ =? _); [|discriminate]. intros E. injection E as <-. reflexivity. Qed.

  (* ---- the written-back states have the dtype of the design vector *)
  Theorem writeback_t_dtype (xval : tarr A) cum nvars s :
    In s (writeback_t d xval cum nvars) -> exists v, s = TVal (fst xval) v.
  Proof. unfold writeback_t. intros H. apply in_map_iff in H as [v [<- _]]. exists v. reflexivity. Qed.

  (* ---- the pipeline: states of ANY dtypes, a per-signal bound of ANY dtype: the design vector is float64 and every
     entry of the expanded bound on the range of signal i is the i-th given value converted to float64 *)
  Theorem typed_per_signal_bound (vs : list tstate) (sdt : dtype) (l : list A) (zero : A) :
    existsb is_tnone vs = false -> length l = length vs ->
    exists xs cum e,
      concat_to_array_t conv vs = Some ((F64, xs), cum) /\
      expand_bound_t d conv zero (F64, xs) (length vs) cum (TBList sdt l) = Some (F64, e) /\
      length e = length xs /\
      (forall i j, i < length vs -> nth i cum 0 <= j < nth (S i) cum 0 -> nth j e d = conv sdt F64 (nth i l d)) /\
      (forall s, In s (writeback_t d (F64, xs) cum (length vs)) -> exists v, s = TVal F64 v).
  Proof.
    intros Hn Hl. pose proof (concat_t_spec vs Hn) as E. rewrite concat_spec in E. cbn [fst snd] in E.
    assert (Lu : length (map untag vs) = length vs) by apply map_length.
    assert (Lm : length (map (conv sdt F64) l) = length (map untag vs)) by (rewrite !map_length; exact Hl).
    destruct (expand_per_signal d (map untag vs) (map (conv sdt F64) l) zero Lm) as [e [He [Le Hr]]].
    exists (flat_map flat (map untag vs)), (cumlens (map untag vs)), e.
    split; [exact E|]. split.
    { rewrite expand_t_per_signal by exact Hl. rewrite length_flat_map, <- Lu. rewrite He. reflexivity. }
    split; [rewrite Le, length_flat_map; reflexivity|]. split.
    - intros i j Hi Hj. rewrite (Hr i j) by (rewrite ?Lu; assumption).
      rewrite (nth_indep _ d (conv sdt F64 d)) by (rewrite map_length; lia). apply map_nth.
    - intros s Hs. apply (writeback_t_dtype _ _ _ _ Hs).
  Qed.
End TypedP.
