(* Proofs about Model/NetBuild.v : the behaviour of a Network object is a function of its final member tree, whatever
   the order in which it was put together and whatever its stored sig_in / sig_out lists say (C02). *)
From Coq Require Import List Arith Bool Lia ZArith.
From Pymoto Require Import Base.Num Model.Net Model.NetBuild Proofs.NetP.
Import ListNotations.

Lemma map_nth_app_last {X : Type} (f : X -> X) (x : X) (l : list X) :
  map_nth (length l) f (l ++ [x]) = l ++ [f x].
Proof. induction l as [|y l IH]; simpl; [reflexivity | rewrite IH; reflexivity]. Qed.

Lemma map_set_nth {X Y : Type} (f : X -> Y) (v : X) (l : list X) : forall i,
  map f (set_nth i v l) = set_nth i (f v) (map f l).
Proof. induction l as [|y l IH]; intros [|i]; simpl; try reflexivity. rewrite IH. reflexivity. Qed.

Lemma nth_map_option {X Y : Type} (f : X -> Y) (l : list (option X)) : forall i,
  nth i (map (option_map f) l) None = option_map f (nth i l None).
Proof. induction l as [|y l IH]; intros [|i]; simpl; try reflexivity. apply IH. Qed.

Section ObjProofs.
  Variable A : Type.
  Variable a_ins : A -> list ref.
  Variable a_outs : A -> list nat.
  Notation obj := (obj A).

  Section ObjInd.
    Variable P : obj -> Prop.
    Hypothesis HL : forall a, P (OLeaf a).
    Hypothesis HN : forall tm si so l, Forall P l -> P (ONet tm si so l).
    Fixpoint obj_induction (o : obj) : P o :=
      match o with
      | OLeaf a => HL a
      | ONet tm si so l => HN tm si so l ((fix go (l : list obj) : Forall P l :=
                             match l with
                             | [] => Forall_nil P
                             | x :: r => Forall_cons x (obj_induction x) (go r)
                             end) l)
      end.
  End ObjInd.

  Lemma bare_net tm si so (l : list obj) : bare (ONet tm si so l) = ONet tm [] [] (map bare l).
  Proof. reflexivity. Qed.

  (* the read-out used by the evaluation cannot see the stored lists *)
  Lemma ofold_bare {B : Type} (leaf : A -> B) (net : timing -> list B -> B) (o : obj) :
    ofold leaf net (bare o) = ofold leaf net o.
  Proof.
    induction o as [a|tm si so l IH] using obj_induction; [reflexivity|].
    rewrite bare_net. simpl. f_equal. rewrite map_map.
    induction IH as [|x r Hx _ IHr]; [reflexivity|]. simpl. rewrite Hx, IHr. reflexivity.
  Qed.

  Lemma bare_idem (o : obj) : bare (bare o) = bare o.
  Proof. unfold bare at 1. apply ofold_bare. Qed.

  Lemma bare_append_here (x o : obj) :
    bare (append_here a_ins a_outs x o) = bare (append_here a_ins a_outs (bare x) (bare o)).
  Proof.
    destruct o as [a|tm si so l]; [reflexivity|].
    rewrite (bare_net tm si so l). unfold append_here. rewrite !bare_net. f_equal.
    rewrite !map_app, map_map. simpl. rewrite bare_idem. f_equal.
    apply map_ext. intros y. symmetry. apply bare_idem.
  Qed.

  Lemma map_bare_map_nth (f g : obj -> obj) : (forall y, bare (f y) = bare (g (bare y))) ->
    forall (l : list obj) i, map bare (map_nth i f l) = map bare (map_nth i g (map bare l)).
  Proof.
    intros Hfg. induction l as [|y l IH]; intros [|i]; simpl; try reflexivity.
    - rewrite Hfg, map_map. f_equal. apply map_ext. intros z. symmetry. apply bare_idem.
    - rewrite bare_idem, IH. reflexivity.
  Qed.

  (* the member tree after an append is computed from the member trees alone *)
  Lemma bare_append_at (p : list nat) (x : obj) : forall o,
    bare (append_at a_ins a_outs p x o) = bare (append_at a_ins a_outs p (bare x) (bare o)).
  Proof.
    induction p as [|i p IH]; intros o; [apply bare_append_here|].
    destruct o as [a|tm si so l]; [reflexivity|].
    rewrite (bare_net tm si so l). simpl. rewrite !bare_net. f_equal.
    apply map_bare_map_nth. exact IH.
  Qed.

  (* outer.append(inner) first and inner.append(...) afterwards gives the member tree of filling inner first *)
  Theorem nest_then_fill tm si so (l : list obj) (x y : obj) (p : list nat) :
    bare (append_at a_ins a_outs (length l :: p) y (append_here a_ins a_outs x (ONet tm si so l)))
    = bare (append_here a_ins a_outs (append_at a_ins a_outs p y x) (ONet tm si so l)).
  Proof.
    unfold append_here at 1. simpl append_at. rewrite map_nth_app_last.
    unfold append_here. rewrite !bare_net. reflexivity.
  Qed.

  Definition bares (st : list (option obj)) : list (option obj) := map (option_map bare) st.

  Lemma bares_idem st : bares (bares st) = bares st.
  Proof.
    unfold bares. rewrite map_map. apply map_ext. intros [o|]; simpl; [rewrite bare_idem|]; reflexivity.
  Qed.

  Lemma bares_step st op : bares (step a_ins a_outs st op) = bares (step a_ins a_outs (bares st) op).
  Proof.
    destruct op as [src dst path]. unfold step.
    destruct (Nat.eqb src dst); [symmetry; apply bares_idem|].
    unfold bares at 3 4. rewrite !nth_map_option. fold (bares st).
    destruct (nth src st None) as [x|]; simpl; [|symmetry; apply bares_idem].
    destruct (nth dst st None) as [o|]; simpl; [|symmetry; apply bares_idem].
    unfold bares. rewrite !map_set_nth. fold (bares st). fold (bares (bares st)). rewrite bares_idem. simpl.
    rewrite (bare_append_at path x o). rewrite (bare_append_at path (bare x) (bare o)), !bare_idem. reflexivity.
  Qed.

  (* whole histories: what the stored lists contain at any moment never influences the member trees *)
  Theorem bares_run_history ops : forall st,
    bares (run_history a_ins a_outs ops st) = bares (run_history a_ins a_outs ops (bares st)).
  Proof.
    unfold run_history. induction ops as [|op ops IH]; intros st; simpl; [symmetry; apply bares_idem|].
    rewrite IH, bares_step, <- IH. reflexivity.
  Qed.
End ObjProofs.

Section BehaviourProofs.
  Context {K : Type} `{NK : Num K}.
  Notation mobj := (obj (module K)).
  Notation sobj := (obj (@spec K)).

  Lemma obj_node_bare (o : mobj) : obj_node (bare o) = obj_node o.
  Proof. apply ofold_bare. Qed.

  (* Network.response / Network.sensitivity depend on the member tree (and print_timing) only *)
  Theorem behaviour_members_only (dims : nat -> nat) (o1 o2 : mobj) : bare o1 = bare o2 ->
    (forall t, fwd_obj o1 t = fwd_obj o2 t) /\ (forall c, bwd_obj dims o1 c = bwd_obj dims o2 c).
  Proof.
    intros E. assert (En : obj_node o1 = obj_node o2).
    { rewrite <- (obj_node_bare o1), <- (obj_node_bare o2), E. reflexivity. }
    unfold fwd_obj, bwd_obj. rewrite En. split; reflexivity.
  Qed.

  (* filling a nested network after it has been placed in its parent: same states, same sensitivities *)
  Theorem fill_after_nesting_same_behaviour (dims : nat -> nat) tm si so (l : list mobj) (x y : mobj) (p : list nat) :
    let late := mappend_at (length l :: p) y (append_here (@m_ins K) (fun m => m_outs m) x (ONet tm si so l)) in
    let early := append_here (@m_ins K) (fun m => m_outs m) (mappend_at p y x) (ONet tm si so l) in
    (forall t, fwd_obj late t = fwd_obj early t) /\ (forall c, bwd_obj dims late c = bwd_obj dims early c).
  Proof. intros late early. apply behaviour_members_only. apply nest_then_fill. Qed.

  Lemma obj_stree_bare (o : sobj) : obj_stree (bare o) = obj_stree o.
  Proof. apply ofold_bare. Qed.

  (* a module without outputs is never skipped by Module.sensitivity *)
  Theorem zero_output_never_skipped (dims : nat -> nat) (m : module K) (c : cenv K) :
    m_outs m = [] -> bwd_mod dims m c = apply_adj dims m [] c.
  Proof. intros E. unfold bwd_mod, skip. rewrite E. reflexivity. Qed.

  Theorem injmod_bwd (dims : nat -> nat) (ins : list ref) (d : list (option (vec K))) (c : cenv K) :
    bwd_mod dims (injmod ins d) c = fold_left (fun c rd => add_sens dims c (fst rd) (snd rd)) (combine ins d) c.
  Proof. reflexivity. Qed.

  (* the accumulation branch taken by Signal.add_sensitivity does not matter *)
  Theorem sig_add_kind_irrelevant (dims : nat -> nat) (k : acc_kind) (c : cenv K) (s : nat) (ds : option (vec K)) :
    add_sens dims c (RSig s) ds s = sig_add k (c s) ds.
  Proof.
    destruct ds as [d|]; simpl; [|reflexivity].
    destruct (c s) as [g|]; unfold upd; rewrite Nat.eqb_refl; destruct k; reflexivity.
  Qed.

  (* contributions d, d1, ..., dn arriving along n+1 paths: the signal ends with their sum, each once *)
  Theorem sig_add_paths (k : acc_kind) (ds : list (vec K)) : forall d : vec K,
    fold_left (sig_add k) (map Some ds) (Some d) = Some (fold_left vadd ds d).
  Proof.
    induction ds as [|e ds IH]; intros d; [reflexivity|].
    simpl. destruct k; simpl; apply IH.
  Qed.

  Section WithRing.
    Hypothesis Kring : ring_theory nzero none_ nadd nmul nsub nopp (@eq K).

    (* the main theorem for a network put together by ANY history of append() calls *)
    Theorem built_network_adjoint (dims : nat -> nat) (N : nat) (ops : list bop) (st : list (option sobj)) (o : sobj)
            (c : cenv K) (t : tenv K) :
      sbuilt ops st = Some o -> net_ok N dims (obj_stree o) = true -> wt_cot dims c -> wt_tan dims t ->
      pairing_on (seq 0 N) c (fwd_node (to_node (obj_stree o)) t)
      = pairing_on (sources N (flatten (to_node (obj_stree o)))) (bwd_node dims (to_node (obj_stree o)) c) t.
    Proof. intros _ Hok Hc Ht. apply described_network_adjoint; assumption. Qed.
  End WithRing.
End BehaviourProofs.

(* the network of seeded change C02-m8: outer.sig_out is stale when inner is filled after nesting, the members and the
   sensitivities are the same *)
Lemma nb_facts :
  exists o_late o_early : obj (@spec Z),
    sbuilt nb_nest_then_fill nb_pool = Some o_late /\ sbuilt nb_fill_then_nest nb_pool = Some o_early /\
    obj_outs spec_outs o_late = [1] /\ obj_outs spec_outs o_early = [1; 2; 3] /\
    bare o_late = bare o_early /\
    net_ok 4 (dims_of [2; 2; 2; 2]) (obj_stree o_late) = true /\
    show_c 4 (bwd_node (dims_of [2; 2; 2; 2]) (to_node (obj_stree o_late)) (cenv_of nb_seeds)) = nb_expected.
Proof.
  eexists. eexists. split; [vm_compute; reflexivity|]. split; [vm_compute; reflexivity|].
  repeat split; vm_compute; reflexivity.
Qed.
