(* Proofs about the EigenSolve model (Model/Eig.v) for property C11. *)
From Coq Require Import ZArith QArith Reals List Bool Lia Lra Ring Field Permutation Sorted.
From Pymoto Require Import Base.Num Base.QMat Model.Eig.
Import ListNotations.

(* ================================================================================================ *)
(* 1. list / sorting facts (no algebra)                                                              *)
Section SortFacts.
  Context {K : Type}.
  Variable leb : K -> K -> bool.
  Variable key : nat -> K.
  Hypothesis leb_total : forall a b, leb a b = true \/ leb b a = true.

  Definition kle (i j : nat) : Prop := leb (key i) (key j) = true.

  Lemma ins_perm i l : Permutation (ins leb key i l) (i :: l).
  Proof.
    induction l as [|j t IH]; cbn [ins]; auto.
    destruct (leb (key j) (key i)); auto.
    eapply perm_trans; [apply perm_skip, IH | apply perm_swap].
  Qed.

  Lemma ins_hdrel a i l : kle a i -> HdRel kle a l -> HdRel kle a (ins leb key i l).
  Proof.
    intros Hai Hl. destruct l as [|j t]; cbn [ins].
    - constructor. exact Hai.
    - destruct (leb (key j) (key i)); constructor; auto. inversion Hl; auto.
  Qed.

  Lemma ins_sorted i l : Sorted kle l -> Sorted kle (ins leb key i l).
  Proof.
    induction l as [|j t IH]; intros Hs; cbn [ins].
    - repeat constructor.
    - inversion Hs as [|? ? Hst Hhd]; subst.
      destruct (leb (key j) (key i)) eqn:E.
      + constructor; [apply IH; exact Hst | apply ins_hdrel; [exact E | exact Hhd]].
      + constructor; [exact Hs | constructor].
        destruct (leb_total (key i) (key j)) as [H1|H1]; [exact H1 | congruence].
  Qed.

  Lemma isort_from_spec idx acc : Sorted kle acc ->
    Sorted kle (isort_from leb key idx acc) /\ Permutation (isort_from leb key idx acc) (rev idx ++ acc).
  Proof.
    revert acc. induction idx as [|i t IH]; intros acc Hs; cbn [isort_from fold_left].
    - split; [exact Hs | apply Permutation_refl].
    - destruct (IH (ins leb key i acc) (ins_sorted i acc Hs)) as [H1 H2]. split; [exact H1|].
      eapply perm_trans; [exact H2|]. cbn [rev]. rewrite <- app_assoc. cbn [app].
      apply Permutation_app_head. apply ins_perm.
  Qed.
End SortFacts.

Lemma Sorted_map {A B : Type} (R : B -> B -> Prop) (f : A -> B) (l : list A) :
  Sorted (fun a b => R (f a) (f b)) l -> Sorted R (map f l).
Proof.
  induction 1 as [|a l Hs IH Hhd]; cbn; constructor; auto.
  destruct Hhd; cbn; constructor; auto.
Qed.

Lemma map_nth_seq {A : Type} (l : list A) d : map (fun i => nth i l d) (seq 0 (length l)) = l.
Proof.
  induction l as [|a l IH]; cbn; auto. f_equal. rewrite <- seq_shift, map_map. exact IH.
Qed.

Lemma forallb_ltb_spec (n : nat) (l : list nat) :
  forallb (fun i => Nat.ltb i n) l = true -> forall j, (j < length l)%nat -> (nth j l O < n)%nat.
Proof.
  intros Hf j Hj. rewrite forallb_forall in Hf. apply Nat.ltb_lt. apply Hf. apply nth_In. exact Hj.
Qed.

(* ================================================================================================ *)
(* 2. the normalisation loop in closed form (index reasoning only)                                   *)
Section Loop.
  Context {K : Type} `{Num K}.
  Variable ops : EigOps K.
  Local Notation mat := (@QMat.mat K).

  Lemma normalise_S B n (Qm : mat) :
    normalise ops B (S n) Qm = norm_step ops B (normalise ops B n Qm) n.
  Proof.
    unfold normalise. rewrite seq_S, fold_left_app. reflexivity.
  Qed.

  (* column j < nW is scaled by its own factor, computed from the ORIGINAL column (earlier iterations
     only touched other columns); the assertion passed for every column; other columns are unchanged *)
  Lemma normalise_spec B m nW (Qm Q' : mat) :
    ncols_ok m Qm -> (nW <= m)%nat -> normalise ops B nW Qm = Ok Q' ->
    length Q' = length Qm /\ ncols_ok m Q' /\
    (forall j, (j < nW)%nat ->
       knormable ops (bform B (getcol j Qm)) = true /\
       getcol j Q' = vscaler (norm_factor ops B (getcol j Qm)) (getcol j Qm)) /\
    (forall j, (nW <= j)%nat -> getcol j Q' = getcol j Qm).
  Proof.
    intros Hm. revert Q'. induction nW as [|n IH]; intros Q' Hn HQ.
    - cbn in HQ. inversion HQ; subst.
      split; [reflexivity|]. split; [exact Hm|]. split; [intros j Hj; lia | intros j Hj; reflexivity].
    - rewrite normalise_S in HQ. destruct (normalise ops B n Qm) as [Q1|e] eqn:E1; cbn [norm_step] in HQ; [|discriminate].
      destruct (IH Q1 ltac:(lia) eq_refl) as (Hl & Hc & Hlt & Hge).
      destruct (knormable ops (bform B (getcol n Q1))) eqn:Ek; [|discriminate].
      inversion HQ; subst Q'; clear HQ.
      pose proof (Hge n (le_n n)) as Hn1. rewrite Hn1 in Ek.
      split; [rewrite scale_col_length; exact Hl|].
      split; [apply scale_col_ncols; exact Hc|].
      split.
      + intros j Hj. destruct (Nat.eq_dec j n) as [->|Hjn].
        * split; [exact Ek|].
          rewrite (getcol_scale_col_same n _ m Q1 Hc) by lia. rewrite Hn1. reflexivity.
        * rewrite getcol_scale_col_other by auto. apply Hlt. lia.
      + intros j Hj. rewrite getcol_scale_col_other by lia. apply Hge. lia.
  Qed.

  (* the loop does not raise when every column passes the assertion *)
  Lemma normalise_total B m nW (Qm : mat) :
    ncols_ok m Qm -> (nW <= m)%nat ->
    (forall j, (j < nW)%nat -> knormable ops (bform B (getcol j Qm)) = true) ->
    exists Q', normalise ops B nW Qm = Ok Q'.
  Proof.
    intros Hm. induction nW as [|n IH]; intros Hn Hk.
    - exists Qm. reflexivity.
    - destruct IH as [Q1 E1]; [lia | intros j Hj; apply Hk; lia |].
      rewrite normalise_S, E1. cbn [norm_step].
      destruct (normalise_spec B m n Qm Q1 Hm ltac:(lia) E1) as (_ & _ & _ & Hge).
      rewrite (Hge n (le_n n)), (Hk n ltac:(lia)). eauto.
  Qed.

  (* postprocess in closed form *)
  Lemma postprocess_spec sf B (W : list K) (Qm : mat) W' Q' :
    postprocess ops sf B W Qm = Ok (W', Q') ->
    (forall j, (j < length (sf W Qm))%nat -> (nth j (sf W Qm) O < length W)%nat) /\
    W' = take (sf W Qm) W /\ length W' = length (sf W Qm) /\
    length Q' = length Qm /\ ncols_ok (length (sf W Qm)) Q' /\
    forall j, (j < length (sf W Qm))%nat ->
      nth j W' nzero = nth (nth j (sf W Qm) O) W nzero /\
      knormable ops (bform B (getcol (nth j (sf W Qm) O) Qm)) = true /\
      getcol j Q' = vscaler (norm_factor ops B (getcol (nth j (sf W Qm) O) Qm)) (getcol (nth j (sf W Qm) O) Qm).
  Proof.
    unfold postprocess. intros HP. cbv zeta in HP. set (isort := sf W Qm) in *.
    destruct (forallb (fun i => Nat.ltb i (length W)) isort) eqn:Ef; cbn [negb] in HP; [|discriminate].
    destruct (normalise ops B (length (take isort W)) (take_cols isort Qm)) as [Q2|e] eqn:En; [|discriminate].
    inversion HP; subst W' Q'; clear HP.
    rewrite take_length in En.
    destruct (normalise_spec B (length isort) (length isort) _ Q2 (take_cols_ncols isort Qm) (le_n _) En)
      as (Hl & Hc & Hlt & _).
    split; [apply forallb_ltb_spec; exact Ef|].
    split; [reflexivity|].
    split; [apply take_length|].
    split; [rewrite Hl; apply take_cols_length|].
    split; [exact Hc|].
    intros j Hj. destruct (Hlt j Hj) as [Hk Hg]. rewrite getcol_take_cols in Hk, Hg by exact Hj.
    split; [apply nth_take; exact Hj|]. split; [exact Hk | exact Hg].
  Qed.

  Lemma postprocess_total sf B (W : list K) (Qm : mat) :
    (forall j, (j < length (sf W Qm))%nat -> (nth j (sf W Qm) O < length W)%nat) ->
    (forall i, (i < length W)%nat -> knormable ops (bform B (getcol i Qm)) = true) ->
    exists W' Q', postprocess ops sf B W Qm = Ok (W', Q').
  Proof.
    intros Hidx Hk. unfold postprocess.
    assert (Ef : forallb (fun i => Nat.ltb i (length W)) (sf W Qm) = true).
    { apply forallb_forall. intros i Hi. apply Nat.ltb_lt.
      destruct (In_nth _ _ O Hi) as (j & Hj & <-). apply Hidx. exact Hj. }
    rewrite Ef. cbn [negb]. rewrite take_length.
    destruct (normalise_total B (length (sf W Qm)) (length (sf W Qm)) (take_cols (sf W Qm) Qm)
                (take_cols_ncols _ Qm) (le_n _)) as [Q2 E2].
    { intros j Hj. rewrite getcol_take_cols by exact Hj. apply Hk. apply Hidx. exact Hj. }
    rewrite E2. eauto.
  Qed.
End Loop.

(* ================================================================================================ *)
(* 3. algebra: eigenpairs survive, the bilinear form becomes one                                     *)
Section Algebra.
  Context {K : Type} `{Num K}.
  Variable ops : EigOps K.
  Local Notation mat := (@QMat.mat K).
  Hypothesis Rth : ring_theory (@nzero K _) none_ nadd nmul nsub nopp (@eq K).
  Add Ring KringEigP : Rth.
  Local Open Scope num_scope.

  Lemma Bmul_vscaler B (q : list K) c : Bmul B (vscaler c q) = vscaler c (Bmul B q).
  Proof. destruct B as [b|]; cbn [Bmul]; [apply (mv_vscaler Rth) | reflexivity]. Qed.

  Lemma eigpair_vscaler (A : mat) B lam q c : eigpair A B lam q -> eigpair A B lam (vscaler c q).
  Proof.
    unfold eigpair. intros E. rewrite (mv_vscaler Rth), E, Bmul_vscaler. symmetry. apply (vscale_vscaler Rth).
  Qed.

  Lemma bform_vscaler B (q : list K) c : bform B (vscaler c q) = bform B q * c * c.
  Proof.
    unfold bform. rewrite Bmul_vscaler, (dot_vscaler_l Rth), (dot_vscaler_r Rth). ring.
  Qed.

  (* sorting + scaling of the columns preserve the oracle contract: for ANY sorting function that returns
     valid indices and any scale factors *)
  Theorem postprocess_keeps_eigenpairs sf (A : mat) B W (Qm : mat) W' Q' :
    contract A B W Qm -> postprocess ops sf B W Qm = Ok (W', Q') -> contract A B W' Q'.
  Proof.
    intros [Hc He] HP. destruct (postprocess_spec ops sf B W Qm W' Q' HP) as (Hidx & HW & HlW & _ & Hnc & Hcol).
    split.
    - rewrite HlW. exact Hnc.
    - intros j Hj. rewrite HlW in Hj. destruct (Hcol j Hj) as (Hw & _ & Hq).
      rewrite Hw, Hq. apply eigpair_vscaler. apply He. apply Hidx. exact Hj.
  Qed.

  Lemma navg_vscaler (q : list K) c : navg (vscaler c q) = ndiv (nsum q * c) (nofZ (Z.of_nat (length q))).
  Proof. unfold navg. rewrite (nsum_vscaler Rth), vscaler_length. reflexivity. Qed.

  Section Field.
    Hypothesis Fth : field_theory (@nzero K _) none_ nadd nmul nsub nopp ndiv ninv (@eq K).
    Add Field KfieldEigP : Fth.

    Lemma sq_nonzero (s v : K) : s * s = v -> v <> nzero -> s <> nzero.
    Proof. intros Hs Hv E. apply Hv. rewrite <- Hs, E. ring. Qed.

    (* (sf q)^T B (sf q) = 1  for sf = sgn / s with s^2 = q^T B q != 0, sgn = +-1 *)
    Theorem normalised_vector B (q : list K) (s sgn : K) :
      s * s = bform B q -> bform B q <> nzero -> (sgn = none_ \/ sgn = nopp none_) ->
      bform B (vscaler (ndiv sgn s) q) = none_.
    Proof.
      intros Hs Hv Hsgn. pose proof (sq_nonzero s _ Hs Hv) as Hs0.
      rewrite bform_vscaler, <- Hs. destruct Hsgn as [-> | ->]; field; exact Hs0.
    Qed.

    Lemma scale_nonzero (c : K) (q : list K) : c <> nzero -> is_zero_vec (vscaler c q) -> is_zero_vec q.
    Proof.
      unfold is_zero_vec, vscaler. intros Hc Hz. rewrite Forall_map in Hz. revert Hz. apply Forall_impl.
      intros x Hx. assert (E : x = x * c * ninv c) by (field; exact Hc). rewrite E, Hx. ring.
    Qed.

    Lemma factor_nonzero (s sgn : K) : s <> nzero -> (sgn = none_ \/ sgn = nopp none_) -> ndiv sgn s <> nzero.
    Proof.
      intros Hs Hsgn E.
      assert (E1 : ndiv sgn s * (sgn * s) = none_) by (destruct Hsgn as [-> | ->]; field; exact Hs).
      rewrite E in E1. apply (F_1_neq_0 Fth). rewrite <- E1. ring.
    Qed.

    Lemma norm_factor_sgn B (q : list K) :
      exists sgn, (sgn = none_ \/ sgn = nopp none_) /\ norm_factor ops B q = ndiv sgn (ksqrt ops (bform B q)).
    Proof.
      unfold norm_factor. destruct (kre_nonneg ops (navg q)).
      - exists none_. split; [left; reflexivity | reflexivity].
      - exists (nopp none_). split; [right; reflexivity | reflexivity].
    Qed.

    Theorem postprocess_normalised sf B W (Qm : mat) W' Q' :
      sqrt_contract ops -> postprocess ops sf B W Qm = Ok (W', Q') ->
      forall j, (j < length W')%nat -> bform B (getcol j Q') = none_.
    Proof.
      intros Hsq HP j Hj. destruct (postprocess_spec ops sf B W Qm W' Q' HP) as (_ & _ & HlW & _ & _ & Hcol).
      rewrite HlW in Hj. destruct (Hcol j Hj) as (_ & Hk & Hq). rewrite Hq.
      destruct (Hsq _ Hk) as [Hs Hv]. destruct (norm_factor_sgn B (getcol (nth j (sf W Qm) O) Qm)) as (sgn & Hsgn & ->).
      apply normalised_vector; auto.
    Qed.

    (* genuine eigenvectors stay genuine: a non-zero raw column gives a non-zero output column *)
    Theorem postprocess_keeps_nonzero sf B W (Qm : mat) W' Q' :
      sqrt_contract ops -> postprocess ops sf B W Qm = Ok (W', Q') ->
      forall j, (j < length W')%nat ->
        is_zero_vec (getcol j Q') -> is_zero_vec (getcol (nth j (sf W Qm) O) Qm).
    Proof.
      intros Hsq HP j Hj. destruct (postprocess_spec ops sf B W Qm W' Q' HP) as (_ & _ & HlW & _ & _ & Hcol).
      rewrite HlW in Hj. destruct (Hcol j Hj) as (_ & Hk & Hq). rewrite Hq.
      destruct (Hsq _ Hk) as [Hs Hv]. destruct (norm_factor_sgn B (getcol (nth j (sf W Qm) O) Qm)) as (sgn & Hsgn & ->).
      apply scale_nonzero. apply factor_nonzero; auto. eapply sq_nonzero; eauto.
    Qed.
  End Field.
End Algebra.

(* ================================================================================================ *)
(* 4. ordering and completeness                                                                      *)
Section Order.
  Context {K : Type} `{Num K}.
  Variable ops : EigOps K.
  Local Notation mat := (@QMat.mat K).
  Hypothesis leb_total : forall a b, kleb ops a b = true \/ kleb ops b a = true.

  Lemma argsort_spec (keys : list K) :
    Permutation (argsort ops keys) (seq 0 (length keys)) /\
    Sorted (fun a b => kleb ops a b = true) (take (argsort ops keys) keys).
  Proof.
    unfold argsort.
    destruct (isort_from_spec (kleb ops) (fun j => nth j keys nzero) leb_total (seq 0 (length keys)) [] (Sorted_nil _))
      as [Hs Hp].
    split.
    - eapply perm_trans; [exact Hp|]. rewrite app_nil_r. apply Permutation_sym, Permutation_rev.
    - unfold take. apply Sorted_map. exact Hs.
  Qed.

  (* default sorting function: the returned eigenvalues ascend in the order used by np.argsort *)
  Theorem postprocess_sorted B W (Qm : mat) W' Q' :
    postprocess ops (sort_default ops) B W Qm = Ok (W', Q') ->
    Sorted (fun a b => kleb ops a b = true) W'.
  Proof.
    intros HP. destruct (postprocess_spec ops _ B W Qm W' Q' HP) as (_ & -> & _).
    unfold sort_default. apply argsort_spec.
  Qed.

  Lemma take_perm (isort : list nat) (W : list K) :
    Permutation isort (seq 0 (length W)) -> Permutation (take isort W) W.
  Proof.
    intros Hp. unfold take.
    eapply perm_trans; [apply Permutation_map; exact Hp|]. rewrite map_nth_seq. apply Permutation_refl.
  Qed.

  (* any sorting function that returns a permutation (in particular the default): nothing is lost or
     duplicated -- with the n pairs LAPACK returns the output is the complete spectrum *)
  Theorem postprocess_complete sf B W (Qm : mat) W' Q' :
    Permutation (sf W Qm) (seq 0 (length W)) ->
    postprocess ops sf B W Qm = Ok (W', Q') ->
    length W' = length W /\ Permutation W' W /\
    forall j, (j < length W)%nat ->
      let i := nth j (sf W Qm) O in
      (i < length W)%nat /\ nth j W' nzero = nth i W nzero /\
      getcol j Q' = vscaler (norm_factor ops B (getcol i Qm)) (getcol i Qm).
  Proof.
    intros Hp HP. destruct (postprocess_spec ops sf B W Qm W' Q' HP) as (Hidx & HW & HlW & _ & _ & Hcol).
    assert (Hl : length (sf W Qm) = length W) by (rewrite (Permutation_length Hp); apply seq_length).
    split; [lia|]. split; [rewrite HW; apply take_perm; exact Hp|].
    intros j Hj i. rewrite <- Hl in Hj. destruct (Hcol j Hj) as (Hw & _ & Hq).
    split; [apply Hidx; exact Hj|]. split; [exact Hw | exact Hq].
  Qed.

  Theorem default_sort_is_permutation (W : list K) (Qm : mat) :
    Permutation (sort_default ops W Qm) (seq 0 (length W)).
  Proof. unfold sort_default. apply argsort_spec. Qed.
End Order.

(* ================================================================================================ *)
(* 5. the reals: sign rule, and the real symmetric case end to end (true sqrt, no oracle for it)      *)
Section Reals.
  Local Open Scope R_scope.
  Local Notation matR := (@QMat.mat R).

  Lemma Rleb_true a b : Rleb a b = true <-> a <= b.
  Proof. unfold Rleb. destruct (Rle_dec a b); split; intros; auto; discriminate. Qed.

  Lemma Rleb_total a b : Rleb a b = true \/ Rleb b a = true.
  Proof. rewrite !Rleb_true. lra. Qed.

  Lemma knormable_R v : knormable opsR v = true <-> 0 < v.
  Proof. cbn. destruct (Rlt_dec 0 v); split; intros; auto; discriminate. Qed.

  Lemma sqrt_contract_R : sqrt_contract opsR.
  Proof.
    intros v Hv. apply knormable_R in Hv. cbn. split; [apply sqrt_sqrt; lra | lra].
  Qed.

  (* the Hermitian test (np.allclose based) accepts every exactly symmetric real matrix, dense or sparse *)
  Lemma detect_symmetric_R (sp : bool) (A : matR) :
    (forall i j, (i < length A)%nat -> (j < length A)%nat -> entry A i j = entry A j i) ->
    is_hermitian_mat opsR sp A = true.
  Proof.
    intros Hsym. unfold is_hermitian_mat. apply forallb_forall. intros i Hi. apply forallb_forall. intros j Hj.
    apply in_seq in Hi. apply in_seq in Hj. cbn [kconj ksmall_np kclose_np opsR].
    rewrite (Hsym i j) by lia.
    destruct sp; apply Rleb_true; cbn [nsub NumR].
    - replace (entry A j i - entry A j i) with 0 by ring. rewrite Rabs_R0. lra.
    - replace (entry A j i - entry A j i) with 0 by ring. rewrite Rabs_R0.
      pose proof (Rabs_pos (entry A j i)). lra.
  Qed.

  (* the sign rule: after scaling, the mean entry is non-negative *)
  Lemma sign_aux (S n s : R) : 0 < s ->
    0 <= (S * ((if Rleb 0 (S / n) then 1 else - (1)) / s)) / n.
  Proof.
    intros Hs. pose proof (Rinv_0_lt_compat _ Hs) as Hi.
    destruct (Rleb 0 (S / n)) eqn:E.
    - apply Rleb_true in E.
      replace (S * (1 / s) / n) with ((S / n) * / s) by (unfold Rdiv; ring).
      apply Rmult_le_pos; [exact E | lra].
    - assert (E' : ~ 0 <= S / n) by (intros X; apply Rleb_true in X; congruence).
      replace (S * (- (1) / s) / n) with ((- (S / n)) * / s) by (unfold Rdiv; ring).
      apply Rmult_le_pos; lra.
  Qed.

  (* the sign rule: after scaling, the mean entry is non-negative *)
  Lemma sign_vector (B : option matR) (q : list R) :
    0 < bform B q -> 0 <= navg (vscaler (norm_factor opsR B q) q).
  Proof.
    intros Hv. rewrite (navg_vscaler num_ring_R).
    pose proof (sqrt_lt_R0 _ Hv) as Hs.
    pose proof (sign_aux (nsum q) (IZR (Z.of_nat (length q))) (sqrt (bform B q)) Hs) as Hx.
    unfold norm_factor, navg. cbn [ksqrt kre_nonneg opsR ndiv nmul NumR nofZ none_ nopp].
    destruct (Rleb 0 (nsum q / IZR (Z.of_nat (length q)))); exact Hx.
  Qed.

  Theorem postprocess_sign sf (B : option matR) W (Qm : matR) W' Q' :
    postprocess opsR sf B W Qm = Ok (W', Q') ->
    forall j, (j < length W')%nat -> 0 <= navg (getcol j Q').
  Proof.
    intros HP j Hj. destruct (postprocess_spec opsR sf B W Qm W' Q' HP) as (_ & _ & HlW & _ & _ & Hcol).
    rewrite HlW in Hj. destruct (Hcol j Hj) as (_ & Hk & Hq). rewrite Hq.
    apply sign_vector. apply knormable_R. exact Hk.
  Qed.

  Lemma Sorted_Rleb (l : list R) : Sorted (fun a b => Rleb a b = true) l -> Sorted Rle l.
  Proof.
    induction 1 as [|a l Hs IH Hhd]; constructor; auto.
    destruct Hhd; constructor. apply Rleb_true. assumption.
  Qed.

  (* real symmetric (generalised) problem, default sorting: all clauses at once *)
  Theorem real_symmetric_response (A : matR) (B : option matR) W (Qm : matR) W' Q' :
    contract A B W Qm ->
    postprocess opsR (sort_default opsR) B W Qm = Ok (W', Q') ->
    contract A B W' Q' /\
    (forall j, (j < length W')%nat -> bform B (getcol j Q') = 1) /\
    Sorted Rle W' /\
    (forall j, (j < length W')%nat -> 0 <= navg (getcol j Q')) /\
    length W' = length W /\ Permutation W' W.
  Proof.
    intros Hc HP.
    split; [eapply (postprocess_keeps_eigenpairs opsR num_ring_R); eauto|].
    split; [eapply (postprocess_normalised opsR num_ring_R num_field_R); eauto using sqrt_contract_R|].
    split; [apply Sorted_Rleb; eapply (postprocess_sorted opsR Rleb_total); eauto|].
    split; [eapply postprocess_sign; eauto|].
    destruct (postprocess_complete opsR (sort_default opsR) B W Qm W' Q'
                (default_sort_is_permutation opsR Rleb_total W Qm) HP) as (H1 & H2 & _).
    split; assumption.
  Qed.

  (* ... and the module does return (no AssertionError) when B is positive on the raw vectors *)
  Theorem real_symmetric_total (B : option matR) W (Qm : matR) :
    (forall i, (i < length W)%nat -> 0 < bform B (getcol i Qm)) ->
    exists W' Q', postprocess opsR (sort_default opsR) B W Qm = Ok (W', Q').
  Proof.
    intros Hpos. apply postprocess_total.
    - intros j Hj.
      pose proof (default_sort_is_permutation opsR Rleb_total W Qm) as Hp.
      assert (Hin : In (nth j (sort_default opsR W Qm) O) (seq 0 (length W))).
      { eapply Permutation_in; [exact Hp | apply nth_In; exact Hj]. }
      apply in_seq in Hin. lia.
    - intros i Hi. apply knormable_R. apply Hpos. exact Hi.
  Qed.
End Reals.

(* ================================================================================================ *)
(* 6. dispatch and the state machine of _sparse_eigs                                                 *)
Section Machine.
  Context {K : Type} `{Num K}.
  Variable ops : EigOps K.
  Variable auto_solver : @QMat.mat K -> bool -> nat.
  Local Notation mat := (@QMat.mat K).

  (* which library routine is called, on which matrices, and that the flag is cached *)
  Theorem dispatch st p st' c :
    response ops auto_solver st p = (st', Ok c) ->
    cFun c = (if pencil_sparse p then (if herm_flag ops st p then EIGSH else EIGS)
              else (if herm_flag ops st p then EIGH else EIG)) /\
    cA c = pA p /\ sHerm st' = Some (herm_flag ops st p) /\
    (pencil_sparse p = false -> cM c = pB p /\ cOPinv c = None).
  Proof.
    unfold response. fold (herm_flag ops st p). fold (pencil_sparse p).
    destruct (pencil_sparse p) eqn:Es.
    - unfold sparse_eigs.
      destruct (truthy_sigma_zero ops match sSigma st with Some s => s | None => nzero end);
        destruct (sAinv st) as [sv|]; destruct (herm_flag ops st p); cbn;
        try (destruct (negb (Nat.eqb (sMode st) 0)); cbn);
        intros E; inversion E; subst; cbn; repeat split; try discriminate.
    - intros E; inversion E; subst; cbn. destruct (herm_flag ops st p); repeat split; auto.
  Qed.

  (* the dense branch reads nothing of the state but the Hermitian flag: nmodes, sigma, mode, the cached solver and the
     do_solve flag (the sparse-only options and what an earlier sparse call stored) do not influence the library call,
     which carries no k / sigma / mode / OPinv; everything after the call (postprocess) does not take the state at all *)
  Lemma dense_ignores_options st st2 p :
    pencil_sparse p = false -> sHerm st = sHerm st2 ->
    snd (response ops auto_solver st p) = snd (response ops auto_solver st2 p) /\
    exists c, snd (response ops auto_solver st p) = Ok c /\
              cFun c = (if herm_flag ops st p then EIGH else EIG) /\ cA c = pA p /\ cM c = pB p /\
              cK c = None /\ cSigma c = None /\ cMode c = None /\ cOPinv c = None.
  Proof.
    intros Hs Hh.
    assert (Hf : herm_flag ops st p = herm_flag ops st2 p) by (unfold herm_flag; rewrite Hh; reflexivity).
    unfold response. fold (herm_flag ops st p). fold (herm_flag ops st2 p). fold (pencil_sparse p).
    rewrite Hs, <- Hf. cbn [snd]. split; [reflexivity|].
    eexists; split; [reflexivity|]. cbn. repeat split; reflexivity.
  Qed.

  Lemma step_keeps_flag st o h : sHerm st = Some h -> sHerm (fst (step ops auto_solver st o)) = Some h.
  Proof.
    intros Hh. destruct o as [p|s]; cbn [step]; [|cbn; exact Hh].
    destruct (response ops auto_solver st p) as [st' c] eqn:E. cbn [fst].
    unfold response in E.
    assert (Hf : herm_flag ops st p = h) by (unfold herm_flag; rewrite Hh; reflexivity). rewrite Hf in E.
    destruct (pencil_sparse p).
    - unfold sparse_eigs in E.
      destruct (truthy_sigma_zero ops match sSigma st with Some s => s | None => nzero end);
        destruct (sAinv st) as [sv|]; destruct h; cbn in E;
        try (destruct (negb (Nat.eqb (sMode st) 0)); cbn in E);
        inversion E; subst; reflexivity.
    - inversion E; subst; reflexivity.
  Qed.

  (* the Hermitian flag detected (or given) at the first call is used for every later call *)
  Theorem flag_sticky st os h : sHerm st = Some h -> sHerm (run_state ops auto_solver st os) = Some h.
  Proof.
    revert st. induction os as [|o t IH]; intros st Hh; cbn [run_state]; auto.
    apply IH. apply step_keeps_flag. exact Hh.
  Qed.

  (* invariant: once a solver object exists, do_solve is set (it is never cleared) *)
  Definition inv (st : @estate K) : Prop := sAinv st = None \/ sDoSolve st = true.

  Lemma prepare_inv h nm sg md : inv (prepare h nm sg md).
  Proof. left. reflexivity. Qed.

  Lemma response_current st p st' c :
    inv st -> response ops auto_solver st p = (st', Ok c) -> call_current ops st p c /\ inv st'.
  Proof.
    intros Hinv. unfold response, call_current. fold (pencil_sparse p).
    destruct (pencil_sparse p) eqn:Es.
    - unfold sparse_eigs, shifted_of.
      set (sg := match sSigma st with Some s => s | None => nzero end).
      destruct (truthy_sigma_zero ops sg) eqn:Ez.
      + destruct (sAinv st) as [[kd mm]|] eqn:Ea.
        * destruct Hinv as [Hn|Hd]; [rewrite Ea in Hn; discriminate|]. rewrite Hd. cbn.
          destruct (herm_flag ops st p); cbn;
            try (destruct (negb (Nat.eqb (sMode st) 0)); cbn);
            intros E; inversion E; subst; cbn; (split; [eexists; repeat split; reflexivity | right; reflexivity]).
        * cbn.
          destruct (herm_flag ops st p); cbn;
            try (destruct (negb (Nat.eqb (sMode st) 0)); cbn);
            intros E; inversion E; subst; cbn; (split; [eexists; repeat split; reflexivity | right; reflexivity]).
      + destruct (sAinv st) as [[kd mm]|] eqn:Ea; cbn;
          destruct (herm_flag ops st p); cbn;
            try (destruct (negb (Nat.eqb (sMode st) 0)); cbn);
            intros E; inversion E; subst; cbn; (split; [eexists; repeat split; reflexivity | right; reflexivity]).
    - intros E; inversion E; subst; cbn. split; [split; reflexivity|]. exact Hinv.
  Qed.

  Lemma response_inv st p : inv st -> inv (fst (response ops auto_solver st p)).
  Proof.
    intros Hinv. destruct (response ops auto_solver st p) as [st' [c|e]] eqn:E; cbn [fst].
    - eapply response_current; eauto.
    - (* NotImplementedError: the state was updated before the raise *)
      unfold response in E.
      destruct (pencil_sparse p); [|inversion E].
      unfold sparse_eigs in E.
      set (sg := match sSigma st with Some s => s | None => nzero end) in *.
      destruct (truthy_sigma_zero ops sg) eqn:Ez.
      + destruct (sAinv st) as [[kd mm]|] eqn:Ea.
        * destruct Hinv as [Hn|Hd]; [rewrite Ea in Hn; discriminate|]. rewrite Hd in E. cbn in E.
          destruct (herm_flag ops st p); cbn in E; [inversion E|].
          destruct (negb (Nat.eqb (sMode st) 0)); cbn in E; inversion E; subst; right; reflexivity.
        * cbn in E.
          destruct (herm_flag ops st p); cbn in E; [inversion E|].
          destruct (negb (Nat.eqb (sMode st) 0)); cbn in E; inversion E; subst; right; reflexivity.
      + destruct (sAinv st) as [[kd mm]|] eqn:Ea; cbn in E;
          (destruct (herm_flag ops st p); cbn in E; [inversion E|]);
          destruct (negb (Nat.eqb (sMode st) 0)); cbn in E; inversion E; subst; right; reflexivity.
  Qed.

  Lemma history_current_inv st os : inv st -> history_current ops auto_solver st os.
  Proof.
    revert st. induction os as [|o t IH]; intros st Hinv; cbn [history_current]; auto.
    split.
    - destruct o as [p|s]; auto.
      destruct (response ops auto_solver st p) as [st' [c|e]] eqn:E; cbn [snd]; auto.
      eapply response_current; eauto.
    - apply IH. destruct o as [p|s]; cbn [step].
      + pose proof (response_inv st p Hinv) as Hi. destruct (response ops auto_solver st p); exact Hi.
      + cbn [fst]. destruct Hinv as [Hn|Hd]; [left | right]; assumption.
  Qed.

  Lemma run_state_inv st os : inv st -> inv (run_state ops auto_solver st os).
  Proof.
    revert st. induction os as [|o t IH]; intros st Hinv; cbn [run_state]; auto.
    apply IH. destruct o as [p|s]; cbn [step].
    - pose proof (response_inv st p Hinv) as Hi. destruct (response ops auto_solver st p); exact Hi.
    - cbn [fst]. destruct Hinv as [Hn|Hd]; [left | right]; assumption.
  Qed.

  (* what is proved of "the sparse path returns the requested number of eigenvalues closest to the shift":
     in any reachable state the module REQUESTS k = nmodes (default 6) eigenvalues around sigma (default 0) from
     ARPACK in shift-invert mode with the current operator, and returns exactly what ARPACK returned (reordered) *)
  Theorem sparse_selection_partial
    (leb_total : forall a b, kleb ops a b = true \/ kleb ops b a = true)
    h nm sg md os p st' c :
    let st := run_state ops auto_solver (prepare h nm sg md) os in
    response ops auto_solver st p = (st', Ok c) -> pencil_sparse p = true ->
    cK c = Some (match sNmodes st with None => 6%Z | Some k => k end) /\
    cSigma c = Some (match sSigma st with None => nzero | Some s => s end) /\
    (exists kind, cOPinv c = Some (kind, Some (shifted_of ops (sSigma st) p))) /\
    forall W (Qm : mat) W' Q',
      postprocess ops (sort_default ops) (pB p) W Qm = Ok (W', Q') ->
      length W' = length W /\ Permutation W' W.
  Proof.
    intros st E Hs.
    destruct (response_current st p st' c (run_state_inv _ os (prepare_inv h nm sg md)) E) as [Hc _].
    unfold call_current in Hc. rewrite Hs in Hc. destruct Hc as (kind & H1 & H2 & H3 & _).
    split; [exact H2|]. split; [exact H3|]. split; [exists kind; exact H1|].
    intros W Qm W' Q' HP.
    destruct (postprocess_complete ops (sort_default ops) (pB p) W Qm W' Q'
                (default_sort_is_permutation ops leb_total W Qm) HP) as (Ha & Hb & _).
    split; assumption.
  Qed.

  (* by induction over ANY sequence of calls with changing A, B and sigma: the shift-invert operator handed
     to ARPACK at call k is the factorisation of the k-th A - sigma B; k, sigma, M are the current ones *)
  Theorem factorisation_current h nm sg md os : history_current ops auto_solver (prepare h nm sg md) os.
  Proof. apply history_current_inv. apply prepare_inv. Qed.
End Machine.

(* ================================================================================================ *)
(* 7. non-vacuity: concrete instances                                                                *)
Section Examples.
  Local Open Scope R_scope.
  Lemma ex_contract : contract exA None exW exQ.
  Proof.
    split.
    - repeat constructor.
    - intros i Hi. cbn in Hi. unfold eigpair, exA, exW, exQ.
      destruct i as [|[|i]]; [| |lia]; cbn; (f_equal; [ring | f_equal; ring]).
  Qed.

  Lemma ex_positive : forall i, (i < length exW)%nat -> 0 < bform None (getcol i exQ).
  Proof.
    intros i Hi. cbn in Hi. destruct i as [|[|i]]; [| |lia]; cbn; lra.
  Qed.

  Lemma ex_runs : exists W' Q', postprocess opsR (sort_default opsR) None exW exQ = Ok (W', Q') /\
    contract exA None W' Q' /\ Sorted Rle W' /\ Permutation W' exW.
  Proof.
    destruct (real_symmetric_total None exW exQ ex_positive) as (W' & Q' & HP).
    exists W', Q'. split; [exact HP|].
    destruct (real_symmetric_response exA None exW exQ W' Q' ex_contract HP) as (H1 & _ & H3 & _ & _ & H6).
    auto.
  Qed.
End Examples.

Lemma ex_opinvs_value :
  ex_opinvs = [Some [[dz 2; dz 1]; [dz 1; dz 3]]; Some [[dz 5; dz 1]; [dz 1; dz 4]]; None;
               Some [[dz 0; dz 1]; [dz 1; dz 1]]].
Proof. vm_compute. reflexivity. Qed.
