From Coq Require Import ZArith QArith List Bool.
From Pymoto Require Import Base.Num Base.QMat Model.Eig.
Import ListNotations.
