(* Facts about the multigrid prolongation Model/MGInterp.v (GeometricMultigrid.setup_interpolation), for ALL domains
   with even sizes (2-D and 3-D, nelx, nely, nelz independent of each other) and any number of dofs per node:
   - every triple lies inside the nfine x ncoarse matrix, its weight is one of 1/8 .. 1 (1 .. 8 over 8);
   - the row of the fine node (2a, 2b, 2c) holds exactly the coarse node (a, b, c), with weight 1:
     R contains a permuted identity, so R x = 0 only for x = 0 (full column rank).  This is what makes the Galerkin
     coarse matrix R^T A R positive definite whenever A is, i.e. the coarse solve well-defined. *)
From Coq Require Import ZArith List Lia Bool.
From Pymoto Require Import Model.Grid Proofs.GridP Model.MGInterp.
Import ListNotations.
Open Scope Z_scope.

Definition even_grid (g : grid) : Prop :=
  exists nx ny nz, 1 <= nx /\ 1 <= ny /\ 0 <= nz /\ nelx g = 2 * nx /\ nely g = 2 * ny /\ nelz g = 2 * nz.

Lemma half_double n : 2 * n / 2 = n.
Proof. rewrite Z.mul_comm. apply Z.div_mul. lia. Qed.

Lemma in_arange x lo hi : In x (arange lo hi) <-> lo <= x < hi.
Proof.
  unfold arange. rewrite in_map_iff. split.
  - intros (t & Ht & Hin). apply in_seq in Hin. lia.
  - intros H. exists (Z.to_nat (x - lo)). split; [lia|]. apply in_seq. lia.
Qed.

Lemma in_crange a n i : In a (crange n i) <-> Z.max (- i) 0 <= a < Z.min (n + 1 - i) (n + 1).
Proof. unfold crange. apply in_arange. Qed.

Lemma in_mesh a b c ix iy iz : In (a, b, c) (mesh ix iy iz) <-> In a ix /\ In b iy /\ In c iz.
Proof.
  unfold mesh. rewrite in_flat_map. split.
  - intros (a' & Ha & H). rewrite in_flat_map in H. destruct H as (b' & Hb & H).
    rewrite in_map_iff in H. destruct H as (c' & E & Hc). inversion E; subst. auto.
  - intros (Ha & Hb & Hc). exists a. split; [exact Ha|]. rewrite in_flat_map. exists b. split; [exact Hb|].
    rewrite in_map_iff. exists c. auto.
Qed.

Lemma in_offsets3 i : In i offsets3 <-> i = -1 \/ i = 0 \/ i = 1.
Proof. unfold offsets3. cbn. intuition lia. Qed.

Lemma in_koffsets fine k :
  In k (if dim fine =? 3 then offsets3 else [0]) -> k = -1 \/ k = 0 \/ k = 1.
Proof. destruct (dim fine =? 3); [apply in_offsets3 | cbn; intuition lia]. Qed.

Lemma zero_in_koffsets fine : In 0 (if dim fine =? 3 then offsets3 else [0]).
Proof. destruct (dim fine =? 3); cbn; auto. Qed.

(* membership in the triple list, unfolded once and for all *)
Lemma in_interp fine ndof r col v :
  In (r, col, v) (interp_triples fine ndof) <->
  exists i j k a b c d,
    In i offsets3 /\ In j offsets3 /\ In k (if dim fine =? 3 then offsets3 else [0]) /\
    In a (crange (nelx (sub_grid fine)) i) /\ In b (crange (nely (sub_grid fine)) j) /\
    In c (crange (nelz (sub_grid fine)) k) /\ In d (arange 0 ndof) /\
    r = nodenumber fine (2 * a + i) (2 * b + j) (2 * c + k) * ndof + d /\
    col = nodenumber (sub_grid fine) a b c * ndof + d /\
    v = weight8 i j k.
Proof.
  unfold interp_triples. cbv zeta. rewrite in_flat_map. split.
  - intros (i & Hi & H). rewrite in_flat_map in H. destruct H as (j & Hj & H).
    rewrite in_flat_map in H. destruct H as (k & Hk & H).
    rewrite in_flat_map in H. destruct H as (d & Hd & H).
    rewrite in_map_iff in H. destruct H as (((a & b) & c) & E & Hp).
    apply in_mesh in Hp. destruct Hp as (Ha & Hb & Hc). inversion E; subst.
    exists i, j, k, a, b, c, d. repeat split; assumption.
  - intros (i & j & k & a & b & c & d & Hi & Hj & Hk & Ha & Hb & Hc & Hd & -> & -> & ->).
    exists i. split; [exact Hi|]. rewrite in_flat_map. exists j. split; [exact Hj|].
    rewrite in_flat_map. exists k. split; [exact Hk|].
    rewrite in_flat_map. exists d. split; [exact Hd|].
    rewrite in_map_iff. exists (a, b, c). split; [reflexivity|]. apply in_mesh. auto.
Qed.

Lemma mr_unique a b a' b' n :
  0 <= b < n -> 0 <= b' < n -> a * n + b = a' * n + b' -> a = a' /\ b = b'.
Proof.
  intros Hb Hb' E.
  assert (Ha : a = a').
  { rewrite <- (mr_div a b n) by lia. rewrite <- (mr_div a' b' n) by lia. now rewrite E. }
  subst. lia.
Qed.

Section Interp.
  Variable fine : grid.
  Variable ndof : Z.
  Hypothesis Heven : even_grid fine.
  Hypothesis Hndof : 1 <= ndof.

  Lemma wf_fine : wf fine.
  Proof. destruct Heven as (nx & ny & nz & ? & ? & ? & ? & ? & ?). unfold wf. lia. Qed.

  Lemma wf_sub : wf (sub_grid fine).
  Proof.
    destruct Heven as (nx & ny & nz & ? & ? & ? & Ex & Ey & Ez). unfold wf, sub_grid. cbn [nelx nely nelz].
    rewrite Ex, Ey, Ez, !half_double. lia.
  Qed.

  Lemma fine_sizes :
    nelx fine = 2 * nelx (sub_grid fine) /\ nely fine = 2 * nely (sub_grid fine) /\ nelz fine = 2 * nelz (sub_grid fine).
  Proof.
    destruct Heven as (nx & ny & nz & ? & ? & ? & Ex & Ey & Ez). unfold sub_grid. cbn [nelx nely nelz].
    rewrite Ex, Ey, Ez, !half_double. lia.
  Qed.

  (* coordinates of a generated triple lie in the boxes of the two domains *)
  Lemma triple_coords i j k a b c :
    (i = -1 \/ i = 0 \/ i = 1) -> (j = -1 \/ j = 0 \/ j = 1) -> (k = -1 \/ k = 0 \/ k = 1) ->
    In a (crange (nelx (sub_grid fine)) i) -> In b (crange (nely (sub_grid fine)) j) ->
    In c (crange (nelz (sub_grid fine)) k) ->
    (0 <= a <= nelx (sub_grid fine) /\ 0 <= b <= nely (sub_grid fine) /\ 0 <= c <= nelz (sub_grid fine)) /\
    (0 <= 2 * a + i <= nelx fine /\ 0 <= 2 * b + j <= nely fine /\ 0 <= 2 * c + k <= nelz fine).
  Proof.
    intros Hi Hj Hk Ha Hb Hc. apply in_crange in Ha, Hb, Hc.
    destruct fine_sizes as (Ex & Ey & Ez). lia.
  Qed.

  Theorem interp_in_range r col v :
    In (r, col, v) (interp_triples fine ndof) ->
    0 <= r < nfine fine ndof /\ 0 <= col < ncoarse fine ndof /\ 1 <= v <= 8.
  Proof.
    intros H. apply in_interp in H.
    destruct H as (i & j & k & a & b & c & d & Hi & Hj & Hk & Ha & Hb & Hc & Hd & -> & -> & ->).
    apply in_offsets3 in Hi, Hj. apply in_koffsets in Hk. apply in_arange in Hd.
    destruct (triple_coords i j k a b c Hi Hj Hk Ha Hb Hc) as ((A1 & A2 & A3) & (F1 & F2 & F3)).
    pose proof (node_range fine _ _ _ F1 F2 F3) as RF.
    pose proof (node_range (sub_grid fine) _ _ _ A1 A2 A3) as RC.
    unfold nfine, ncoarse. repeat split; try nia.
    all: unfold weight8, w1; destruct Hi as [->|[->| ->]], Hj as [->|[->| ->]], Hk as [->|[->| ->]]; cbn; lia.
  Qed.

  Section Pinned.
    Variables a b c d : Z.
    Hypothesis Ha : 0 <= a <= nelx (sub_grid fine).
    Hypothesis Hb : 0 <= b <= nely (sub_grid fine).
    Hypothesis Hc : 0 <= c <= nelz (sub_grid fine).
    Hypothesis Hd : 0 <= d < ndof.

    Let r := nodenumber fine (2 * a) (2 * b) (2 * c) * ndof + d.
    Let q := nodenumber (sub_grid fine) a b c * ndof + d.

    Lemma pinned_present : In (r, q, 8) (interp_triples fine ndof).
    Proof.
      apply in_interp. exists 0, 0, 0, a, b, c, d.
      repeat split.
      - apply in_offsets3; lia.
      - apply in_offsets3; lia.
      - apply zero_in_koffsets.
      - apply in_crange; lia.
      - apply in_crange; lia.
      - apply in_crange; lia.
      - apply in_arange; lia.
      - unfold r. now rewrite !Z.add_0_r.
    Qed.

    Lemma pinned_only col v : In (r, col, v) (interp_triples fine ndof) -> col = q /\ v = 8.
    Proof.
      intros H. apply in_interp in H.
      destruct H as (i & j & k & a' & b' & c' & d' & Hi & Hj & Hk & Ha' & Hb' & Hc' & Hd' & Er & -> & ->).
      apply in_offsets3 in Hi, Hj. apply in_koffsets in Hk. apply in_arange in Hd'.
      destruct (triple_coords i j k a' b' c' Hi Hj Hk Ha' Hb' Hc') as ((A1 & A2 & A3) & (F1 & F2 & F3)).
      destruct fine_sizes as (Ex & Ey & Ez).
      unfold r in Er. apply mr_unique in Er; [|lia|lia]. destruct Er as (En & Ed).
      apply (node_inj fine wf_fine) in En; try lia.
      destruct En as (E1 & E2 & E3).
      assert (i = 0) by lia. assert (j = 0) by lia. assert (k = 0) by lia. subst i j k.
      assert (a' = a) by lia. assert (b' = b) by lia. assert (c' = c) by lia. subst a' b' c' d'.
      split; reflexivity.
    Qed.
  End Pinned.

  (* ---- R x = 0 only for x = 0 (x over the integers; rows evaluated as sum of value * x[col]) ---- *)
  Lemma apply_row_pinned T x r q :
    (forall col v, In (r, col, v) T -> col = q /\ v = 8) ->
    exists m, 0 <= m /\ apply_row T x r = 8 * m * x q /\ (forall col v, In (r, col, v) T -> 1 <= m).
  Proof.
    induction T as [|((r' & c') & v') T IH]; intros Hp.
    - exists 0. cbn. repeat split; try lia; intros ? ? [] .
    - destruct IH as (m & Hm & Em & Hone).
      { intros col v Hin. apply Hp. right. exact Hin. }
      cbn [apply_row fold_right]. fold (apply_row T x r).
      destruct (r' =? r) eqn:E.
      + apply Z.eqb_eq in E. subst r'.
        destruct (Hp c' v' (or_introl eq_refl)) as (-> & ->).
        exists (m + 1). split; [lia|]. split; [rewrite Em; ring|]. intros; lia.
      + exists m. repeat split; try assumption.
        intros col v [Hin|Hin].
        * inversion Hin; subst. rewrite Z.eqb_refl in E. discriminate.
        * eapply Hone; exact Hin.
  Qed.

  Theorem interp_injective (x : Z -> Z) :
    (forall r, 0 <= r < nfine fine ndof -> apply_row (interp_triples fine ndof) x r = 0) ->
    forall q, 0 <= q < ncoarse fine ndof -> x q = 0.
  Proof.
    intros Hzero q Hq. unfold ncoarse in Hq.
    set (N := q / ndof). set (d := q mod ndof).
    assert (Hd : 0 <= d < ndof) by (apply Z.mod_pos_bound; lia).
    assert (Eq : q = N * ndof + d) by (unfold N, d; rewrite Z.mul_comm; apply Z.div_mod; lia).
    assert (HN : 0 <= N < nnodes (sub_grid fine)).
    { split; [apply Z.div_pos; lia|]. apply Z.div_lt_upper_bound; lia. }
    destruct (node_num_inv (sub_grid fine) wf_sub N HN) as (Ha & Hb & Hc & EN).
    set (a := node_i (sub_grid fine) N) in *. set (b := node_j (sub_grid fine) N) in *.
    set (c := node_k (sub_grid fine) N) in *.
    assert (Hin : In (nodenumber fine (2 * a) (2 * b) (2 * c) * ndof + d,
                      nodenumber (sub_grid fine) a b c * ndof + d, 8) (interp_triples fine ndof))
      by (apply pinned_present; assumption).
    assert (Honly : forall col v,
               In (nodenumber fine (2 * a) (2 * b) (2 * c) * ndof + d, col, v) (interp_triples fine ndof) ->
               col = nodenumber (sub_grid fine) a b c * ndof + d /\ v = 8)
      by (intros col v; apply pinned_only; assumption).
    rewrite EN, <- Eq in Hin, Honly.
    destruct (apply_row_pinned (interp_triples fine ndof) x _ q Honly) as (m & Hm & Em & Hone).
    specialize (Hone _ _ Hin).
    pose proof (interp_in_range _ _ _ Hin) as (Hr & _ & _).
    rewrite (Hzero _ Hr) in Em. nia.
  Qed.
End Interp.

Theorem interp_pinned_rows fine ndof :
  even_grid fine -> 1 <= ndof ->
  forall a b c d,
  0 <= a <= nelx (sub_grid fine) -> 0 <= b <= nely (sub_grid fine) -> 0 <= c <= nelz (sub_grid fine) -> 0 <= d < ndof ->
  let r := nodenumber fine (2 * a) (2 * b) (2 * c) * ndof + d in
  let q := nodenumber (sub_grid fine) a b c * ndof + d in
  In (r, q, 8) (interp_triples fine ndof) /\
  forall col v, In (r, col, v) (interp_triples fine ndof) -> col = q /\ v = 8.
Proof.
  intros He Hn a b c d Ha Hb Hc Hd r q. split.
  - apply pinned_present; assumption.
  - intros col v. apply pinned_only; assumption.
Qed.
