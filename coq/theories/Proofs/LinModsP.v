(* Defining equations of LinSolve, Inverse, SystemOfEquations, StaticCondensation (block elimination identities). *)
From mathcomp Require Import all_ssreflect all_algebra.
From Pymoto Require Import Base.StarRing Model.LinMods.
Set Implicit Arguments.
Unset Strict Implicit.
Unset Printing Implicit Defensive.
Import GRing.Theory.
Local Open Scope ring_scope.

Section LinModsP.
Variable M : ringType.
Variables tr cj : M -> M.
Hypothesis SL : star_laws tr cj.

(* ---------------------------------------------------------------- LinSolve / Inverse *)
Lemma linsolve_correct solve A b : solver_ok tr cj solve A -> A * linsolve solve b = b.
Proof. by move=> H; exact: (H tN b). Qed.

Lemma linsolve_adjoint_correct solve A g : solver_ok tr cj solve A -> tr A * linsolve_adjoint solve g = g.
Proof. by move=> H; exact: (H tT g). Qed.

Lemma inverse_correct (inv : M -> M) A : A * inv A = 1 -> A * inverse inv A = 1.
Proof. by []. Qed.

(* ---------------------------------------------------------------- SystemOfEquations *)
Section SoE.
Variables Df Dp : M.
Hypothesis SE : selectors tr cj Df Dp.
Variable solve_ff : M -> M.
Variables A Bf Xp : M.
Hypothesis HB : Df * Bf = Bf.
Hypothesis HX : Dp * Xp = Xp.
Hypothesis HS : ff_solver_ok Df solve_ff A.

Local Notation xf := (soe_xf Df Dp solve_ff A Bf Xp).
Local Notation x := (soe_x Df Dp solve_ff A Bf Xp).
Local Notation b := (soe_b Df Dp solve_ff A Bf Xp).

Let ff := sel_ff SE.
Let pp := sel_pp SE.
Let fp := sel_fp SE.
Let pf := sel_pf SE.

Lemma rhs_on_f : Df * (Bf - soe_Afp Df Dp A * Xp) = Bf - soe_Afp Df Dp A * Xp.
Proof. by rewrite mulrBr HB /soe_Afp !mulrA ff. Qed.

Lemma xf_on_f : Df * xf = xf.
Proof. by case: (HS rhs_on_f). Qed.

Lemma xf_solves : Df * A * Df * xf = Bf - Df * A * Dp * Xp.
Proof. by case: (HS rhs_on_f). Qed.

Lemma Dp_xf : Dp * xf = 0.
Proof. by rewrite -xf_on_f mulrA pf mul0r. Qed.

Lemma Df_Xp : Df * Xp = 0.
Proof. by rewrite -HX mulrA fp mul0r. Qed.

Lemma soe_prescribed : Dp * x = Xp.
Proof. by rewrite /soe_x mulrDr HX Dp_xf addr0. Qed.

Lemma soe_free_state : Df * x = xf.
Proof. by rewrite /soe_x mulrDr Df_Xp add0r xf_on_f. Qed.

Lemma soe_loads : Df * b = Bf.
Proof.
  by rewrite /soe_b /soe_Apf /soe_App !mulrDr HB !mulrA fp !mul0r !addr0.
Qed.

Lemma soe_free_rows : Df * (A * x) = Df * b.
Proof.
  rewrite soe_loads /soe_x mulrDr mulrDr -{1}HX -{1}xf_on_f !mulrA xf_solves.
  by rewrite addrC subrK.
Qed.

Lemma soe_reaction_rows : Dp * b = Dp * A * Df * xf + Dp * A * Dp * Xp.
Proof.
  rewrite /soe_b /soe_Apf /soe_App !mulrDr -{1}HB !mulrA pf !mul0r add0r.
  by rewrite pp.
Qed.

Lemma soe_true_reaction : Dp * (A * x) = Dp * A * Df * xf + Dp * A * Dp * Xp.
Proof. by rewrite /soe_x mulrDr mulrDr -{1}HX -{1}xf_on_f !mulrA addrC. Qed.

Lemma soe_reaction : Dp * (A * x) = Dp * b.
Proof. by rewrite soe_true_reaction soe_reaction_rows. Qed.

(* the pair returned by SystemOfEquations satisfies the FULL system, for every square A *)
Lemma soe_full : A * x = b.
Proof.
  by rewrite (sel_split SE (A * x)) (sel_split SE b) soe_free_rows soe_reaction.
Qed.
End SoE.

(* ---------------------------------------------------------------- StaticCondensation *)
Section Schur.
Variables Dm Df : M.
Variable solve_ff : M -> M.
Variable A : M.
(* the inner LinSolve answers the block system A_ff X = A_fm with X living on the free rows *)
Hypothesis HS1 : Df * sc_X Dm Df solve_ff A = sc_X Dm Df solve_ff A.
Hypothesis HS2 : Df * A * Df * sc_X Dm Df solve_ff A = Df * A * Dm.
(* A_ff is non-singular: Y is a left inverse in the f-corner *)
Variable Y : M.
Hypothesis Yl : Y * (Df * A * Df) = Df.

Local Notation X := (sc_X Dm Df solve_ff A).
Local Notation Ared := (sc_Ared Dm Df solve_ff A).

Lemma sc_X_eq : X = Y * (Df * A * Dm).
Proof.
  have -> : X = Df * X by rewrite HS1.
  by rewrite -{1}Yl -mulrA HS2.
Qed.

(* A~ = A_mm - A_mf A_ff^-1 A_fm *)
Lemma schur_formula : Ared = Dm * A * Dm - Dm * A * Df * Y * (Df * A * Dm).
Proof. by rewrite /sc_Ared sc_X_eq !mulrA. Qed.

(* the condensed system reproduces the main-dof response of the full system:
   A (xm + xf) = bm on the main rows and = 0 on the free rows (no load on the free dofs; all other dofs zero) *)
Lemma condensed_reproduces_main xm xf bm :
  Dm * xm = xm -> Df * xf = xf ->
  Dm * (A * (xm + xf)) = bm -> Df * (A * (xm + xf)) = 0 ->
  Ared * xm = bm.
Proof.
  move=> Hm Hf Em Ef.
  have Exf : xf = - (Y * (Df * A * Dm) * xm).
    have E0 : Df * A * Dm * xm + Df * A * Df * xf = 0.
      by rewrite -Ef mulrDr mulrDr -{2}Hm -{2}Hf !mulrA.
    apply/eqP; rewrite -addr_eq0 addrC; apply/eqP.
    have -> : xf = Y * (Df * A * Df * xf) by rewrite mulrA Yl Hf.
    by rewrite -mulrA -mulrDr E0 mulr0.
  rewrite schur_formula mulrBl -Em mulrDr mulrDr -{3}Hm -Hf Exf !mulrN !mulrA.
  by [].
Qed.
End Schur.

End LinModsP.

(* ---------------------------------------------------------------- non-vacuity: 2 x 2 rational matrices,
   A = [[2, 1], [3, 4]] (NOT symmetric, coupled), f = {0}, p = {1}, D_f = E00, D_p = E11, inner solve = division by 2 *)
Section Inst.
Local Notation R := rat.
Local Notation Mx := 'M[R]_2.
Definition E (i j : 'I_2) : Mx := delta_mx i j.
Definition i0 : 'I_2 := ord0.
Definition i1 : 'I_2 := lift ord0 ord0.
Lemma EE i j k l : E i j * E k l = E i l *+ (j == k).
Proof. by rewrite /E -mulmxE mul_delta_mx_cond. Qed.
Lemma sumE : E i0 i0 + E i1 i1 = 1.
Proof.
  apply/matrixP => i j; rewrite !mxE.
  by case: i => [[|[|i]] Hi] //; case: j => [[|[|j]] Hj].
Qed.
Lemma trE i j : (E i j)^T = E j i.
Proof. by rewrite /E trmx_delta. Qed.
Definition itr : Mx -> Mx := @mx_tr _ 1.
Definition icj : Mx -> Mx := @mx_cj _ [rmorphism of idfun] 1.
Lemma icjE a : icj a = a.
Proof. by apply/matrixP => i j; rewrite !mxE. Qed.
Lemma inst_sel : selectors itr icj (E i0 i0) (E i1 i1).
Proof.
  by split; rewrite /itr /mx_tr ?icjE ?trE ?EE //=; exact: sumE.
Qed.
(* A = [[2, 1], [3, 4]] (not symmetric), f = {0}, p = {1}, bf = 1, xp = 1 *)
Definition iA : Mx := 2%:Q *: E i0 i0 + E i0 i1 + 3%:Q *: E i1 i0 + 4%:Q *: E i1 i1.
Definition isolve (r : Mx) : Mx := 2%:Q^-1 *: r.
Lemma inst_ff : ff_solver_ok (E i0 i0) isolve iA.
Proof.
  move=> r Hr; rewrite /isolve; split; first by rewrite -scalerAr Hr.
  rewrite /soe_Aff /iA !mulrDr !mulrDl -!scalerAr -!scalerAl !EE /= ?mulr0n ?mulr1n ?scaler0 ?addr0 ?add0r.
  by rewrite !mul0r !scaler0 !addr0 Hr scalerA mulVf // scale1r.
Qed.
Lemma inst_star : star_laws itr icj.
Proof. by apply: matrix_star_laws. Qed.
Lemma inst_HB : E i0 i0 * E i0 i0 = E i0 i0.
Proof. by rewrite EE. Qed.
Lemma inst_HX : E i1 i1 * E i1 i0 = E i1 i0.
Proof. by rewrite EE. Qed.
Lemma inst_nonsym : itr iA <> iA.
Proof.
  move/matrixP => /(_ i0 i1); rewrite /itr /mx_tr /iA !mxE /= !mulr0 !mulr1 !addr0 !add0r.
  by [].
Qed.
End Inst.

