(* Lemmas about Model/Vti.v: classification, component counts, padding, block vectors, decode = input, names. *)
From Coq Require Import ZArith List Lia Bool.
From Pymoto Require Import Base.Cmp Base.Bytes Model.Grid Model.B64 Model.Vti Proofs.GridP Proofs.BytesP Proofs.B64P Proofs.FsP.
Import ListNotations.
Open Scope Z_scope.

Lemma nel_pos g : wf g -> 0 < nel g.
Proof. intros (Hx & Hy & Hz). unfold nel, nz1. nia. Qed.
Lemma nnodes_pos g : wf g -> 0 < nnodes g.
Proof. intros (Hx & Hy & Hz). unfold nnodes. nia. Qed.
Lemma nel_lt_nnodes g : wf g -> nel g < nnodes g.
Proof. intros (Hx & Hy & Hz). unfold nel, nnodes, nz1. nia. Qed.

(* ---- classification: vectors by their size, block vectors (2-D arrays) by the length of their axes ---- *)
Lemma class_sizes_not2 shape : length shape <> 2%nat -> class_sizes shape = [size shape].
Proof.
  intros H. unfold class_sizes, ndim. destruct (Z.eqb_spec (Z.of_nat (length shape)) 2) as [E|_]; [lia|reflexivity].
Qed.

Theorem classify_cell g shape c : wf g -> length shape <> 2%nat -> size shape = c * nel g -> classify g shape = Cell.
Proof.
  intros Hwf H2 E. unfold classify. rewrite class_sizes_not2 by exact H2. cbn [existsb].
  rewrite E, Z.mod_mul by (pose proof (nel_pos g Hwf); lia). reflexivity.
Qed.

Theorem classify_point g shape c :
  wf g -> length shape <> 2%nat -> size shape = c * nnodes g -> (c * nnodes g) mod nel g <> 0 ->
  classify g shape = Point.
Proof.
  intros Hwf H2 E Hne. unfold classify. rewrite class_sizes_not2 by exact H2. cbn [existsb]. rewrite E.
  destruct (Z.eqb_spec ((c * nnodes g) mod nel g) 0) as [H|_]; [contradiction|].
  rewrite Z.mod_mul by (pose proof (nnodes_pos g Hwf); lia). reflexivity.
Qed.

Lemma existsb_false {A} (f : A -> bool) l : Forall (fun x => f x = false) l -> existsb f l = false.
Proof. induction 1 as [|x t Hx _ IH]; [reflexivity|]. cbn. now rewrite Hx, IH. Qed.

Theorem classify_skip g shape :
  Forall (fun s => s mod nel g <> 0 /\ s mod nnodes g <> 0) (class_sizes shape) -> classify g shape = Skip.
Proof.
  intros H. unfold classify. rewrite !existsb_false; [reflexivity| |].
  - eapply Forall_impl; [|exact H]. intros s (_ & Hs). cbv beta. now destruct (Z.eqb_spec (s mod nnodes g) 0).
  - eapply Forall_impl; [|exact H]. intros s (Hs & _). cbv beta. now destruct (Z.eqb_spec (s mod nel g) 0).
Qed.

(* blocks: an axis of c*nel entries makes cell data, whatever the other axis is *)
Theorem classify_block_cell g k c : wf g -> classify g [k; c * nel g] = Cell /\ classify g [c * nel g; k] = Cell.
Proof.
  intros Hwf. pose proof (nel_pos g Hwf). unfold classify, class_sizes. change (ndim [k; c * nel g] =? 2) with true.
  change (ndim [c * nel g; k] =? 2) with true. cbn [existsb].
  rewrite Z.mod_mul, Z.eqb_refl by lia. now rewrite orb_true_r.
Qed.

(* blocks: an axis of c*nnodes entries makes point data as soon as NO AXIS is a multiple of nel; the total size
   k*c*nnodes plays no role *)
Theorem classify_block_point g k c : wf g -> k mod nel g <> 0 -> (c * nnodes g) mod nel g <> 0 ->
  classify g [k; c * nnodes g] = Point /\ classify g [c * nnodes g; k] = Point.
Proof.
  intros Hwf Hk Hc. pose proof (nnodes_pos g Hwf). unfold classify, class_sizes.
  change (ndim [k; c * nnodes g] =? 2) with true. change (ndim [c * nnodes g; k] =? 2) with true. cbn [existsb].
  destruct (Z.eqb_spec (k mod nel g) 0); [contradiction|].
  destruct (Z.eqb_spec ((c * nnodes g) mod nel g) 0); [contradiction|].
  rewrite Z.mod_mul, Z.eqb_refl by lia. cbn. now rewrite orb_true_r.
Qed.

(* "element and node counts are not multiples of each other" alone does not make the size test decide correctly for
   plain vectors: on the 4 x 3 x 1 grid (nel = 12, nnodes = 40) a 3-component nodal vector has 120 = 10 * 12 entries *)
Theorem classification_literal_refuted :
  exists g c, wf g /\ nnodes g mod nel g <> 0 /\ nel g mod nnodes g <> 0 /\ 1 <= c <= 3 /\
              classify g [c * nnodes g] = Cell.
Proof.
  exists {| nelx := 4; nely := 3; nelz := 1 |}, 3. unfold wf. cbn. repeat split; try lia; discriminate.
Qed.

(* ---- strided slices ---- *)
Lemma every_nth {A} (d : A) step : (1 <= step)%nat -> forall l k j,
  nth j (every step k l) d = nth (k + j * step) l d.
Proof.
  intros Hs. induction l as [|x t IH]; intros k j.
  - cbn. now destruct j, (k + _)%nat.
  - destruct k as [|k'].
    + cbn [every]. destruct j as [|j'].
      * reflexivity.
      * cbn [nth]. rewrite IH. replace (0 + S j' * step)%nat with (S (pred step + j' * step)) by lia. reflexivity.
    + cbn [every]. rewrite IH. reflexivity.
Qed.

Lemma every_map {A B} (f : A -> B) step : forall l k, every step k (map f l) = map f (every step k l).
Proof.
  induction l as [|x t IH]; intros k; [reflexivity|].
  destruct k; cbn [map every]; now rewrite IH.
Qed.

Lemma every_Forall {A} (P : A -> Prop) step : forall l k, Forall P l -> Forall P (every step k l).
Proof.
  induction l as [|x t IH]; intros k H; [constructor|].
  inversion H; subst. destruct k; cbn [every]; [constructor|]; auto.
Qed.

Lemma set_every_Forall {A} (P : A -> Prop) step : forall l k src,
  Forall P l -> Forall P src -> Forall P (set_every step k l src).
Proof.
  induction l as [|x t IH]; intros k src Hl Hs; [constructor|].
  inversion Hl; subst. destruct k; cbn [set_every].
  - destruct src as [|s src']; [assumption|]. inversion Hs; subst. constructor; auto.
  - constructor; auto.
Qed.

(* ---- padding of 2-component vectors to 3 components ---- *)
Fixpoint pad_spec {A} (z : A) (v : list A) : list A :=
  match v with
  | a :: b :: t => a :: b :: z :: pad_spec z t
  | _ => []
  end.

Theorem pad3_spec {A} (z : A) : forall nn v, length v = (2 * nn)%nat -> pad3 z nn v = pad_spec z v.
Proof.
  induction nn as [|nn IH]; intros v Hl.
  - destruct v; [reflexivity|discriminate].
  - destruct v as [|a [|b t]]; try (cbn in Hl; lia).
    replace (3 * S nn)%nat with (S (S (S (3 * nn)))) by lia.
    unfold pad3 in *. replace (3 * S nn)%nat with (S (S (S (3 * nn)))) by lia.
    cbn [repeat every set_every pred pad_spec]. rewrite <- IH by (cbn in Hl; lia). reflexivity.
Qed.

Lemma pad_spec_length {A} (z : A) : forall nn v, length v = (2 * nn)%nat -> length (pad_spec z v) = (3 * nn)%nat.
Proof.
  induction nn as [|nn IH]; intros v Hl.
  - destruct v; [reflexivity|discriminate].
  - destruct v as [|a [|b t]]; try (cbn in Hl; lia). cbn [pad_spec length]. rewrite (IH t) by (cbn in Hl; lia). lia.
Qed.

(* entry 3k, 3k+1 of the padded vector are entries 2k, 2k+1 of the input; entry 3k+2 is the zero *)
Lemma pad_spec_nth {A} (z d : A) : forall k v, (2 * k + 1 < length v)%nat ->
  nth (3 * k) (pad_spec z v) d = nth (2 * k) v d /\
  nth (3 * k + 1) (pad_spec z v) d = nth (2 * k + 1) v d /\
  nth (3 * k + 2) (pad_spec z v) d = z.
Proof.
  induction k as [|k IH]; intros v Hl.
  - destruct v as [|a [|b t]]; cbn in Hl; try lia. cbn. auto.
  - destruct v as [|a [|b t]]; cbn in Hl; try lia.
    replace (3 * S k)%nat with (S (S (S (3 * k)))) by lia.
    replace (2 * S k)%nat with (S (S (2 * k))) by lia.
    cbn [pad_spec plus nth]. apply IH. lia.
Qed.

Lemma pad_spec_map {A B} (f : A -> B) z : forall v, pad_spec (f z) (map f v) = map f (pad_spec z v).
Proof.
  fix IH 1. intros [|a [|b t]]; try reflexivity. cbn [map pad_spec]. now rewrite IH.
Qed.

Lemma pad_spec_Forall {A} (P : A -> Prop) z : P z -> forall v, Forall P v -> Forall P (pad_spec z v).
Proof.
  intros Hz. fix IH 1. intros [|a [|b t]] H; try constructor.
  - inversion H; subst; assumption.
  - inversion H as [|? ? _ H1]; subst. inversion H1; subst. constructor; [assumption|]. constructor; [assumption|].
    apply IH. inversion H1; assumption.
Qed.

(* ---- block vectors ---- *)
Lemma nth_firstn_lt {A} (d : A) : forall m q l, (q < m)%nat -> nth q (firstn m l) d = nth q l d.
Proof.
  induction m as [|m IH]; intros q l Hq; [lia|].
  destruct l as [|x t]; [reflexivity|]. destruct q as [|q]; [reflexivity|]. cbn. apply IH. lia.
Qed.
Lemma nth_skipn_add {A} (d : A) : forall s q l, nth q (skipn s l) d = nth (s + q) l d.
Proof.
  induction s as [|s IH]; intros q l; [reflexivity|].
  destruct l as [|x t]; [now destruct q|]. cbn. apply IH.
Qed.

Lemma block_row_nth {A} (d : A) cols i data j :
  0 <= i -> 0 <= j < cols -> nth (Z.to_nat j) (block_row cols i data) d = nth (Z.to_nat (i * cols + j)) data d.
Proof.
  intros Hi Hj. unfold block_row. rewrite nth_firstn_lt by lia. rewrite nth_skipn_add. f_equal. nia.
Qed.

Lemma block_col_nth {A} (d : A) cols i data j :
  0 <= i < cols -> 0 <= j -> nth (Z.to_nat j) (block_col cols i data) d = nth (Z.to_nat (j * cols + i)) data d.
Proof.
  intros Hi Hj. unfold block_col. rewrite every_nth by lia. f_equal. nia.
Qed.

Lemma block_row_map {A B} (f : A -> B) cols i data : block_row cols i (map f data) = map f (block_row cols i data).
Proof. unfold block_row. now rewrite skipn_map, firstn_map. Qed.
Lemma block_col_map {A B} (f : A -> B) cols i data : block_col cols i (map f data) = map f (block_col cols i data).
Proof. unfold block_col. apply every_map. Qed.

Lemma firstn_Forall' {A} (P : A -> Prop) : forall m l, Forall P l -> Forall P (firstn m l).
Proof.
  induction m as [|m IH]; intros l H; [constructor|]. destruct l as [|x t]; [constructor|].
  inversion H; subst. cbn. constructor; auto.
Qed.
Lemma skipn_Forall' {A} (P : A -> Prop) : forall m l, Forall P l -> Forall P (skipn m l).
Proof.
  induction m as [|m IH]; intros l H; [assumption|]. destruct l as [|x t]; [constructor|].
  inversion H; subst. cbn. auto.
Qed.
Lemma block_row_Forall {A} (P : A -> Prop) cols i data : Forall P data -> Forall P (block_row cols i data).
Proof. intros H. unfold block_row. now apply firstn_Forall', skipn_Forall'. Qed.
Lemma block_col_Forall {A} (P : A -> Prop) cols i data : Forall P data -> Forall P (block_col cols i data).
Proof. apply every_Forall. Qed.

(* ---- what is written for a vector / a block, by shape ---- *)
Section Entry.
  Variables (point dim2 : bool) (n : Z) (key : str) (ws : list word).
  Hypothesis Hn : 0 < n.

  Lemma find_ax_first c t i : find_ax n (c * n :: t) i = Some i.
  Proof. cbn. now rewrite Z.mod_mul, Z.eqb_refl by lia. Qed.

  (* a 1-D vector of c*n entries: one array, named by the key, c components (3 when a 2-component point vector is padded) *)
  Theorem entry_1d c :
    entry_arrays point dim2 n key [c * n] ws =
    Ok [mk_array point (point && (c =? 2) && dim2) n c key ws].
  Proof.
    unfold entry_arrays. rewrite find_ax_first. cbn [Z.to_nat nth ndim length Z.of_nat].
    rewrite Z.div_mul by lia. reflexivity.
  Qed.

  (* k x (c*n) block, k not a multiple of n: row i is vector i *)
  Theorem entry_block_rows k c :
    1 < k -> k mod n <> 0 ->
    entry_arrays point dim2 n key [k; c * n] ws =
    Ok (map (fun i => mk_array point (point && (c =? 2) && dim2) n c (vec_name point k key i) (block_row (c * n) i ws))
            (zrange k)).
  Proof.
    intros Hk Hkn. unfold entry_arrays. cbn [find_ax].
    destruct (Z.eqb_spec (k mod n) 0) as [H|_]; [contradiction|].
    rewrite Z.mod_mul, Z.eqb_refl by lia.
    change (Z.to_nat (0 + 1)) with 1%nat. cbn [nth].
    rewrite Z.div_mul by lia.
    change (ndim [k; c * n]) with 2.
    change (2 <? 2) with false. change (2 =? 1) with false.
    change (Z.to_nat ((0 + 1 + 1) mod 2)) with 0%nat. cbn [nth].
    destruct (Z.ltb_spec 1 k) as [_|H]; [|lia]. reflexivity.
  Qed.

  (* (c*n) x k block: column i is vector i *)
  Theorem entry_block_cols k c :
    1 < k ->
    entry_arrays point dim2 n key [c * n; k] ws =
    Ok (map (fun i => mk_array point (point && (c =? 2) && dim2) n c (vec_name point k key i) (block_col k i ws))
            (zrange k)).
  Proof.
    intros Hk. unfold entry_arrays. rewrite find_ax_first.
    change (Z.to_nat 0) with 0%nat. cbn [nth].
    rewrite Z.div_mul by lia.
    change (ndim [c * n; k]) with 2.
    change (2 <? 2) with false. change (2 =? 1) with false.
    change (Z.to_nat ((0 + 1) mod 2)) with 1%nat. cbn [nth].
    destruct (Z.ltb_spec 1 k) as [_|H]; [|lia]. reflexivity.
  Qed.
End Entry.

(* ---- decoding what was written ---- *)
Definition word_ok (w : word) : Prop := length w = 4%nat /\ bytes_ok w.

Lemma zero_word_ok : word_ok zero_word.
Proof. split; [reflexivity|]. repeat constructor; unfold byte_ok; lia. Qed.

Lemma concat_bytes_ok ws : Forall word_ok ws -> bytes_ok (concat ws).
Proof.
  induction 1 as [|w t (_ & Hw) _ IH]; [constructor|]. cbn. apply Forall_app. split; assumption.
Qed.

Lemma chunk4_concat ws : Forall word_ok ws -> chunk4 (concat ws) = ws.
Proof.
  induction 1 as [|w t (Hl & _) _ IH]; [reflexivity|].
  destruct w as [|a [|b [|c [|d [|e r]]]]]; try discriminate. cbn. now rewrite IH.
Qed.

(* one array: the data block decodes to the bytes of its words, which split back into the words *)
Theorem array_decodes ws : Forall word_ok ws ->
  vtk_block_data (vtk_block (concat ws)) = Some (concat ws) /\ chunk4 (concat ws) = ws.
Proof.
  intros H. split; [apply vtk_block_data_roundtrip, concat_bytes_ok, H | apply chunk4_concat, H].
Qed.

Definition words_ok (d : darray) : Prop := Forall word_ok (da_words d).

Lemma mk_array_words_ok point padv n ncomp name v : Forall word_ok v -> words_ok (mk_array point padv n ncomp name v).
Proof.
  intros H. unfold mk_array, words_ok. destruct padv; cbn [da_words]; [|assumption].
  unfold pad3. repeat apply set_every_Forall; try (apply every_Forall; assumption).
  apply Forall_forall. intros x Hx. apply repeat_spec in Hx. subst. apply zero_word_ok.
Qed.

Lemma entry_arrays_words_ok point dim2 n key shape ws ds :
  Forall word_ok ws -> entry_arrays point dim2 n key shape ws = Ok ds -> Forall words_ok ds.
Proof.
  intros Hw. unfold entry_arrays.
  destruct (find_ax n shape 0) as [ax|]; [|discriminate].
  destruct (2 <? ndim shape); [discriminate|].
  match goal with |- context [if 1 <? ?nv then _ else _] => destruct (1 <? nv) end.
  - intros E. inversion E; subst. apply Forall_forall. intros d Hd. apply in_map_iff in Hd as (i & <- & _).
    apply mk_array_words_ok. destruct (ax =? 0); [apply block_col_Forall | apply block_row_Forall]; assumption.
  - match goal with |- context [if ?nv <? 1 then _ else _] => destruct (nv <? 1) end.
    { intros E. inversion E. constructor. }
    intros E. inversion E; subst. constructor; [|constructor]. now apply mk_array_words_ok.
Qed.

Lemma collect_Forall {A} (P : A -> Prop) : forall (l : list (res (list A))) ds,
  (forall x, In (Ok x) l -> Forall P x) -> collect l = Ok ds -> Forall P ds.
Proof.
  induction l as [|r t IH]; intros ds Hall E; cbn in E.
  - inversion E. constructor.
  - destruct r as [a|e]; [|discriminate]. destruct (collect t) as [b|e] eqn:Eb; [|discriminate].
    inversion E; subst. apply Forall_app. split.
    + apply Hall. now left.
    + apply (IH b); [|reflexivity]. intros x Hx. apply Hall. now right.
Qed.

Definition vec_ok (v : vec) : Prop := Forall word_ok (vwords v).

(* every array of every file the model writes decodes to its words, whatever the shapes were *)
Theorem vti_arrays_words_ok g vs ds : Forall vec_ok vs -> vti_arrays g vs = Ok ds -> Forall words_ok ds.
Proof.
  intros Hvs E. unfold vti_arrays in E. apply (collect_Forall words_ok) in E; [exact E|].
  assert (Hsub : forall k point n x,
             In (Ok x) [collect (map (fun v => entry_arrays point (dim g =? 2) n (vkey v) (vshape v) (vwords v))
                                     (filter (is_kind k g) vs))] -> Forall words_ok x).
  { intros k point n x [Hx|[]]. apply (collect_Forall words_ok) in Hx; [exact Hx|].
    intros y Hy. apply in_map_iff in Hy as (v & Ev & Hv). apply filter_In in Hv as (Hv & _).
    rewrite Forall_forall in Hvs. apply (entry_arrays_words_ok _ _ _ _ _ _ _ (Hvs v Hv) Ev). }
  intros x [Hx|[Hx|[]]].
  - apply (Hsub Point true (nnodes g)). left. exact Hx.
  - apply (Hsub Cell false (nel g)). left. exact Hx.
Qed.

Theorem vti_arrays_decode g vs ds : Forall vec_ok vs -> vti_arrays g vs = Ok ds ->
  Forall (fun d => vtk_block_data (vtk_block (concat (da_words d))) = Some (concat (da_words d))
                   /\ chunk4 (concat (da_words d)) = da_words d) ds.
Proof.
  intros Hvs E. pose proof (vti_arrays_words_ok g vs ds Hvs E) as H.
  apply Forall_forall. intros d Hd. rewrite Forall_forall in H. apply array_decodes, H, Hd.
Qed.

(* the bytes of the file are header, point section, cell section, footer, with exactly the arrays of vti_arrays *)
Theorem vti_file_layout g os ss vs bytes :
  vti_file g os ss vs = Ok (Some bytes) ->
  exists pa ca, point_arrays g vs = Ok pa /\ cell_arrays g vs = Ok ca /\ vti_arrays g vs = Ok (pa ++ ca) /\
    bytes = render_header g os ss
            ++ render_section (s2z "PointData") (nonempty (point_vecs g vs)) pa
            ++ render_section (s2z "CellData") (nonempty (cell_vecs g vs)) ca ++ render_footer.
Proof.
  unfold vti_file, vti_arrays. cbn [collect].
  destruct (point_arrays g vs) as [pa|e] eqn:Ep, (cell_arrays g vs) as [ca|e'] eqn:Ec;
    destruct (point_vecs g vs), (cell_vecs g vs); intros E; try discriminate;
    inversion E; subst; exists pa, ca; rewrite app_nil_r; auto.
Qed.

(* ---- header: the extent text reads back as the element counts ---- *)
Lemma digits_no_space s : Forall is_digit s -> Forall (fun x => x <> 32) s.
Proof. apply Forall_impl. unfold is_digit. lia. Qed.

Theorem extent_parses g : wf g ->
  map parse_dec (split_on 32 (extent g)) = map Some [0; nelx g; 0; nely g; 0; nelz g].
Proof.
  intros (Hx & Hy & Hz). unfold extent, sp. rewrite split_join.
  - cbn [map]. rewrite !parse_dec_dec by lia. reflexivity.
  - discriminate.
  - repeat (apply Forall_cons; [apply digits_no_space, dec_digits; lia|]). apply Forall_nil.
Qed.

(* ---- file names of WriteToVTI ---- *)
Theorem iter_filename_inj saveto i j : 0 <= i -> 0 <= j ->
  iter_filename saveto false i = iter_filename saveto false j -> i = j.
Proof.
  intros Hi Hj. unfold iter_filename. intros E.
  apply app_inv_head in E. cbn [app] in E. inversion E as [E1].
  apply app_inv_tail in E1. now apply zpad_inj in E1.
Qed.

Theorem iter_filename_overwrite saveto i : iter_filename saveto true i = saveto.
Proof. unfold iter_filename. apply splitext_join. Qed.

(* nzeros: 10^(k-1) < n <= 10^k is not needed below; small facts used by the examples *)
Example nzeros_values : map nzeros [1; 2; 9; 10; 11; 100; 101] = [0; 1; 1; 1; 2; 2; 3].
Proof. vm_compute. reflexivity. Qed.

(* the ".vti" suffix rule of write_to_vti keeps the per-iteration names distinct *)
Lemma digits_prefix_unique c : ~ is_digit c -> forall A B r r',
  Forall is_digit A -> Forall is_digit B -> A ++ c :: r = B ++ c :: r' -> A = B /\ r = r'.
Proof.
  intros Hc. induction A as [|a A IH]; intros B r r' HA HB E.
  - destruct B as [|b B]; cbn in E.
    + inversion E. auto.
    + inversion E; subst. inversion HB; subst. contradiction.
  - destruct B as [|b B]; cbn in E.
    + inversion E; subst. inversion HA; subst. contradiction.
    + inversion E; subst. inversion HA; inversion HB; subst.
      destruct (IH B r r') as (-> & ->); auto.
Qed.

Theorem wvti_filenames_distinct saveto i j : 0 <= i -> 0 <= j ->
  vti_filename (iter_filename saveto false i) = vti_filename (iter_filename saveto false j) -> i = j.
Proof.
  intros Hi Hj.
  assert (Hcase : forall fn, vti_filename fn = fn ++ [] \/ vti_filename fn = fn ++ s2z ".vti").
  { intros fn. unfold vti_filename. destruct (contains _ _); [left; now rewrite app_nil_r | now right]. }
  assert (Hno : forall a b, 0 <= a -> 0 <= b ->
            iter_filename saveto false a ++ [] = iter_filename saveto false b ++ s2z ".vti" -> False).
  { intros a b Ha Hb E. rewrite app_nil_r in E. unfold iter_filename in E.
    rewrite <- !app_assoc in E. apply app_inv_head in E. cbn [app] in E. inversion E as [E1]. clear E.
    pose proof (zpad_digits 4 a Ha) as Da. pose proof (zpad_digits 4 b Hb) as Db.
    destruct (splitext_ext saveto) as [Ee|(t & Ee)]; rewrite Ee in E1.
    - rewrite app_nil_r in E1. cbn [app] in E1. rewrite E1 in Da. apply Forall_app in Da as (_ & Da).
      inversion Da as [|? ? H46 _]; subst. unfold is_digit in H46. cbn in H46. lia.
    - cbn [app] in E1.
      apply (digits_prefix_unique 46) in E1; [|unfold is_digit; lia|assumption|assumption].
      destruct E1 as (_ & E1). apply (f_equal (@length Z)) in E1. rewrite app_length in E1. cbn in E1. lia. }
  destruct (Hcase (iter_filename saveto false i)) as [Ei|Ei], (Hcase (iter_filename saveto false j)) as [Ej|Ej];
    rewrite Ei, Ej; intros E.
  - apply app_inv_tail in E. now apply iter_filename_inj in E.
  - exfalso. eapply (Hno i j); eauto.
  - exfalso. eapply (Hno j i); eauto.
  - apply app_inv_tail in E. now apply iter_filename_inj in E.
Qed.

(* ---- composing layout and round trip: decoded arrays are the float32 images of the input entries ---- *)
Lemma zrange_map_nth {A} (f : Z -> A) k i d : 0 <= i < k -> nth (Z.to_nat i) (map f (zrange k)) d = f i.
Proof.
  intros Hi. unfold zrange. rewrite map_map.
  rewrite (nth_indep _ d (f (Z.of_nat 0))) by (rewrite map_length, seq_length; lia).
  rewrite (map_nth (fun x => f (Z.of_nat x)) (seq 0 (Z.to_nat k)) 0%nat).
  rewrite seq_nth by lia. f_equal. lia.
Qed.

Section F32.
  Variable V : Type.
  Variable f32 : V -> word.                       (* ndarray.astype(np.float32), one entry *)
  Hypothesis f32_ok : forall v, word_ok (f32 v).  (* it produces four bytes *)

  Lemma map_f32_ok vals : Forall word_ok (map f32 vals).
  Proof. apply Forall_forall. intros w Hw. apply in_map_iff in Hw as (v & <- & _). apply f32_ok. Qed.

  (* the words one reads back from the array written for the values `vals` *)
  Definition expected_words (padv : bool) (vals : list V) : list word :=
    if padv then pad_spec zero_word (map f32 vals) else map f32 vals.

  Theorem mk_array_decodes point padv n c name vals :
    (padv = true -> length vals = (2 * Z.to_nat n)%nat) ->
    let d := mk_array point padv n c name (map f32 vals) in
    da_point d = point /\ da_name d = name /\ da_ncomp d = (if padv then 3 else c) /\
    option_map chunk4 (vtk_block_data (vtk_block (concat (da_words d)))) = Some (expected_words padv vals).
  Proof.
    intros Hl d. subst d. unfold mk_array, expected_words. destruct padv; cbn [da_point da_name da_ncomp da_words].
    - repeat split. rewrite pad3_spec by (rewrite map_length; auto).
      assert (H : Forall word_ok (pad_spec zero_word (map f32 vals)))
        by (apply pad_spec_Forall; [apply zero_word_ok | apply map_f32_ok]).
      destruct (array_decodes _ H) as (-> & E). cbn [option_map]. now rewrite E.
    - repeat split. destruct (array_decodes _ (map_f32_ok vals)) as (-> & E). cbn [option_map]. now rewrite E.
  Qed.

  (* a vector: one array named by the key *)
  Theorem decode_vector point dim2 n key c vals :
    0 < n -> length vals = Z.to_nat (c * n) ->
    let padv := point && (c =? 2) && dim2 in
    exists d, entry_arrays point dim2 n key [c * n] (map f32 vals) = Ok [d] /\
      da_point d = point /\ da_name d = key /\ da_ncomp d = (if padv then 3 else c) /\
      option_map chunk4 (vtk_block_data (vtk_block (concat (da_words d)))) = Some (expected_words padv vals).
  Proof.
    intros Hn Hl padv. eexists. split; [apply entry_1d; exact Hn|].
    apply mk_array_decodes. intros Hp. subst padv.
    apply andb_true_iff in Hp as (Hp & _). apply andb_true_iff in Hp as (_ & Hc). apply Z.eqb_eq in Hc. subst c.
    rewrite Hl. lia.
  Qed.

  (* a block: array i is named key(i) and holds row i (shape k x c*n) resp. column i (shape c*n x k) *)
  Theorem decode_block_rows point dim2 n key k c vals :
    0 < n -> 1 < k -> k mod n <> 0 ->
    let padv := point && (c =? 2) && dim2 in
    exists ds, entry_arrays point dim2 n key [k; c * n] (map f32 vals) = Ok ds /\ length ds = Z.to_nat k /\
      forall i, 0 <= i < k ->
        (padv = true -> length (block_row (c * n) i vals) = (2 * Z.to_nat n)%nat) ->
        let d := nth (Z.to_nat i) ds (mkDA false [] 0 []) in
        da_point d = point /\ da_name d = vec_name point k key i /\ da_ncomp d = (if padv then 3 else c) /\
        option_map chunk4 (vtk_block_data (vtk_block (concat (da_words d))))
          = Some (expected_words padv (block_row (c * n) i vals)).
  Proof.
    intros Hn Hk Hkn padv. eexists. split; [apply entry_block_rows; assumption|]. split.
    - rewrite map_length. unfold zrange. now rewrite map_length, seq_length.
    - intros i Hi Hl d. subst d. rewrite zrange_map_nth by exact Hi. rewrite block_row_map.
      apply mk_array_decodes. exact Hl.
  Qed.

  Theorem decode_block_cols point dim2 n key k c vals :
    0 < n -> 1 < k ->
    let padv := point && (c =? 2) && dim2 in
    exists ds, entry_arrays point dim2 n key [c * n; k] (map f32 vals) = Ok ds /\ length ds = Z.to_nat k /\
      forall i, 0 <= i < k ->
        (padv = true -> length (block_col k i vals) = (2 * Z.to_nat n)%nat) ->
        let d := nth (Z.to_nat i) ds (mkDA false [] 0 []) in
        da_point d = point /\ da_name d = vec_name point k key i /\ da_ncomp d = (if padv then 3 else c) /\
        option_map chunk4 (vtk_block_data (vtk_block (concat (da_words d))))
          = Some (expected_words padv (block_col k i vals)).
  Proof.
    intros Hn Hk padv. eexists. split; [apply entry_block_cols; assumption|]. split.
    - rewrite map_length. unfold zrange. now rewrite map_length, seq_length.
    - intros i Hi Hl d. subst d. rewrite zrange_map_nth by exact Hi. rewrite block_col_map.
      apply mk_array_decodes. exact Hl.
  Qed.
End F32.

Theorem padding_full {A} (z d : A) nn v : length v = (2 * nn)%nat ->
  pad3 z nn v = pad_spec z v /\ length (pad3 z nn v) = (3 * nn)%nat /\
  forall k, (k < nn)%nat ->
    nth (3 * k) (pad3 z nn v) d = nth (2 * k) v d /\
    nth (3 * k + 1) (pad3 z nn v) d = nth (2 * k + 1) v d /\
    nth (3 * k + 2) (pad3 z nn v) d = z.
Proof.
  intros Hl. rewrite (pad3_spec z nn v Hl). split; [reflexivity|]. split; [now apply pad_spec_length|].
  intros k Hk. apply pad_spec_nth. lia.
Qed.

(* ---- repaired defects F21 / F22: what holds now ---- *)
(* a single-vector block (shape 1 x c*n or c*n x 1) is written like the plain vector, padding included *)
Theorem entry_single_vector_block point dim2 n key ws c : 1 < n ->
  entry_arrays point dim2 n key [1; c * n] ws = Ok [mk_array point (point && (c =? 2) && dim2) n c key ws] /\
  entry_arrays point dim2 n key [c * n; 1] ws = Ok [mk_array point (point && (c =? 2) && dim2) n c key ws].
Proof.
  intros Hn. split.
  - unfold entry_arrays. cbn [find_ax]. rewrite Z.mod_1_l by lia. cbn [Z.eqb].
    rewrite Z.mod_mul, Z.eqb_refl by lia. change (Z.to_nat (0 + 1)) with 1%nat. cbn [nth].
    rewrite Z.div_mul by lia. reflexivity.
  - unfold entry_arrays. cbn [find_ax]. rewrite Z.mod_mul, Z.eqb_refl by lia.
    change (Z.to_nat 0) with 0%nat. cbn [nth]. rewrite Z.div_mul by lia. reflexivity.
Qed.

(* a block of k nodal vectors is written as k point arrays whenever no axis is a multiple of nel -- also when the
   total size is one (the 2 x 18 block on the 2 x 2 grid) *)
Theorem block_point_arrays g key k c ws :
  wf g -> 1 < k -> k mod nel g <> 0 -> k mod nnodes g <> 0 -> (c * nnodes g) mod nel g <> 0 ->
  vti_arrays g [(key, [k; c * nnodes g], ws)] =
  Ok (map (fun i => mk_array true (true && (c =? 2) && (dim g =? 2)) (nnodes g) c (vec_name true k key i)
                             (block_row (c * nnodes g) i ws)) (zrange k)).
Proof.
  intros Hwf Hk Hkn Hkm Hc. pose proof (nnodes_pos g Hwf) as Hp.
  destruct (classify_block_point g k c Hwf Hkn Hc) as (Ecl & _).
  unfold vti_arrays, point_arrays, cell_arrays, point_vecs, cell_vecs. cbn [filter].
  unfold is_kind, vshape. cbn [fst snd]. rewrite Ecl. cbn [map collect].
  unfold vkey, vshape, vwords. cbn [fst snd].
  rewrite (entry_block_rows true (dim g =? 2) (nnodes g) key ws Hp k c Hk Hkm). cbn [collect map].
  now rewrite !app_nil_r.
Qed.

Example block_point_arrays_witness :   (* the former failing input: hypotheses hold, total size 36 = 9 * nel *)
  let g := {| nelx := 2; nely := 2; nelz := 0 |} in
  wf g /\ 2 mod nel g <> 0 /\ 2 mod nnodes g <> 0 /\ (2 * nnodes g) mod nel g <> 0 /\ (2 * (2 * nnodes g)) mod nel g = 0.
Proof. unfold wf. cbn. repeat split; try lia; discriminate. Qed.

(* ---- WriteToVTI on a file system with ANY previous content ---- *)
(* the module after k more responses *)
Definition vm_at (m : vmod) (k : Z) : vmod :=
  mkVM (vm_grid m) (vm_saveto m) (vm_overwrite m) (vm_origin_s m) (vm_spacing_s m) (vm_iter m + k).

Lemma vm_at_0 m : vm_at m 0 = m.
Proof. destruct m as [g s o os ss i]. unfold vm_at. cbn [vm_grid vm_saveto vm_overwrite vm_origin_s vm_spacing_s vm_iter]. f_equal. lia. Qed.
Lemma vm_at_next m k : vm_at (vm_next m) k = vm_at m (1 + k).
Proof. unfold vm_at, vm_next. cbn [vm_grid vm_saveto vm_overwrite vm_origin_s vm_spacing_s vm_iter]. f_equal. lia. Qed.

(* the name a response writes to is fixed by saveto, the mode and the iteration number *)
Lemma vm_response_name m sigs name bytes : vm_response m sigs = Ok (Some (name, bytes)) ->
  name = vti_filename (iter_filename (vm_saveto m) (vm_overwrite m) (vm_iter m)).
Proof.
  unfold vm_response, wvti_response. destruct (vti_file _ _ _ _) as [[b|]|e]; intros E; try discriminate.
  now inversion E.
Qed.

(* one response: the file named by the response holds exactly the bytes of the model's file -- nothing of what a file
   of that name held before survives --, every other file is untouched *)
Theorem wvti_step_file fs m sigs fs' m' : wvti_step fs m sigs = Ok (fs', m') ->
  m' = vm_next m /\
  match vm_response m sigs with
  | Ok (Some (name, bytes)) =>
    fs_read fs' name = Some bytes /\ forall other, other <> name -> fs_read fs' other = fs_read fs other
  | _ => fs' = fs
  end.
Proof.
  unfold wvti_step. destruct (vm_response m sigs) as [[[name bytes]|]|e]; intros E; try discriminate;
    injection E as <- <-; (split; [reflexivity|]).
  - split; [apply fs_open_w_read|intros other Hne; now apply fs_open_w_other].
  - reflexivity.
Qed.

Lemma wvti_fs_run_module : forall calls fs m fs' m', wvti_fs_run fs m calls = Ok (fs', m') ->
  m' = vm_at m (Z.of_nat (length calls)).
Proof.
  induction calls as [|c rest IH]; intros fs m fs' m' H; cbn [wvti_fs_run] in H.
  - injection H as _ <-. now rewrite vm_at_0.
  - destruct (wvti_step fs m c) as [[fs1 m1]|e] eqn:Hs; [|discriminate].
    destruct (wvti_step_file _ _ _ _ _ Hs) as (-> & _). rewrite (IH _ _ _ _ H), vm_at_next. f_equal.
    cbn [length]. lia.
Qed.

Lemma wvti_fs_run_app : forall a b fs m,
  wvti_fs_run fs m (a ++ b) =
  match wvti_fs_run fs m a with Err e => Err e | Ok (fs1, m1) => wvti_fs_run fs1 m1 b end.
Proof.
  induction a as [|c a IH]; intros b fs m; cbn [app wvti_fs_run]; [reflexivity|].
  destruct (wvti_step fs m c) as [[fs1 m1]|e]; [apply IH|reflexivity].
Qed.

(* numbered mode, ANY file system before, a history of n calls starting at any iteration number: the file written by
   call k holds exactly the bytes of the model's file of call k (later calls write elsewhere, earlier content of that
   name is gone), and a file whose name is not written by any call is untouched *)
Theorem wvti_numbered_files : forall calls fs m fs' m',
  0 <= vm_iter m -> vm_overwrite m = false -> wvti_fs_run fs m calls = Ok (fs', m') ->
  (forall k name bytes, (k < length calls)%nat ->
     vm_response (vm_at m (Z.of_nat k)) (nth k calls []) = Ok (Some (name, bytes)) -> fs_read fs' name = Some bytes) /\
  (forall other,
     (forall k name bytes, (k < length calls)%nat ->
        vm_response (vm_at m (Z.of_nat k)) (nth k calls []) = Ok (Some (name, bytes)) -> other <> name) ->
     fs_read fs' other = fs_read fs other).
Proof.
  induction calls as [|c rest IH]; intros fs m fs' m' Hpos Hov Hrun; cbn [wvti_fs_run] in Hrun.
  - injection Hrun as <- <-. split; [intros k name bytes Hk; cbn in Hk; lia|reflexivity].
  - destruct (wvti_step fs m c) as [[fs1 m1]|e] eqn:Hs; [|discriminate].
    destruct (wvti_step_file _ _ _ _ _ Hs) as (-> & Hfile).
    destruct (IH fs1 (vm_next m) fs' m') as (IH1 & IH2); [cbn; lia|exact Hov|exact Hrun|].
    split.
    + intros [|k] name bytes Hk Hresp; cbn [nth] in Hresp.
      * change (Z.of_nat 0) with 0 in Hresp. rewrite vm_at_0 in Hresp. rewrite Hresp in Hfile. destruct Hfile as (Hf & _).
        rewrite IH2; [exact Hf|]. intros j name' bytes' Hj Hresp' E. subst name'.
        apply vm_response_name in Hresp. apply vm_response_name in Hresp'.
        rewrite vm_at_next in Hresp'. cbn [vm_at vm_saveto vm_overwrite vm_iter] in Hresp'.
        rewrite Hov in *. rewrite Hresp in Hresp'. apply wvti_filenames_distinct in Hresp'; lia.
      * apply (IH1 k); [cbn in Hk; lia|]. rewrite vm_at_next. rewrite Nat2Z.inj_succ in Hresp.
        replace (1 + Z.of_nat k) with (Z.succ (Z.of_nat k)) by lia. exact Hresp.
    + intros other Hother. rewrite IH2.
      * pose proof (Hother 0%nat) as H0. cbn [nth] in H0. change (Z.of_nat 0) with 0 in H0. rewrite vm_at_0 in H0.
        destruct (vm_response m c) as [[[name bytes]|]|e]; try (now subst fs1).
        destruct Hfile as (_ & Ho). apply Ho. apply (H0 name bytes); [cbn; lia|reflexivity].
      * intros k name bytes Hk Hresp. apply (Hother (S k) name bytes); [cbn; lia|].
        cbn [nth]. rewrite Nat2Z.inj_succ. replace (Z.succ (Z.of_nat k)) with (1 + Z.of_nat k) by lia.
        now rewrite <- vm_at_next.
Qed.

(* both modes, ANY file system before: after a history, the file written by the LAST call holds exactly the bytes
   of the model's file of that call *)
Theorem wvti_last_file calls c fs m fs' m' name bytes :
  wvti_fs_run fs m (calls ++ [c]) = Ok (fs', m') ->
  vm_response (vm_at m (Z.of_nat (length calls))) c = Ok (Some (name, bytes)) ->
  fs_read fs' name = Some bytes.
Proof.
  rewrite wvti_fs_run_app. destruct (wvti_fs_run fs m calls) as [[fs1 m1]|e] eqn:Hr; [|discriminate].
  apply wvti_fs_run_module in Hr. subst m1. cbn [wvti_fs_run].
  destruct (wvti_step fs1 _ c) as [[fs2 m2]|e] eqn:Hs; [|discriminate]. intros E Hresp. injection E as <- <-.
  destruct (wvti_step_file _ _ _ _ _ Hs) as (_ & Hfile). rewrite Hresp in Hfile. apply Hfile.
Qed.

(* overwrite mode: only the file called saveto (with the ".vti" rule) is ever touched *)
Theorem wvti_overwrite_others : forall calls fs m fs' m',
  vm_overwrite m = true -> wvti_fs_run fs m calls = Ok (fs', m') ->
  forall other, other <> vti_filename (vm_saveto m) -> fs_read fs' other = fs_read fs other.
Proof.
  induction calls as [|c rest IH]; intros fs m fs' m' Hov Hrun other Hne; cbn [wvti_fs_run] in Hrun.
  - now injection Hrun as <- <-.
  - destruct (wvti_step fs m c) as [[fs1 m1]|e] eqn:Hs; [|discriminate].
    destruct (wvti_step_file _ _ _ _ _ Hs) as (-> & Hfile).
    rewrite (IH fs1 (vm_next m) fs' m' Hov Hrun other Hne).
    destruct (vm_response m c) as [[[name bytes]|]|e] eqn:Hresp; try (now subst fs1).
    destruct Hfile as (_ & Ho). apply Ho. apply vm_response_name in Hresp.
    rewrite Hov, iter_filename_overwrite in Hresp. congruence.
Qed.

(* in a history of events, consecutive calls of one module instance are a run of wvti_fs_run *)
Fixpoint wvti_world_run (w : vworld) (events : list vevent) : res vworld :=
  match events with
  | [] => Ok w
  | e :: rest => match wvti_event w e with Err x => Err x | Ok w' => wvti_world_run w' rest end
  end.

Lemma set_nth_get {A} : forall (l : list A) k x y, nth_error l k = Some y -> nth_error (set_nth l k x) k = Some x.
Proof. induction l as [|a l IH]; intros [|k] x y H; cbn in *; try discriminate; [reflexivity|]. eapply IH; eauto. Qed.
Lemma set_nth_twice {A} : forall (l : list A) k x y, set_nth (set_nth l k x) k y = set_nth l k y.
Proof. induction l as [|a l IH]; intros [|k] x y; cbn; try reflexivity. now rewrite IH. Qed.
Lemma set_nth_same {A} : forall (l : list A) k x, nth_error l k = Some x -> set_nth l k x = l.
Proof.
  induction l as [|a l IH]; intros [|k] x H; cbn in *; try discriminate.
  - now inversion H.
  - now rewrite IH.
Qed.

Theorem vworld_calls_are_run id : forall calls fs mods m fs' m',
  nth_error mods id = Some m -> wvti_fs_run fs m calls = Ok (fs', m') ->
  wvti_world_run (fs, mods) (map (VCall id) calls) = Ok (fs', set_nth mods id m').
Proof.
  induction calls as [|c rest IH]; intros fs mods m fs' m' Hm Hrun; cbn [wvti_fs_run map wvti_world_run] in *.
  - injection Hrun as <- <-. now rewrite set_nth_same.
  - destruct (wvti_step fs m c) as [[fs1 m1]|e] eqn:Hs; [|discriminate].
    unfold wvti_event. rewrite Hm, Hs.
    rewrite (IH fs1 (set_nth mods id m1) m1 fs' m' (set_nth_get _ _ _ _ Hm) Hrun).
    now rewrite set_nth_twice.
Qed.

(* ---- reset() / sensitivity() between the responses change neither the instances nor the files ---- *)
Lemma set_nth_length {A} : forall (l : list A) k x, length (set_nth l k x) = length l.
Proof. induction l as [|a l IH]; intros [|k] x; cbn; try reflexivity. now rewrite IH. Qed.

Lemma vquiet_event_noop w e w' : v_quiet e = true -> wvti_event w e = Ok w' -> w' = w.
Proof.
  destruct w as [fs mods]. destruct e as [g sv ow os ss|i sg|n c|n|i|i]; cbn [v_quiet]; try discriminate; intros _;
    unfold wvti_event; destruct (nth_error mods i); intros H; now inversion H.
Qed.

Lemma vquiet_event_valid fs mods e : v_quiet e = true ->
  match e with VReset i | VSens i => (i < length mods)%nat | _ => True end -> wvti_event (fs, mods) e = Ok (fs, mods).
Proof.
  destruct e as [g sv ow os ss|i sg|n c|n|i|i]; cbn [v_quiet]; try discriminate; intros _ Hi; unfold wvti_event;
    (destruct (nth_error mods i) eqn:E; [reflexivity|apply nth_error_None in E; lia]).
Qed.

Theorem vworld_run_strip : forall events w w',
  wvti_world_run w events = Ok w' -> wvti_world_run w (v_strip events) = Ok w'.
Proof.
  induction events as [|e rest IH]; intros w w' H; cbn [wvti_world_run v_strip filter] in *; [exact H|].
  destruct (wvti_event w e) as [w1|x] eqn:He; [|discriminate].
  destruct (v_quiet e) eqn:Hq; cbn [negb].
  - rewrite (vquiet_event_noop _ _ _ Hq He) in H. apply IH. exact H.
  - cbn [wvti_world_run]. rewrite He. apply IH. exact H.
Qed.

Theorem vworld_calls_with_resets id : forall events calls fs mods m fs' m',
  nth_error mods id = Some m ->
  Forall (fun e => match e with VCall i _ => i = id | VReset i | VSens i => (i < length mods)%nat | _ => False end) events ->
  v_strip events = map (VCall id) calls ->
  wvti_fs_run fs m calls = Ok (fs', m') ->
  wvti_world_run (fs, mods) events = Ok (fs', set_nth mods id m').
Proof.
  induction events as [|e rest IH]; intros calls fs mods m fs' m' Hm Hall Hstrip Hrun.
  - destruct calls; [|discriminate]. cbn in *. inversion Hrun; subst. now rewrite set_nth_same.
  - inversion Hall as [|e0 r0 He Hrest]; subst. cbn [wvti_world_run].
    destruct e as [g sv ow os ss|i sg|n c|n|i|i]; try contradiction.
    + subst i. cbn [v_strip filter v_quiet negb] in Hstrip. destruct calls as [|c calls]; [discriminate|].
      cbn [map] in Hstrip. injection Hstrip as Hc Hstrip. subst c.
      cbn [wvti_fs_run] in Hrun. destruct (wvti_step fs m sg) as [[fs1 m1]|x] eqn:Hs; [|discriminate].
      unfold wvti_event. rewrite Hm, Hs.
      rewrite (IH calls fs1 (set_nth mods id m1) m1 fs' m' (set_nth_get _ _ _ _ Hm)); [now rewrite set_nth_twice| |exact Hstrip|exact Hrun].
      eapply Forall_impl; [|exact Hrest]. intros a Ha. destruct a; try exact Ha; now rewrite set_nth_length.
    + rewrite (vquiet_event_valid fs mods (VReset i) eq_refl He). eapply IH; eauto.
    + rewrite (vquiet_event_valid fs mods (VSens i) eq_refl He). eapply IH; eauto.
Qed.

(* the history function on a bare file system (used for fresh directories) is the run of one module instance *)
Lemma wvti_run_is_fs_run : forall calls g saveto ow os ss it fs,
  wvti_run g saveto ow os ss it calls fs =
  match wvti_fs_run fs (mkVM g saveto ow os ss it) calls with Ok (fs', _) => Ok fs' | Err e => Err e end.
Proof.
  induction calls as [|c rest IH]; intros g saveto ow os ss it fs; cbn [wvti_run wvti_fs_run]; [reflexivity|].
  unfold wvti_step, vm_response, vm_next. cbn [vm_grid vm_saveto vm_overwrite vm_origin_s vm_spacing_s vm_iter].
  destruct (wvti_response g saveto ow os ss it c) as [[[name bytes]|]|e]; [apply IH|apply IH|reflexivity].
Qed.
