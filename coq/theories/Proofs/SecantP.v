(* F3: exact secant identities behind the sensitivities of the linear-system modules (LinSolve, Inverse,
   SystemOfEquations-style block elimination), in an arbitrary ring with a transpose anti-involution.
   They hold for matrices of any size over any commutative ring (instantiate R with 'M[F]_n.+1). *)
From mathcomp Require Import all_ssreflect all_algebra.
Set Implicit Arguments.
Unset Strict Implicit.
Unset Printing Implicit Defensive.
Import GRing.Theory.
Local Open Scope ring_scope.

Section Secant.
  Variable R : ringType.
  Variable tr : R -> R.
  Hypothesis trM : forall a b, tr (a * b) = tr b * tr a.
  Hypothesis trK : forall a, tr (tr a) = a.

  (* LinSolve: A x = b, A' x' = b'; adjoint A^T lam = w.  Then
       w^T (x' - x) = lam^T (b' - b) - lam^T (A' - A) x'
     so that  db = lam  and  dA = - lam x^T  are the exact first-order coefficients (x' -> x). *)
  Theorem linsolve_secant (A A' x x' b b' lam w : R) :
    A * x = b -> A' * x' = b' -> tr A * lam = w ->
    tr w * (x' - x) = tr lam * (b' - b) - tr lam * (A' - A) * x'.
  Proof.
    move=> Hx Hx' Hl.
    have -> : tr w = tr lam * A by rewrite -Hl trM trK.
    rewrite -Hx -Hx' !mulrBr !mulrBl !mulrA opprB.
    by rewrite [RHS]addrC addrA subrK.
  Qed.

  (* Inverse: B = A^-1 (left inverse), B' = A'^-1 (right inverse)  =>  B' - B = - B (A' - A) B' *)
  Theorem inverse_secant (A A' B B' : R) :
    B * A = 1 -> A' * B' = 1 -> B' - B = - (B * (A' - A) * B').
  Proof.
    move=> HB HB'.
    by rewrite mulrBr mulrBl -mulrA HB' mulr1 HB mul1r opprB.
  Qed.

  (* block elimination (SystemOfEquations, StaticCondensation): with idempotent selectors Df + Dp = 1,
     if the free rows are solved,  Df (A x) = Df b,  and x is prescribed on p,  Dp x = xp, then the free
     unknowns satisfy the reduced system  Df A Df x = Df b - Df A Dp xp *)
  Theorem block_reduced (A x b Df Dp xp : R) :
    Df + Dp = 1 -> Df * (A * x) = Df * b -> Dp * x = xp ->
    Df * A * (Df * x) = Df * b - Df * A * xp.
  Proof.
    move=> Hs Hf Hp.
    rewrite -Hp -Hf. apply/eqP. rewrite eq_sym subr_eq. apply/eqP.
    by rewrite -mulrDr -mulrDl Hs mul1r mulrA.
  Qed.

  (* EigenSolve, eigenvalue sensitivities: p^T (A - l B) = 0 (left eigenvector), (A' - l' B') q' = 0, with the
     eigenvalues l, l' central (scalars).  Then  (l' - l) p^T B q' = p^T ((A' - A) - l' (B' - B)) q'  exactly, so
     dl = p^T (dA - l dB) q / (p^T B q): the code's  dA = dw q q^T / (q^T B q),  dB = - l dw q q^T / (q^T B q)
     for symmetric problems (p = q). *)
  Theorem eigenvalue_secant (A A' B B' p q' l l' : R) :
    (forall x, l * x = x * l) -> (forall x, l' * x = x * l') ->
    p * (A - l * B) = 0 -> (A' - l' * B') * q' = 0 ->
    (l' - l) * (p * B * q') = p * ((A' - A) - l' * (B' - B)) * q'.
  Proof.
    move=> Hl Hl' H1 H2.
    have E1 : p * A = l * (p * B).
    { move/eqP: H1. rewrite mulrBr subr_eq0 => /eqP ->. by rewrite !mulrA -Hl. }
    have E2 : A' * q' = l' * (B' * q').
    { move/eqP: H2. rewrite mulrBl subr_eq0 => /eqP ->. by rewrite mulrA. }
    rewrite !mulrBr !mulrBl -!mulrA E2.
    rewrite [p * (A * q')]mulrA E1 -!mulrA.
    rewrite [p * (l' * (B' * q'))]mulrA -Hl' -!mulrA.
    rewrite [p * (l' * (B * q'))]mulrA -Hl' -!mulrA.
    by rewrite opprB [RHS]addrC addrA subrK.
  Qed.
End Secant.
