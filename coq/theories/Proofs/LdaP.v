(* Theorems about Model/Lda.v (C06) over an abstract field with involution (class FldLaws, Base/FldP.v);
   the last section proves the laws for the Gaussian rationals (the instance the correspondence check evaluates). *)
From Coq Require Import List Bool Arith ZArith Lia Field Ring.
From Pymoto Require Import Base.Fld Base.FldP Model.Lda.
Import ListNotations.

Section LdaProofs.
  Context {F : Type} {I : Fld F} {L : FldLaws F}.
  Add Field FF2 : (@Fth F I L).
  Variable inner : mat F -> bool -> list (vec F) -> option (list (vec F)) -> list (vec F).

  Implicit Types (A : mat F) (x y b v u r rl sol rhs xn : vec F) (m : list bool).

  Local Notation "0" := f0.
  Local Infix "+" := fadd.
  Local Infix "*" := fmul.
  Local Infix "-" := fsub.
  Local Infix "/" := fdiv.

  (* ================================================================ matrices: transpose, conjugate *)
  Lemma nth_nil_0 (i : nat) : nth i (@nil F) 0 = 0.
  Proof. destruct i; reflexivity. Qed.

  Lemma ncols_wfm n A : wfm n A -> ncols A = n.
  Proof. intros [Hl Hr]. destruct A as [|r A]; simpl in *; auto. inversion Hr; auto. Qed.
  Lemma wfm_row n A i : wfm n A -> i < n -> length (nth i A []) = n.
  Proof. intros [Hl Hr] Hi. rewrite Forall_forall in Hr. apply Hr. apply nth_In. lia. Qed.

  Lemma nth_col j A i : nth i (col j A) 0 = entry A i j.
  Proof. unfold col, entry. rewrite <- (nth_nil_0 j) at 1. apply (map_nth (fun row => nth j row 0)). Qed.
  Lemma entry_mtrans A i j : i < ncols A -> entry (mtrans A) i j = entry A j i.
  Proof.
    intros Hi. unfold entry at 1, mtrans.
    rewrite (nth_indep _ [] (col 0 A)) by (rewrite map_length, seq_length; auto).
    rewrite (map_nth (fun j => col j A) (seq 0 (ncols A)) 0%nat i), seq_nth by auto. simpl.
    apply nth_col.
  Qed.
  Lemma entry_mconj A i j : entry (mconj A) i j = fconj (entry A i j).
  Proof.
    unfold entry, mconj. change (@nil F) with (vconj []) at 1. rewrite (map_nth vconj).
    unfold vconj. rewrite <- conj_0 at 1. apply map_nth.
  Qed.
  Lemma wfm_mtrans n A : wfm n A -> wfm n (mtrans A).
  Proof.
    intros W. pose proof (ncols_wfm n A W) as Hc. destruct W as [Hl Hr]. unfold mtrans. rewrite Hc. split.
    - now rewrite map_length, seq_length.
    - apply Forall_forall. intros r Hin. apply in_map_iff in Hin as [j [<- _]]. unfold col. now rewrite map_length.
  Qed.
  Lemma wfm_mconj n A : wfm n A -> wfm n (mconj A).
  Proof.
    intros [Hl Hr]. split. - unfold mconj. now rewrite map_length.
    - apply Forall_forall. intros r Hin. apply in_map_iff in Hin as [r0 [<- Hr0]].
      rewrite vconj_length. rewrite Forall_forall in Hr. auto.
  Qed.
  Lemma wfm_mH n A : wfm n A -> wfm n (mH A).
  Proof. intros W. apply wfm_mtrans, wfm_mconj, W. Qed.
  Lemma ncols_mconj A : ncols (mconj A) = ncols A.
  Proof. destruct A; simpl; auto. apply vconj_length. Qed.
  Lemma mconj_mtrans A : mconj (mtrans A) = mtrans (mconj A).
  Proof.
    unfold mtrans. rewrite ncols_mconj. unfold mconj at 1. rewrite map_map. apply map_ext. intros j.
    unfold col, mconj, vconj. rewrite !map_map. apply map_ext. intros r.
    rewrite <- conj_0 at 2. symmetry. apply map_nth.
  Qed.
  Lemma entry_mH n A i j : wfm n A -> i < n -> entry (mH A) i j = fconj (entry A j i).
  Proof. intros W Hi. unfold mH. rewrite entry_mtrans, entry_mconj; auto. rewrite ncols_mconj, (ncols_wfm n); auto. Qed.
  Lemma entry_out_row n A i j : wfm n A -> n <= j -> entry A i j = 0.
  Proof.
    intros [Hl Hr] Hj. unfold entry. destruct (lt_dec i (length A)) as [Hi | Hi].
    - apply nth_overflow. rewrite Forall_forall in Hr. rewrite (Hr (nth i A [])); auto. apply nth_In; auto.
    - rewrite (nth_overflow A) by lia. apply nth_nil_0.
  Qed.
  Lemma entry_out_col n A i j : wfm n A -> n <= i -> entry A i j = 0.
  Proof. intros [Hl Hr] Hi. unfold entry. rewrite (nth_overflow A) by lia. apply nth_nil_0. Qed.

  (* ================================================================ the mode table *)
  Definition op_mat (t : Z) (A : mat F) : mat F :=
    if (t =? 0)%Z then A else if (t =? 1)%Z then mtrans A else mH A.
  Definition truthful (sym herm : bool) (A : mat F) : Prop :=
    (sym = true -> mtrans A = A) /\ (herm = true -> mH A = A).

  Lemma conj_eq_swap (u v : vec F) : u = vconj v -> vconj u = v.
  Proof. intros ->. apply vconj_invol. Qed.

  (* solving  storage-matrix * y = conj?(b)  and returning conj?(y) solves  op_trans(A) x = b :
     (sym, herm) in 4 combinations x trans in {N, T, H} *)
  Theorem mode_table sym herm t A y b :
    trans_valid t = true -> truthful sym herm A ->
    mv (if adjoint_mode sym herm t then mH A else A) y = (if conj_mode sym herm t then vconj b else b) ->
    mv (op_mat t A) (if conj_mode sym herm t then vconj y else y) = b.
  Proof.
    intros Ht [Hs Hh] E. unfold trans_valid in Ht. unfold op_mat, adjoint_mode, conj_mode in *.
    assert (Hcases : t = 0%Z \/ t = 1%Z \/ t = 2%Z) by lia.
    destruct Hcases as [-> | [-> | ->]]; simpl in *.
    - (* N *) rewrite !andb_false_r in *. simpl in *. exact E.
    - (* T *) rewrite andb_false_r, andb_true_r in *. simpl in *.
      destruct sym; simpl in *.
      + rewrite Hs; auto.
      + apply conj_eq_swap in E. rewrite mv_conj in E. destruct herm; simpl in *.
        * (* Hermitian: A^T = conj A *)
          assert (mtrans A = mconj A) as ->; auto.
          specialize (Hh eq_refl). unfold mH in Hh. rewrite <- mconj_mtrans in Hh.
          rewrite <- Hh at 2. now rewrite mconj_invol.
        * unfold mH in E. rewrite <- mconj_mtrans, mconj_invol in E. exact E.
    - (* H *) rewrite andb_true_r, andb_false_r, orb_false_r in *.
      destruct sym; simpl in *.
      + apply conj_eq_swap in E. rewrite mv_conj in E.
        unfold mH. rewrite <- mconj_mtrans, Hs; auto.
      + destruct herm; simpl in *; auto. rewrite Hh; auto.
  Qed.

  (* ================================================================ decoupled dofs *)
  (* m marks dofs whose row AND column vanish off the diagonal and whose diagonal entry is non-zero *)
  Definition Decoupled (n : nat) (A : mat F) (m : list bool) : Prop :=
    length m = n /\
    (forall i j, i < n -> j < n -> i <> j -> nth i m false = true \/ nth j m false = true -> entry A i j = 0) /\
    (forall i, i < n -> nth i m false = true -> entry A i i <> 0).

  Lemma Decoupled_mH n A m : wfm n A -> Decoupled n A m -> Decoupled n (mH A) m.
  Proof.
    intros W [Hl [Hoff Hd]]. split; [auto | split].
    - intros i j Hi Hj Hne Hm. rewrite (entry_mH n); auto. rewrite Hoff; auto using conj_0. tauto.
    - intros i Hi Hm. rewrite (entry_mH n); auto. intros E. apply (Hd i Hi Hm).
      rewrite <- (conj_invol (entry A i i)), E. apply conj_0.
  Qed.

  (* --- get_diagonal_indices detects only decoupled dofs *)
  Lemma count_le1 (l : list bool) i : count_true l <= 1 -> nth i l false = true ->
    forall j, j <> i -> nth j l false = false.
  Proof.
    unfold count_true. revert i; induction l as [|c0 l IH]; intros i Hc Hi j Hne.
    - destruct j; reflexivity.
    - destruct i as [|i]; simpl in Hi.
      + subst c0. simpl in Hc. destruct j as [|j]; [congruence|]. simpl.
        destruct (nth j l false) eqn:E; auto. exfalso.
        assert (In true (filter (fun c : bool => c) l)) by (apply filter_In; split; auto; rewrite <- E; apply nth_In;
          destruct (lt_dec j (length l)); auto; rewrite nth_overflow in E by lia; discriminate).
        destruct (filter (fun c : bool => c) l); simpl in *; [contradiction | lia].
      + destruct j as [|j]; simpl.
        * destruct c0; auto. exfalso. simpl in Hc.
          assert (In true (filter (fun c : bool => c) l)) by (apply filter_In; split; auto; rewrite <- Hi; apply nth_In;
            destruct (lt_dec i (length l)); auto; rewrite nth_overflow in Hi by lia; discriminate).
          destruct (filter (fun c : bool => c) l); simpl in *; [contradiction | lia].
        * apply (IH i); auto. simpl in Hc. destruct c0; simpl in Hc; lia.
  Qed.

  Lemma bentry_bmat A i j : bentry (bmat A) i j = negb (fis0 (entry A i j)).
  Proof.
    unfold bentry, bmat, entry.
    change (@nil bool) with (map (fun z : F => negb (fis0 z)) []) at 1.
    rewrite (map_nth (map (fun z => negb (fis0 z)))).
    assert (E0 : negb (fis0 0) = false) by (apply negb_false_iff, is0_spec; auto).
    rewrite <- E0 at 1. apply (map_nth (fun z => negb (fis0 z))).
  Qed.

  Theorem diag_detect_sound n A : wfm n A -> Decoupled n A (get_diagonal_indices A).
  Proof.
    intros W. pose proof (ncols_wfm n A W) as Hc. pose proof W as [Hl Hr].
    unfold get_diagonal_indices. rewrite Hc, Hl, Nat.min_id.
    set (B := bmat A).
    set (hd := map (fun i => bentry B i i) (seq 0 n)).
    set (nr := map (fun j => count_true (map (fun row => nth j row false) B)) (seq 0 n)).
    set (nc := firstn n (map count_true B)).
    assert (LB : length B = n) by (unfold B, bmat; now rewrite map_length).
    assert (Lhd : length hd = n) by (unfold hd; now rewrite map_length, seq_length).
    assert (Lnr : length nr = n) by (unfold nr; now rewrite map_length, seq_length).
    assert (Lnc : length nc = n) by (unfold nc; rewrite firstn_length, map_length; lia).
    set (mk := map2 andb (map2 andb hd (map (fun c => c <=? 1) nr)) (map (fun c => c <=? 1) nc)).
    assert (Lm : length mk = n).
    { unfold mk. rewrite !map2_length; rewrite ?map_length; try lia. rewrite map2_length; rewrite ?map_length; lia. }
    assert (Hmk : forall i, i < n -> nth i mk false = true ->
              bentry B i i = true /\ count_true (map (fun row => nth i row false) B) <= 1 /\
              count_true (nth i B []) <= 1).
    { intros i Hi Hm. unfold mk in Hm.
      rewrite (nth_map2 andb _ _ i false false false) in Hm
        by (rewrite ?map2_length, ?map_length; try lia; rewrite map_length; lia).
      rewrite (nth_map2 andb _ _ i false false false) in Hm by (rewrite ?map_length; lia).
      apply andb_true_iff in Hm as [Hm H3]. apply andb_true_iff in Hm as [H1 H2].
      unfold hd in H1. rewrite (nth_indep _ false (bentry B 0 0)) in H1 by (rewrite map_length, seq_length; auto).
      rewrite (map_nth (fun i => bentry B i i) (seq 0 n) 0%nat i), seq_nth in H1 by auto. simpl in H1.
      unfold nr in H2. rewrite (nth_indep _ false ((fun c => c <=? 1) 0%nat)) in H2 by (rewrite !map_length, seq_length; auto).
      rewrite (map_nth (fun c => c <=? 1)) in H2.
      rewrite (nth_indep _ 0%nat ((fun j => count_true (map (fun row => nth j row false) B)) 0%nat)) in H2
        by (rewrite map_length, seq_length; auto).
      rewrite (map_nth (fun j => count_true (map (fun row => nth j row false) B)) (seq 0 n) 0%nat i), seq_nth in H2 by auto.
      simpl in H2. apply Nat.leb_le in H2.
      rewrite (nth_indep _ false ((fun c => c <=? 1) 0%nat)) in H3 by (rewrite map_length; lia).
      rewrite (map_nth (fun c => c <=? 1)) in H3. apply Nat.leb_le in H3. unfold nc in H3.
      rewrite nth_firstn_lt in H3 by auto.
      rewrite (nth_indep _ 0%nat (count_true [])) in H3 by (rewrite map_length; lia).
      rewrite (map_nth count_true) in H3. auto. }
    split; [exact Lm | split].
    - intros i j Hi Hj Hne [Hm | Hm].
      + (* row i has a single non-zero, on the diagonal *)
        destruct (Hmk i Hi Hm) as [Hdg [_ Hrow]].
        pose proof (count_le1 (nth i B []) i Hrow Hdg j (not_eq_sym Hne)) as E.
        change (nth j (nth i B []) false) with (bentry B i j) in E. unfold B in E.
        rewrite bentry_bmat in E. apply negb_false_iff, is0_spec in E. exact E.
      + (* column j has a single non-zero, on the diagonal *)
        destruct (Hmk j Hj Hm) as [Hdg [Hcol _]].
        assert (Hn : forall k, nth k (map (fun row => nth j row false) B) false = bentry B k j).
        { intros k. unfold bentry. apply (nth_map_default (fun row : list bool => nth j row false)).
          destruct j; reflexivity. }
        pose proof (count_le1 _ j Hcol) as E. rewrite Hn in E. specialize (E Hdg i Hne).
        rewrite Hn in E. unfold B in E. rewrite bentry_bmat in E. apply negb_false_iff, is0_spec in E. exact E.
    - intros i Hi Hm. destruct (Hmk i Hi Hm) as [Hdg _]. unfold B in Hdg. rewrite bentry_bmat in Hdg.
      apply negb_true_iff in Hdg. apply is0_false in Hdg. exact Hdg.
  Qed.
End LdaProofs.
