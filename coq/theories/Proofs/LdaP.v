(* Theorems about Model/Lda.v (C06) over an abstract field with involution (class FldLaws, Base/FldP.v);
   the last section proves the laws for the Gaussian rationals (the instance the correspondence check evaluates). *)
From Coq Require Import List Bool Arith ZArith Lia Field Ring.
From Pymoto Require Import Base.Fld Base.FldP Model.Lda.
Import ListNotations.

Inductive Forall3 {X Y Z} (P : X -> Y -> Z -> Prop) : list X -> list Y -> list Z -> Prop :=
| F3_nil : Forall3 P [] [] []
| F3_cons a b c la lb lc : P a b c -> Forall3 P la lb lc -> Forall3 P (a :: la) (b :: lb) (c :: lc).

Lemma Forall3_cons_inv {X Y Z} (P : X -> Y -> Z -> Prop) a la LB LC :
  Forall3 P (a :: la) LB LC ->
  exists b lb c lc, LB = b :: lb /\ LC = c :: lc /\ P a b c /\ Forall3 P la lb lc.
Proof. intros H. inversion H; subst. eauto 10. Qed.
Lemma Forall3_nil_inv {X Y Z} (P : X -> Y -> Z -> Prop) LB LC : Forall3 P [] LB LC -> LB = [] /\ LC = [].
Proof. intros H. inversion H; auto. Qed.

Lemma Forall2_map_l {X Y Z} (P : Y -> Z -> Prop) (f : X -> Y) l l' :
  Forall2 P (map f l) l' <-> Forall2 (fun a c => P (f a) c) l l'.
Proof.
  revert l'; induction l as [|a l IH]; intros l'; simpl; split; intros H.
  - inversion H; constructor. - inversion H; constructor.
  - inversion H; subst. constructor; auto. apply IH; auto.
  - inversion H; subst. constructor; auto. apply IH; auto.
Qed.
Lemma Forall2_map_r {X Y Z} (P : X -> Z -> Prop) (f : Y -> Z) l l' :
  Forall2 P l (map f l') <-> Forall2 (fun a c => P a (f c)) l l'.
Proof.
  revert l'; induction l as [|a l IH]; intros [|c l']; simpl; split; intros H; try (inversion H; fail); try constructor.
  - inversion H; auto. - inversion H; subst. apply IH; auto.
  - inversion H; auto. - inversion H; subst. apply IH; auto.
Qed.
Lemma Forall2_impl {X Y} (P Q : X -> Y -> Prop) l l' : (forall a c, P a c -> Q a c) -> Forall2 P l l' -> Forall2 Q l l'.
Proof. intros HPQ. induction 1; constructor; auto. Qed.


Section LdaProofs.
  Context {F : Type} {I : Fld F} {L : FldLaws F}.
  Add Field FF2 : (@Fth F I L).

  Implicit Types (A : mat F) (x y b v u r rl sol rhs xn : vec F) (m : list bool).

  Local Notation "0" := f0.
  Local Infix "+" := fadd.
  Local Infix "*" := fmul.
  Local Infix "-" := fsub.
  Local Infix "/" := fdiv.

  (* ================================================================ matrices: transpose, conjugate *)
  Lemma nth_nil_0 (i : nat) : nth i (@nil F) 0 = 0.
  Proof. destruct i; reflexivity. Qed.

  Lemma ncols_wfm n A : wfm n A -> ncols A = n.
  Proof. intros [Hl Hr]. destruct A as [|r A]; simpl in *; auto. inversion Hr; auto. Qed.
  Lemma wfm_row n A i : wfm n A -> i < n -> length (nth i A []) = n.
  Proof. intros [Hl Hr] Hi. rewrite Forall_forall in Hr. apply Hr. apply nth_In. lia. Qed.

  Lemma nth_col j A i : nth i (col j A) 0 = entry A i j.
  Proof. unfold col, entry. rewrite <- (nth_nil_0 j) at 1. apply (map_nth (fun row => nth j row 0)). Qed.
  Lemma entry_mtrans A i j : i < ncols A -> entry (mtrans A) i j = entry A j i.
  Proof.
    intros Hi. unfold entry at 1, mtrans.
    rewrite (nth_indep _ [] (col 0 A)) by (rewrite map_length, seq_length; auto).
    rewrite (map_nth (fun j => col j A) (seq 0 (ncols A)) 0%nat i), seq_nth by auto. simpl.
    apply nth_col.
  Qed.
  Lemma entry_mconj A i j : entry (mconj A) i j = fconj (entry A i j).
  Proof.
    unfold entry, mconj. change (@nil F) with (vconj []) at 1. rewrite (map_nth vconj).
    unfold vconj. rewrite <- conj_0 at 1. apply map_nth.
  Qed.
  Lemma wfm_mtrans n A : wfm n A -> wfm n (mtrans A).
  Proof.
    intros W. pose proof (ncols_wfm n A W) as Hc. destruct W as [Hl Hr]. unfold mtrans. rewrite Hc. split.
    - now rewrite map_length, seq_length.
    - apply Forall_forall. intros r Hin. apply in_map_iff in Hin as [j [<- _]]. unfold col. now rewrite map_length.
  Qed.
  Lemma wfm_mconj n A : wfm n A -> wfm n (mconj A).
  Proof.
    intros [Hl Hr]. split. - unfold mconj. now rewrite map_length.
    - apply Forall_forall. intros r Hin. apply in_map_iff in Hin as [r0 [<- Hr0]].
      rewrite vconj_length. rewrite Forall_forall in Hr. auto.
  Qed.
  Lemma wfm_mH n A : wfm n A -> wfm n (mH A).
  Proof. intros W. apply wfm_mtrans, wfm_mconj, W. Qed.
  Lemma ncols_mconj A : ncols (mconj A) = ncols A.
  Proof. destruct A; simpl; auto. apply vconj_length. Qed.
  Lemma mconj_mtrans A : mconj (mtrans A) = mtrans (mconj A).
  Proof.
    unfold mtrans. rewrite ncols_mconj. unfold mconj at 1. rewrite map_map. apply map_ext. intros j.
    unfold col, mconj, vconj. rewrite !map_map. apply map_ext. intros r.
    rewrite <- conj_0 at 2. symmetry. apply map_nth.
  Qed.
  Lemma entry_mH n A i j : wfm n A -> i < n -> entry (mH A) i j = fconj (entry A j i).
  Proof. intros W Hi. unfold mH. rewrite entry_mtrans, entry_mconj; auto. rewrite ncols_mconj, (ncols_wfm n); auto. Qed.
  Lemma entry_out_row n A i j : wfm n A -> n <= j -> entry A i j = 0.
  Proof.
    intros [Hl Hr] Hj. unfold entry. destruct (lt_dec i (length A)) as [Hi | Hi].
    - apply nth_overflow. rewrite Forall_forall in Hr. rewrite (Hr (nth i A [])); auto. apply nth_In; auto.
    - rewrite (nth_overflow A) by lia. apply nth_nil_0.
  Qed.
  Lemma entry_out_col n A i j : wfm n A -> n <= i -> entry A i j = 0.
  Proof. intros [Hl Hr] Hi. unfold entry. rewrite (nth_overflow A) by lia. apply nth_nil_0. Qed.

  (* ================================================================ the mode table *)
  Definition op_mat (t : Z) (A : mat F) : mat F :=
    if (t =? 0)%Z then A else if (t =? 1)%Z then mtrans A else mH A.
  Definition truthful (sym herm : bool) (A : mat F) : Prop :=
    (sym = true -> mtrans A = A) /\ (herm = true -> mH A = A).

  Lemma conj_eq_swap (u v : vec F) : u = vconj v -> vconj u = v.
  Proof. intros ->. apply vconj_invol. Qed.

  (* solving  storage-matrix * y = conj?(b)  and returning conj?(y) solves  op_trans(A) x = b :
     (sym, herm) in 4 combinations x trans in {N, T, H} *)
  Theorem mode_table sym herm t A y b :
    trans_valid t = true -> truthful sym herm A ->
    mv (if adjoint_mode sym herm t then mH A else A) y = (if conj_mode sym herm t then vconj b else b) ->
    mv (op_mat t A) (if conj_mode sym herm t then vconj y else y) = b.
  Proof.
    intros Ht [Hs Hh] E. unfold trans_valid in Ht. unfold op_mat, adjoint_mode, conj_mode in *.
    assert (Hcases : t = 0%Z \/ t = 1%Z \/ t = 2%Z) by lia.
    destruct Hcases as [-> | [-> | ->]]; simpl in *.
    - (* N *) rewrite !andb_false_r in *. simpl in *. exact E.
    - (* T *) rewrite andb_false_r, andb_true_r in *. simpl in *.
      destruct sym; simpl in *.
      + rewrite Hs; auto.
      + apply conj_eq_swap in E. rewrite mv_conj in E. destruct herm; simpl in *.
        * (* Hermitian: A^T = conj A *)
          assert (mtrans A = mconj A) as ->; auto.
          specialize (Hh eq_refl). unfold mH in Hh. rewrite <- mconj_mtrans in Hh.
          rewrite <- Hh at 2. now rewrite mconj_invol.
        * unfold mH in E. rewrite <- mconj_mtrans, mconj_invol in E. exact E.
    - (* H *) rewrite andb_true_r, andb_false_r, orb_false_r in *.
      destruct sym; simpl in *.
      + apply conj_eq_swap in E. rewrite mv_conj in E.
        unfold mH. rewrite <- mconj_mtrans, Hs; auto.
      + destruct herm; simpl in *; auto. rewrite Hh; auto.
  Qed.

  (* ================================================================ decoupled dofs *)
  (* m marks dofs whose row AND column vanish off the diagonal and whose diagonal entry is non-zero *)
  Definition Decoupled (n : nat) (A : mat F) (m : list bool) : Prop :=
    length m = n /\
    (forall i j, i < n -> j < n -> i <> j -> nth i m false = true \/ nth j m false = true -> entry A i j = 0) /\
    (forall i, i < n -> nth i m false = true -> entry A i i <> 0).

  Lemma Decoupled_mH n A m : wfm n A -> Decoupled n A m -> Decoupled n (mH A) m.
  Proof.
    intros W [Hl [Hoff Hd]]. split; [auto | split].
    - intros i j Hi Hj Hne Hm. rewrite (entry_mH n); auto. rewrite Hoff; auto using conj_0. tauto.
    - intros i Hi Hm. rewrite (entry_mH n); auto. intros E. apply (Hd i Hi Hm).
      rewrite <- (conj_invol (entry A i i)), E. apply conj_0.
  Qed.

  (* --- get_diagonal_indices detects only decoupled dofs *)
  Lemma count_le1 (l : list bool) i : count_true l <= 1 -> nth i l false = true ->
    forall j, j <> i -> nth j l false = false.
  Proof.
    unfold count_true. revert i; induction l as [|c0 l IH]; intros i Hc Hi j Hne.
    - destruct j; reflexivity.
    - destruct i as [|i]; simpl in Hi.
      + subst c0. simpl in Hc. destruct j as [|j]; [congruence|]. simpl.
        destruct (nth j l false) eqn:E; auto. exfalso.
        assert (In true (filter (fun c : bool => c) l)) by (apply filter_In; split; auto; rewrite <- E; apply nth_In;
          destruct (lt_dec j (length l)); auto; rewrite nth_overflow in E by lia; discriminate).
        destruct (filter (fun c : bool => c) l); simpl in *; [contradiction | lia].
      + destruct j as [|j]; simpl.
        * destruct c0; auto. exfalso. simpl in Hc.
          assert (In true (filter (fun c : bool => c) l)) by (apply filter_In; split; auto; rewrite <- Hi; apply nth_In;
            destruct (lt_dec i (length l)); auto; rewrite nth_overflow in Hi by lia; discriminate).
          destruct (filter (fun c : bool => c) l); simpl in *; [contradiction | lia].
        * apply (IH i); auto. simpl in Hc. destruct c0; simpl in Hc; lia.
  Qed.

  Lemma bentry_bmat A i j : bentry (bmat A) i j = negb (fis0 (entry A i j)).
  Proof.
    unfold bentry, bmat, entry.
    change (@nil bool) with (map (fun z : F => negb (fis0 z)) []) at 1.
    rewrite (map_nth (map (fun z => negb (fis0 z)))).
    assert (E0 : negb (fis0 0) = false) by (apply negb_false_iff, is0_spec; auto).
    rewrite <- E0 at 1. apply (map_nth (fun z => negb (fis0 z))).
  Qed.

  Theorem diag_detect_sound n A : wfm n A -> Decoupled n A (get_diagonal_indices A).
  Proof.
    intros W. pose proof (ncols_wfm n A W) as Hc. pose proof W as [Hl Hr].
    unfold get_diagonal_indices. rewrite Hc, Hl, Nat.min_id.
    set (B := bmat A).
    set (hd := map (fun i => bentry B i i) (seq 0 n)).
    set (nr := map (fun j => count_true (map (fun row => nth j row false) B)) (seq 0 n)).
    set (nc := firstn n (map count_true B)).
    assert (LB : length B = n) by (unfold B, bmat; now rewrite map_length).
    assert (Lhd : length hd = n) by (unfold hd; now rewrite map_length, seq_length).
    assert (Lnr : length nr = n) by (unfold nr; now rewrite map_length, seq_length).
    assert (Lnc : length nc = n) by (unfold nc; rewrite firstn_length, map_length; lia).
    set (mk := map2 andb (map2 andb hd (map (fun c => c <=? 1) nr)) (map (fun c => c <=? 1) nc)).
    assert (Lm : length mk = n).
    { unfold mk. rewrite !map2_length; rewrite ?map_length; try lia. rewrite map2_length; rewrite ?map_length; lia. }
    assert (Hmk : forall i, i < n -> nth i mk false = true ->
              bentry B i i = true /\ count_true (map (fun row => nth i row false) B) <= 1 /\
              count_true (nth i B []) <= 1).
    { intros i Hi Hm. unfold mk in Hm.
      rewrite (nth_map2 andb _ _ i false false false) in Hm
        by (rewrite ?map2_length, ?map_length; try lia; rewrite map_length; lia).
      rewrite (nth_map2 andb _ _ i false false false) in Hm by (rewrite ?map_length; lia).
      apply andb_true_iff in Hm as [Hm H3]. apply andb_true_iff in Hm as [H1 H2].
      unfold hd in H1. rewrite (nth_indep _ false (bentry B 0 0)) in H1 by (rewrite map_length, seq_length; auto).
      rewrite (map_nth (fun i => bentry B i i) (seq 0 n) 0%nat i), seq_nth in H1 by auto. simpl in H1.
      unfold nr in H2. rewrite (nth_indep _ false ((fun c => c <=? 1) 0%nat)) in H2 by (rewrite !map_length, seq_length; auto).
      rewrite (map_nth (fun c => c <=? 1)) in H2.
      rewrite (nth_indep _ 0%nat ((fun j => count_true (map (fun row => nth j row false) B)) 0%nat)) in H2
        by (rewrite map_length, seq_length; auto).
      rewrite (map_nth (fun j => count_true (map (fun row => nth j row false) B)) (seq 0 n) 0%nat i), seq_nth in H2 by auto.
      simpl in H2. apply Nat.leb_le in H2.
      rewrite (nth_indep _ false ((fun c => c <=? 1) 0%nat)) in H3 by (rewrite map_length; lia).
      rewrite (map_nth (fun c => c <=? 1)) in H3. apply Nat.leb_le in H3. unfold nc in H3.
      rewrite nth_firstn_lt in H3 by auto.
      rewrite (nth_indep _ 0%nat (count_true [])) in H3 by (rewrite map_length; lia).
      rewrite (map_nth count_true) in H3. auto. }
    split; [exact Lm | split].
    - intros i j Hi Hj Hne [Hm | Hm].
      + (* row i has a single non-zero, on the diagonal *)
        destruct (Hmk i Hi Hm) as [Hdg [_ Hrow]].
        pose proof (count_le1 (nth i B []) i Hrow Hdg j (not_eq_sym Hne)) as E.
        change (nth j (nth i B []) false) with (bentry B i j) in E. unfold B in E.
        rewrite bentry_bmat in E. apply negb_false_iff, is0_spec in E. exact E.
      + (* column j has a single non-zero, on the diagonal *)
        destruct (Hmk j Hj Hm) as [Hdg [Hcol _]].
        assert (Hn : forall k, nth k (map (fun row => nth j row false) B) false = bentry B k j).
        { intros k. unfold bentry. apply (nth_map_default (fun row : list bool => nth j row false)).
          destruct j; reflexivity. }
        pose proof (count_le1 _ j Hcol) as E. rewrite Hn in E. specialize (E Hdg i Hne).
        rewrite Hn in E. unfold B in E. rewrite bentry_bmat in E. apply negb_false_iff, is0_spec in E. exact E.
    - intros i Hi Hm. destruct (Hmk i Hi Hm) as [Hdg _]. unfold B in Hdg. rewrite bentry_bmat in Hdg.
      apply negb_true_iff in Hdg. apply is0_false in Hdg. exact Hdg.
  Qed.

  (* ================================================================ structure of A on decoupled dofs *)
  Lemma nth_vzero n i : nth i (vzero n) 0 = 0.
  Proof. unfold vzero. revert i; induction n; intros [|i]; simpl; auto. Qed.
  Lemma nth_diag n A i : wfm n A -> i < n -> nth i (diag A) 0 = entry A i i.
  Proof.
    intros [Hl _] Hi. unfold diag. rewrite Hl.
    rewrite (nth_indep _ 0 ((fun i => entry A i i) 0%nat)) by (rewrite map_length, seq_length; auto).
    rewrite (map_nth (fun i => entry A i i) (seq 0 n) 0%nat i), seq_nth by auto. reflexivity.
  Qed.
  Lemma diag_length A : length (diag A) = length A.
  Proof. unfold diag. now rewrite map_length, seq_length. Qed.
  Lemma diag_div_length m r D n : length m = n -> length r = n -> length D = n -> length (diag_div m r D) = n.
  Proof. intros E1 E2 E3. unfold diag_div. rewrite map2_length; auto. rewrite combine_length. lia. Qed.
  Lemma nth_diag_div m r D n i : length m = n -> length r = n -> length D = n -> i < n ->
    nth i (diag_div m r D) 0 = if nth i m false then nth i r 0 / nth i D 0 else 0.
  Proof.
    intros E1 E2 E3 Hi. unfold diag_div.
    rewrite (nth_map2 _ m (combine r D) i false (0, 0) 0) by (rewrite ?combine_length; lia).
    rewrite combine_nth by lia. reflexivity.
  Qed.

  Lemma mv_pn_comm n A m v : wfm n A -> Decoupled n A m -> length v = n -> mv A (pn m v) = pn m (mv A v).
  Proof.
    intros W [Hl [Hoff Hd]] Hv. pose proof W as [HlA _].
    apply (nth_ext_len _ _ 0).
    - rewrite mv_length, pn_length; rewrite ?mv_length; lia.
    - rewrite mv_length, HlA. intros i Hi.
      rewrite nth_mv by lia. rewrite nth_pn by (rewrite mv_length; lia). rewrite nth_mv by lia.
      pose proof (wfm_row n A i W Hi) as Hrow.
      destruct (nth i m false) eqn:Emi.
      + rewrite (vdot_ext0 _ (pn m v) (vzero n)).
        * apply vdot_zero_r.
        * rewrite pn_length, vzero_length; lia.
        * rewrite pn_length by lia. intros j Hj. destruct (Nat.eq_dec j i) as [-> | Hne].
          -- right. rewrite nth_pn, Emi, nth_vzero by lia. reflexivity.
          -- left. apply (Hoff i j); auto; lia.
      + apply vdot_ext0.
        * rewrite pn_length; lia.
        * rewrite pn_length by lia. intros j Hj. rewrite nth_pn by lia.
          destruct (nth j m false) eqn:Emj; auto. left. apply (Hoff i j); auto; try lia. congruence.
  Qed.

  Lemma mv_diag_div n A m r : wfm n A -> Decoupled n A m -> length r = n ->
    mv A (diag_div m r (diag A)) = pd m r.
  Proof.
    intros W [Hl [Hoff Hd]] Hr. pose proof W as [HlA _].
    assert (LD : length (diag A) = n) by (rewrite diag_length; auto).
    assert (Ldd : length (diag_div m r (diag A)) = n) by (apply diag_div_length; auto).
    apply (nth_ext_len _ _ 0).
    - rewrite mv_length, pd_length; lia.
    - rewrite mv_length, HlA. intros i Hi. rewrite nth_mv by lia. rewrite nth_pd by lia.
      pose proof (wfm_row n A i W Hi) as Hrow.
      destruct (nth i m false) eqn:Emi.
      + rewrite (vdot_single _ _ i) by (try lia; intros j Hj Hne; apply (Hoff i j); auto; lia).
        rewrite (nth_diag_div m r (diag A) n) by auto. rewrite Emi, (nth_diag n) by auto.
        fold (entry A i i). field. apply Hd; auto.
      + rewrite (vdot_ext0 _ _ (vzero n)).
        * apply vdot_zero_r.
        * rewrite vzero_length; lia.
        * rewrite Ldd. intros j Hj. rewrite (nth_diag_div m r (diag A) n), nth_vzero by auto.
          destruct (nth j m false) eqn:Emj; auto. left. apply (Hoff i j); auto; try lia. congruence.
  Qed.

  (* ================================================================ the database invariant *)
  Definition pair_ok (n : nat) A m (p : pair) : Prop :=
    length (p_x p) = n /\ length (p_b p) = n /\ mv A (p_x p) = p_b p /\ pn m (p_x p) = p_x p /\ nrm2 (p_b p) <> 0.
  (* later stored right-hand sides are orthogonal to earlier ones *)
  Fixpoint orth (bs : list (vec F)) : Prop :=
    match bs with
    | [] => True
    | b0 :: t => (forall d, In d t -> hdot d b0 = 0) /\ orth t
    end.
  Definition db_inv (n : nat) A m (db : list pair) : Prop :=
    Forall (pair_ok n A m) db /\ orth (map p_b db).

  Lemma pair_ok_pn_b n A m p : wfm n A -> Decoupled n A m -> pair_ok n A m p -> pn m (p_b p) = p_b p.
  Proof. intros W Dc (Hx & Hb & HA & Hp & _). rewrite <- HA, <- (mv_pn_comm n) by auto. now rewrite Hp. Qed.

  Lemma orth_app l1 l2 : orth (l1 ++ l2) <->
    orth l1 /\ orth l2 /\ (forall a c, In a l1 -> In c l2 -> hdot c a = 0).
  Proof.
    induction l1 as [|b0 l1 IH]; simpl.
    - tauto.
    - rewrite IH. split.
      + intros [H1 [H2 [H3 H4]]]. repeat split; auto.
        * intros d Hd. apply H1. apply in_or_app; auto.
        * intros a c [<- | Ha] Hc; auto. apply H1. apply in_or_app; auto.
      + intros [[H1 H2] [H3 H4]]. repeat split; auto.
        intros d Hd. apply in_app_or in Hd as [Hd | Hd]; auto.
  Qed.

  (* ---------------------------------------------------------------- modified Gram-Schmidt on one vector *)
  Definition mgs_step v b := vsub v (vscale (hdot v b / nrm2 b) b).
  Definition mgs (bs : list (vec F)) v := fold_left mgs_step bs v.
  Definition nzlen (n : nat) b := length b = n /\ nrm2 b <> 0.

  Lemma mgs_step_length n v b : length v = n -> length b = n -> length (mgs_step v b) = n.
  Proof. intros E1 E2. unfold mgs_step. rewrite vsub_length; rewrite ?vscale_length; lia. Qed.
  Lemma mgs_length n bs v : Forall (nzlen n) bs -> length v = n -> length (mgs bs v) = n.
  Proof. unfold mgs. revert v; induction bs as [|b0 bs IH]; intros v Hb Hv; simpl; auto.
    apply Forall_cons_iff in Hb as [[Hl _] Hb']. apply IH; auto. apply mgs_step_length; auto. Qed.
  Lemma hdot_mgs_step n v b d : length v = n -> length b = n ->
    hdot (mgs_step v b) d = hdot v d - (hdot v b / nrm2 b) * hdot b d.
  Proof. intros E1 E2. unfold mgs_step. rewrite hdot_vsub_l, hdot_vscale_l; auto. rewrite vscale_length; lia. Qed.

  Lemma mgs_orth n rest : forall done_ v, orth (done_ ++ rest) -> Forall (nzlen n) (done_ ++ rest) -> length v = n ->
    (forall d, In d done_ -> hdot v d = 0) ->
    forall d, In d (done_ ++ rest) -> hdot (mgs rest v) d = 0.
  Proof.
    unfold mgs. induction rest as [|b0 rest IH]; intros done_ v Ho Hn Hv Hd d Hin; simpl.
    - rewrite app_nil_r in Hin. auto.
    - assert (Hb0 : nzlen n b0) by (rewrite Forall_forall in Hn; apply Hn, in_or_app; simpl; auto).
      destruct Hb0 as [Lb0 Nb0].
      replace (done_ ++ b0 :: rest) with ((done_ ++ [b0]) ++ rest) in * by (rewrite <- app_assoc; reflexivity).
      apply (IH (done_ ++ [b0])); auto.
      + apply (mgs_step_length n); auto.
      + intros e He. rewrite (hdot_mgs_step n) by auto. apply in_app_or in He as [He | [<- | []]].
        * rewrite (Hd e He).
          assert (hdot b0 e = 0) as ->.
          { apply orth_app in Ho as [Ho _]. apply orth_app in Ho as [_ [_ Ho]]. apply Ho; simpl; auto. }
          ring.
        * rewrite <- nrm2_hdot. field. exact Nb0.
  Qed.

  Lemma mgs_step_vadd n u v b : length u = n -> length v = n -> length b = n ->
    mgs_step (vadd u v) b = vadd (mgs_step u b) (mgs_step v b).
  Proof.
    intros E1 E2 E3. unfold mgs_step. rewrite hdot_vadd_l by lia.
    replace ((hdot u b + hdot v b) / nrm2 b) with (hdot u b / nrm2 b + hdot v b / nrm2 b).
    2:{ unfold fdiv. destruct (@Fth F I L) as [_ _ Hdiv _]. rewrite !Hdiv. ring. }
    remember (hdot u b / nrm2 b) as cu. remember (hdot v b / nrm2 b) as cv. clear Heqcu Heqcv.
    revert v b E1 E2 E3. revert n. induction u as [|x u IH]; intros n [|y v] [|z b] E1 E2 E3; simpl in *; subst; try discriminate; auto.
    unfold vadd, vsub, vscale in *. simpl. f_equal. ring. apply (IH (length u)); auto; lia.
  Qed.
  Lemma mgs_step_vscale c v b : mgs_step (vscale c v) b = vscale c (mgs_step v b).
  Proof.
    unfold mgs_step. rewrite hdot_vscale_l, vscale_vsub, vscale_vscale. f_equal. f_equal.
    unfold fdiv. destruct (@Fth F I L) as [_ _ Hdiv _]. rewrite !Hdiv. ring.
  Qed.
  Lemma mgs_step_zero n b : length b = n -> mgs_step (vzero n) b = vzero n.
  Proof.
    intros E. unfold mgs_step. rewrite hdot_zero_l.
    replace (0 / nrm2 b) with 0 by (destruct (@Fth F I L) as [_ _ Hdiv _]; rewrite Hdiv; ring).
    rewrite vscale_0, E. apply vsub_zero_r. apply vzero_length.
  Qed.
  Lemma mgs_vadd n bs : forall u v, Forall (nzlen n) bs -> length u = n -> length v = n ->
    mgs bs (vadd u v) = vadd (mgs bs u) (mgs bs v).
  Proof.
    unfold mgs. induction bs as [|b0 bs IH]; intros u v Hb Hu Hv; simpl; auto.
    apply Forall_cons_iff in Hb as [[Lb _] Hb']. rewrite (mgs_step_vadd n) by auto.
    apply IH; auto; apply (mgs_step_length n); auto.
  Qed.
  Lemma mgs_vscale bs : forall c v, mgs bs (vscale c v) = vscale c (mgs bs v).
  Proof. unfold mgs. induction bs as [|b0 bs IH]; intros c v; simpl; auto. rewrite mgs_step_vscale. apply IH. Qed.
  Lemma mgs_zero n bs : Forall (nzlen n) bs -> mgs bs (vzero n) = vzero n.
  Proof. unfold mgs. induction bs as [|b0 bs IH]; intros Hb; simpl; auto.
    apply Forall_cons_iff in Hb as [[Lb _] Hb']. rewrite mgs_step_zero by auto. apply IH; auto. Qed.

  (* a stored vector is annihilated *)
  Lemma mgs_member n bs b : orth bs -> Forall (nzlen n) bs -> In b bs -> mgs bs b = vzero n.
  Proof.
    intros Ho Hn Hin. apply in_split in Hin as [l1 [l2 ->]].
    unfold mgs. rewrite fold_left_app. simpl.
    assert (Hb : nzlen n b) by (rewrite Forall_forall in Hn; apply Hn, in_or_app; simpl; auto).
    destruct Hb as [Lb Nb].
    assert (E1 : fold_left mgs_step l1 b = b).
    { apply orth_app in Ho as [_ [_ Ho]].
      assert (Hl1 : forall d, In d l1 -> hdot b d = 0 /\ length d = n).
      { intros d Hd. split. apply Ho; simpl; auto. rewrite Forall_forall in Hn. apply Hn. apply in_or_app; auto. }
      clear Ho Hn. induction l1 as [|d l1 IH]; simpl; auto.
      assert (mgs_step b d = b) as ->.
      { unfold mgs_step. destruct (Hl1 d (or_introl eq_refl)) as [-> Ld].
        replace (0 / nrm2 d) with 0 by (destruct (@Fth F I L) as [_ _ Hdiv _]; rewrite Hdiv; ring).
        rewrite vscale_0, Ld. apply vsub_zero_r; auto. }
      apply IH. intros e He. apply Hl1. simpl; auto. }
    rewrite E1.
    assert (mgs_step b b = vzero n) as ->.
    { unfold mgs_step. rewrite <- nrm2_hdot.
      replace (nrm2 b / nrm2 b) with f1 by (field; auto).
      rewrite vscale_1, vsub_self, Lb. reflexivity. }
    apply (mgs_zero n). apply Forall_app in Hn as [_ Hn]. inversion Hn; auto.
  Qed.

  (* span of a list of vectors *)
  Inductive span (n : nat) (vs : list (vec F)) : vec F -> Prop :=
  | span_zero : span n vs (vzero n)
  | span_add c v u : In v vs -> span n vs u -> span n vs (vadd (vscale c v) u).

  Lemma span_length n vs v : Forall (fun w => length w = n) vs -> span n vs v -> length v = n.
  Proof.
    intros Hl. induction 1. - apply vzero_length.
    - rewrite vadd_length; rewrite vscale_length; rewrite Forall_forall in Hl; rewrite (Hl v); auto.
  Qed.
  Lemma mgs_span n bs v : orth bs -> Forall (nzlen n) bs -> span n bs v -> mgs bs v = vzero n.
  Proof.
    intros Ho Hn Hs.
    assert (Hl : Forall (fun w => length w = n) bs) by (eapply Forall_impl; [| exact Hn]; intros a [Ha _]; exact Ha).
    induction Hs as [| c v u Hin Hs IH].
    - apply mgs_zero; auto.
    - rewrite (mgs_vadd n); auto.
      + rewrite mgs_vscale, (mgs_member n), IH, vscale_zero by auto. apply vadd_zero_r, vzero_length.
      + rewrite vscale_length. rewrite Forall_forall in Hl. auto.
      + eapply span_length; eauto.
  Qed.

  (* ================================================================ _do_solve_1rhs *)
  Local Arguments gs_step : simpl never.
  Local Arguments add_db : simpl never.
  (* per column: A sol + rhs_loc = rhs, rhs_loc lives on the non-diagonal dofs *)
  Definition col_ok (n : nat) A m rhs rl sol : Prop :=
    length rhs = n /\ length rl = n /\ length sol = n /\ vadd (mv A sol) rl = rhs /\ pn m rl = rl.

  Lemma col_ok_init n A m rhs : wfm n A -> Decoupled n A m -> length rhs = n ->
    col_ok n A m rhs (pn m rhs) (diag_div m rhs (diag A)).
  Proof.
    intros W Dc Hr. pose proof Dc as [Hl _]. pose proof W as [HlA _].
    repeat split; auto.
    - rewrite pn_length; lia.
    - apply diag_div_length; auto. rewrite diag_length; auto.
    - rewrite (mv_diag_div n); auto. apply pd_pn_sum. lia.
    - apply pn_idem.
  Qed.

  Lemma col_ok_step n A m p rhs rl sol a : wfm n A -> Decoupled n A m -> pair_ok n A m p ->
    col_ok n A m rhs rl sol ->
    col_ok n A m rhs (vsub rl (vscale a (p_b p))) (vadd sol (vscale a (p_x p))).
  Proof.
    intros W Dc Hp (H1 & H2 & H3 & H4 & H5). pose proof (pair_ok_pn_b n A m p W Dc Hp) as Hpb.
    destruct Hp as (Hx & Hb & HA & Hpx & Hnz). pose proof W as [HlA _].
    repeat split; auto.
    - rewrite vsub_length; rewrite ?vscale_length; lia.
    - rewrite vadd_length; rewrite ?vscale_length; lia.
    - rewrite mv_vadd, mv_vscale, HA by (rewrite vscale_length; lia).
      rewrite vadd_vsub_swap; auto; rewrite ?mv_length, ?vscale_length; lia.
    - rewrite pn_vsub, pn_vscale, Hpb, H5; auto. rewrite vscale_length; lia.
  Qed.

  Lemma F3_update n A m p (g : vec F -> F) RHS RL SOL : wfm n A -> Decoupled n A m -> pair_ok n A m p ->
    Forall3 (col_ok n A m) RHS RL SOL ->
    Forall3 (col_ok n A m) RHS (map2 vsub RL (map (fun a => vscale a (p_b p)) (map g RL)))
                               (map2 vadd SOL (map (fun a => vscale a (p_x p)) (map g RL))).
  Proof. intros W Dc Hp. induction 1; simpl; constructor; auto. apply col_ok_step; auto. Qed.

  Lemma gs_step_ok n A m dt p RHS RL SOL : wfm n A -> Decoupled n A m -> pair_ok n A m p ->
    Forall3 (col_ok n A m) RHS RL SOL ->
    Forall3 (col_ok n A m) RHS (fst (gs_step dt (RL, SOL) p)) (snd (gs_step dt (RL, SOL) p)).
  Proof.
    intros W Dc Hp H3. unfold gs_step.
    destruct (p_tag p && negb dt && negb (castable _)); simpl; auto.
    destruct (p_tag p && negb dt && negb (castable _)); simpl; auto.
    apply F3_update; auto.
  Qed.

  Lemma gs_loop_ok n A m dt RHS : wfm n A -> Decoupled n A m -> forall db RL SOL,
    Forall (pair_ok n A m) db -> Forall3 (col_ok n A m) RHS RL SOL ->
    Forall3 (col_ok n A m) RHS (fst (fold_left (gs_step dt) db (RL, SOL))) (snd (fold_left (gs_step dt) db (RL, SOL))).
  Proof.
    intros W Dc. induction db as [|p db IH]; intros RL SOL Hdb H3; simpl; auto.
    apply Forall_cons_iff in Hdb as [Hp Hdb].
    pose proof (gs_step_ok n A m dt p RHS RL SOL W Dc Hp H3) as H3'.
    destruct (gs_step dt (RL, SOL) p) as [RL' SOL']. apply IH; auto.
  Qed.

  Lemma vsub_all_zero a c : length a = length c -> Forall (fun z => z = 0) (vsub a c) -> a = c.
  Proof.
    unfold vsub. revert c; induction a as [|x a IH]; intros [|y c] E H; simpl in *; try discriminate; auto.
    inversion H as [|? ? H1 H2]; subst. f_equal; auto.
    transitivity ((x - y) + y); [ring | rewrite H1; ring].
  Qed.

  Lemma residual_zero n A m rhs rl sol : wfm n A -> col_ok n A m rhs rl sol ->
    negb (fis0 (nrm2 (vsub (mv A sol) rhs))) = false -> mv A sol = rhs.
  Proof.
    intros [HlA _] (H1 & H2 & H3 & H4 & H5) E. apply negb_false_iff, is0_spec in E.
    apply nrm2_definite in E. apply vsub_all_zero in E; auto. rewrite mv_length. lia.
  Qed.

  Definition did_of A (SOL RHS : list (vec F)) : list bool :=
    map2 (fun s r => negb (fis0 (nrm2 (vsub (mv A s) r)))) SOL RHS.

  Lemma pick_lengths n A m RHS RL SOL : Forall3 (col_ok n A m) RHS RL SOL -> forall did,
    Forall (fun r => length r = n) (pick did RL).
  Proof.
    induction 1 as [|rhs rl sol RHS RL SOL Hc H3 IH]; intros [|[|] did]; simpl; auto.
    constructor; auto. destruct Hc as (_ & H2 & _); auto.
  Qed.

  Lemma merge_correct n A m : wfm n A -> Decoupled n A m -> forall RHS RL SOL,
    Forall3 (col_ok n A m) RHS RL SOL -> forall XN,
    Forall2 (fun r x => length x = n /\ mv A x = r) (pick (did_of A SOL RHS) RL) XN ->
    Forall2 (fun rhs x => length x = n /\ mv A x = rhs) RHS (merge m (did_of A SOL RHS) SOL XN).
  Proof.
    intros W Dc. pose proof W as [HlA _]. pose proof Dc as [Hlm _].
    induction 1 as [|rhs rl sol RHS RL SOL Hc H3 IH]; intros XN HX; simpl in *.
    - constructor.
    - unfold did_of in *. simpl in *.
      destruct (negb (fis0 (nrm2 (vsub (mv A sol) rhs)))) eqn:Ed.
      + destruct (Forall2_cons_inv_l _ _ _ _ HX) as (xn & XN' & -> & [Lx Ex] & HX'). constructor; auto.
        destruct Hc as (H1 & H2 & H3' & H4 & H5). split.
        * rewrite vadd_length; [lia | rewrite pn_length; lia].
        * rewrite mv_vadd by (rewrite pn_length; lia). rewrite (mv_pn_comm n), Ex, H5 by auto. exact H4.
      + constructor; auto. split. * destruct Hc as (_ & _ & H3' & _); auto.
        * eapply residual_zero; eauto.
  Qed.

  Lemma no_call_correct n A m : wfm n A -> forall RHS RL SOL, Forall3 (col_ok n A m) RHS RL SOL ->
    existsb (fun c : bool => c) (did_of A SOL RHS) = false ->
    Forall2 (fun rhs x => length x = n /\ mv A x = rhs) RHS SOL.
  Proof.
    intros W. induction 1 as [|rhs rl sol RHS RL SOL Hc H3 IH]; intros E; simpl in *.
    - constructor.
    - unfold did_of in *. simpl in E. apply orb_false_iff in E as [E1 E2]. constructor; auto.
      split. + destruct Hc as (_ & _ & H3' & _); auto. + eapply residual_zero; eauto.
  Qed.

  (* ---------------------------------------------------------------- adding to the database *)
  Definition xb_ok (n : nat) A m (st : vec F * vec F) : Prop :=
    length (fst st) = n /\ length (snd st) = n /\ mv A (fst st) = snd st /\ pn m (fst st) = fst st.

  Lemma orth_step_ok n A m p st : wfm n A -> pair_ok n A m p -> xb_ok n A m st ->
    xb_ok n A m (orth_step st p) /\ snd (orth_step st p) = mgs_step (snd st) (p_b p).
  Proof.
    intros W (Hx & Hb & HA & Hpx & Hnz) (H1 & H2 & H3 & H4). destruct st as [xa ba]. simpl in *.
    split; [| reflexivity]. repeat split; simpl.
    - rewrite vsub_length; rewrite ?vscale_length; lia.
    - rewrite vsub_length; rewrite ?vscale_length; lia.
    - rewrite mv_vsub, mv_vscale, HA, H3 by (rewrite vscale_length; lia). reflexivity.
    - rewrite pn_vsub, pn_vscale, Hpx, H4 by (rewrite vscale_length; lia). reflexivity.
  Qed.

  Lemma orth_loop_ok n A m : wfm n A -> forall db st, Forall (pair_ok n A m) db -> xb_ok n A m st ->
    xb_ok n A m (fold_left orth_step db st) /\ snd (fold_left orth_step db st) = mgs (map p_b db) (snd st).
  Proof.
    intros W. induction db as [|p db IH]; intros st Hdb Hst; simpl; auto.
    apply Forall_cons_iff in Hdb as [Hp Hdb].
    destruct (orth_step_ok n A m p st W Hp Hst) as [Hst' E].
    destruct (IH (orth_step st p) Hdb Hst') as [Hf E']. split; auto. rewrite E', E. reflexivity.
  Qed.

  Lemma pair_ok_nzlen n A m db : Forall (pair_ok n A m) db -> Forall (nzlen n) (map p_b db).
  Proof. induction 1 as [|p db Hp H IH]; simpl; constructor; auto. destruct Hp as (_ & Hb & _ & _ & Hnz). split; auto. Qed.

  Lemma add_db_inv n A m dt db xn : wfm n A -> Decoupled n A m -> db_inv n A m db -> length xn = n ->
    db_inv n A m (add_db A m dt db xn).
  Proof.
    intros W Dc [Hdb Ho] Hx. pose proof W as [HlA _]. pose proof Dc as [Hlm _]. unfold add_db.
    assert (Hst : xb_ok n A m (pn m xn, pn m (mv A xn))).
    { repeat split; simpl.
      - rewrite pn_length; lia.
      - rewrite pn_length; rewrite mv_length; lia.
      - apply (mv_pn_comm n); auto.
      - apply pn_idem. }
    destruct (orth_loop_ok n A m W db _ Hdb Hst) as [(H1 & H2 & H3 & H4) E].
    destruct (fold_left orth_step db (pn m xn, pn m (mv A xn))) as [xa ba]. simpl in *.
    destruct (fis0 (nrm2 ba)) eqn:Ez.
    - split; auto.
    - apply is0_false in Ez. split.
      + apply Forall_app. split; auto. constructor; auto. repeat split; simpl; auto.
      + rewrite map_app. simpl. apply orth_app. repeat split; simpl; auto.
        * intros d [].
        * intros a c Ha [<- | []]. rewrite E.
          apply (mgs_orth n (map p_b db) []); simpl; auto.
          -- apply (pair_ok_nzlen n A m); auto.
          -- rewrite pn_length; rewrite mv_length; lia.
          -- intros d [].
  Qed.

  Lemma add_db_loop_inv n A m dt : wfm n A -> Decoupled n A m -> forall XN db, db_inv n A m db ->
    Forall (fun x => length x = n) XN -> db_inv n A m (fold_left (add_db A m dt) XN db).
  Proof.
    intros W Dc. induction XN as [|xn XN IH]; intros db Hdb HX; simpl; auto.
    apply Forall_cons_iff in HX as [Hx HX]. apply IH; auto. apply add_db_inv; auto.
  Qed.

  (* ---------------------------------------------------------------- the routine as a whole *)
  Definition solve_fn_ok (n : nat) (M : mat F)
             (solve_fn : list (vec F) -> option (list (vec F)) -> list (vec F)) : Prop :=
    forall R X0, Forall (fun r => length r = n) R ->
                 Forall2 (fun r x => length x = n /\ mv M x = r) R (solve_fn R X0).

  Lemma F3_init n A m RHS : wfm n A -> Decoupled n A m -> Forall (fun r => length r = n) RHS ->
    Forall3 (col_ok n A m) RHS (map (pn m) RHS) (map (fun r => diag_div m r (diag A)) RHS).
  Proof. intros W Dc. induction 1; simpl; constructor; auto. apply col_ok_init; auto. Qed.

  Theorem do_solve_correct n A cplxA m db adj solve_fn crhs isvec RHS X0 :
    wfm n A -> Decoupled n A m -> db_inv n A m db -> solve_fn_ok n A solve_fn ->
    Forall (fun r => length r = n) RHS ->
    Forall2 (fun rhs x => length x = n /\ mv A x = rhs) RHS
            (fst (fst (do_solve A cplxA m db adj solve_fn crhs isvec RHS X0))) /\
    db_inv n A m (snd (fst (do_solve A cplxA m db adj solve_fn crhs isvec RHS X0))).
  Proof.
    intros W Dc Hdb Hfn HR. unfold do_solve.
    pose proof (gs_loop_ok n A m (cplxA || crhs) RHS W Dc db _ _ (proj1 Hdb) (F3_init n A m RHS W Dc HR)) as H3.
    destruct (fold_left (gs_step (cplxA || crhs)) db
               (map (pn m) RHS, map (fun r => diag_div m r (diag A)) RHS)) as [RL SOL]. simpl in H3.
    fold (did_of A SOL RHS).
    destruct (existsb (fun b0 : bool => b0) (did_of A SOL RHS)) eqn:Ee; simpl.
    - pose proof (pick_lengths n A m RHS RL SOL H3 (did_of A SOL RHS)) as Hpl.
      pose proof (Hfn (pick (did_of A SOL RHS) RL)
                      (match X0 with None => None | Some X => Some (x0_loc m db (did_of A SOL RHS) isvec X) end) Hpl) as HX.
      split.
      + apply (merge_correct n A m W Dc RHS RL SOL H3); auto.
      + apply add_db_loop_inv; auto.
        clear - HX. induction HX as [|r0 x R X [Hl _] HX IH]; constructor; auto.
    - split; auto. apply (no_call_correct n A m W RHS RL SOL H3 Ee).
  Qed.

  (* ---------------------------------------------------------------- reuse *)
  Lemma gs_step_full dt p RL SOL : p_tag p && negb dt = false ->
    fst (gs_step dt (RL, SOL) p) = map (fun rl => mgs_step rl (p_b p)) RL.
  Proof.
    intros E. unfold gs_step. rewrite E. simpl.
    rewrite map_map, map2_map_r, map2_diag. reflexivity.
  Qed.

  Lemma gs_loop_full dt : forall db RL SOL, (dt = true \/ Forall (fun p => p_tag p = false) db) ->
    fst (fold_left (gs_step dt) db (RL, SOL)) = map (mgs (map p_b db)) RL.
  Proof.
    induction db as [|p db IH]; intros RL SOL Hn; simpl.
    - unfold mgs. simpl. now rewrite map_id.
    - assert (E : p_tag p && negb dt = false).
      { destruct Hn as [-> | Hn]. apply andb_false_r. apply Forall_cons_iff in Hn as [-> _]. reflexivity. }
      pose proof (gs_step_full dt p RL SOL E) as E1.
      destruct (gs_step dt (RL, SOL) p) as [RL' SOL']. simpl in E1. subst RL'.
      rewrite IH. + rewrite map_map. reflexivity.
      + destruct Hn as [Hn | Hn]; auto. right. apply Forall_cons_iff in Hn as [_ Hn]; auto.
  Qed.

  (* a right-hand side whose non-diagonal part lies in the span of the stored right-hand sides is answered
     without calling the inner solver (and the database does not change) *)
  Theorem do_solve_reuse n A cplxA m db adj solve_fn crhs isvec RHS X0 :
    wfm n A -> Decoupled n A m -> db_inv n A m db -> Forall (fun r => length r = n) RHS ->
    (cplxA || crhs = true \/ Forall (fun p => p_tag p = false) db) ->
    Forall (fun rhs => span n (map p_b db) (pn m rhs)) RHS ->
    snd (do_solve A cplxA m db adj solve_fn crhs isvec RHS X0) = None /\
    snd (fst (do_solve A cplxA m db adj solve_fn crhs isvec RHS X0)) = db.
  Proof.
    intros W Dc Hdb HR Hn Hs. unfold do_solve.
    pose proof (gs_loop_ok n A m (cplxA || crhs) RHS W Dc db _ _ (proj1 Hdb) (F3_init n A m RHS W Dc HR)) as H3.
    pose proof (gs_loop_full (cplxA || crhs) db (map (pn m) RHS) (map (fun r => diag_div m r (diag A)) RHS) Hn) as ERL.
    destruct (fold_left (gs_step (cplxA || crhs)) db
               (map (pn m) RHS, map (fun r => diag_div m r (diag A)) RHS)) as [RL SOL]. simpl in H3, ERL.
    fold (did_of A SOL RHS).
    assert (Ee : existsb (fun b0 : bool => b0) (did_of A SOL RHS) = false).
    { subst RL. rewrite map_map in H3. pose proof W as [HlA _].
      clear - H3 Hs Hdb W L HlA. revert SOL H3. induction Hs as [|rhs RHS Hsp Hs IH]; intros SOL H3.
      - apply Forall3_nil_inv in H3 as [_ ->]. reflexivity.
      - simpl in H3. destruct (Forall3_cons_inv _ _ _ _ _ H3) as (b1 & lb & sol & SOL' & Eb & -> & Hc & H3').
        injection Eb as <- <-. unfold did_of. simpl. fold (did_of A SOL' RHS).
        rewrite IH by auto. rewrite orb_false_r.
        destruct Hc as (H1 & H2 & H3c & H4 & H5).
        rewrite (mgs_span n) in H4; auto.
        + rewrite vadd_zero_r in H4 by (rewrite mv_length; lia). rewrite H4, vsub_self, nrm2_zero.
          apply negb_false_iff, is0_spec. reflexivity.
        + apply Hdb.
        + apply (pair_ok_nzlen n A m). apply Hdb. }
    rewrite Ee. simpl. auto.
  Qed.


  (* ================================================================ what the database spans *)
  Lemma span_mono n vs ws u : (forall v, In v vs -> In v ws) -> span n vs u -> span n ws u.
  Proof. intros Hi. induction 1; [apply span_zero | apply span_add; auto]. Qed.
  Lemma span_vadd n vs u w : Forall (fun z => length z = n) vs -> span n vs u -> span n vs w -> span n vs (vadd u w).
  Proof.
    intros Hl Hu Hw. induction Hu as [| c v u Hin Hu IH].
    - rewrite vadd_zero_l; auto. eapply span_length; eauto.
    - rewrite vadd_assoc. apply span_add; auto.
  Qed.
  Lemma span_vscale n vs c u : span n vs u -> span n vs (vscale c u).
  Proof.
    induction 1 as [| d v u Hin Hu IH].
    - rewrite vscale_zero. apply span_zero.
    - rewrite vscale_vadd, vscale_vscale. apply span_add; auto.
  Qed.
  Lemma span_member n vs v : In v vs -> length v = n -> span n vs v.
  Proof.
    intros Hin Hl. rewrite <- (vscale_1 v), <- (vadd_zero_r (vscale f1 v) n) by (rewrite vscale_length; auto).
    apply span_add; auto. apply span_zero.
  Qed.
  Lemma span_trans n vs ws u : Forall (fun z => length z = n) ws ->
    (forall v, In v vs -> span n ws v) -> span n vs u -> span n ws u.
  Proof.
    intros Hl Hv. induction 1 as [| c v u Hin Hu IH].
    - apply span_zero.
    - apply span_vadd; auto. apply span_vscale; auto.
  Qed.

  Lemma nzlen_len n bs : Forall (nzlen n) bs -> Forall (fun z => length z = n) bs.
  Proof. intros H. eapply Forall_impl; [| exact H]. intros a [Ha _]; exact Ha. Qed.

  (* v = (something in the span) + mgs bs v *)
  Lemma mgs_decomp n bs : forall v, Forall (nzlen n) bs -> length v = n ->
    exists s, span n bs s /\ v = vadd s (mgs bs v).
  Proof.
    unfold mgs. induction bs as [|b0 bs IH]; intros v Hb Hv; simpl.
    - exists (vzero n). split; [apply span_zero | rewrite vadd_zero_l; auto].
    - apply Forall_cons_iff in Hb as [[Lb Nb] Hb].
      assert (L1 : length (mgs_step v b0) = n) by (apply mgs_step_length; auto).
      destruct (IH (mgs_step v b0) Hb L1) as (s1 & Hs1 & E1).
      exists (vadd (vscale (hdot v b0 / nrm2 b0) b0) s1). split.
      + apply span_add; simpl; auto. eapply span_mono; [| exact Hs1]. simpl; auto.
      + rewrite vadd_assoc, <- E1. unfold mgs_step. rewrite vadd_comm.
        symmetry. apply vadd_vsub_cancel. rewrite vscale_length; lia.
  Qed.

  (* per column of the reconstruction loop: pn rhs = (something in the span of the stored b's) + rhs_loc *)
  Definition in_span_plus (n : nat) m (bs : list (vec F)) rhs rl : Prop :=
    length rl = n /\ exists s, span n bs s /\ pn m rhs = vadd s rl.

  Lemma gs_step_span n A m dt db p RHS RL SOL : Forall (pair_ok n A m) db -> In p db ->
    Forall2 (in_span_plus n m (map p_b db)) RHS RL ->
    Forall2 (in_span_plus n m (map p_b db)) RHS (fst (gs_step dt (RL, SOL) p)).
  Proof.
    intros Hdb Hin H2. unfold gs_step.
    destruct (p_tag p && negb dt && negb (castable _)); simpl; auto.
    destruct (p_tag p && negb dt && negb (castable _)); simpl; auto.
    rewrite map_map, map2_map_r, map2_diag. apply Forall2_map_r.
    assert (Hp : pair_ok n A m p) by (rewrite Forall_forall in Hdb; auto).
    destruct Hp as (_ & Lb & _).
    eapply Forall2_impl; [| exact H2]. intros rhs rl (Lrl & s & Hs & E). split.
    - rewrite vsub_length; rewrite ?vscale_length; lia.
    - exists (vadd (vscale (hdot rl (p_b p) / nrm2 (p_b p)) (p_b p)) s). split.
      + apply span_add; auto. apply in_map; auto.
      + rewrite E. rewrite (vadd_comm _ s), vadd_assoc. f_equal.
        rewrite vadd_comm. symmetry. apply vadd_vsub_cancel. rewrite vscale_length; lia.
  Qed.

  Lemma gs_loop_span n A m dt db RHS : Forall (pair_ok n A m) db -> forall db0 RL SOL,
    (forall p, In p db0 -> In p db) ->
    Forall2 (in_span_plus n m (map p_b db)) RHS RL ->
    Forall2 (in_span_plus n m (map p_b db)) RHS (fst (fold_left (gs_step dt) db0 (RL, SOL))).
  Proof.
    intros Hdb. induction db0 as [|p db0 IH]; intros RL SOL Hsub H2; simpl; auto.
    pose proof (gs_step_span n A m dt db p RHS RL SOL Hdb (Hsub p (or_introl eq_refl)) H2) as H2'.
    destruct (gs_step dt (RL, SOL) p) as [RL' SOL']. apply IH; auto. intros q Hq. apply Hsub. simpl; auto.
  Qed.

  Lemma in_span_plus_init n m bs RHS : length m = n -> Forall (fun r => length r = n) RHS ->
    Forall2 (in_span_plus n m bs) RHS (map (pn m) RHS).
  Proof.
    intros Hm. induction 1 as [|rhs RHS Hr HR IH]; simpl; constructor; auto.
    split. - rewrite pn_length; lia.
    - exists (vzero n). split; [apply span_zero |]. rewrite vadd_zero_l; auto. rewrite pn_length; lia.
  Qed.

  Lemma add_db_span n A m dt db xn r : wfm n A -> Decoupled n A m -> db_inv n A m db ->
    length xn = n -> mv A xn = r -> pn m r = r ->
    span n (map p_b (add_db A m dt db xn)) r /\
    (forall v, In v (map p_b db) -> In v (map p_b (add_db A m dt db xn))).
  Proof.
    intros W Dc [Hdb Ho] Hx EA Hr. pose proof W as [HlA _]. pose proof Dc as [Hlm _]. unfold add_db.
    assert (Hst : xb_ok n A m (pn m xn, pn m (mv A xn))).
    { repeat split; simpl.
      - rewrite pn_length; lia.
      - rewrite pn_length; rewrite mv_length; lia.
      - apply (mv_pn_comm n); auto.
      - apply pn_idem. }
    destruct (orth_loop_ok n A m W db _ Hdb Hst) as [(H1 & H2 & H3 & H4) E].
    destruct (fold_left orth_step db (pn m xn, pn m (mv A xn))) as [xa ba]. simpl in *.
    rewrite EA, Hr in E.
    assert (Lr : length r = n) by (rewrite <- EA, mv_length; lia).
    destruct (mgs_decomp n (map p_b db) r (pair_ok_nzlen n A m db Hdb) Lr) as (s & Hs & Er). rewrite <- E in Er.
    destruct (fis0 (nrm2 ba)) eqn:Ez.
    - split; auto. apply is0_spec, nrm2_definite, all_zero_vzero in Ez.
      assert (Ls : length s = n)
        by (eapply span_length; [apply nzlen_len, (pair_ok_nzlen n A m); exact Hdb | exact Hs]).
      rewrite Er, Ez, H2, vadd_zero_r by auto. exact Hs.
    - rewrite map_app. simpl. split.
      + rewrite Er, vadd_comm.
        replace (vadd ba s) with (vadd (vscale f1 ba) s) by (rewrite vscale_1; reflexivity). apply span_add.
        * apply in_or_app; simpl; auto.
        * eapply span_mono; [| exact Hs]. intros v Hv. apply in_or_app; auto.
      + intros v Hv. apply in_or_app; auto.
  Qed.

  Lemma add_db_loop_span n A m dt : wfm n A -> Decoupled n A m -> forall R XN db, db_inv n A m db ->
    Forall2 (fun r x => length x = n /\ mv A x = r) R XN -> Forall (fun r => pn m r = r) R ->
    Forall (fun r => span n (map p_b (fold_left (add_db A m dt) XN db)) r) R /\
    (forall v, In v (map p_b db) -> In v (map p_b (fold_left (add_db A m dt) XN db))).
  Proof.
    intros W Dc. induction R as [|r R IH]; intros XN db Hdb H2 Hp.
    - inversion H2; subst. simpl. split; auto.
    - destruct (Forall2_cons_inv_l _ _ _ _ H2) as (xn & XN' & -> & [Lx Ex] & H2').
      apply Forall_cons_iff in Hp as [Hpr Hp]. simpl.
      destruct (add_db_span n A m dt db xn r W Dc Hdb Lx Ex Hpr) as [Hs Hi].
      destruct (IH XN' (add_db A m dt db xn) (add_db_inv n A m dt db xn W Dc Hdb Lx) H2' Hp) as [Hs' Hi'].
      split; auto. constructor; auto. eapply span_mono; [| exact Hs]. auto.
  Qed.

  Lemma cols_span n A m bs bsf : wfm n A -> forall RHS RL SOL,
    Forall3 (col_ok n A m) RHS RL SOL -> Forall2 (in_span_plus n m bs) RHS RL ->
    Forall (fun z => length z = n) bsf -> (forall v, In v bs -> In v bsf) ->
    Forall (fun r => span n bsf r) (pick (did_of A SOL RHS) RL) ->
    Forall (fun rhs => span n bsf (pn m rhs)) RHS.
  Proof.
    intros W. induction 1 as [|rhs rl sol RHS RL SOL Hc H3 IH]; intros H2 Hl Hi Hp.
    - constructor.
    - destruct (Forall2_cons_inv_l _ _ _ _ H2) as (rl' & RL' & Erl & (Lrl & s & Hs & E) & H2').
      injection Erl as <- <-. unfold did_of in *. simpl in Hp.
      destruct (negb (fis0 (nrm2 (vsub (mv A sol) rhs)))) eqn:Ed.
      + apply Forall_cons_iff in Hp as [Hr Hp]. constructor; auto.
        rewrite E. apply span_vadd; auto. eapply span_mono; eauto.
      + constructor; auto.
        pose proof (residual_zero n A m rhs rl sol W Hc Ed) as EA.
        destruct Hc as (H1 & H2c & H3c & H4 & H5). rewrite EA in H4.
        apply vadd_cancel_zero in H4; [| lia]. rewrite E, H4, Lrl, vadd_zero_r.
        * eapply span_mono; eauto.
        * eapply span_length; [| exact Hs]. clear - Hl Hi. apply Forall_forall. intros z Hz.
          rewrite Forall_forall in Hl. auto.
  Qed.


  Lemma pick_pn n A m RHS RL SOL : Forall3 (col_ok n A m) RHS RL SOL -> forall did,
    Forall (fun r => pn m r = r) (pick did RL).
  Proof.
    induction 1 as [|rhs rl sol RHS RL SOL Hc H3 IH]; intros [|[|] did]; simpl; auto.
    constructor; auto. destruct Hc as (_ & _ & _ & _ & H5); auto.
  Qed.
  Lemma pick_all_false {X} (did : list bool) (l : list X) : existsb (fun c : bool => c) did = false -> pick did l = [].
  Proof.
    revert l; induction did as [|d did IH]; intros l E; simpl in *; auto.
    apply orb_false_iff in E as [-> E]. destruct l; auto.
  Qed.

  (* after the call every right-hand side of the block lies (on the non-diagonal dofs) in the span of the stored
     right-hand sides, and nothing is removed from the database *)
  Theorem do_solve_spans n A cplxA m db adj solve_fn crhs isvec RHS X0 :
    wfm n A -> Decoupled n A m -> db_inv n A m db -> solve_fn_ok n A solve_fn ->
    Forall (fun r => length r = n) RHS ->
    Forall (fun rhs => span n (map p_b (snd (fst (do_solve A cplxA m db adj solve_fn crhs isvec RHS X0)))) (pn m rhs)) RHS /\
    (forall v, In v (map p_b db) -> In v (map p_b (snd (fst (do_solve A cplxA m db adj solve_fn crhs isvec RHS X0))))).
  Proof.
    intros W Dc Hdb Hfn HR. pose proof Dc as [Hlm _]. unfold do_solve.
    pose proof (gs_loop_ok n A m (cplxA || crhs) RHS W Dc db _ _ (proj1 Hdb) (F3_init n A m RHS W Dc HR)) as H3.
    pose proof (gs_loop_span n A m (cplxA || crhs) db RHS (proj1 Hdb) db (map (pn m) RHS)
                  (map (fun r => diag_div m r (diag A)) RHS) (fun p H => H)
                  (in_span_plus_init n m (map p_b db) RHS Hlm HR)) as H2.
    destruct (fold_left (gs_step (cplxA || crhs)) db
               (map (pn m) RHS, map (fun r => diag_div m r (diag A)) RHS)) as [RL SOL]. simpl in H3, H2.
    fold (did_of A SOL RHS).
    destruct (existsb (fun b0 : bool => b0) (did_of A SOL RHS)) eqn:Ee; simpl.
    - pose proof (pick_lengths n A m RHS RL SOL H3 (did_of A SOL RHS)) as Hpl.
      pose proof (Hfn (pick (did_of A SOL RHS) RL)
                      (match X0 with None => None | Some X => Some (x0_loc m db (did_of A SOL RHS) isvec X) end) Hpl) as HX.
      set (XN := solve_fn (pick (did_of A SOL RHS) RL)
                   (match X0 with None => None | Some X => Some (x0_loc m db (did_of A SOL RHS) isvec X) end)) in *.
      destruct (add_db_loop_span n A m (cplxA || crhs) W Dc _ XN db Hdb HX (pick_pn n A m RHS RL SOL H3 _)) as [Hs Hi].
      split; auto.
      apply (cols_span n A m (map p_b db) _ W RHS RL SOL H3 H2); auto.
      apply nzlen_len, (pair_ok_nzlen n A m). apply add_db_loop_inv; auto.
      clear - HX. induction HX as [|r0 x R X [Hl _] HX IH]; constructor; auto.
    - split; auto.
      apply (cols_span n A m (map p_b db) _ W RHS RL SOL H3 H2); auto.
      + apply nzlen_len, (pair_ok_nzlen n A m), Hdb.
      + rewrite pick_all_false; auto.
  Qed.


  (* with an empty database (the state right after update()) nothing can be reused: a right-hand side whose
     non-diagonal part is non-zero reaches the inner solver *)
  Theorem empty_db_calls_inner n A cplxA m adj solve_fn crhs isvec rhs X0 :
    wfm n A -> Decoupled n A m -> length rhs = n -> pn m rhs <> vzero n ->
    snd (do_solve A cplxA m [] adj solve_fn crhs isvec [rhs] X0) <> None.
  Proof.
    intros W Dc Hr Hnz. unfold do_solve. cbn [fold_left map map2 existsb].
    pose proof (col_ok_init n A m rhs W Dc Hr) as Hc.
    destruct (negb (fis0 (nrm2 (vsub (mv A (diag_div m rhs (diag A))) rhs)))) eqn:Ed; cbn [orb].
    - discriminate.
    - exfalso. apply Hnz.
      pose proof (residual_zero n A m rhs _ _ W Hc Ed) as EA.
      destruct Hc as (H1 & H2 & H3 & H4 & H5). rewrite EA in H4.
      apply vadd_cancel_zero in H4; [| lia]. rewrite H4, H2. reflexivity.
  Qed.

  (* ================================================================ the omitted normalisation *)
  Lemma conj_nonzero (s : F) : s <> 0 -> fconj s <> 0.
  Proof. intros Hs E. apply Hs. rewrite <- (conj_invol s), E. apply conj_0. Qed.
  Lemma hdot_vscale_r (s : F) v b : hdot v (vscale s b) = fconj s * hdot v b.
  Proof.
    unfold hdot, vconj, vscale. rewrite map_map.
    assert (E : map (fun z => fconj (s * z)) b = vscale (fconj s) (map fconj b)).
    { unfold vscale. rewrite map_map. apply map_ext. intros z. apply conj_mul. }
    rewrite E. apply vdot_vscale_r.
  Qed.
  (* the code stores (x/|b|, b/|b|); every use of a stored pair is through one of the three expressions below,
     which do not change when x and b are scaled by the same non-zero factor s *)
  Theorem lda_normalisation_irrelevant (s : F) v x b : s <> 0 -> nrm2 b <> 0 ->
    vscale (hdot v (vscale s b) / nrm2 (vscale s b)) (vscale s b) = vscale (hdot v b / nrm2 b) b /\
    vscale (hdot v (vscale s b) / nrm2 (vscale s b)) (vscale s x) = vscale (hdot v b / nrm2 b) x /\
    (vscale (hdot v (vscale s x) / nrm2 (vscale s x)) (vscale s x) =
      vscale (hdot v x / nrm2 x) x \/ nrm2 x = 0).
  Proof.
    intros Hs Hb. pose proof (conj_nonzero s Hs) as Hcs.
    assert (Hc : forall w, nrm2 w <> 0 -> forall u, (hdot u (vscale s w) / nrm2 (vscale s w)) * s = hdot u w / nrm2 w).
    { intros w Hw u. rewrite !nrm2_hdot, !hdot_vscale_r, hdot_vscale_l. rewrite nrm2_hdot in Hw. field. auto. }
    split; [| split].
    - rewrite vscale_vscale, Hc; auto.
    - rewrite vscale_vscale, Hc; auto.
    - destruct (fis0 (nrm2 x)) eqn:E.
      + right. apply is0_spec; auto.
      + left. apply is0_false in E. rewrite vscale_vscale, Hc; auto.
  Qed.

  (* the 2x2 swap matrix (used by the non-vacuity example) *)
  Lemma swap_mv (a c : F) : mv [[f0; f1]; [f1; f0]] [a; c] = [c; a].
  Proof. unfold mv. simpl. f_equal; [ring | f_equal; ring]. Qed.

  Variable inner : mat F -> bool -> list (vec F) -> option (list (vec F)) -> list (vec F).

  (* ================================================================ update / solve on the state *)
  Definition inner_ok (n : nat) A : Prop :=
    forall adj : bool, solve_fn_ok n (if adj then mH A else A) (inner A adj).

  Definition state_inv (st : @state F) : Prop :=
    match s_A st with
    | None => True
    | Some (c, A) =>
        exists n sym herm,
          wfm n A /\ s_sym st = Some sym /\ s_herm st = Some herm /\ truthful sym herm A /\
          Decoupled n A (s_mask st) /\ inner_ok n A /\
          db_inv n A (s_mask st) (s_dbN st) /\ db_inv n (mH A) (s_mask st) (s_dbH st)
    end.

  Lemma db_inv_nil n A m : db_inv n A m [].
  Proof. split; simpl; auto. Qed.

  Lemma init_state_inv sym herm : state_inv (init_state sym herm).
  Proof. exact Logic.I. Qed.

  (* update(): both databases are emptied *)
  Theorem update_clears st c A : s_dbN (update st c A) = [] /\ s_dbH (update st c A) = [].
  Proof. split; reflexivity. Qed.

  Theorem update_inv st c A :
    wfm (length A) A -> inner_ok (length A) A -> (c = false -> mconj A = A) ->
    (s_sym st = Some true -> mtrans A = A) -> (s_herm st = Some true -> mH A = A) ->
    state_inv (update st c A).
  Proof.
    intros W Hin Hreal Hs Hh. unfold state_inv, update. cbn [s_A s_sym s_herm s_mask s_dbN s_dbH].
    exists (length A), (match s_sym st with Some s => s | None => is_symmetric A end),
           (match s_herm st with Some h => h | None => is_hermitian c A end).
    split; [exact W |]. split; [reflexivity |]. split; [reflexivity |]. split.
    { split.
      - intros E. destruct (s_sym st) as [s|]; [subst; auto |].
        unfold is_symmetric in E. apply mat_eqb_spec in E. auto.
      - intros E. destruct (s_herm st) as [h|]; [subst; auto |].
        unfold is_hermitian in E. destruct c.
        + apply mat_eqb_spec in E. unfold mH. rewrite <- mconj_mtrans. auto.
        + unfold is_symmetric in E. apply mat_eqb_spec in E. unfold mH. rewrite Hreal; auto. }
    split; [apply diag_detect_sound; auto |]. split; [exact Hin |]. split; apply db_inv_nil.
  Qed.

  (* the returned vectors solve the requested system exactly; the invariant is preserved *)
  Theorem solve_correct st c A crhs isvec RHS X0 t :
    state_inv st -> s_A st = Some (c, A) -> trans_valid t = true ->
    Forall (fun r => length r = length A) RHS ->
    exists res, snd (solve inner st crhs isvec RHS X0 t) = inr res /\
                Forall2 (fun b x => mv (op_mat t A) x = b) RHS (r_x res) /\
                state_inv (fst (solve inner st crhs isvec RHS X0 t)).
  Proof.
    intros Hinv EA Ht HR. unfold state_inv in Hinv. rewrite EA in Hinv.
    destruct Hinv as (n & sym & herm & W & Es & Eh & Htr & Dc & Hin & HdN & HdH).
    assert (En : length A = n) by apply W. rewrite En in HR.
    unfold solve. rewrite Ht, EA, Es, Eh. cbn [negb].
    set (cm := conj_mode sym herm t). set (am := adjoint_mode sym herm t).
    set (RHS' := if cm then map vconj RHS else RHS).
    assert (HR' : Forall (fun r => length r = n) RHS').
    { unfold RHS'. destruct cm; auto. apply Forall_forall. intros r Hr. apply in_map_iff in Hr as [r0 [<- Hr0]].
      rewrite vconj_length. rewrite Forall_forall in HR. auto. }
    assert (Hfinal : forall X, Forall2 (fun rhs x => length x = n /\ mv (if am then mH A else A) x = rhs) RHS' X ->
                     Forall2 (fun b x => mv (op_mat t A) x = b) RHS (if cm then map vconj X else X)).
    { intros X HX. pose proof (fun y b => mode_table sym herm t A y b Ht Htr) as MT. fold cm am in MT.
      unfold RHS' in HX. destruct cm.
      - apply Forall2_map_r. apply Forall2_map_l in HX. eapply Forall2_impl; [| exact HX].
        intros b x [_ E]. apply MT. exact E.
      - eapply Forall2_impl; [| exact HX]. intros b x [_ E]. apply MT. exact E. }
    destruct am eqn:Eam.
    - pose proof (do_solve_correct n (mH A) c (s_mask st) (s_dbH st) true (inner A true) crhs isvec RHS' X0
                    (wfm_mH n A W) (Decoupled_mH n A _ W Dc) HdH (Hin true) HR') as [HX Hdb].
      destruct (do_solve (mH A) c (s_mask st) (s_dbH st) true (inner A true) crhs isvec RHS' X0) as [[X db'] cl].
      cbn [fst snd] in *. eexists. split; [reflexivity | split].
      + cbn [r_x]. apply Hfinal; auto.
      + unfold state_inv. cbn [s_A s_sym s_herm s_mask s_dbN s_dbH].
        exists n, sym, herm. split; [exact W |]. split; [reflexivity |]. split; [reflexivity |]. split; [exact Htr |].
        split; [exact Dc |]. split; [exact Hin |]. split; assumption.
    - pose proof (do_solve_correct n A c (s_mask st) (s_dbN st) false (inner A false) crhs isvec RHS' X0
                    W Dc HdN (Hin false) HR') as [HX Hdb].
      destruct (do_solve A c (s_mask st) (s_dbN st) false (inner A false) crhs isvec RHS' X0) as [[X db'] cl].
      cbn [fst snd] in *. eexists. split; [reflexivity | split].
      + cbn [r_x]. apply Hfinal; auto.
      + unfold state_inv. cbn [s_A s_sym s_herm s_mask s_dbN s_dbH].
        exists n, sym, herm. split; [exact W |]. split; [reflexivity |]. split; [reflexivity |]. split; [exact Htr |].
        split; [exact Dc |]. split; [exact Hin |]. split; assumption.
  Qed.

  (* ================================================================ histories *)
  Definition op_ok (st : @state F) (o : @op F) : Prop :=
    match o with
    | Update c A => wfm (length A) A /\ inner_ok (length A) A /\ (c = false -> mconj A = A) /\
                    (s_sym st = Some true -> mtrans A = A) /\ (s_herm st = Some true -> mH A = A)
    | Solve crhs isvec RHS X0 t =>
        trans_valid t = true /\
        match s_A st with Some (_, A) => Forall (fun r => length r = length A) RHS | None => False end
    end.
  Fixpoint hist_ok (st : @state F) (ops : list (@op F)) : Prop :=
    match ops with
    | [] => True
    | o :: ops' => op_ok st o /\ hist_ok (fst (step inner st o)) ops'
    end.
  Definition answer_ok (st : @state F) (o : @op F) : Prop :=
    match o with
    | Update _ _ => True
    | Solve crhs isvec RHS X0 t =>
        match s_A st with
        | Some (_, A) => exists res, snd (solve inner st crhs isvec RHS X0 t) = inr res /\
                                     Forall2 (fun b x => mv (op_mat t A) x = b) RHS (r_x res)
        | None => False
        end
    end.
  Fixpoint answers_ok (st : @state F) (ops : list (@op F)) : Prop :=
    match ops with
    | [] => True
    | o :: ops' => answer_ok st o /\ answers_ok (fst (step inner st o)) ops'
    end.

  Lemma step_solve_fst st crhs isvec RHS X0 t :
    fst (step inner st (Solve crhs isvec RHS X0 t)) = fst (solve inner st crhs isvec RHS X0 t).
  Proof. unfold step. destruct (solve inner st crhs isvec RHS X0 t); reflexivity. Qed.

  Lemma step_inv st o : state_inv st -> op_ok st o -> state_inv (fst (step inner st o)) /\ answer_ok st o.
  Proof.
    intros Hinv Hok. destruct o as [c A | crhs isvec RHS X0 t].
    - destruct Hok as (W & Hin & Hreal & Hs & Hh). split; [| exact Logic.I].
      cbn [step fst]. apply update_inv; auto.
    - destruct Hok as [Ht HR]. rewrite step_solve_fst. unfold answer_ok.
      destruct (s_A st) as [[c A]|] eqn:EA; [| contradiction].
      destruct (solve_correct st c A crhs isvec RHS X0 t Hinv EA Ht HR) as (res & E1 & E2 & E3).
      split; eauto.
  Qed.

  (* every answer in every history is exact *)
  Theorem history_correct : forall ops st, state_inv st -> hist_ok st ops -> answers_ok st ops.
  Proof.
    induction ops as [|o ops IH]; intros st Hinv Hh; simpl; auto.
    destruct Hh as [Hok Hh]. destruct (step_inv st o Hinv Hok) as [Hinv' Ha]. split; auto.
  Qed.
  Theorem history_invariant : forall ops st, state_inv st -> hist_ok st ops -> state_inv (final inner st ops).
  Proof.
    induction ops as [|o ops IH]; intros st Hinv Hh; simpl; auto.
    destruct Hh as [Hok Hh]. destruct (step_inv st o Hinv Hok) as [Hinv' Ha]. apply IH; auto.
  Qed.

  (* ================================================================ reuse on the state *)
  Definition sel_db (st : @state F) (sym herm : bool) (t : Z) : list pair :=
    if adjoint_mode sym herm t then s_dbH st else s_dbN st.

  Theorem solve_reuse st c A sym herm crhs isvec RHS X0 t :
    state_inv st -> s_A st = Some (c, A) -> s_sym st = Some sym -> s_herm st = Some herm ->
    trans_valid t = true -> Forall (fun r => length r = length A) RHS ->
    (c || crhs = true \/ Forall (fun p => p_tag p = false) (sel_db st sym herm t)) ->
    Forall (fun rhs => span (length A) (map p_b (sel_db st sym herm t))
                            (pn (s_mask st) (if conj_mode sym herm t then vconj rhs else rhs))) RHS ->
    exists res, snd (solve inner st crhs isvec RHS X0 t) = inr res /\ r_call res = None /\
                fst (solve inner st crhs isvec RHS X0 t) = st.
  Proof.
    intros Hinv EA Es Eh Ht HR Hnar Hsp. unfold state_inv in Hinv. rewrite EA in Hinv.
    destruct Hinv as (n & sym' & herm' & W & Es' & Eh' & Htr & Dc & Hin & HdN & HdH).
    rewrite Es in Es'. rewrite Eh in Eh'. injection Es' as <-. injection Eh' as <-.
    assert (En : length A = n) by apply W. rewrite En in *.
    unfold solve. rewrite Ht, EA, Es, Eh. cbn [negb]. unfold sel_db in *.
    set (cm := conj_mode sym herm t) in *. set (am := adjoint_mode sym herm t) in *.
    set (RHS' := if cm then map vconj RHS else RHS).
    assert (HR' : Forall (fun r => length r = n) RHS').
    { unfold RHS'. destruct cm; auto. apply Forall_forall. intros r0 Hr. apply in_map_iff in Hr as [r1 [<- Hr0]].
      rewrite vconj_length. rewrite Forall_forall in HR. auto. }
    assert (Hsp' : forall db, Forall (fun rhs => span n (map p_b db) (pn (s_mask st) (if cm then vconj rhs else rhs))) RHS ->
                   Forall (fun rhs => span n (map p_b db) (pn (s_mask st) rhs)) RHS').
    { intros db H. unfold RHS'. destruct cm; auto. apply Forall_forall. intros r0 Hr.
      apply in_map_iff in Hr as [r1 [<- Hr0]]. rewrite Forall_forall in H. auto. }
    destruct am eqn:Eam.
    - destruct (do_solve_reuse n (mH A) c (s_mask st) (s_dbH st) true (inner A true) crhs isvec RHS' X0
                  (wfm_mH n A W) (Decoupled_mH n A _ W Dc) HdH HR' Hnar (Hsp' _ Hsp)) as [E1 E2].
      destruct (do_solve (mH A) c (s_mask st) (s_dbH st) true (inner A true) crhs isvec RHS' X0) as [[X db'] cl].
      cbn [fst snd] in *. subst cl db'. eexists. split; [reflexivity | split; [reflexivity |]].
      destruct st as [a1 a2 a3 a4 a5 a6]; cbn [s_A s_sym s_herm s_mask s_dbN s_dbH] in *; subst a1 a2 a3; reflexivity.
    - destruct (do_solve_reuse n A c (s_mask st) (s_dbN st) false (inner A false) crhs isvec RHS' X0
                  W Dc HdN HR' Hnar (Hsp' _ Hsp)) as [E1 E2].
      destruct (do_solve A c (s_mask st) (s_dbN st) false (inner A false) crhs isvec RHS' X0) as [[X db'] cl].
      cbn [fst snd] in *. subst cl db'. eexists. split; [reflexivity | split; [reflexivity |]].
      destruct st as [a1 a2 a3 a4 a5 a6]; cbn [s_A s_sym s_herm s_mask s_dbN s_dbH] in *; subst a1 a2 a3; reflexivity.
  Qed.

  (* ================================================================ reuse along a history *)
  Definition same_frame (st st' : @state F) : Prop :=
    s_A st' = s_A st /\ s_sym st' = s_sym st /\ s_herm st' = s_herm st /\ s_mask st' = s_mask st /\
    (forall v, In v (map p_b (s_dbN st)) -> In v (map p_b (s_dbN st'))) /\
    (forall v, In v (map p_b (s_dbH st)) -> In v (map p_b (s_dbH st'))).

  Lemma same_frame_refl st : same_frame st st.
  Proof. repeat split; auto. Qed.
  Lemma same_frame_trans st1 st2 st3 : same_frame st1 st2 -> same_frame st2 st3 -> same_frame st1 st3.
  Proof.
    intros (A1 & B1 & C1 & D1 & E1 & F1) (A2 & B2 & C2 & D2 & E2 & F2).
    repeat split; try congruence; auto.
  Qed.

  Definition tr_rhs (sym herm : bool) (t : Z) (rhs : vec F) : vec F :=
    if conj_mode sym herm t then vconj rhs else rhs.

  (* a solve keeps matrix, flags and mask, only adds to the databases, and afterwards the (transformed,
     non-diagonal part of the) right-hand sides lie in the span of the selected database *)
  Lemma solve_frame st c A sym herm crhs isvec RHS X0 t :
    state_inv st -> s_A st = Some (c, A) -> s_sym st = Some sym -> s_herm st = Some herm ->
    trans_valid t = true -> Forall (fun r => length r = length A) RHS ->
    same_frame st (fst (solve inner st crhs isvec RHS X0 t)) /\
    Forall (fun rhs => span (length A) (map p_b (sel_db (fst (solve inner st crhs isvec RHS X0 t)) sym herm t))
                            (pn (s_mask st) (tr_rhs sym herm t rhs))) RHS.
  Proof.
    intros Hinv EA Es Eh Ht HR. unfold state_inv in Hinv. rewrite EA in Hinv.
    destruct Hinv as (n & sym' & herm' & W & Es' & Eh' & Htr & Dc & Hin & HdN & HdH).
    rewrite Es in Es'. rewrite Eh in Eh'. injection Es' as <-. injection Eh' as <-.
    assert (En : length A = n) by apply W. rewrite En in *.
    unfold solve. rewrite Ht, EA, Es, Eh. cbn [negb]. unfold sel_db, tr_rhs.
    set (cm := conj_mode sym herm t) in *. set (am := adjoint_mode sym herm t) in *.
    set (RHS' := if cm then map vconj RHS else RHS).
    assert (HR' : Forall (fun r => length r = n) RHS').
    { unfold RHS'. destruct cm; auto. apply Forall_forall. intros r0 Hr. apply in_map_iff in Hr as [r1 [<- Hr0]].
      rewrite vconj_length. rewrite Forall_forall in HR. auto. }
    assert (Hback : forall bs, Forall (fun rhs => span n bs (pn (s_mask st) rhs)) RHS' ->
                    Forall (fun rhs => span n bs (pn (s_mask st) (if cm then vconj rhs else rhs))) RHS).
    { intros bs H. unfold RHS' in H. destruct cm; auto. rewrite Forall_forall in *. intros r0 Hr.
      apply H. apply in_map; auto. }
    destruct am eqn:Eam.
    - destruct (do_solve_spans n (mH A) c (s_mask st) (s_dbH st) true (inner A true) crhs isvec RHS' X0
                  (wfm_mH n A W) (Decoupled_mH n A _ W Dc) HdH (Hin true) HR') as [Hs Hi].
      destruct (do_solve (mH A) c (s_mask st) (s_dbH st) true (inner A true) crhs isvec RHS' X0) as [[X db'] cl].
      cbn [fst snd s_A s_sym s_herm s_mask s_dbN s_dbH] in *. split.
      + repeat split; auto.
      + apply Hback; auto.
    - destruct (do_solve_spans n A c (s_mask st) (s_dbN st) false (inner A false) crhs isvec RHS' X0
                  W Dc HdN (Hin false) HR') as [Hs Hi].
      destruct (do_solve A c (s_mask st) (s_dbN st) false (inner A false) crhs isvec RHS' X0) as [[X db'] cl].
      cbn [fst snd s_A s_sym s_herm s_mask s_dbN s_dbH] in *. split.
      + repeat split; auto.
      + apply Hback; auto.
  Qed.

  Fixpoint solves_only (ops : list (@op F)) : Prop :=
    match ops with
    | [] => True
    | Update _ _ :: _ => False
    | Solve _ _ _ _ _ :: ops' => solves_only ops'
    end.

  Lemma final_frame : forall ops st, state_inv st -> s_A st <> None -> solves_only ops -> hist_ok st ops ->
    same_frame st (final inner st ops) /\ state_inv (final inner st ops).
  Proof.
    induction ops as [|o ops IH]; intros st Hinv HA Hso Hh.
    - simpl. split; auto using same_frame_refl.
    - destruct o as [c0 A0 | crhs isvec RHS X0 t]; [contradiction |].
      cbn [final]. destruct Hh as [[Ht HR] Hh]. rewrite step_solve_fst in *.
      destruct (s_A st) as [[c A]|] eqn:EA; [| congruence].
      pose proof Hinv as Hinv0. unfold state_inv in Hinv0. rewrite EA in Hinv0.
      destruct Hinv0 as (n & sym & herm & _ & Es & Eh & _).
      destruct (solve_correct st c A crhs isvec RHS X0 t Hinv EA Ht HR) as (res & _ & _ & Hinv').
      destruct (solve_frame st c A sym herm crhs isvec RHS X0 t Hinv EA Es Eh Ht HR) as [Hf _].
      destruct (IH _ Hinv') as [Hf' Hi']; auto.
      + destruct Hf as (EA' & _). rewrite EA', EA. discriminate.
      + split; auto. eapply same_frame_trans; eauto.
  Qed.

  (* a right-hand side in the span of right-hand sides solved EARLIER IN THE HISTORY for the current matrix through
     the same storage (no update() in between) is answered without calling the inner solver *)
  Theorem history_reuse st c A sym herm crhs1 isvec1 RHS1 X01 t1 ops crhs2 isvec2 RHS2 X02 t2 :
    state_inv st -> s_A st = Some (c, A) -> s_sym st = Some sym -> s_herm st = Some herm ->
    trans_valid t1 = true -> Forall (fun r => length r = length A) RHS1 ->
    solves_only ops -> hist_ok (fst (solve inner st crhs1 isvec1 RHS1 X01 t1)) ops ->
    trans_valid t2 = true -> Forall (fun r => length r = length A) RHS2 ->
    adjoint_mode sym herm t2 = adjoint_mode sym herm t1 ->
    (c || crhs2 = true \/
     Forall (fun p => p_tag p = false)
            (sel_db (final inner (fst (solve inner st crhs1 isvec1 RHS1 X01 t1)) ops) sym herm t2)) ->
    Forall (fun rhs2 => span (length A) (map (fun r1 => pn (s_mask st) (tr_rhs sym herm t1 r1)) RHS1)
                             (pn (s_mask st) (tr_rhs sym herm t2 rhs2))) RHS2 ->
    exists res, snd (solve inner (final inner (fst (solve inner st crhs1 isvec1 RHS1 X01 t1)) ops)
                           crhs2 isvec2 RHS2 X02 t2) = inr res /\ r_call res = None.
  Proof.
    intros Hinv EA Es Eh Ht1 HR1 Hso Hh Ht2 HR2 Eam Hnar Hsp.
    destruct (solve_correct st c A crhs1 isvec1 RHS1 X01 t1 Hinv EA Ht1 HR1) as (res1 & _ & _ & Hinv1).
    destruct (solve_frame st c A sym herm crhs1 isvec1 RHS1 X01 t1 Hinv EA Es Eh Ht1 HR1) as [Hf1 Hs1].
    set (st1 := fst (solve inner st crhs1 isvec1 RHS1 X01 t1)) in *.
    assert (HA1 : s_A st1 <> None) by (destruct Hf1 as (E & _); rewrite E, EA; discriminate).
    destruct (final_frame ops st1 Hinv1 HA1 Hso Hh) as [Hf2 Hinv2].
    set (st2 := final inner st1 ops) in *.
    pose proof (same_frame_trans _ _ _ Hf1 Hf2) as (EA2 & Es2 & Eh2 & Em2 & _ & _).
    rewrite EA in EA2. rewrite Es in Es2. rewrite Eh in Eh2.
    (* the selected database of st2 contains the one of st1 *)
    assert (Hincl : forall v, In v (map p_b (sel_db st1 sym herm t1)) -> In v (map p_b (sel_db st2 sym herm t2))).
    { unfold sel_db. rewrite Eam. destruct Hf2 as (_ & _ & _ & _ & HN & HH).
      destruct (adjoint_mode sym herm t1); auto. }
    assert (Hlen : Forall (fun z => length z = length A) (map p_b (sel_db st2 sym herm t2))).
    { pose proof Hinv2 as H. unfold state_inv in H. rewrite EA2 in H.
      destruct H as (n & sym' & herm' & W & _ & _ & _ & _ & _ & HdN & HdH).
      assert (En : length A = n) by apply W. rewrite En. unfold sel_db.
      destruct (adjoint_mode sym herm t2); [apply nzlen_len, (pair_ok_nzlen n (mH A) (s_mask st2)), HdH
                                           | apply nzlen_len, (pair_ok_nzlen n A (s_mask st2)), HdN]. }
    destruct (solve_reuse st2 c A sym herm crhs2 isvec2 RHS2 X02 t2 Hinv2 EA2 Es2 Eh2 Ht2 HR2 Hnar) as (res & E1 & E2 & _).
    - rewrite Em2. eapply Forall_impl; [| exact Hsp]. intros rhs2 H. fold (tr_rhs sym herm t2 rhs2).
      eapply span_trans; [exact Hlen | | exact H].
      intros v Hv. apply in_map_iff in Hv as [r1 [<- Hr1]].
      rewrite Forall_forall in Hs1. eapply span_mono; [exact Hincl |]. apply Hs1; auto.
    - eauto.
  Qed.

End LdaProofs.

(* ==================================================================== concrete instances over Qc[i] *)
From Coq Require Import QArith Qcanon.
From Pymoto Require Import Base.QI Base.QIP.
Close Scope Qc_scope.
Close Scope Q_scope.
Open Scope nat_scope.
Section Concrete.
  (* --- exhaustive structure check: on ALL 0/1 matrices of size n <= 3 (2 + 16 + 512) the detected mask is
     exactly the set of dofs with non-zero diagonal whose row and column vanish off the diagonal *)
  Definition dec_spec (A : mat C) (n i : nat) : bool :=
    negb (Cis0 (entry A i i)) &&
    forallb (fun j => (j =? i)%nat || (Cis0 (entry A i j) && Cis0 (entry A j i))) (seq 0 n).
  Fixpoint all_rows (k : nat) : list (vec C) :=
    match k with O => [[]] | S k' => flat_map (fun v => [C0 :: v; C1 :: v]) (all_rows k') end.
  Fixpoint all_mats (rows : list (vec C)) (k : nat) : list (mat C) :=
    match k with O => [[]] | S k' => flat_map (fun M => map (fun r => r :: M) rows) (all_mats rows k') end.
  Definition mats01 (n : nat) : list (mat C) := all_mats (all_rows n) n.
  Fixpoint bl_eqb (a b : list bool) : bool :=
    match a, b with [], [] => true | x :: a', y :: b' => Bool.eqb x y && bl_eqb a' b' | _, _ => false end.
  Definition detect_exact (n : nat) (A : mat C) : bool :=
    bl_eqb (get_diagonal_indices A) (map (dec_spec A n) (seq 0 n)).
  Lemma diag_detect_exact_n3 :
    forallb (fun n => forallb (detect_exact n) (mats01 n)) [1; 2; 3]%nat = true /\
    map (fun n => length (mats01 n)) [1; 2; 3]%nat = [2; 16; 512]%nat.
  Proof. split; vm_compute; reflexivity. Qed.

  (* --- an inner solver for concrete runs: exact Gauss-Jordan elimination *)
  Definition inner_gauss (A : mat C) (adj : bool) (R : list (vec C)) (X0 : option (list (vec C))) : list (vec C) :=
    match gauss_solve (if adj then mH A else A) R with Some X => X | None => [] end.

  (* --- class change: flags cached from a symmetric first matrix, then a non-symmetric matrix, trans = 'T' *)
  Definition cc_A1 : mat C := [[rz 2; rz 1]; [rz 1; rz 3]].
  Definition cc_A2 : mat C := [[rz 2; rz 1]; [rz 0; rz 3]].
  Definition cc_b : vec C := [rz 1; rz 1].
  Definition cc_answer_solves : bool :=
    match run inner_gauss (init_state None None)
              [Update false cc_A1; Update false cc_A2; Solve false true [cc_b] None 1%Z] with
    | [_; _; Some (inr res)] => match r_x res with [x] => veqb (mv (mtrans cc_A2) x) cc_b | _ => true end
    | _ => true
    end.
  Lemma class_change_wrong : is_symmetric cc_A1 = true /\ is_symmetric cc_A2 = false /\ cc_answer_solves = false.
  Proof. repeat split; vm_compute; reflexivity. Qed.

  (* --- non-vacuity: a non-trivial history that meets every hypothesis of history_correct.
     A = [[0,1],[1,0]] is its own inverse, symmetric, real, with zero diagonal (no dof is solved by division) *)
  Definition nv_A : mat C := [[C0; C1]; [C1; C0]].
  Definition inner_swap (A : mat C) (adj : bool) (R : list (vec C)) (X0 : option (list (vec C))) : list (vec C) :=
    map (fun r => mv nv_A r) R.
  Definition nv_ops : list (@op C) :=
    [Update false nv_A;
     Solve false true [[rz 1; rz 2]] None 0%Z;
     Solve false true [[rz 2; rz 4]] None 1%Z;
     Solve true false [[cz 0 1; rz 3]; [rz 1; rz 2]] (Some [[rz 1; rz 1]; [rz 1; rz 1]]) 2%Z].

  Lemma nv_swap_ok : forall adj : bool, solve_fn_ok 2 (if adj then mH nv_A else nv_A) (inner_swap nv_A adj).
  Proof.
    intros adj R X0 HR. unfold inner_swap.
    assert (E : (if adj then mH nv_A else nv_A) = nv_A).
    { destruct adj; [| reflexivity]. apply (proj1 (@mat_eqb_spec C FldC FldLawsC _ _)). vm_compute. reflexivity. }
    rewrite E. clear E. induction HR as [|r R Hr HR IH]; simpl; constructor; auto.
    destruct r as [|a [|b [|? ?]]]; simpl in Hr; try discriminate. split.
    - unfold mv. reflexivity.
    - transitivity (@mv C FldC [[f0; f1]; [f1; f0]] (@mv C FldC [[f0; f1]; [f1; f0]] [a; b])); [reflexivity |].
      rewrite (@swap_mv C FldC FldLawsC a b). apply (@swap_mv C FldC FldLawsC b a).
  Qed.

  Lemma nv_hist_ok : hist_ok inner_swap (init_state None None) nv_ops.
  Proof.
    unfold nv_ops. cbn [hist_ok]. split.
    - cbn [op_ok]. change (length nv_A) with 2. split; [| split; [| split; [| split]]].
      + split; [reflexivity | repeat constructor].
      + exact nv_swap_ok.
      + intros _. apply (proj1 (@mat_eqb_spec C FldC FldLawsC _ _)). vm_compute. reflexivity.
      + cbn. discriminate.
      + cbn. discriminate.
    - vm_compute. repeat split; repeat constructor.
  Qed.
  (* the history is non-trivial: the first solve and one column of the last block reach the inner solver, the second solve
     (2*b with trans = 'T' on a symmetric matrix) is answered from the database *)
  Definition call_pattern (rs : list (option (err + @sres C))) : list nat :=
    map (fun r => match r with
                  | Some (inr s) => match r_call s with Some c => length (c_rhs c) | None => 0 end
                  | _ => 9 end) rs.
  Lemma nv_calls : call_pattern (run inner_swap (init_state None None) nv_ops) = [9; 1; 0; 1].
  Proof. vm_compute. reflexivity. Qed.
End Concrete.
