From Coq Require Import List Bool ZArith.
From Pymoto Require Import Base.Fld Model.Lda.
Lemma stub_adjoint_N s h : adjoint_mode s h 0 = false.
Proof. reflexivity. Qed.
