(* C04 — backpropagation is linear in the seed, accumulative and leaves states untouched.
   Statements about the dispatch model (Model/Dispatch.v) for ANY module (resp, vjp), any store, any value type V
   with a commutative addition; plus linearity of index-linear modules (triple lists). *)
From Coq Require Import ZArith List.
From Pymoto Require Import Base.Num Base.SparseLin Model.Dispatch Proofs.DispatchP.
Import ListNotations.

Section Statements.
  Variable V : Type.
  Variable vplus : V -> V -> V.
  Variable vzero : V.
  Hypothesis plus_assoc : forall a b c, vplus a (vplus b c) = vplus (vplus a b) c.
  Hypothesis plus_comm : forall a b, vplus a b = vplus b a.
  Hypothesis plus_0_r : forall a, vplus a vzero = a.

  (* (c) sensitivity() and reset() change no state *)
  Theorem C04_sensitivity_keeps_states : forall (e : env V) (m : modl V) i,
    st (get (sensitivity vplus e m) i) = st (get e i).
  Proof. exact (sensitivity_keeps_states V vplus). Qed.

  Theorem C04_reset_keeps_states : forall (e : env V) (m : modl V) i, st (get (reset e m) i) = st (get e i).
  Proof. exact (reset_keeps_states V). Qed.

  Theorem C04_reset_clears : forall (e : env V) (m : modl V) i, i < length e -> In i (outs m ++ ins m) ->
    se (get (reset e m) i) = None.
  Proof. exact (reset_clears V). Qed.

  (* sensitivity() writes sensitivities of the module's inputs only *)
  Theorem C04_sensitivity_frame : forall (e : env V) (m : modl V) i, ~ In i (ins m) ->
    se (get (sensitivity vplus e m) i) = se (get e i).
  Proof. exact (sensitivity_frame V vplus). Qed.

  (* (d) response() changes no sensitivity and no state other than its outputs' *)
  Theorem C04_response_keeps_sensitivities : forall (e : env V) (m : modl V) i,
    se (get (response e m) i) = se (get e i).
  Proof. exact (response_se V). Qed.

  Theorem C04_response_frame : forall (e : env V) (m : modl V) i, ~ In i (outs m) ->
    st (get (response e m) i) = st (get e i).
  Proof. exact (response_st_other V). Qed.

  (* (b) a second sensitivity() without reset adds the same contribution again *)
  Theorem C04_accumulates : forall (e : env V) (m : modl V) i, wf_mod V e m ->
    (forall o, In o (outs m) -> ~ In o (ins m)) -> unseeded e m = false ->
    den V vzero (se (get (sensitivity vplus (sensitivity vplus e m) m) i)) =
    vplus (vplus (den V vzero (se (get e i))) (csum V vplus vzero i (contributions e m)))
          (csum V vplus vzero i (contributions e m)).
  Proof. exact (sensitivity_twice V vplus vzero plus_assoc plus_comm plus_0_r). Qed.

  (* (a) if the module's adjoint is linear in the seeds (entry-wise, None = 0), so is what sensitivity() adds *)
  Variable K : Type.
  Variable smul : K -> V -> V.
  Hypothesis smul_plus : forall a x y, smul a (vplus x y) = vplus (smul a x) (smul a y).
  Hypothesis smul_zero : forall a, smul a vzero = vzero.

  Theorem C04_seed_linear : forall a b i (idx : list nat) (c1 c2 c3 : list (option V)),
    length c1 = length c3 -> length c2 = length c3 ->
    (forall k, den V vzero (nth k c3 None) =
               vplus (smul a (den V vzero (nth k c1 None))) (smul b (den V vzero (nth k c2 None)))) ->
    csum V vplus vzero i (combine idx c3) =
    vplus (smul a (csum V vplus vzero i (combine idx c1))) (smul b (csum V vplus vzero i (combine idx c2))).
  Proof. exact (csum_linear V vplus vzero plus_assoc plus_comm plus_0_r K smul smul_plus smul_zero). Qed.
End Statements.
Print Assumptions C04_sensitivity_keeps_states.
Print Assumptions C04_reset_keeps_states.
Print Assumptions C04_reset_clears.
Print Assumptions C04_sensitivity_frame.
Print Assumptions C04_response_keeps_sensitivities.
Print Assumptions C04_response_frame.
Print Assumptions C04_accumulates.
Print Assumptions C04_seed_linear.

(* index-linear modules: the adjoint `apply (transpose T)` is linear in the seed *)
Theorem C04_F1_seed_linear : forall (K : Type) (HK : Num K),
  ring_theory (@nzero K HK) none_ nadd nmul nsub nopp (@eq K) ->
  forall (T : list (@triple K)) (n : nat) (a : K) (w1 w2 : list K), length w1 = length w2 ->
  apply (transpose T) n (vadd (vscale a w1) w2) = vadd (vscale a (apply (transpose T) n w1)) (apply (transpose T) n w2).
Proof. intros K HK Rth T n a w1 w2. exact (apply_lincomb Rth a (transpose T) n w1 w2). Qed.
Print Assumptions C04_F1_seed_linear.

(* non-vacuity: an integer module with one input used twice and two outputs, one of them unseeded *)
Example C04_nonvacuous :
  let m := {| ins := [0; 0]; outs := [1; 2];
              resp := fun xs => [[1%Z]; [2%Z]];
              vjp := fun _ _ ws => [nth 0 ws None; Some [5%Z]] |} in
  let e := [ {| st := Some [1%Z]; se := None |}; {| st := None; se := Some [3%Z] |}; {| st := None; se := None |} ] in
  unseeded e m = false /\
  se (get (sensitivity (@vadd Z _) e m) 0) = Some [8%Z] /\
  se (get (sensitivity (@vadd Z _) (sensitivity (@vadd Z _) e m) m) 0) = Some [16%Z].
Proof. repeat split; reflexivity. Qed.
