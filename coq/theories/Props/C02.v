(* C02 — Network backpropagation yields the total derivative of any module graph.
   Statements only; every proof is `exact <lemma>`; Print Assumptions under each.

   Model: Model/Net.v (Module.response / Module.sensitivity dispatch, Signal.add_sensitivity,
   SignalSlice.add_sensitivity, Network.response / .sensitivity / nesting), generic over a commutative ring K.
   Reading: at the evaluation point a module is a pair (m_fwd, m_adj) = (Jacobian, what _sensitivity computes);
   wt_mod says this pair is shape-correct and adjoint (that is property C01 for the module; proved below for
   block-matrix modules).  wt_ref is the admissible domain of slices fixed by property C18: pairwise different
   positions inside the base, and nested slices only over views (no slice of a copying slice).
   wf_net is "acyclic wiring": every signal has at most one writer and is read only after it was written. *)
From Coq Require Import ZArith List Bool Arith.
From Pymoto Require Import Base.Num Model.Net Model.NetBuild Proofs.NetP Proofs.NetBuildP.
Import ListNotations.

Definition comm_ring (K : Type) `{Num K} : Prop := ring_theory nzero none_ nadd nmul nsub nopp (@eq K).

(* MAIN: for every well-formed module list, every placement of (admissible) slices, shared signals, signals used
   twice by one module, any number of seeded signals c (outputs, intermediates, sources) and ALL tangents t:
     sum over all signals  <seed_s, (forward tangent)_s>  =  sum over sources  <sensitivity left by bwd, t_s>,
   i.e. what Network.sensitivity leaves on the sources is exactly the total derivative of the seeded combination:
   contributions along different paths are summed, each exactly once. *)
Theorem C02_backprop_total_derivative :
  forall (K : Type) (NK : Num K), comm_ring K ->
  forall (dims : nat -> nat) (N : nat) (mods : list (module K)) (c : cenv K) (t : tenv K),
    wf_net mods = true -> below N mods = true -> wt_net dims mods -> wt_cot dims c -> wt_tan dims t ->
    pairing_on (seq 0 N) c (fwd mods t) = pairing_on (sources N mods) (bwd dims mods c) t.
Proof. exact (@backprop_adjoint). Qed.
Print Assumptions C02_backprop_total_derivative.

(* the forward tangents (left-hand side above) depend on the source tangents only *)
Theorem C02_forward_depends_on_sources_only :
  forall (K : Type) (NK : Num K) (dims : nat -> nat) (mods : list (module K)),
    wf_net mods = true -> wt_net dims mods ->
    forall t1 t2 : tenv K, wt_tan dims t1 -> wt_tan dims t2 ->
    (forall x, ~ In x (written mods) -> t1 x = t2 x) -> forall x, fwd mods t1 x = fwd mods t2 x.
Proof. exact (@fwd_sources_only). Qed.
Print Assumptions C02_forward_depends_on_sources_only.

(* componentwise form ("each path exactly once"): entry k of the sensitivity of source s equals the seeds paired
   with the forward image of the k-th unit tangent of s, which is the sum over all paths of the Jacobian products *)
Theorem C02_source_sensitivity_component :
  forall (K : Type) (NK : Num K), comm_ring K ->
  forall (dims : nat -> nat) (N : nat) (mods : list (module K)) (c : cenv K) (s k : nat),
    wf_net mods = true -> below N mods = true -> wt_net dims mods -> wt_cot dims c ->
    In s (sources N mods) -> k < dims s ->
    onth k (bwd dims mods c s) = pairing_on (seq 0 N) c (fwd mods (unit_tan dims s k)).
Proof. exact (@source_sensitivity_component). Qed.
Print Assumptions C02_source_sensitivity_component.

(* the sweep that also forgets consumed output sensitivities is the adjoint of the forward sweep for ANY module
   list (no wiring discipline); C02_backprop_total_derivative follows because on well-formed lists both sweeps
   agree on every signal that is not written *)
Theorem C02_clearing_sweep_is_adjoint :
  forall (K : Type) (NK : Num K), comm_ring K ->
  forall (dims : nat -> nat) (l : list nat) (mods : list (module K)),
    NoDup l -> Forall (sigs_in l) mods -> Forall (fun m => NoDup (m_outs m)) mods -> wt_net dims mods ->
    forall c : cenv K, wt_cot dims c -> forall t : tenv K, wt_tan dims t ->
    pairing_on l c (fwd mods t) = pairing_on l (bwd' dims mods c) t /\ wt_cot dims (bwd' dims mods c).
Proof. exact (@bwd'_adjoint). Qed.
Print Assumptions C02_clearing_sweep_is_adjoint.

Theorem C02_sweeps_agree_on_unwritten_signals :
  forall (K : Type) (NK : Num K) (dims : nat -> nat) (mods : list (module K)),
    wf_net mods = true -> forall c : cenv K,
    (forall x, ~ In x (written mods) -> bwd dims mods c x = bwd' dims mods c x) /\
    (forall x, In x (written mods) -> bwd' dims mods c x = None).
Proof. exact (@bwd_sim). Qed.
Print Assumptions C02_sweeps_agree_on_unwritten_signals.

(* branches that received no seed contribute nothing: a module none of whose outputs carries a sensitivity
   leaves every sensitivity as it was ... *)
Theorem C02_unseeded_contributes_nothing :
  forall (K : Type) (NK : Num K) (dims : nat -> nat) (m : module K) (c : cenv K),
    m_outs m <> [] -> (forall o, In o (m_outs m) -> c o = None) -> bwd_mod dims m c = c.
Proof. exact (@unseeded_module_noop). Qed.
Print Assumptions C02_unseeded_contributes_nothing.

(* ... which agrees (None = 0) with calling its adjoint on zero seeds *)
Theorem C02_unseeded_equals_zero_seed :
  forall (K : Type) (NK : Num K), comm_ring K ->
  forall (dims : nat -> nat) (l : list nat) (m : module K) (c : cenv K) (t : tenv K),
    NoDup l -> sigs_in l m -> wt_mod dims m -> wt_cot dims c -> wt_tan dims t ->
    (forall o, In o (m_outs m) -> c o = None) ->
    pairing_on l (apply_adj dims m (map c (m_outs m)) c) t = pairing_on l c t.
Proof. exact (@unseeded_module_zero_seed). Qed.
Print Assumptions C02_unseeded_equals_zero_seed.

(* nested networks (with any print_timing option on any level: node carries it) respond and backpropagate like the
   flat module list *)
Theorem C02_nested_flatten_response :
  forall (K : Type) (NK : Num K) (n : node K) (t : tenv K), fwd_node n t = fwd (flatten n) t.
Proof. exact (@fwd_node_flatten). Qed.
Print Assumptions C02_nested_flatten_response.

Theorem C02_nested_flatten_sensitivity :
  forall (K : Type) (NK : Num K) (dims : nat -> nat) (n : node K) (c : cenv K),
    bwd_node dims n c = bwd dims (flatten n) c.
Proof. exact (@bwd_node_flatten). Qed.
Print Assumptions C02_nested_flatten_sensitivity.

(* the construction option print_timing (False / True / a threshold in seconds) of the outer and of every inner
   Network selects between two differently written loops of Network.response / Network.sensitivity (members called
   through self.timefn or directly); whatever the options are, the network computes the same states and leaves the
   same sensitivities (so the two theorems above and the main theorem hold for every choice of options) *)
Theorem C02_print_timing_option_irrelevant :
  forall (K : Type) (NK : Num K) (dims : nat -> nat) (f : timing -> timing) (n : node K) (t : tenv K) (c : cenv K),
    fwd_node (retime f n) t = fwd_node n t /\ bwd_node dims (retime f n) c = bwd_node dims n c.
Proof. exact (fun K NK dims f n t c => conj (@retime_response K NK f n t) (@retime_sensitivity K NK dims f n c)). Qed.
Print Assumptions C02_print_timing_option_irrelevant.

(* the module hypothesis is not vacuous: every dimensionally consistent block-matrix module (response y_o += M x_i,
   sensitivity g_i += M^T w_o, None returned for inputs it does not depend on) is a shape-correct adjoint pair *)
Theorem C02_block_matrix_modules_are_adjoint_pairs :
  forall (K : Type) (NK : Num K), comm_ring K ->
  forall (dims : nat -> nat) (ins : list ref) (outs : list nat) (L : lin K),
    linmod_ok dims ins outs L = true -> wt_mod dims (linmod ins outs L).
Proof. exact (@linmod_wt). Qed.
Print Assumptions C02_block_matrix_modules_are_adjoint_pairs.

(* the form that applies to every correspondence case: a (nested) network given as data that passes the
   decidable check net_ok *)
Theorem C02_described_network :
  forall (K : Type) (NK : Num K), comm_ring K ->
  forall (dims : nat -> nat) (N : nat) (s : stree K) (c : cenv K) (t : tenv K),
    net_ok N dims s = true -> wt_cot dims c -> wt_tan dims t ->
    pairing_on (seq 0 N) c (fwd_node (to_node s) t)
    = pairing_on (sources N (flatten (to_node s))) (bwd_node dims (to_node s) c) t.
Proof. exact (@described_network_adjoint). Qed.
Print Assumptions C02_described_network.

(* ---- construction order (Model/NetBuild.v).  A Network object stores, besides its members, the attribute lists
   sig_in / sig_out that ITS OWN last append() computed from the attributes its members had at that moment; a network
   that is extended after it was placed in a parent leaves the parent's lists stale.  Network.response / .sensitivity
   read self.mods and self.print_timing only (obj_node = ofold NMod NNet), hence: *)

(* two objects with the same member tree (stored lists blanked by `bare`) respond and backpropagate alike *)
Theorem C02_behaviour_is_a_function_of_the_member_tree :
  forall (K : Type) (NK : Num K) (dims : nat -> nat) (o1 o2 : obj (module K)), bare o1 = bare o2 ->
    (forall t, fwd_obj o1 t = fwd_obj o2 t) /\ (forall c, bwd_obj dims o1 c = bwd_obj dims o2 c).
Proof. exact (@behaviour_members_only). Qed.
Print Assumptions C02_behaviour_is_a_function_of_the_member_tree.

(* along ANY history of append() calls over a pool of objects (modules, empty or filled networks; appends to networks
   that are already members of others), the member trees never depend on what the stored lists contain *)
Theorem C02_history_member_trees_ignore_stored_lists :
  forall (A : Type) (a_ins : A -> list ref) (a_outs : A -> list nat) (ops : list bop) (st : list (option (obj A))),
    map (option_map bare) (run_history a_ins a_outs ops st)
    = map (option_map bare) (run_history a_ins a_outs ops (map (option_map bare) st)).
Proof. exact (@bares_run_history). Qed.
Print Assumptions C02_history_member_trees_ignore_stored_lists.

(* outer.append(x) first and (network at p below x).append(y) afterwards  =  the append into x first, nesting after *)
Theorem C02_fill_after_nesting_same_behaviour :
  forall (K : Type) (NK : Num K) (dims : nat -> nat) (tm : timing) (si : list ref) (so : list nat)
         (l : list (obj (module K))) (x y : obj (module K)) (p : list nat),
    let late := mappend_at (length l :: p) y (append_here (@m_ins K) (fun m => m_outs m) x (ONet tm si so l)) in
    let early := append_here (@m_ins K) (fun m => m_outs m) (mappend_at p y x) (ONet tm si so l) in
    (forall t, fwd_obj late t = fwd_obj early t) /\ (forall c, bwd_obj dims late c = bwd_obj dims early c).
Proof. exact (@fill_after_nesting_same_behaviour). Qed.
Print Assumptions C02_fill_after_nesting_same_behaviour.

(* the main theorem for a network of block-matrix modules put together by any history (every history case of the
   correspondence is of this form: Coq replays the history, then evaluates the model on the object it produced) *)
Theorem C02_built_network_total_derivative :
  forall (K : Type) (NK : Num K), comm_ring K ->
  forall (dims : nat -> nat) (N : nat) (ops : list bop) (st : list (option (obj (@spec K)))) (o : obj (@spec K))
         (c : cenv K) (t : tenv K),
    sbuilt ops st = Some o -> net_ok N dims (obj_stree o) = true -> wt_cot dims c -> wt_tan dims t ->
    pairing_on (seq 0 N) c (fwd_node (to_node (obj_stree o)) t)
    = pairing_on (sources N (flatten (to_node (obj_stree o)))) (bwd_node dims (to_node (obj_stree o)) c) t.
Proof. exact (fun K NK Kr dims N ops st o c t => @built_network_adjoint K NK Kr dims N ops st o c t). Qed.
Print Assumptions C02_built_network_total_derivative.

(* a module without outputs (a sink; one that hands out sensitivities of its own) is never skipped *)
Theorem C02_zero_output_module_never_skipped :
  forall (K : Type) (NK : Num K) (dims : nat -> nat) (m : module K) (c : cenv K),
    m_outs m = [] -> bwd_mod dims m c = apply_adj dims m [] c.
Proof. exact (@zero_output_never_skipped). Qed.
Print Assumptions C02_zero_output_module_never_skipped.

(* ---- value types.  Signal.add_sensitivity has three accumulation branches: `+=` (ndarray, scalar, DyadCarrier, user
   classes with __iadd__), the user class's own add_sensitivity() whose return value (None, or the object) is dropped;
   sig_add is that code, add_sens what the network model uses: they agree for every kind ... *)
Theorem C02_accumulation_kind_irrelevant :
  forall (K : Type) (NK : Num K) (dims : nat -> nat) (k : acc_kind) (c : cenv K) (s : nat) (ds : option (vec K)),
    add_sens dims c (RSig s) ds s = sig_add k (c s) ds.
Proof. exact (@sig_add_kind_irrelevant). Qed.
Print Assumptions C02_accumulation_kind_irrelevant.

(* ... and contributions arriving along several paths are summed, each once, whatever the kind *)
Theorem C02_paths_summed_for_every_kind :
  forall (K : Type) (NK : Num K) (k : acc_kind) (ds : list (vec K)) (d : vec K),
    fold_left (sig_add k) (map Some ds) (Some d) = Some (fold_left vadd ds d).
Proof. exact (@sig_add_paths). Qed.
Print Assumptions C02_paths_summed_for_every_kind.

(* non-vacuity / witness of the stale list: y = x*x; inner: z = 3y, g = y*z; only g seeded.  Filled after nesting the
   outer sig_out lacks z and g, the member tree and the sensitivities are those of the network filled before nesting *)
Example C02_stale_sig_out_nonvacuous :
  exists o_late o_early : obj (@spec Z),
    sbuilt nb_nest_then_fill nb_pool = Some o_late /\ sbuilt nb_fill_then_nest nb_pool = Some o_early /\
    obj_outs spec_outs o_late = [1]%nat /\ obj_outs spec_outs o_early = [1; 2; 3]%nat /\
    bare o_late = bare o_early /\
    net_ok 4 (dims_of [2; 2; 2; 2]%nat) (obj_stree o_late) = true /\
    show_c 4 (bwd_node (dims_of [2; 2; 2; 2]%nat) (to_node (obj_stree o_late)) (cenv_of nb_seeds)) = nb_expected.
Proof. exact nb_facts. Qed.
Print Assumptions C02_stale_sig_out_nonvacuous.

(* ---- why wt_ref is needed (both inputs are outside the admissible slices of C18; documentation) *)
Open Scope Z_scope.
Definition idL (n : nat) (M : list (list Z)) : lin Z :=
  {| l_idims := [n]; l_odims := [n]; l_none := [false]; l_blocks := [(0%nat, 0%nat, M)] |}.

(* x[[0,0]]: a repeated position is read twice but `base[idx] = base[idx] + ds` keeps one contribution only *)
Theorem C02_repeated_slice_position_refuted :
  exists (mods : list (module Z)) (c : cenv Z) (t : tenv Z),
    wf_net mods = true /\ below 2 mods = true /\
    pairing_on (seq 0 2) c (fwd mods t) <> pairing_on (sources 2 mods) (bwd (dims_of [1; 2]%nat) mods c) t.
Proof. exact repeated_position_counterexample. Qed.
Print Assumptions C02_repeated_slice_position_refuted.

(* x[[1,2,3]][[0,1]]: the setter writes into the temporary copy made by the inner integer-array index *)
Theorem C02_slice_of_copying_slice_refuted :
  exists (mods : list (module Z)) (c : cenv Z) (t : tenv Z),
    wf_net mods = true /\ below 2 mods = true /\
    pairing_on (seq 0 2) c (fwd mods t) <> pairing_on (sources 2 mods) (bwd (dims_of [4; 2]%nat) mods c) t.
Proof. exact copying_slice_counterexample. Qed.
Print Assumptions C02_slice_of_copying_slice_refuted.

(* ---- non-vacuity: a 5-module diamond (corpus/C02/diamond.json runs the same network on the implementation).
   signals: 0 = x (3, source), 1 = p (2, source), 2 = a = A x[[0,2]] (slice), 3 = b = B x + P p (fan-out of x),
   4 = d = D1 a + D2 b (fan-in), 5 = e = E1 a + E2 a (signal used twice), 6, 7 = f, g = F d, G d (two outputs,
   only f seeded: partial seed); nesting Network(Network(m1, m2, print_timing=True), m3,
   Network(m4, m5, print_timing=10.0)). *)
Example C02_diamond_nonvacuous :
  net_ok 8 (dims_of diamond_dims) diamond = true /\
  wt_cot (dims_of diamond_dims) (cenv_of diamond_seeds) /\
  show_c 8 (bwd_node (dims_of diamond_dims) (to_node diamond) (cenv_of diamond_seeds)) = diamond_expected /\
  sources 8 (flatten (to_node diamond)) = [0; 1]%nat.
Proof. exact diamond_facts. Qed.
Print Assumptions C02_diamond_nonvacuous.
