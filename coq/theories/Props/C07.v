(* C07 — linear-system modules satisfy their defining equations.
   Statements only; every proof is `exact <lemma>`; Print Assumptions under each.

   M is any ring with transpose/conjugation (square complex matrices are an instance, C05_matrices_are_an_instance);
   right-hand sides range over M (vector or block, real or complex).  Index sets are complementary idempotent
   selectors.  The solver LinSolve ends up with (auto-determined or `solver=` override, with or without the
   LDAWrapper of C06) enters through its C05 contract solver_ok / ff_solver_ok. *)
From mathcomp Require Import all_ssreflect all_algebra.
From Pymoto Require Import Base.StarRing Model.LinMods Proofs.LinModsP.
(* executable block checks used by the generated correspondence cases (kept in this file's dependency cone) *)
From Pymoto Require Base.CQMat Model.LinModsExec.
Set Implicit Arguments.
Unset Strict Implicit.
Import GRing.Theory.
Local Open Scope ring_scope.

(* LinSolve: A x = b  (and the adjoint solve used by its sensitivity: A^T lam = g) *)
Theorem C07_linsolve :
  forall (M : ringType) (tr cj : M -> M) (solve : trans -> M -> M) (A b : M),
  solver_ok tr cj solve A -> A * linsolve solve b = b.
Proof. exact: linsolve_correct. Qed.
Print Assumptions C07_linsolve.

Theorem C07_linsolve_adjoint :
  forall (M : ringType) (tr cj : M -> M) (solve : trans -> M -> M) (A g : M),
  solver_ok tr cj solve A -> tr A * linsolve_adjoint solve g = g.
Proof. exact: linsolve_adjoint_correct. Qed.
Print Assumptions C07_linsolve_adjoint.

(* Inverse: A B = I (np.linalg.inv is the oracle) *)
Theorem C07_inverse :
  forall (M : ringType) (inv : M -> M) (A : M), A * inv A = 1 -> A * inverse inv A = 1.
Proof. exact: inverse_correct. Qed.
Print Assumptions C07_inverse.

(* SystemOfEquations, for EVERY square A (no symmetry needed since fix 9d9e08a):
   x equals the prescribed values on the prescribed dofs, b equals the applied loads on the free dofs, A x = b *)
Theorem C07_soe_prescribed :
  forall (M : ringType) (tr cj : M -> M) (Df Dp : M), selectors tr cj Df Dp ->
  forall (solve_ff : M -> M) (A Bf Xp : M),
  Df * Bf = Bf -> Dp * Xp = Xp -> ff_solver_ok Df solve_ff A ->
  Dp * soe_x Df Dp solve_ff A Bf Xp = Xp.
Proof. exact: soe_prescribed. Qed.
Print Assumptions C07_soe_prescribed.

Theorem C07_soe_loads :
  forall (M : ringType) (tr cj : M -> M) (Df Dp : M), selectors tr cj Df Dp ->
  forall (solve_ff : M -> M) (A Bf Xp : M),
  Df * Bf = Bf ->
  Df * soe_b Df Dp solve_ff A Bf Xp = Bf.
Proof. move=> M tr cj Df Dp SE solve_ff A Bf Xp HB; exact: (soe_loads SE). Qed.
Print Assumptions C07_soe_loads.

Theorem C07_soe_free_rows :
  forall (M : ringType) (tr cj : M -> M) (Df Dp : M), selectors tr cj Df Dp ->
  forall (solve_ff : M -> M) (A Bf Xp : M),
  Df * Bf = Bf -> Dp * Xp = Xp -> ff_solver_ok Df solve_ff A ->
  Df * (A * soe_x Df Dp solve_ff A Bf Xp) = Df * soe_b Df Dp solve_ff A Bf Xp.
Proof. exact: soe_free_rows. Qed.
Print Assumptions C07_soe_free_rows.

Theorem C07_soe_reaction :
  forall (M : ringType) (tr cj : M -> M) (Df Dp : M), selectors tr cj Df Dp ->
  forall (solve_ff : M -> M) (A Bf Xp : M),
  Df * Bf = Bf -> Dp * Xp = Xp -> ff_solver_ok Df solve_ff A ->
  Dp * (A * soe_x Df Dp solve_ff A Bf Xp) = Dp * soe_b Df Dp solve_ff A Bf Xp.
Proof. exact: soe_reaction. Qed.
Print Assumptions C07_soe_reaction.

Theorem C07_soe_full_system :
  forall (M : ringType) (tr cj : M -> M) (Df Dp : M), selectors tr cj Df Dp ->
  forall (solve_ff : M -> M) (A Bf Xp : M),
  Df * Bf = Bf -> Dp * Xp = Xp -> ff_solver_ok Df solve_ff A ->
  A * soe_x Df Dp solve_ff A Bf Xp = soe_b Df Dp solve_ff A Bf Xp.
Proof. exact: soe_full. Qed.
Print Assumptions C07_soe_full_system.

(* non-vacuity: 2 x 2 rational matrices, A = [[2,1],[3,4]] not symmetric, f = {0}, p = {1}; all premises hold *)
Example C07_soe_nonvacuous :
  star_laws itr icj /\ selectors itr icj (E i0 i0) (E i1 i1) /\ itr iA <> iA /\
  E i0 i0 * E i0 i0 = E i0 i0 /\ E i1 i1 * E i1 i0 = E i1 i0 /\ ff_solver_ok (E i0 i0) isolve iA /\
  iA * soe_x (E i0 i0) (E i1 i1) isolve iA (E i0 i0) (E i1 i0) = soe_b (E i0 i0) (E i1 i1) isolve iA (E i0 i0) (E i1 i0).
Proof.
  exact: (conj inst_star (conj inst_sel (conj inst_nonsym (conj inst_HB (conj inst_HX (conj inst_ff
          (soe_full inst_sel inst_HB inst_HX inst_ff))))))).
Qed.

(* StaticCondensation (Dm, Df: selectors of the main and free dofs; only the inner solve's contract on the f-corner
   and a left inverse Y of A_ff in that corner are needed): the result is the Schur complement of the free block ... *)
Theorem C07_schur :
  forall (M : ringType) (Dm Df : M) (solve_ff : M -> M) (A : M),
  Df * sc_X Dm Df solve_ff A = sc_X Dm Df solve_ff A ->
  Df * A * Df * sc_X Dm Df solve_ff A = Df * A * Dm ->
  forall Y : M, Y * (Df * A * Df) = Df ->
  sc_Ared Dm Df solve_ff A = Dm * A * Dm - Dm * A * Df * Y * (Df * A * Dm).
Proof. exact: schur_formula. Qed.
Print Assumptions C07_schur.

(* ... so that the condensed system reproduces the main-dof response of the full system
   (no load on the free dofs, all remaining dofs prescribed to zero: the module's documented assumptions) *)
Theorem C07_condensed_reproduces_main :
  forall (M : ringType) (Dm Df : M) (solve_ff : M -> M) (A : M),
  Df * sc_X Dm Df solve_ff A = sc_X Dm Df solve_ff A ->
  Df * A * Df * sc_X Dm Df solve_ff A = Df * A * Dm ->
  forall Y : M, Y * (Df * A * Df) = Df ->
  forall xm xf bm : M,
  Dm * xm = xm -> Df * xf = xf ->
  Dm * (A * (xm + xf)) = bm -> Df * (A * (xm + xf)) = 0 ->
  sc_Ared Dm Df solve_ff A * xm = bm.
Proof. exact: condensed_reproduces_main. Qed.
Print Assumptions C07_condensed_reproduces_main.
