(* C07 — linear-system modules satisfy their defining equations.
   Statements only; every proof is `exact <lemma>`; Print Assumptions under each.

   M is any ring with transpose/conjugation (square complex matrices are an instance, C05_matrices_are_an_instance);
   right-hand sides range over M (vector or block, real or complex).  Index sets are complementary idempotent
   selectors.  The solver LinSolve ends up with (auto-determined or `solver=` override, with or without the
   LDAWrapper of C06) enters through its C05 contract solver_ok / ff_solver_ok. *)
From mathcomp Require Import all_ssreflect all_algebra.
From Pymoto Require Import Base.StarRing Model.LinMods Proofs.LinModsP.
(* executable block checks used by the generated correspondence cases (kept in this file's dependency cone) *)
From Pymoto Require Base.CQMat Model.LinModsExec.
(* dtype tags of the same methods (plain Coq; evaluated by the generated cases as well) *)
From Pymoto Require Import Model.LinDtype Proofs.LinDtypeP.
Set Implicit Arguments.
Unset Strict Implicit.
Import GRing.Theory.
Local Open Scope ring_scope.

(* LinSolve: A x = b  (and the adjoint solve used by its sensitivity: A^T lam = g) *)
Theorem C07_linsolve :
  forall (M : ringType) (tr cj : M -> M) (solve : trans -> M -> M) (A b : M),
  solver_ok tr cj solve A -> A * linsolve solve b = b.
Proof. exact: linsolve_correct. Qed.
Print Assumptions C07_linsolve.

Theorem C07_linsolve_adjoint :
  forall (M : ringType) (tr cj : M -> M) (solve : trans -> M -> M) (A g : M),
  solver_ok tr cj solve A -> tr A * linsolve_adjoint solve g = g.
Proof. exact: linsolve_adjoint_correct. Qed.
Print Assumptions C07_linsolve_adjoint.

(* Inverse: A B = I (np.linalg.inv is the oracle) *)
Theorem C07_inverse :
  forall (M : ringType) (inv : M -> M) (A : M), A * inv A = 1 -> A * inverse inv A = 1.
Proof. exact: inverse_correct. Qed.
Print Assumptions C07_inverse.

(* SystemOfEquations, for EVERY square A (no symmetry needed since fix 9d9e08a):
   x equals the prescribed values on the prescribed dofs, b equals the applied loads on the free dofs, A x = b *)
Theorem C07_soe_prescribed :
  forall (M : ringType) (tr cj : M -> M) (Df Dp : M), selectors tr cj Df Dp ->
  forall (solve_ff : M -> M) (A Bf Xp : M),
  Df * Bf = Bf -> Dp * Xp = Xp -> ff_solver_ok Df solve_ff A ->
  Dp * soe_x Df Dp solve_ff A Bf Xp = Xp.
Proof. exact: soe_prescribed. Qed.
Print Assumptions C07_soe_prescribed.

Theorem C07_soe_loads :
  forall (M : ringType) (tr cj : M -> M) (Df Dp : M), selectors tr cj Df Dp ->
  forall (solve_ff : M -> M) (A Bf Xp : M),
  Df * Bf = Bf ->
  Df * soe_b Df Dp solve_ff A Bf Xp = Bf.
Proof. move=> M tr cj Df Dp SE solve_ff A Bf Xp HB; exact: (soe_loads SE). Qed.
Print Assumptions C07_soe_loads.

Theorem C07_soe_free_rows :
  forall (M : ringType) (tr cj : M -> M) (Df Dp : M), selectors tr cj Df Dp ->
  forall (solve_ff : M -> M) (A Bf Xp : M),
  Df * Bf = Bf -> Dp * Xp = Xp -> ff_solver_ok Df solve_ff A ->
  Df * (A * soe_x Df Dp solve_ff A Bf Xp) = Df * soe_b Df Dp solve_ff A Bf Xp.
Proof. exact: soe_free_rows. Qed.
Print Assumptions C07_soe_free_rows.

Theorem C07_soe_reaction :
  forall (M : ringType) (tr cj : M -> M) (Df Dp : M), selectors tr cj Df Dp ->
  forall (solve_ff : M -> M) (A Bf Xp : M),
  Df * Bf = Bf -> Dp * Xp = Xp -> ff_solver_ok Df solve_ff A ->
  Dp * (A * soe_x Df Dp solve_ff A Bf Xp) = Dp * soe_b Df Dp solve_ff A Bf Xp.
Proof. exact: soe_reaction. Qed.
Print Assumptions C07_soe_reaction.

Theorem C07_soe_full_system :
  forall (M : ringType) (tr cj : M -> M) (Df Dp : M), selectors tr cj Df Dp ->
  forall (solve_ff : M -> M) (A Bf Xp : M),
  Df * Bf = Bf -> Dp * Xp = Xp -> ff_solver_ok Df solve_ff A ->
  A * soe_x Df Dp solve_ff A Bf Xp = soe_b Df Dp solve_ff A Bf Xp.
Proof. exact: soe_full. Qed.
Print Assumptions C07_soe_full_system.

(* non-vacuity: 2 x 2 rational matrices, A = [[2,1],[3,4]] not symmetric, f = {0}, p = {1}; all premises hold *)
Example C07_soe_nonvacuous :
  star_laws itr icj /\ selectors itr icj (E i0 i0) (E i1 i1) /\ itr iA <> iA /\
  E i0 i0 * E i0 i0 = E i0 i0 /\ E i1 i1 * E i1 i0 = E i1 i0 /\ ff_solver_ok (E i0 i0) isolve iA /\
  iA * soe_x (E i0 i0) (E i1 i1) isolve iA (E i0 i0) (E i1 i0) = soe_b (E i0 i0) (E i1 i1) isolve iA (E i0 i0) (E i1 i0).
Proof.
  exact: (conj inst_star (conj inst_sel (conj inst_nonsym (conj inst_HB (conj inst_HX (conj inst_ff
          (soe_full inst_sel inst_HB inst_HX inst_ff))))))).
Qed.

(* StaticCondensation (Dm, Df: selectors of the main and free dofs; only the inner solve's contract on the f-corner
   and a left inverse Y of A_ff in that corner are needed): the result is the Schur complement of the free block ... *)
Theorem C07_schur :
  forall (M : ringType) (Dm Df : M) (solve_ff : M -> M) (A : M),
  Df * sc_X Dm Df solve_ff A = sc_X Dm Df solve_ff A ->
  Df * A * Df * sc_X Dm Df solve_ff A = Df * A * Dm ->
  forall Y : M, Y * (Df * A * Df) = Df ->
  sc_Ared Dm Df solve_ff A = Dm * A * Dm - Dm * A * Df * Y * (Df * A * Dm).
Proof. exact: schur_formula. Qed.
Print Assumptions C07_schur.

(* ... so that the condensed system reproduces the main-dof response of the full system
   (no load on the free dofs, all remaining dofs prescribed to zero: the module's documented assumptions) *)
Theorem C07_condensed_reproduces_main :
  forall (M : ringType) (Dm Df : M) (solve_ff : M -> M) (A : M),
  Df * sc_X Dm Df solve_ff A = sc_X Dm Df solve_ff A ->
  Df * A * Df * sc_X Dm Df solve_ff A = Df * A * Dm ->
  forall Y : M, Y * (Df * A * Df) = Df ->
  forall xm xf bm : M,
  Dm * xm = xm -> Df * xf = xf ->
  Dm * (A * (xm + xf)) = bm -> Df * (A * (xm + xf)) = 0 ->
  sc_Ared Dm Df solve_ff A * xm = bm.
Proof. exact: condensed_reproduces_main. Qed.
Print Assumptions C07_condensed_reproduces_main.

(* ---------------------------------------------------------------------------------------------------------------
   Dtypes (bool < int64 < float64 < complex128; rt = np.result_type).  The algebraic theorems above read
   `buf = zeros; buf[idx] = v` as an exact embedding; numpy CASTS v to the dtype of buf (complex -> float only warns),
   so that reading is right exactly when every stored value has a dtype <= the dtype of the buffer.  The buffer and
   store dtypes are regenerated from linalg.py every run (bridge LinDtypeBridge).
   sol_ok: the inner LinSolve answers with np.result_type(matrix, rhs, float) (contract, validated on every case). *)

(* x and b have the numpy result type of ALL operands (matrix, loads, prescribed values) and float ... *)
Theorem C07_soe_output_dtype :
  forall dA dBf dXp : dtype,
  soe_x_buf dA dBf dXp = rtl (dA :: dBf :: dXp :: DFloat :: nil) /\
  soe_b_buf dA dBf dXp = rtl (dA :: dBf :: dXp :: DFloat :: nil).
Proof. exact soe_out_dtype. Qed.
Print Assumptions C07_soe_output_dtype.

(* ... which is the LEAST dtype above every operand and float *)
Theorem C07_soe_output_dtype_least :
  forall dA dBf dXp : dtype,
  let buf := soe_x_buf dA dBf dXp in
  dle dA buf = true /\ dle dBf buf = true /\ dle dXp buf = true /\ dle DFloat buf = true /\
  forall d, dle dA d = true -> dle dBf d = true -> dle dXp d = true -> dle DFloat d = true -> dle buf d = true.
Proof. exact soe_out_dtype_lub. Qed.
Print Assumptions C07_soe_output_dtype_least.

Theorem C07_soe_output_complex_iff :
  forall dA dBf dXp : dtype,
  soe_x_buf dA dBf dXp = DComplex <-> dA = DComplex \/ dBf = DComplex \/ dXp = DComplex.
Proof. exact soe_out_complex_iff. Qed.
Print Assumptions C07_soe_output_complex_iff.

(* every store of SystemOfEquations._response keeps its value: x[p] = xp, x[f] = xf, b[f] = bf, b[p] = Apf xf + App xp *)
Theorem C07_soe_stores_lossless :
  forall (sol : dtype -> dtype -> dtype) (dA dBf dXp : dtype), sol_ok sol ->
  stores_lossless (soe_x_buf dA dBf dXp) (soe_x_stores sol dA dBf dXp) = true /\
  stores_lossless (soe_b_buf dA dBf dXp) (soe_b_stores sol dA dBf dXp) = true.
Proof. exact soe_stores_lossless. Qed.
Print Assumptions C07_soe_stores_lossless.

(* the computed free state and reactions have exactly the dtype of the buffers *)
Theorem C07_soe_computed_dtypes :
  forall (sol : dtype -> dtype -> dtype) (dA dBf dXp : dtype), sol_ok sol ->
  soe_xf_dtype sol dA dBf dXp = soe_x_buf dA dBf dXp /\ soe_bp_dtype sol dA dBf dXp = soe_b_buf dA dBf dXp.
Proof. exact soe_computed_dtypes. Qed.
Print Assumptions C07_soe_computed_dtypes.

(* none of the operands may be left out of the promotion (matrix: complex A with real data; loads / prescribed values:
   fix 92bff31; float: integer data) *)
Theorem C07_soe_buffer_needs_matrix_dtype :
  exists dA dBf dXp, dle (soe_xf_dtype linsolve_dtype dA dBf dXp) (rt (rt dBf dXp) DFloat) = false.
Proof. exact soe_buffer_needs_matrix_dtype. Qed.
Print Assumptions C07_soe_buffer_needs_matrix_dtype.

Theorem C07_soe_buffer_needs_operand_dtypes :
  (exists dA dBf dXp, stores_lossless (rt dA DFloat) (soe_b_stores linsolve_dtype dA dBf dXp) = false) /\
  (exists dA dBf dXp, stores_lossless (rt dA DFloat) (soe_x_stores linsolve_dtype dA dBf dXp) = false) /\
  (exists dA dBf dXp, stores_lossless (rt (rt dA dBf) dXp) (soe_x_stores linsolve_dtype dA dBf dXp) = false).
Proof. exact soe_buffer_needs_operand_dtypes. Qed.
Print Assumptions C07_soe_buffer_needs_operand_dtypes.

(* StaticCondensation / LinSolve: result type of the matrix (and the right-hand side) and float *)
Theorem C07_schur_dtype :
  forall (sol : dtype -> dtype -> dtype) (dA : dtype), sol_ok sol -> sc_out_dtype sol dA = rt dA DFloat.
Proof. exact sc_out_dtype_eq. Qed.
Print Assumptions C07_schur_dtype.

Theorem C07_linsolve_dtype :
  forall dM dr : dtype,
  linsolve_dtype dM dr = rtl (dM :: dr :: DFloat :: nil) /\
  (linsolve_dtype dM dr = DComplex <-> dM = DComplex \/ dr = DComplex).
Proof. move=> dM dr; exact: (conj (linsolve_dtype_is_result_type dM dr) (linsolve_dtype_complex_iff dM dr)). Qed.
Print Assumptions C07_linsolve_dtype.

(* non-vacuity: the contract holds for the modelled solver stack *)
Example C07_sol_ok_nonvacuous : sol_ok linsolve_dtype.
Proof. by []. Qed.
