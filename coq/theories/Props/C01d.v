(* C01, part d: the eigenvector / eigenvalue sensitivities of EigenSolve (pymoto/modules/linalg.py: _dense_sens,
   _sparse_eigvec_sens, _sparse_eigval_sens; model Model/EigAdj.v) are the exact adjoint of the LINEARISED eigenproblem.
   Matrices 'M[F]_n and column vectors 'cV[F]_n of any size n over any field F; the code's linear solves are hypotheses
   ("nu, alpha solve the bordered system", "vp solves (A - lam B)^T vp = r"), never inverses.
   frob = sum of entrywise products (no conjugation: the convention of finite_difference); sc = the scalar of a 1 x 1 product.

   Full claim of C01 for this module:  <gA, dA> + <gB, dB> = d/dt (wq . q(t) + ww w(t))  along every differentiable
   perturbation of (A, B).  Proved here: the identity for EVERY tangent (dA, dB, dw, dq) that satisfies the linearised
   defining equations lin_eig / lin_norm, and its exact finite-difference form between two eigenpairs
   (C01_eig_dense_secant: remainder = products of two increments).  NOT proved: that the eigenpair of a simple
   eigenvalue depends differentiably on (A, B) (implicit function theorem), i.e. that the derivative of a path of
   eigenpairs exists; it then necessarily satisfies lin_eig / lin_norm (first-order part of C01_eig_secant_eig /
   C01_eig_secant_norm).  That part stays with the finite-difference oracle.
   The sparse routines are correct only for symmetric pencils: `_partial` statements carry A^T = A, B^T = B; the
   `_refuted` statements give a non-symmetric 2 x 2 witness over every field (finding K08_C01_sparse_eig_nonsymmetric). *)
From mathcomp Require Import all_ssreflect all_algebra.
From Pymoto Require Import Model.EigAdj Proofs.EigAdjP.
Import GRing.Theory.
Local Open Scope ring_scope.

(* the pairing of finite_difference is the trace pairing *)
Theorem C01_eig_frob_trace : forall (F : fieldType) (m k : nat) (G D : 'M[F]_(m, k)),
  frob G D = \tr (G^T *m D).
Proof. exact: frobE. Qed.
Print Assumptions C01_eig_frob_trace.

(* ---------------------------------------------------------------------------------------------------------------- *)
(* _dense_sens, one mode.  General (possibly non-symmetric) A and B, bordered system with (B + B^T)/2 as written.   *)
Theorem C01_eig_dense_adjoint : forall (F : fieldType) (n : nat) (A B dA dB : 'M[F]_n) (q wq nu dq : 'cV[F]_n)
    (w ww alpha dw : F),
  dense_sys A B w q wq ww nu alpha ->        (* P [nu; alpha] = [wq; ww],  P = [[(A - w B)^T, -((B+B^T)/2) q], [-(B q)^T, 0]] *)
  lin_eig A B w q dA dB dw dq ->             (* (A - w B) dq + (dA - dw B - w dB) q = 0 *)
  lin_norm B q dB dq ->                      (* q^T (B + B^T) dq + q^T dB q = 0 *)
  frob wq dq + ww * dw = frob (dense_gA nu q) dA + frob (dense_gB w nu alpha q) dB.
Proof. move=> F n A B dA dB q wq nu dq w ww alpha dw. exact: dense_adjoint. Qed.
Print Assumptions C01_eig_dense_adjoint.

(* the same with residuals e1, e2 of the linearised equations (used by the correspondence: a tangent rounded to dyadic
   numbers has tiny residuals, and the identity with the residual terms is checked EXACTLY on the implementation's data) *)
Theorem C01_eig_dense_adjoint_residual : forall (F : fieldType) (n : nat) (A B dA dB : 'M[F]_n) (q wq nu dq e1 : 'cV[F]_n)
    (w ww alpha dw e2 : F),
  dense_sys A B w q wq ww nu alpha ->
  (A - w *: B) *m dq + (dA - dw *: B - w *: dB) *m q = e1 ->
  sc (q^T *m (B + B^T) *m dq) + sc (q^T *m dB *m q) = e2 ->
  frob wq dq + ww * dw
  = frob (dense_gA nu q) dA + frob (dense_gB w nu alpha q) dB + sc (nu^T *m e1) - alpha / 2%:R * e2.
Proof. move=> F n A B dA dB q wq nu dq e1 w ww alpha dw e2. exact: dense_adjoint_res. Qed.
Print Assumptions C01_eig_dense_adjoint_residual.

(* the bordered system, row by row *)
Theorem C01_eig_dense_system_rows : forall (F : fieldType) (n : nat) (A B : 'M[F]_n) (q wq nu : 'cV[F]_n) (w ww alpha : F),
  dense_sys A B w q wq ww nu alpha ->
  (A - w *: B)^T *m nu - alpha *: (symhalf B *m q) = wq /\ - sc ((B *m q)^T *m nu) = ww.
Proof. move=> F n A B q wq nu w ww alpha. exact: dense_sys_rows. Qed.
Print Assumptions C01_eig_dense_system_rows.

(* all modes, with the code's skipping of unseeded modes *)
Theorem C01_eig_dense_total_adjoint : forall (F : fieldType) (n k : nat) (A B dA dB : 'M[F]_n)
    (W : 'I_k -> F) (Q WQ : 'I_k -> 'cV[F]_n) (WW : 'I_k -> F) (NU : 'I_k -> 'cV[F]_n) (AL DW : 'I_k -> F)
    (DQ : 'I_k -> 'cV[F]_n),
  (forall i, ~~ dense_skip WQ WW i -> dense_sys A B (W i) (Q i) (WQ i) (WW i) (NU i) (AL i)) ->
  (forall i, lin_eig A B (W i) (Q i) dA dB (DW i) (DQ i)) -> (forall i, lin_norm B (Q i) dB (DQ i)) ->
  \sum_i (frob (WQ i) (DQ i) + WW i * DW i)
  = frob (dense_total_gA WQ WW NU Q) dA + frob (dense_total_gB WQ WW W NU AL Q) dB.
Proof. move=> F n k A B dA dB W Q WQ WW NU AL DW DQ. exact: dense_total_adjoint. Qed.
Print Assumptions C01_eig_dense_total_adjoint.

(* no second input: B = I is passed, only dA is returned, the tangent has dB = 0 *)
Theorem C01_eig_dense_adjoint_noB : forall (F : fieldType) (n : nat) (A dA : 'M[F]_n) (q wq nu dq : 'cV[F]_n)
    (w ww alpha dw : F),
  dense_sys A 1%:M w q wq ww nu alpha -> lin_eig A 1%:M w q dA 0 dw dq -> lin_norm 1%:M q 0 dq ->
  frob wq dq + ww * dw = frob (dense_gA nu q) dA.
Proof. move=> F n A dA q wq nu dq w ww alpha dw. exact: dense_adjoint_noB. Qed.
Print Assumptions C01_eig_dense_adjoint_noB.

(* ---------------------------------------------------------------------------------------------------------------- *)
(* exact difference equations of two eigenpairs; their first-order part is lin_eig / lin_norm *)
Theorem C01_eig_secant_eig : forall (F : fieldType) (n : nat) (A B A' B' : 'M[F]_n) (q q' : 'cV[F]_n) (w w' : F),
  eigpair A B w q -> eigpair A' B' w' q' ->
  (A - w *: B) *m (q' - q) + ((A' - A) - (w' - w) *: B' - w *: (B' - B)) *m q' = 0.
Proof. move=> F n A B A' B' q q' w w'. exact: secant_eig. Qed.
Print Assumptions C01_eig_secant_eig.

Theorem C01_eig_secant_norm : forall (F : fieldType) (n : nat) (B B' : 'M[F]_n) (q q' : 'cV[F]_n),
  normalised B q -> normalised B' q' ->
  sc ((q' - q)^T *m B' *m q') + sc (q^T *m (B' - B) *m q') + sc (q^T *m B *m (q' - q)) = 0.
Proof. move=> F n B B' q q'. exact: secant_norm. Qed.
Print Assumptions C01_eig_secant_norm.

(* exact finite-difference form of the adjoint identity: every term of the remainder is a product of two increments *)
Theorem C01_eig_dense_secant : forall (F : fieldType) (n : nat) (A B A' B' : 'M[F]_n) (q q' wq nu : 'cV[F]_n)
    (w w' ww alpha : F),
  dense_sys A B w q wq ww nu alpha ->
  eigpair A B w q -> eigpair A' B' w' q' -> normalised B q -> normalised B' q' ->
  let dA := A' - A in let dB := B' - B in let dq := q' - q in let dw := w' - w in
  frob wq dq + ww * dw
  = frob (dense_gA nu q) dA + frob (dense_gB w nu alpha q) dB
    + (- sc (nu^T *m dA *m dq) + sc ((w *: nu + (alpha / 2%:R) *: q)^T *m dB *m dq)
       + sc ((dw *: nu + (alpha / 2%:R) *: dq)^T *m (B' *m q' - B *m q))).
Proof. move=> F n A B A' B' q q' wq nu w w' ww alpha. exact: dense_secant. Qed.
Print Assumptions C01_eig_dense_secant.

(* ---------------------------------------------------------------------------------------------------------------- *)
(* _sparse_eigvec_sens / _sparse_eigval_sens, symmetric pencil (PARTIAL: the hypothesis A^T = A, B^T = B is needed,  *)
(* see the refutations below).  2 <> 0 in F: the code divides alpha by 2.                                            *)
(* what the sparse eigenvector routine computes solves the bordered system of _dense_sens with eigenvalue seed 0 *)
Theorem C01_eig_sparse_is_bordered_partial : forall (F : fieldType) (n : nat) (A B : 'M[F]_n) (phi dphi vp : 'cV[F]_n) (lam : F),
  A^T = A -> B^T = B -> (2%:R : F) != 0 ->
  eigpair A B lam phi -> normalised B phi ->
  sp_solve A B lam phi dphi vp ->            (* (A - lam B)^T vp = dphi + alpha B^T phi,  alpha = - phi . dphi *)
  dense_sys A B lam phi dphi 0 (sp_v B phi vp) (sp_alpha phi dphi)
  /\ sp_gA B phi vp = dense_gA (sp_v B phi vp) phi
  /\ sp_gB B lam phi dphi vp = dense_gB lam (sp_v B phi vp) (sp_alpha phi dphi) phi.
Proof.
  move=> F n A B phi dphi vp lam hA hB h2 E N S.
  exact: (conj (sparse_is_bordered hA hB h2 E N S) (conj (sp_gA_dense B phi vp) (sp_gB_dense B lam phi dphi vp))).
Qed.
Print Assumptions C01_eig_sparse_is_bordered_partial.

Theorem C01_eig_sparse_eigvec_adjoint_partial : forall (F : fieldType) (n : nat) (A B dA dB : 'M[F]_n)
    (phi dphi vp dq : 'cV[F]_n) (lam dw : F),
  A^T = A -> B^T = B -> (2%:R : F) != 0 ->
  eigpair A B lam phi -> normalised B phi -> sp_solve A B lam phi dphi vp ->
  lin_eig A B lam phi dA dB dw dq -> lin_norm B phi dB dq ->
  frob dphi dq = frob (sp_gA B phi vp) dA + frob (sp_gB B lam phi dphi vp) dB.
Proof. move=> F n A B dA dB phi dphi vp dq lam dw. exact: sparse_eigvec_adjoint. Qed.
Print Assumptions C01_eig_sparse_eigvec_adjoint_partial.

(* alpha = - phi . dphi is the only value for which the singular system (A - lam B)^T vp = dphi + alpha B^T phi is solvable *)
Theorem C01_eig_sparse_alpha_forced : forall (F : fieldType) (n : nat) (A B : 'M[F]_n) (phi dphi vp : 'cV[F]_n) (lam a : F),
  eigpair A B lam phi -> normalised B phi ->
  (A - lam *: B)^T *m vp = dphi + a *: (B^T *m phi) -> a = sp_alpha phi dphi.
Proof. move=> F n A B phi dphi vp lam a. exact: sp_alpha_forced. Qed.
Print Assumptions C01_eig_sparse_alpha_forced.

Theorem C01_eig_sparse_eigval_adjoint_partial : forall (F : fieldType) (n : nat) (A B dA dB : 'M[F]_n) (q dq : 'cV[F]_n)
    (w ww dw : F),
  A^T = A -> B^T = B -> eigpair A B w q -> qmq B q != 0 ->
  lin_eig A B w q dA dB dw dq -> lin_norm B q dB dq ->
  ww * dw = frob (ev_gA B q ww) dA + frob (ev_gB B w q ww) dB.
Proof. move=> F n A B dA dB q dq w ww dw. exact: sparse_eigval_adjoint. Qed.
Print Assumptions C01_eig_sparse_eigval_adjoint_partial.

(* both seeds, all modes: _sparse_eigvec_sens calls _sparse_eigval_sens first and skips unseeded modes *)
Theorem C01_eig_sparse_total_adjoint_partial : forall (F : fieldType) (n k : nat) (A B dA dB : 'M[F]_n)
    (W : 'I_k -> F) (Q WQ : 'I_k -> 'cV[F]_n) (WW : 'I_k -> F) (VP : 'I_k -> 'cV[F]_n) (DW : 'I_k -> F)
    (DQ : 'I_k -> 'cV[F]_n),
  A^T = A -> B^T = B -> (2%:R : F) != 0 ->
  (forall i, eigpair A B (W i) (Q i)) -> (forall i, normalised B (Q i)) ->
  (forall i, WQ i != 0 -> sp_solve A B (W i) (Q i) (WQ i) (VP i)) ->
  (forall i, lin_eig A B (W i) (Q i) dA dB (DW i) (DQ i)) -> (forall i, lin_norm B (Q i) dB (DQ i)) ->
  \sum_i (frob (WQ i) (DQ i) + WW i * DW i)
  = frob (sparse_total_gA B WQ WW VP Q) dA + frob (sparse_total_gB B WQ WW W VP Q) dB.
Proof. move=> F n k A B dA dB W Q WQ WW VP DW DQ. exact: sparse_total_adjoint. Qed.
Print Assumptions C01_eig_sparse_total_adjoint_partial.

(* B = None: B = I *)
Theorem C01_eig_sparse_eigvec_adjoint_noB_partial : forall (F : fieldType) (n : nat) (A dA : 'M[F]_n)
    (phi dphi vp dq : 'cV[F]_n) (lam dw : F),
  A^T = A -> (2%:R : F) != 0 ->
  eigpair A 1%:M lam phi -> normalised 1%:M phi -> sp_solve A 1%:M lam phi dphi vp ->
  lin_eig A 1%:M lam phi dA 0 dw dq -> lin_norm 1%:M phi 0 dq ->
  frob dphi dq = frob (sp_gA 1%:M phi vp) dA.
Proof. move=> F n A dA phi dphi vp dq lam dw. exact: sparse_eigvec_adjoint_noB. Qed.
Print Assumptions C01_eig_sparse_eigvec_adjoint_noB_partial.

Theorem C01_eig_sparse_eigval_adjoint_noB_partial : forall (F : fieldType) (n : nat) (A dA : 'M[F]_n) (q dq : 'cV[F]_n)
    (w ww dw : F),
  A^T = A -> eigpair A 1%:M w q -> qmq 1%:M q != 0 ->
  lin_eig A 1%:M w q dA 0 dw dq -> lin_norm 1%:M q 0 dq ->
  ww * dw = frob (ev_gA 1%:M q ww) dA.
Proof. move=> F n A dA q dq w ww dw. exact: sparse_eigval_adjoint_noB. Qed.
Print Assumptions C01_eig_sparse_eigval_adjoint_noB_partial.

(* ---------------------------------------------------------------------------------------------------------------- *)
(* non-symmetric pencils: the sparse routines are NOT the adjoint (2 x 2 witness, every field)                       *)
Theorem C01_eig_sparse_eigval_nonsym_refuted : forall F : fieldType,
  exists (A dA : 'M[F]_(1 + 1)) (q dq : 'cV[F]_(1 + 1)) (w ww dw : F),
    [/\ eigpair A 1%:M w q, normalised 1%:M q, lin_eig A 1%:M w q dA 0 dw dq & lin_norm 1%:M q 0 dq]
    /\ ww * dw != frob (ev_gA 1%:M q ww) dA + frob (ev_gB 1%:M w q ww) 0.
Proof. exact: sparse_eigval_nonsym_refuted. Qed.
Print Assumptions C01_eig_sparse_eigval_nonsym_refuted.

Theorem C01_eig_sparse_eigvec_nonsym_refuted : forall F : fieldType,
  exists (A dA : 'M[F]_(1 + 1)) (q dphi vp dq : 'cV[F]_(1 + 1)) (w dw : F),
    [/\ eigpair A 1%:M w q, normalised 1%:M q, lin_eig A 1%:M w q dA 0 dw dq & lin_norm 1%:M q 0 dq]
    /\ sp_solve A 1%:M w q dphi vp
    /\ frob dphi dq != frob (sp_gA 1%:M q vp) dA + frob (sp_gB 1%:M w q dphi vp) 0.
Proof. exact: sparse_eigvec_nonsym_refuted. Qed.
Print Assumptions C01_eig_sparse_eigvec_nonsym_refuted.

(* ---------------------------------------------------------------------------------------------------------------- *)
(* non-vacuity: the hypotheses of the dense theorem are met by a NON-symmetric instance, those of the sparse theorem *)
(* by a symmetric instance whose singular solve has a component along the eigenvector (c <> 0)                       *)
Example C01_eig_dense_nonvacuous : forall F : fieldType,
  exists (A dA : 'M[F]_(1 + 1)) (q wq nu dq : 'cV[F]_(1 + 1)) (w ww alpha dw : F),
    [/\ dense_sys A 1%:M w q wq ww nu alpha, eigpair A 1%:M w q, normalised 1%:M q,
        lin_eig A 1%:M w q dA 0 dw dq & lin_norm 1%:M q 0 dq] /\ A^T != A.
Proof. exact: dense_nonvacuous. Qed.
Print Assumptions C01_eig_dense_nonvacuous.

Example C01_eig_sparse_nonvacuous : forall F : fieldType,
  exists (A dA : 'M[F]_(1 + 1)) (q dphi vp dq : 'cV[F]_(1 + 1)) (w dw : F),
    [/\ A^T = A, eigpair A 1%:M w q, normalised 1%:M q, sp_solve A 1%:M w q dphi vp &
        lin_eig A 1%:M w q dA 0 dw dq /\ lin_norm 1%:M q 0 dq] /\ sp_c 1%:M q vp != 0.
Proof. exact: sparse_nonvacuous. Qed.
Print Assumptions C01_eig_sparse_nonvacuous.
