(* C13 — structured-grid numbering, connectivity and shape functions are consistent.
   Statements only; every proof is `exact <lemma>`; Print Assumptions under each. *)
From Coq Require Import ZArith List Reals.
From Pymoto Require Import Base.Num Model.Grid Model.Shape Proofs.GridP Proofs.ShapeP.
Import ListNotations.
Open Scope Z_scope.

(* element numbers are a bijection between the index box and [0, nel) *)
Theorem C13_elem_bijection_fwd : forall g, wf g -> forall i j k,
  0 <= i < nelx g -> 0 <= j < nely g -> 0 <= k < nz1 g ->
  0 <= elemnumber g i j k < nel g /\
  elem_i g (elemnumber g i j k) = i /\ elem_j g (elemnumber g i j k) = j /\ elem_k g (elemnumber g i j k) = k.
Proof.
  intros g Hwf i j k Hi Hj Hk.
  exact (conj (elem_range g i j k Hi Hj Hk)
        (conj (elem_i_num g i j k Hi) (conj (elem_j_num g i j k Hi Hj) (elem_k_num g Hwf i j k Hi Hj)))).
Qed.
Print Assumptions C13_elem_bijection_fwd.

Theorem C13_elem_bijection_bwd : forall g, wf g -> forall e, 0 <= e < nel g ->
  0 <= elem_i g e < nelx g /\ 0 <= elem_j g e < nely g /\ 0 <= elem_k g e < nz1 g /\
  elemnumber g (elem_i g e) (elem_j g e) (elem_k g e) = e.
Proof. exact elem_num_inv. Qed.
Print Assumptions C13_elem_bijection_bwd.

Theorem C13_node_bijection_fwd : forall g, wf g -> forall i j k,
  0 <= i <= nelx g -> 0 <= j <= nely g -> 0 <= k <= nelz g ->
  0 <= nodenumber g i j k < nnodes g /\
  node_indices g (nodenumber g i j k) = (if nelz g =? 0 then [i; j] else [i; j; k]).
Proof.
  intros g Hwf i j k Hi Hj Hk.
  exact (conj (node_range g i j k Hi Hj Hk) (node_indices_inverse g i j k Hwf Hi Hj Hk)).
Qed.
Print Assumptions C13_node_bijection_fwd.

Theorem C13_node_bijection_bwd : forall g, wf g -> forall n, 0 <= n < nnodes g ->
  0 <= node_i g n <= nelx g /\ 0 <= node_j g n <= nely g /\ 0 <= node_k g n <= nelz g /\
  nodenumber g (node_i g n) (node_j g n) (node_k g n) = n.
Proof. exact node_num_inv. Qed.
Print Assumptions C13_node_bijection_bwd.

(* each element's connectivity lists exactly its 2^dim corner nodes, in the documented local order *)
Theorem C13_conn_corners : forall g i j k, wf g ->
  0 <= i < nelx g -> 0 <= j < nely g -> 0 <= k < nz1 g ->
  conn g (elemnumber g i j k) =
  map (fun c => match c with (a, b, c) => nodenumber g (i + a) (j + b) (k + c) end)
      (if nelz g =? 0 then corners2 else corners3).
Proof. exact conn_corners. Qed.
Print Assumptions C13_conn_corners.

Theorem C13_corners_distinct : forall g i j k, wf g ->
  0 <= i < nelx g -> 0 <= j < nely g -> 0 <= k < nz1 g -> NoDup (conn g (elemnumber g i j k)).
Proof. exact corners_distinct. Qed.
Print Assumptions C13_corners_distinct.

(* the scatter performed by the constructor yields that table *)
Theorem C13_conn_table : forall g e d, wf g -> 0 <= e < nel g ->
  nth (Z.to_nat e) (conn_table g) d = conn g e.
Proof. exact conn_table_nth. Qed.
Print Assumptions C13_conn_table.

(* dof connectivity expands per dof *)
Theorem C13_dofconn : forall ndof row a d, 0 <= d < ndof -> (a < length row)%nat ->
  nth (a * Z.to_nat ndof + Z.to_nat d) (dofconn_row ndof row) 0 = nth a row 0 * ndof + d.
Proof. exact dofconn_row_nth. Qed.
Print Assumptions C13_dofconn.

Theorem C13_dofconn_length : forall ndof row, 0 <= ndof ->
  length (dofconn_row ndof row) = (length row * Z.to_nat ndof)%nat.
Proof. exact dofconn_row_length. Qed.
Print Assumptions C13_dofconn_length.

(* shape functions (over R) *)
Open Scope R_scope.
Theorem C13_partition_of_unity_2d : forall hx hy hz px py pz : R, hx <> 0 -> hy <> 0 ->
  nsum (shape_fun 2 [hx; hy; hz] [px; py; pz]) = 1.
Proof. exact pou2. Qed.
Print Assumptions C13_partition_of_unity_2d.

Theorem C13_partition_of_unity_3d : forall hx hy hz px py pz : R, hx <> 0 -> hy <> 0 -> hz <> 0 ->
  nsum (shape_fun 3 [hx; hy; hz] [px; py; pz]) = 1.
Proof. exact pou3. Qed.
Print Assumptions C13_partition_of_unity_3d.

Theorem C13_kronecker_2d : forall hx hy hz b, hx <> 0 -> hy <> 0 -> (b < 4)%nat ->
  shape_fun 2 [hx; hy; hz] (nodepos [hx; hy; hz] (nth b (node_numbering 2) (0,0,0)%Z)) = delta_row 4 b.
Proof. exact kron2. Qed.
Print Assumptions C13_kronecker_2d.

Theorem C13_kronecker_3d : forall hx hy hz b, hx <> 0 -> hy <> 0 -> hz <> 0 -> (b < 8)%nat ->
  shape_fun 3 [hx; hy; hz] (nodepos [hx; hy; hz] (nth b (node_numbering 3) (0,0,0)%Z)) = delta_row 8 b.
Proof. exact kron3. Qed.
Print Assumptions C13_kronecker_3d.

Theorem C13_nonneg_2d : forall hx hy hz px py pz, 0 < hx -> 0 < hy ->
  - hx / 2 <= px <= hx / 2 -> - hy / 2 <= py <= hy / 2 ->
  Forall (fun v => 0 <= v) (shape_fun 2 [hx; hy; hz] [px; py; pz]).
Proof. exact nonneg2. Qed.
Print Assumptions C13_nonneg_2d.

Theorem C13_nonneg_3d : forall hx hy hz px py pz, 0 < hx -> 0 < hy -> 0 < hz ->
  - hx / 2 <= px <= hx / 2 -> - hy / 2 <= py <= hy / 2 -> - hz / 2 <= pz <= hz / 2 ->
  Forall (fun v => 0 <= v) (shape_fun 3 [hx; hy; hz] [px; py; pz]).
Proof. exact nonneg3. Qed.
Print Assumptions C13_nonneg_3d.

(* N_a(p + t e_d) - N_a(p) = t * dN_{d,a}(p) for every t: the reported derivatives are the gradients *)
Theorem C13_derivative_exact_2d : forall hx hy hz px py pz t d, hx <> 0 -> hy <> 0 -> (d < 2)%nat ->
  map (fun q => fst q - snd q)
      (combine (shape_fun 2 [hx; hy; hz] (bump [px; py; pz] d t)) (shape_fun 2 [hx; hy; hz] [px; py; pz]))
  = map (fun v => t * v) (nth d (shape_der 2 [hx; hy; hz] [px; py; pz]) []).
Proof. exact der_exact2. Qed.
Print Assumptions C13_derivative_exact_2d.

Theorem C13_derivative_exact_3d : forall hx hy hz px py pz t d, hx <> 0 -> hy <> 0 -> hz <> 0 -> (d < 3)%nat ->
  map (fun q => fst q - snd q)
      (combine (shape_fun 3 [hx; hy; hz] (bump [px; py; pz] d t)) (shape_fun 3 [hx; hy; hz] [px; py; pz]))
  = map (fun v => t * v) (nth d (shape_der 3 [hx; hy; hz] [px; py; pz]) []).
Proof. exact der_exact3. Qed.
Print Assumptions C13_derivative_exact_3d.

(* non-vacuity: a concrete 3x2x2 grid meets the hypotheses *)
Example C13_nonvacuous : wf {| nelx := 3; nely := 2; nelz := 2 |} /\
  conn {| nelx := 3; nely := 2; nelz := 2 |} 7 = [13; 14; 17; 18; 25; 26; 29; 30]%Z.
Proof. split; [unfold wf; cbn; repeat split; discriminate | reflexivity]. Qed.
