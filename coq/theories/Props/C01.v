(* C01 — every module's sensitivity is the exact adjoint of its response.
   Statements only.  Families: dispatch (Module.sensitivity), F1 index-linear modules (triple lists),
   F2 scalar-formula modules (Coquelicot derivatives), F3 linear-system modules (secant identities). *)
From Coq Require Import ZArith List Reals.
From Coquelicot Require Import Coquelicot.
From Pymoto Require Import Base.Num Base.SparseLin Model.Dispatch Model.Formulas
     Proofs.DispatchP Proofs.FormulasP.
Import ListNotations.

(* ---- dispatch: sensitivity() adds to every input exactly the module's contribution; an unseeded module
        (all output sensitivities None) adds nothing; unseeded outputs reach the adjoint as None (= 0) ---- *)
Theorem C01_dispatch_adds : forall (V : Type) (vplus : V -> V -> V) (vzero : V),
  (forall a b c, vplus a (vplus b c) = vplus (vplus a b) c) ->
  (forall a b, vplus a b = vplus b a) -> (forall a, vplus a vzero = a) ->
  forall (e : env V) (m : modl V) (i : nat), wf_mod V e m ->
  den V vzero (se (get (sensitivity vplus e m) i)) =
  if unseeded e m then den V vzero (se (get e i))
  else vplus (den V vzero (se (get e i))) (csum V vplus vzero i (contributions e m)).
Proof. exact sensitivity_adds. Qed.
Print Assumptions C01_dispatch_adds.

(* ---- F1: a module whose response is `apply T` and whose sensitivity is `apply (transpose T)` satisfies
        <w, T v> = <T^T w, v> for ALL seeds w and directions v (any commutative ring: Z, R, C as pairs).
        For an (affine-)linear module this IS the property: D_v <w, y> = <w, T v>.  The tie (checked on every run)
        establishes response = const + apply T and sensitivity = apply (transpose T) for the implementation. ---- *)
Theorem C01_F1_adjoint : forall (K : Type) (HK : Num K),
  ring_theory (@nzero K HK) none_ nadd nmul nsub nopp (@eq K) ->
  forall (T : list (@triple K)) (m n : nat) (w x : list K),
  tbounded m n T -> length w = m -> length x = n ->
  dot w (apply T m x) = dot (apply (transpose T) n w) x.
Proof. exact @apply_adjoint. Qed.
Print Assumptions C01_F1_adjoint.

Theorem C01_F1_response_linear : forall (K : Type) (HK : Num K),
  ring_theory (@nzero K HK) none_ nadd nmul nsub nopp (@eq K) ->
  forall (T : list (@triple K)) (m : nat) (x1 x2 : list K), length x1 = length x2 ->
  apply T m (vadd x1 x2) = vadd (apply T m x1) (apply T m x2).
Proof. exact @apply_add. Qed.
Print Assumptions C01_F1_response_linear.

(* ---- F2: formula modules (real arithmetic, vectors of ANY length, arbitrary direction v) ---- *)
Open Scope R_scope.
Theorem C01_F2_ks : forall rho xs vs, rho <> 0 -> xs <> [] -> length xs = length vs ->
  is_derive (fun t => ks rho (line xs vs t)) 0 (rdot (ks_grad rho xs) vs).
Proof. exact ks_derive. Qed.
Print Assumptions C01_F2_ks.

Theorem C01_F2_pnorm : forall p xs vs, p <> 0 -> xs <> [] -> length xs = length vs ->
  List.Forall (fun x => 0 < x) xs ->
  is_derive (fun t => pnorm p (line xs vs t)) 0 (rdot (pnorm_grad p xs) vs).
Proof. exact pnorm_derive. Qed.
Print Assumptions C01_F2_pnorm.

Theorem C01_F2_softminmax : forall alpha xs vs, xs <> [] -> length xs = length vs ->
  is_derive (fun t => softmm alpha (line xs vs t)) 0 (rdot (softmm_grad alpha xs) vs).
Proof. exact softmm_derive. Qed.
Print Assumptions C01_F2_softminmax.

(* the Aggregation wrapper (scale factor and active set are constants of the current evaluation, as in the code) *)
Theorem C01_F2_aggregation_wrapper : forall sf dfdy (f : list R -> R) (g xs vs : list R),
  is_derive (fun t => f (line xs vs t)) 0 (rdot g vs) ->
  is_derive (fun t => dfdy * agg_resp sf f (line xs vs t)) 0 (rdot (agg_sens sf dfdy g) vs).
Proof. exact agg_wrapper_derive. Qed.
Print Assumptions C01_F2_aggregation_wrapper.

Theorem C01_F2_complexnorm : forall a b va vb dA, a * a + b * b <> 0 ->
  is_derive (fun t => dA * cnorm (a + t * va) (b + t * vb)) 0
            (cnorm_sens_re dA a b * va - cnorm_sens_im dA a b * vb).
Proof. exact cnorm_derive. Qed.
Print Assumptions C01_F2_complexnorm.

Theorem C01_F2_scaling : forall mode sf lim x v dy, lim <> 0 ->
  is_derive (fun t => dy * scaling_resp mode sf lim (x + t * v)) 0 (scaling_sens mode sf lim dy * v).
Proof. exact scaling_derive. Qed.
Print Assumptions C01_F2_scaling.

(* non-vacuity: a concrete triple list meets the hypotheses of C01_F1_adjoint and the identity evaluates *)
Example C01_nonvacuous :
  let T := [(0, 1, 2%Z); (1, 0, (-3)%Z); (1, 2, 5%Z)]%nat in
  tboundedb 2 3 T = true /\
  dot [7; 11]%Z (apply T 2 [1; 2; 3]%Z) = dot (apply (transpose T) 3 [7; 11]%Z) [1; 2; 3]%Z.
Proof. split; reflexivity. Qed.
