(* C14 (continued) - the statement that needs the Interval tactic.  Statements only.
   Kept apart from Props/C14.v so that the other theorems of C14 do not depend on the Interval / Coquelicot / Flocq
   libraries (their independent re-check with coqchk then fits the time budget of the thorough tier). *)
From Coq Require Import ZArith List Reals.
From Pymoto Require Import Model.Grid Model.Overhang Proofs.OverhangP.
Open Scope R_scope.

(* 9. The default parameters p = 40, xi_0 = 1/2, eps = 1e-4 with float64 (tiny = 2^-1022) and nsampling 3/5/9 meet
      every premise used above (this is also the non-vacuity witness for them), and the bound of
      C14_unsupported_input_removed is then below 0.01.  Proved with the Interval tactic.                          *)
Theorem C14_default_parameters : forall n, n = 3 \/ n = 5 \/ n = 9 ->
  let q := q_of 40 n (1 / 2) in
  let s := shift_of 40 dbl_tiny in
  let b := backshift_of n 40 q s in
  0 < q <= 40 /\ 0 < s /\ 0 <= b < s /\ b <= Rpower (1 + s) (40 / q) - 1 /\
  Rpower n (1 / q) * Rpower (sqrt (1 / 10000) / 2 + s) (40 / q) - b + sqrt (1 / 10000) / 2 <= 1 / 100.
Proof. exact default_params. Qed.
Print Assumptions C14_default_parameters.
