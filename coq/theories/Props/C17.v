(* C17 -- The optimality-criteria update keeps bounds, move limit and volume.
   Statements only; every proof is `exact <lemma>`; Print Assumptions under each.

   Model/OC.v models pymoto.routines.minimize_oc over an abstract number signature; the theorems are about its
   real-number instance ROOps (sqrt = the real square root), the instance FloatOOps (IEEE binary64) is executed
   bit-exactly in the correspondence check.  The network is a parameter `obs` (objective value and sensitivities
   observed at iteration `it` for the states held by the variable signals): nothing is assumed about it except
   that sensitivities have the size of their states.  Loops are fuelled; out-of-fuel is an explicit result. *)
From Coq Require Import ZArith List Bool Reals.
From Pymoto Require Import Model.MMAvars Proofs.MMAvarsP Proofs.ConcatTypedP Model.Concat Model.OC Proofs.ConcatP Proofs.OCP.
Import ListNotations.
Open Scope R_scope.

(* ---------------------------------------------------------------- bounds and move limit *)
(* one entry: for EVERY multiplier lam (even a nonsensical one) and EVERY gradient value *)
Theorem C17_bounds_entry : forall lam mv xmn xmx x g, xmn <= x <= xmx -> 0 <= mv ->
  xmn <= oc_elem ROOps lam mv xmn xmx x g <= xmx /\
  x - mv <= oc_elem ROOps lam mv xmn xmx x g <= x + mv.
Proof. exact oc_elem_box. Qed.
Print Assumptions C17_bounds_entry.

(* the vector update, scalar or per-variable bounds *)
Theorem C17_bounds_and_move : forall (pr : @oc_params R) lam (x g : list R),
  in_box pr x -> 0 <= move pr -> length g = length x ->
  in_box pr (oc_xnew ROOps pr lam x g) /\ within_move (move pr) x (oc_xnew ROOps pr lam x g).
Proof. exact oc_xnew_box. Qed.
Print Assumptions C17_bounds_and_move.

(* positive sensitivities are clipped: the gradient used by the update is non-positive *)
Theorem C17_gradient_clipped : forall g : list R, nonpos (clip_grad ROOps g) /\ length (clip_grad ROOps g) = length g.
Proof. exact clip_grad_nonpos. Qed.
Print Assumptions C17_gradient_clipped.

(* the whole run, every iteration, every network: all designs produced (the design at each response() call
   and the final one) lie in the box; consecutive designs differ by at most the move limit in every entry; at
   each response() call the variable signals hold exactly the pieces of the current design; the first design
   is the concatenation of the initial states *)
Theorem C17_iterates_in_box : forall (pr : @oc_params R) obs maxvol bfuel vars t,
  0 <= move pr ->
  (forall it st g c, concatenate_to_array (obtain_sensitivities ROOps (snd (obs it st)) st) = Some (g, c) ->
                     length g = length (concat (map pflat st))) ->
  in_box pr (concat (map pflat vars)) ->
  minimize_oc ROOps pr obs maxvol bfuel vars = Some t ->
  Forall (design_ok pr vars) (designs t) /\
  Forall (in_box pr) (all_designs t) /\ chain (move pr) (all_designs t) /\
  concat (map pflat (final_states t)) = final t /\
  hd_error (all_designs t) = Some (concat (map pflat vars)).
Proof. exact minimize_oc_invariant. Qed.
Print Assumptions C17_iterates_in_box.

(* ---------------------------------------------------------------- volume and bisection *)
Theorem C17_volume_monotone : forall (pr : @oc_params R) lam lam' (x g : list R),
  0 < lam <= lam' -> nonneg x -> nonpos g -> length g = length x ->
  osum ROOps (oc_xnew ROOps pr lam' x g) <= osum ROOps (oc_xnew ROOps pr lam x g).
Proof. exact volume_antitone. Qed.
Print Assumptions C17_volume_monotone.

(* loop invariant and exit condition of the bisection (over R the no-representable-midpoint guard of fix bd6675c never
   fires when l1l2tol >= 0; bis_post: l1 <= a <= b <= l2, b - a <= l1l2tol, the
   interval was halved k times, an end that moved carries its volume test, and the design bound to xnew is the
   update at the end that moved last) *)
Theorem C17_bisection_invariant : forall (pr : @oc_params R) maxvol (x g : list R), 0 <= l1l2tol pr ->
  forall fuel l1 l2 last a b lst,
  l1 <= l2 -> bisect ROOps pr maxvol x g fuel l1 l2 last = BisDone a b lst ->
  bis_post pr maxvol x g l1 l2 last a b lst.
Proof. exact bisect_invariant. Qed.
Print Assumptions C17_bisection_invariant.

(* termination with the explicit step count: k halvings suffice when (l2 - l1)/2^k <= l1l2tol; such a k
   exists for every positive tolerance *)
Theorem C17_bisection_terminates : forall (pr : @oc_params R) maxvol (x g : list R), 0 <= l1l2tol pr ->
  forall k fuel l1 l2 last,
  (l2 - l1) / 2 ^ k <= l1l2tol pr -> (k <= fuel)%nat ->
  bisect ROOps pr maxvol x g fuel l1 l2 last <> BisOutOfFuel.
Proof. exact bisect_terminates. Qed.
Print Assumptions C17_bisection_terminates.

Theorem C17_bisection_step_count_exists : forall (pr : @oc_params R) (w : R), 0 < l1l2tol pr ->
  exists k : nat, w / 2 ^ k <= l1l2tol pr.
Proof. exact halvings_exist. Qed.
Print Assumptions C17_bisection_step_count_exists.

(* the bracket-growing loop of the repaired code (finding F19): it ends (k steps suffice once l2init * 10^k >= 1e40,
   and such a k exists for every positive l2init), and whenever the target volume is reachable from below within the
   move limits -- sum_i max(xmin_i, x_i - move) <= maxvol -- the grown multiplier (unless it hit 1e40) gives a
   volume <= maxvol, i.e. the bisection starts bracketed from above *)
Theorem C17_bracket_growing_terminates : forall (pr : @oc_params R) maxvol (x g : list R) k fuel l2 xn0,
  10 ^ 40 <= l2 * 10 ^ k -> (k <= fuel)%nat -> grow ROOps pr maxvol x g fuel l2 xn0 <> GrowOutOfFuel.
Proof. exact grow_terminates. Qed.
Print Assumptions C17_bracket_growing_terminates.

Theorem C17_bracket_growing_step_count_exists : forall l2 : R, 0 < l2 -> exists k : nat, 10 ^ 40 <= l2 * 10 ^ k.
Proof. exact growth_steps_exist. Qed.
Print Assumptions C17_bracket_growing_step_count_exists.

Theorem C17_bracket_growing_reaches_volume : forall (pr : @oc_params R) maxvol (x g : list R) fuel l2 l2g xng,
  in_box pr x -> 0 <= move pr -> length g = length x ->
  grow ROOps pr maxvol x g fuel l2 (oc_xnew ROOps pr l2 x g) = GrowDone l2g xng ->
  osum ROOps (oc_lower ROOps pr x) <= maxvol -> l2g < 10 ^ 40 ->
  xng = oc_xnew ROOps pr l2g x g /\ osum ROOps (oc_xnew ROOps pr l2g x g) <= maxvol.
Proof. exact grow_brackets. Qed.
Print Assumptions C17_bracket_growing_reaches_volume.

(* "volume equal to the prescribed maximum to bisection tolerance whenever reachable within the move limits":
   one OC step (growing + bisection).  If the volume is reachable from below within the move limits, the multiplier
   did not hit 1e40 and the lower end of the interval moved (reachable from above inside the interval), the new
   design is the update at one end of a final interval [a, b] with b - a <= l1l2tol and vol(b) <= maxvol < vol(a),
   so its volume differs from maxvol by at most vol(a) - vol(b) *)
Theorem C17_volume_to_bisection_tolerance_partial : forall (pr : @oc_params R) maxvol (x g : list R) gfuel bfuel l2g xng a b xnew,
  in_box pr x -> 0 <= move pr -> nonneg x -> nonpos g -> length g = length x ->
  0 <= l1l2tol pr -> 0 <= l1init pr <= l2init pr ->
  grow ROOps pr maxvol x g gfuel (l2init pr) (oc_xnew ROOps pr (l2init pr) x g) = GrowDone l2g xng ->
  bisect ROOps pr maxvol x g bfuel (l1init pr) l2g (Some xng) = BisDone a b (Some xnew) ->
  osum ROOps (oc_lower ROOps pr x) <= maxvol -> l2g < 10 ^ 40 -> a <> l1init pr ->
  let vol := fun lam => osum ROOps (oc_xnew ROOps pr lam x g) in
  l1init pr < a <= b /\ b - a <= l1l2tol pr /\
  (xnew = oc_xnew ROOps pr a x g \/ xnew = oc_xnew ROOps pr b x g) /\
  vol b <= maxvol < vol a /\ vol b <= osum ROOps xnew <= vol a /\
  Rabs (osum ROOps xnew - maxvol) <= vol a - vol b.
Proof. exact oc_step_volume. Qed.
Print Assumptions C17_volume_to_bisection_tolerance_partial.
(* partial: the size of vol(a) - vol(b) for a given l1l2tol depends on the data (no Lipschitz bound is proved);
   the observed volume gap is validated on the implementation by the check. *)

(* ---------------------------------------------------------------- separable problems sum c_i / x_i *)
(* the analytic optimum is a fixed point of the update and has the prescribed volume *)
Theorem C17_fixed_point_partial : forall (pr : @oc_params R) (c : list R) (V : R),
  (forall ci, In ci c -> 0 < ci) -> c <> [] -> 0 < V -> 0 <= move pr ->
  let S := fold_right Rplus 0 (map sqrt c) in
  let xs := map (fun ci => V / S * sqrt ci) c in
  let g := map (fun ci => - ci / (V / S * sqrt ci) ^ 2) c in
  in_box pr xs ->
  oc_xnew ROOps pr ((S / V) ^ 2) xs g = xs /\ osum ROOps xs = V.
Proof. exact oc_fixed_point. Qed.
Print Assumptions C17_fixed_point_partial.
(* partial: "the iteration converges to the analytic optimum" -- only the fixed point is proved; convergence
   of the iterates is validated on the implementation by the check. *)

(* ---------------------------------------------------------------- concatenation and write-back *)
Theorem C17_concatenate_spec : forall (K : Type) (vars : list (pstate K)),
  concatenate_to_array vars =
    if no_none vars then Some (concat (map pflat vars), 0%Z :: cumlens 0 (map pflat vars)) else None.
Proof. exact @concatenate_spec. Qed.
Print Assumptions C17_concatenate_spec.

Theorem C17_split_concat : forall (K : Type) (vars : list (pstate K)) vals cum,
  concatenate_to_array vars = Some (vals, cum) -> split_from_array vals cum = Some (map pflat vars).
Proof. exact @split_concat. Qed.
Print Assumptions C17_split_concat.

(* the write-back ranges [cum_i, cum_(i+1)) partition [0, n) *)
Theorem C17_writeback_ranges_partition : forall (K : Type) (vars : list (pstate K)) vals cum,
  concatenate_to_array vars = Some (vals, cum) ->
  length cum = S (length vars) /\ nth 0 cum 0%Z = 0%Z /\ last cum 0%Z = Z.of_nat (length vals) /\
  forall i, (i < length vars)%nat ->
    (nth (S i) cum 0 - nth i cum 0)%Z = Z.of_nat (length (pflat (nth i vars PNone))) /\
    (0 <= nth i cum 0 <= nth (S i) cum 0)%Z.
Proof. exact @ranges_partition. Qed.
Print Assumptions C17_writeback_ranges_partition.

(* a new design written back reaches the right signals: signal i receives a piece of its own length, and the
   pieces concatenated are the new design *)
Theorem C17_write_back_roundtrip : forall (K : Type) (vars : list (pstate K)) vals cum (xnew : list K),
  concatenate_to_array vars = Some (vals, cum) -> length xnew = length vals ->
  concat (map pflat (write_back (length vars) xnew cum)) = xnew /\
  map (fun s => length (pflat s)) (write_back (length vars) xnew cum) = map (fun v => length (pflat v)) vars.
Proof. exact @write_back_roundtrip. Qed.
Print Assumptions C17_write_back_roundtrip.

(* ---------------------------------------------------------------- the design vector with dtypes
   pymoto.utils._concatenate_to_array is regenerated from the source on every run against the TYPED model of
   Model/MMAvars.v (bridge/C17/UtilsBridge.v).  That model and the untyped one above agree, and its result is float64
   whatever the dtypes (int32 / int64 / float32 / float64; Python int = int64) of the variable signals' states. *)
Theorem C17_typed_concat_is_concat : forall (K : Type) (vs : list (MMAvars.tstate K)),
  option_map (fun r => (snd (fst r), map Z.of_nat (snd r))) (MMAvars.concat_to_array_t idc vs)
  = concatenate_to_array (map to_pstate vs).
Proof. exact @typed_concat_is_Concat. Qed.
Print Assumptions C17_typed_concat_is_concat.

Theorem C17_design_vector_float64 : forall (K : Type) (conv : MMAvars.dtype -> MMAvars.dtype -> K -> K) (vs : list (MMAvars.tstate K)) r,
  MMAvars.concat_to_array_t conv vs = Some r -> fst (fst r) = MMAvars.F64.
Proof. exact @MMAvarsP.concat_t_dtype. Qed.
Print Assumptions C17_design_vector_float64.

(* ---------------------------------------------------------------- non-vacuity *)
(* the default parameters l1init = 0, l2init = 100000, l1l2tol = 1e-4 meet the termination hypothesis with k = 30 *)
Example C17_nonvacuous_default_step_count : (100000 - 0) / 2 ^ 30 <= 1 / 10000.
Proof. exact default_step_count. Qed.

(* an executed run (binary64): two variable signals (one scalar, one array), objective sum c_i/x_i with
   c = (1, 4, 9), default parameters with maxit = 3; the run reaches the analytic optimum (0.25, 0.5, 0.75) and stops on the step-size test at the third response *)
Example C17_nonvacuous_run :
  exists t, minimize_oc FloatOOps demo_params demo_obs None 200 demo_vars = Some t /\
            stop t = StopTolX /\ length (designs t) = 3%nat /\ length (final t) = 3%nat /\
            warns t = [false; false; false].
Proof. exact demo_run. Qed.

(* integer-typed states (an int64 array and a Python int): the design vector is float64 *)
Example C17_nonvacuous_integer_states :
  MMAvars.concat_to_array_t idc [MMAvars.TVal MMAvars.I64 (MMAvars.Arr [1; 2]%Z); MMAvars.TVal MMAvars.I64 (MMAvars.Scal 1%Z)]
  = Some ((MMAvars.F64, [1; 2; 1]%Z), [0; 2; 3]%nat).
Proof. vm_compute. reflexivity. Qed.
