From Coq Require Import ZArith QArith Qcanon List Bool.
From Pymoto Require Import Model.FD Proofs.FDP.
Import ListNotations.
