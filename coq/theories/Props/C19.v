(* C19 — finite_difference is a faithful and non-destructive derivative check.
   Statements only; every proof is `exact <lemma>`; Print Assumptions under each; examples at the end.
   Model: Model/FD.v.  Vocabulary (Proofs/FDP.v):
     collect imag x0 c sf iin k outps f0 df dxan s   the tuples handed to test_fn for one perturbed state s
     outinfo = (o_ref, o_f0, o_w, o_dx)              output of interest: its reference, its unperturbed value, the seed
                                                     used for it and the input sensitivities recorded for it
     mk_report imag x0 c iin k o g                   the tuple (x0, dx, Re/Im entry k of the recorded sensitivity of input iin,
                                                     Re/Im g)
     affine_re / affine_im / quadratic_re            the response is affine (holomorphic) / of degree 2 along the perturbed entry
     resp_pres blk j                                 the sub-network does not write the state of Signal j
     direct_sig blk j                                Signal j is (directly) an input or output of a module of blk
     start_store blk inps s                          the store after blk.reset(); [s.reset() for s in inps]
     out_sig blk inps outps s j                      Signal j is an output of interest that has a value when the
                                                     analytical pass starts (a None output is skipped with a warning)
     se_free inps s s'                               s and s' are equal except for the sensitivity held by Signals that
                                                     are inputs of interest and keep no allocation
     clean o                                         o is None or an all-zero value *)
From Coq Require Import ZArith QArith Qcanon List Bool.
From Pymoto Require Import Base.Cmp Model.FD Proofs.FDP.
Import ListNotations.
Local Open Scope Qc_scope.

(* ------------------------------------------------------------------ 1. the report list *)
(* for a perturbed state: exactly one tuple per output of interest, in order, carrying the original entry x0, dx, the
   real (imaginary) part of the stored backpropagated sensitivity entry and the real (imaginary) part of
   sum( ((f(x+delta) - f(x)) / delta) * seed ) with delta = dx*sf (i*dx*sf) *)
Theorem C19_reports : forall imag x0 c sf iin k s (os : list outinfo) (fps : list val),
  Forall2 (fun o fp => get_state (o_ref o) s = Some fp) os fps ->
  collect imag x0 c sf iin k (map o_ref os) (map (fun o => Some (o_f0 o)) os) (map (fun o => Some (o_w o)) os)
          (map o_dx os) s
  = map (fun ofp =>
           let d := map2 ksub (v_dat (snd ofp)) (v_dat (o_f0 (fst ofp))) in
           let dfv := if imag then map (fun a => kdivi a (c_dx c * sf)) d else map (fun a => kdivr a (c_dx c * sf)) d in
           mk_report imag x0 c iin k (fst ofp) (dot dfv (v_dat (o_w (fst ofp)))))
        (combine os fps).
Proof. exact collect_spec. Qed.
Print Assumptions C19_reports.

(* which entries are perturbed: in np.nditer order; zero entries of ARRAYS are skipped when keep_zero_structure is set
   (python / numpy scalar states are always perturbed); per entry a real pass, then for complex dtype an imaginary
   pass, each: perturb -> response -> tuples -> restore; the scale factor is |x0| for relative_dx and x0 <> 0 *)
Theorem C19_entry_skipped : forall c blk si iin outps f0 df dxan x k ks s,
  kzero (nth k (v_dat x) k0) && c_keepzero c && is_arr x = true ->
  perturb_entries c blk si iin outps f0 df dxan x (k :: ks) s = perturb_entries c blk si iin outps f0 df dxan x ks s.
Proof. exact perturb_entries_skip. Qed.
Print Assumptions C19_entry_skipped.

Theorem C19_entry_perturbed : forall c blk si iin outps f0 df dxan x k ks s,
  kzero (nth k (v_dat x) k0) && c_keepzero c && is_arr x = false ->
  let x0 := nth k (v_dat x) k0 in
  let sf := if c_rel c && negb (Qc_eqb (kabs x0) 0) then kabs x0 else 1 in
  let s2 := n_response blk (set_state si (with_entry x k (kaddr x0 (c_dx c * sf))) s) in
  let s3 := set_state si (with_entry x k x0) s2 in
  let s5 := n_response blk (set_state si (with_entry x k (kaddi x0 (c_dx c * sf))) s3) in
  let s6 := if v_cx x then set_state si (with_entry x k x0) s5 else s3 in
  snd (perturb_entries c blk si iin outps f0 df dxan x (k :: ks) s) =
    collect false x0 c sf iin k outps f0 df dxan s2 ++
    (if v_cx x then collect true x0 c sf iin k outps f0 df dxan s5 else []) ++
    snd (perturb_entries c blk si iin outps f0 df dxan x ks s6) /\
  fst (perturb_entries c blk si iin outps f0 df dxan x (k :: ks) s) =
    fst (perturb_entries c blk si iin outps f0 df dxan x ks s6).
Proof. exact perturb_entries_step. Qed.
Print Assumptions C19_entry_perturbed.

(* what one iteration of the analytical pass does for an output that has a value: it records the value, the input
   sensitivities obtained by backpropagating the seed, and THE SAME seed (unconditionally: a deep copy is installed on
   the output, so no reset can reach the recorded one); the rest of the pass runs on the remaining outputs from the
   store after blk.reset(); Sout.reset(), with the remaining random numbers *)
Theorem C19_analytical_pass : forall c blk inps so outps iout rand s output,
  get_state so s = Some output ->
  let df := fst (make_seed c iout output rand) in
  let s2 := n_sensitivity blk (set_sens so (Some df) s) in
  let a := analytical c blk inps (so :: outps) iout rand s in
  let a' := analytical c blk inps outps (S iout) (snd (make_seed c iout output rand)) (reset_sig so (n_reset blk s2)) in
  (hd None (a_f0 a) = Some output /\
   hd [] (a_dx a) = map (fun si => get_sens si s2) inps /\
   hd None (a_df a) = Some df) /\
  a_f0 a = Some output :: a_f0 a' /\ a_dx a = map (fun si => get_sens si s2) inps :: a_dx a' /\
  a_df a = Some df :: a_df a' /\ a_store a = a_store a'.
Proof. exact analytical_head. Qed.
Print Assumptions C19_analytical_pass.

(* an output whose state is None is skipped: nothing recorded, no sensitivity touched *)
Theorem C19_analytical_pass_none_output : forall c blk inps so outps iout rand s,
  get_state so s = None ->
  let a := analytical c blk inps (so :: outps) iout rand s in
  let a' := analytical c blk inps outps (S iout) rand s in
  a_f0 a = None :: a_f0 a' /\ a_dx a = map (fun _ => None) inps :: a_dx a' /\ a_df a = None :: a_df a' /\
  a_store a = a_store a'.
Proof. exact analytical_skip. Qed.
Print Assumptions C19_analytical_pass_none_output.

(* ------------------------------------------------------------------ 2. exactness on (affine-)linear responses, any dx <> 0 *)
Theorem C19_linear_exact : forall x0 c sf iin k s (os : list outinfo) (Js : list (list K)),
  c_dx c * sf <> 0 ->
  Forall2 (affine_re (c_dx c * sf) s) os Js ->
  collect false x0 c sf iin k (map o_ref os) (map (fun o => Some (o_f0 o)) os) (map (fun o => Some (o_w o)) os)
          (map o_dx os) s
  = map (fun oj => mk_report false x0 c iin k (fst oj) (dot (snd oj) (v_dat (o_w (fst oj))))) (combine os Js).
Proof. exact collect_linear_exact. Qed.
Print Assumptions C19_linear_exact.

Theorem C19_linear_exact_imaginary : forall x0 c sf iin k s (os : list outinfo) (Js : list (list K)),
  c_dx c * sf <> 0 ->
  Forall2 (affine_im (c_dx c * sf) s) os Js ->
  collect true x0 c sf iin k (map o_ref os) (map (fun o => Some (o_f0 o)) os) (map (fun o => Some (o_w o)) os)
          (map o_dx os) s
  = map (fun oj => mk_report true x0 c iin k (fst oj) (dot (snd oj) (v_dat (o_w (fst oj))))) (combine os Js).
Proof. exact collect_linear_exact_imag. Qed.
Print Assumptions C19_linear_exact_imaginary.

(* hence: a tuple matches exactly when the claimed sensitivity entry equals the true one (detects / accepts) *)
Theorem C19_detects_and_accepts : forall imag x0 c iin k o (truth : K),
  let r := mk_report imag x0 c iin k o truth in
  r_an r = r_fd r <->
  (if imag then kim (an_entry (nth iin (o_dx o) None) k) = kim truth
   else kre (an_entry (nth iin (o_dx o) None) k) = kre truth).
Proof. exact report_match_iff. Qed.
Print Assumptions C19_detects_and_accepts.

(* degree-2 responses: numerical value = exact derivative + dx*sf * (second-order term): the O(dx) clause, exactly *)
Theorem C19_quadratic_error : forall x0 c sf iin k s (os : list outinfo) (JHs : list (list K * list K)),
  c_dx c * sf <> 0 ->
  Forall2 (fun o jh => quadratic_re (c_dx c * sf) s o (fst jh) (snd jh)) os JHs ->
  collect false x0 c sf iin k (map o_ref os) (map (fun o => Some (o_f0 o)) os) (map (fun o => Some (o_w o)) os)
          (map o_dx os) s
  = map (fun oj =>
           let w := v_dat (o_w (fst oj)) in
           mk_report false x0 c iin k (fst oj)
                     (kadd (dot (fst (snd oj)) w) (kscale (c_dx c * sf) (dot (snd (snd oj)) w))))
        (combine os JHs).
Proof. exact collect_quadratic_error. Qed.
Print Assumptions C19_quadratic_error.

(* ------------------------------------------------------------------ 3. non-destructive *)
(* after the call every Signal the sub-network does not write (in particular every input) holds exactly the state it
   held before — also through slices (basic and integer-array, repeat-free) *)
Theorem C19_restores_states : forall c blk inps outps s res j,
  finite_difference c false blk inps outps s = inr res ->
  Forall ref_wf inps -> Forall (fun si => (s_root si < length s)%nat) inps -> resp_pres blk j ->
  st (getsig (f_store res) j) = st (getsig s j).
Proof. exact fd_restores. Qed.
Print Assumptions C19_restores_states.

Theorem C19_inputs_are_not_written : forall blk j,
  Forall (fun m => Forall (fun r => s_root r <> j) (m_out m)) blk -> resp_pres blk j.
Proof. exact resp_pres_not_output. Qed.
Print Assumptions C19_inputs_are_not_written.

(* the invariant behind it: one perturb / evaluate / restore window leaves the root exactly as it was *)
Theorem C19_perturbation_window : forall blk si s b k a,
  ref_wf si -> (s_root si < length s)%nat -> st (getsig s (s_root si)) = Some b -> resp_pres blk (s_root si) ->
  let x := xval si b in
  let s2 := n_response blk (set_state si (with_entry x k a) s) in
  let s3 := set_state si (with_entry x k (nth k (v_dat x) k0)) s2 in
  st (getsig s3 (s_root si)) = Some b /\ length s3 = length s /\
  (forall j, j <> s_root si -> st (getsig s3 j) = st (getsig s2 j)).
Proof. exact entry_roundtrip. Qed.
Print Assumptions C19_perturbation_window.

(* no sensitivity is left set (None, or zeros where an allocation is kept): on every Signal of the sub-network, and on
   EVERY output of interest that has a value — also one that is not a signal of any executed module (a tosig produced
   upstream of the selected sub-network) *)
Theorem C19_no_sensitivity_left : forall c blk inps outps s res j,
  finite_difference c false blk inps outps s = inr res -> direct_sig blk j \/ out_sig blk inps outps s j ->
  clean (se (getsig (f_store res) j)).
Proof. exact fd_leaves_clean. Qed.
Print Assumptions C19_no_sensitivity_left.

(* ... and none is created anywhere: ANY Signal (sub-network, upstream, downstream, unrelated, base of a slice) that was
   clean before the call is clean after it *)
Theorem C19_no_sensitivity_created : forall c blk inps outps s res j,
  finite_difference c false blk inps outps s = inr res -> clean (se (getsig s j)) ->
  clean (se (getsig (f_store res) j)).
Proof. exact fd_keeps_clean. Qed.
Print Assumptions C19_no_sensitivity_created.

(* both, for a Network with fromsig / tosig *)
Theorem C19_network_no_sensitivity_left : forall c mods inps outps s res i1 i2 j,
  find_first inps mods 0 = Some i1 -> find_last outps mods 0 None = Some i2 ->
  finite_difference c true mods inps outps s = inr res ->
  let blk := firstn (S i2 - i1) (skipn i1 mods) in
  direct_sig blk j \/ out_sig blk inps outps (n_response (firstn i1 mods) s) j \/ clean (se (getsig s j)) ->
  clean (se (getsig (f_store res) j)).
Proof. exact fd_network_leaves_clean. Qed.
Print Assumptions C19_network_no_sensitivity_left.

(* the inputs of interest (fixed finding F27). Whatever sensitivity the caller left on them — also on entries the executed
   modules do not use or use only through slices — every input of interest is clean (a Signal: its whole sensitivity; a
   slice: the entries it addresses) when blk.response() and the analytical pass start ... *)
Theorem C19_inputs_start_clean : forall blk inps s si,
  In si inps -> clean (get_sens si (start_store blk inps s)).
Proof. exact start_store_inputs_clean. Qed.
Print Assumptions C19_inputs_start_clean.

(* ... stays clean over every iteration of the analytical pass (seed, backpropagate, blk.reset(), Sout.reset()), so that
   what C19_analytical_pass records for it is the backpropagated sensitivity of the seed and nothing else ... *)
Theorem C19_iteration_keeps_inputs_clean : forall blk so df s si,
  clean (get_sens si s) ->
  clean (get_sens si (reset_sig so (n_reset blk (n_sensitivity blk (set_sens so (Some df) s))))).
Proof. exact iteration_inputs_clean. Qed.
Print Assumptions C19_iteration_keeps_inputs_clean.

(* ... and is clean after the call (Module or Network) *)
Theorem C19_inputs_left_clean : forall c isnet mods inps outps s res si,
  finite_difference c isnet mods inps outps s = inr res -> In si inps -> clean (get_sens si (f_store res)).
Proof. exact fd_inputs_left_clean. Qed.
Print Assumptions C19_inputs_left_clean.

(* independence: the complete result — every tuple (analytical and numerical values), the final store, the seeds — is the
   same for two stores that differ only in the sensitivity left on Signals that are inputs of interest (no kept allocation) *)
Theorem C19_independent_of_input_sensitivities : forall c isnet mods inps outps s s',
  se_free inps s s' ->
  finite_difference c isnet mods inps outps s' = finite_difference c isnet mods inps outps s.
Proof. exact fd_independent_of_input_sensitivities. Qed.
Print Assumptions C19_independent_of_input_sensitivities.

(* the perturbation phase does not touch any sensitivity at all *)
Theorem C19_perturbation_keeps_sensitivities : forall c blk outps f0 df dxan inps iin s,
  sens_same s (fst (perturb_inputs c blk inps iin outps f0 df dxan s)).
Proof. exact perturb_inputs_sens_same. Qed.
Print Assumptions C19_perturbation_keeps_sensitivities.

(* ------------------------------------------------------------------ 4. sub-network selection *)
Theorem C19_first_module : forall inps n i0 i1, find_first inps n i0 = Some i1 ->
  (i0 <= i1 < i0 + length n)%nat /\ overlap inps (m_in (nth (i1 - i0) n mod0)) = true /\
  forall j, (j < i1 - i0)%nat -> overlap inps (m_in (nth j n mod0)) = false.
Proof. exact find_first_spec. Qed.
Print Assumptions C19_first_module.

Theorem C19_last_module : forall outps n i0 acc i2, find_last outps n i0 acc = Some i2 ->
  (acc = Some i2 /\ forall j, (j < length n)%nat -> overlap outps (m_out (nth j n mod0)) = false) \/
  ((i0 <= i2 < i0 + length n)%nat /\ overlap outps (m_out (nth (i2 - i0) n mod0)) = true /\
   forall j, (i2 - i0 < j < length n)%nat -> overlap outps (m_out (nth j n mod0)) = false).
Proof. exact find_last_spec. Qed.
Print Assumptions C19_last_module.

(* the modules before the first user of an input are evaluated exactly once; the rest of the routine is the routine
   on the modules i_first .. i_last *)
Theorem C19_subnetwork : forall c mods inps outps s i1 i2,
  find_first inps mods 0 = Some i1 -> find_last outps mods 0 None = Some i2 ->
  finite_difference c true mods inps outps s =
  finite_difference c false (firstn (S i2 - i1) (skipn i1 mods)) inps outps (n_response (firstn i1 mods) s).
Proof. exact fd_network_selection. Qed.
Print Assumptions C19_subnetwork.

Theorem C19_subnetwork_errors : forall c mods inps outps s,
  (find_first inps mods 0 = None -> finite_difference c true mods inps outps s = inl ENoInput) /\
  (forall i1, find_first inps mods 0 = Some i1 -> find_last outps mods 0 None = None ->
              finite_difference c true mods inps outps s = inl ENoOutput).
Proof. exact fd_network_errors. Qed.
Print Assumptions C19_subnetwork_errors.

(* ------------------------------------------------------------------ examples *)
Local Open Scope Q_scope.
Definition r (a : Q) : K := (Q2Qc a, Q2Qc 0).
Definition V (d : list K) (k : vkind) (cx : bool) : val := {| v_dat := d; v_kind := k; v_cx := cx |}.
Definition R0 (i : nat) : sref := {| s_root := i; s_slice := None |}.
Definition rep_q (x : report) : list Q :=
  [this (fst (r_x0 x)); this (snd (r_x0 x)); this (r_dx x); this (r_an x); this (r_fd x)].
Definition zero2 : list (list K) := [[r 0; r 0]; [r 0; r 0]].
Definition lin_spec (M : list (list K)) : polyspec :=
  {| p_c := [[r 0; r 0]]; p_A := [[ M ]]; p_Q := [[ zero2 ]]; p_B := [[ M ]]; p_Qb := [[ zero2 ]];
     p_okind := [KArr [2%Z]]; p_cx := false |}.
(* y = [[2, 1], [0, 3]] x  with the correct adjoint *)
Definition ex_spec : polyspec := lin_spec [[r 2; r 1]; [r 0; r 3]].
Definition ex_mod : module := poly_module [R0 0] [R0 1] ex_spec.
Definition ex_cfg (usedf : option (list val)) : fdcfg :=
  {| c_dx := Q2Qc (1 # 4); c_rel := false; c_keepzero := true; c_random := false; c_usedf := usedf; c_rand := [];
     c_order := [[0; 1]%nat] |}.
Definition ex_store (keep_out : bool) : store :=
  [ {| st := Some (V [r 1; r 2] (KArr [2%Z]) false); se := None; keep := false |};
    {| st := None; se := (if keep_out then Some (V [r 7; r 7] (KArr [2%Z]) false) else None); keep := keep_out |} ].
Definition reports_of (x : fderr + fdresult) : list (list Q) :=
  match x with inr y => map rep_q (f_reports y) | inl _ => [] end.
Definition sens_of (x : fderr + fdresult) : list (option (list Q)) :=
  match x with
  | inr y => map (fun g => option_map (fun v => map (fun a => this (fst a)) (v_dat v)) (se g)) (f_store y)
  | inl _ => []
  end.
Definition seeds_of (x : fderr + fdresult) : list (option (list Q)) :=
  match x with
  | inr y => map (option_map (fun v => map (fun a => this (fst a)) (v_dat v))) (f_seeds y)
  | inl _ => []
  end.

(* the routine reports analytical = numerical = (column sums of the matrix: 2, 4) and restores the input *)
Example C19_ex_correct_module :
  Qll_eqb (reports_of (finite_difference (ex_cfg None) false [ex_mod] [R0 0] [R0 1] (ex_store false)))
          [[1; 0; 1 # 4; 2; 2]; [2; 0; 1 # 4; 4; 4]] = true.
Proof. vm_compute. reflexivity. Qed.

(* witness of the fixed finding F24 (formerly the refuted clause): the output Signal keeps its allocation and the seed
   comes from use_df = [1, 2]. The pairs match (2 + 0*2, 1 + 3*2), the recorded seed is still [1, 2], and the kept
   allocation ends as zeros *)
Example C19_ex_kept_output_allocation :
  let x := finite_difference (ex_cfg (Some [V [r 1; r 2] (KArr [2%Z]) false])) false [ex_mod] [R0 0] [R0 1] (ex_store true) in
  Qll_eqb (reports_of x) [[1; 0; 1 # 4; 2; 2]; [2; 0; 1 # 4; 7; 7]] = true /\
  seeds_of x = [Some [1; 2]] /\ sens_of x = [None; Some [0; 0]].
Proof. vm_compute. repeat split; reflexivity. Qed.

(* witness of the fixed finding F26: Network  a -> (b, b2) -> ...,  b -> c ; fromsig = b, tosig = [b2; c]: the selected
   sub-network is the second module only, b2 is produced upstream of it. b2 gets the pair (0, 0), c the pair (3, 3), and
   NO Signal keeps a sensitivity *)
Definition up_mod1 : module :=
  poly_module [R0 0] [R0 1; R0 2]
    {| p_c := [[r 0; r 0]; [r 0; r 0]]; p_A := [[ [[r 2; r 0]; [r 0; r 2]] ]; [ [[r 5; r 0]; [r 0; r 5]] ]];
       p_Q := [[ zero2 ]; [ zero2 ]]; p_B := [[ [[r 2; r 0]; [r 0; r 2]] ]; [ [[r 5; r 0]; [r 0; r 5]] ]];
       p_Qb := [[ zero2 ]; [ zero2 ]]; p_okind := [KArr [2%Z]; KArr [2%Z]]; p_cx := false |}.
Definition up_mod2 : module := poly_module [R0 1] [R0 3] (lin_spec [[r 3; r 0]; [r 0; r 3]]).
Definition up_store : store :=
  [ {| st := Some (V [r 1; r 2] (KArr [2%Z]) false); se := None; keep := false |}; sig0; sig0; sig0 ].
Example C19_ex_upstream_output :
  let x := finite_difference (ex_cfg None) true [up_mod1; up_mod2] [R0 1] [R0 2; R0 3] up_store in
  Qll_eqb (reports_of x) [[2; 0; 1 # 4; 0; 0]; [2; 0; 1 # 4; 3; 3]; [4; 0; 1 # 4; 0; 0]; [4; 0; 1 # 4; 3; 3]] = true /\
  sens_of x = [None; None; None; None] /\ seeds_of x = [Some [1; 1]; Some [1; 1]].
Proof. vm_compute. repeat split; reflexivity. Qed.

(* ... and the hypotheses of C19_network_no_sensitivity_left hold for b2 (root 2), which is NOT a signal of the executed
   module: it is an output of interest with a value *)
Example C19_ex_upstream_hypotheses :
  find_first [R0 1] [up_mod1; up_mod2] 0 = Some 1%nat /\ find_last [R0 2; R0 3] [up_mod1; up_mod2] 0 None = Some 1%nat /\
  out_sig [up_mod2] [R0 1] [R0 2; R0 3] (n_response [up_mod1] up_store) 2 /\
  ~ direct_sig [up_mod2] 2.
Proof.
  split; [reflexivity|split; [reflexivity|split]].
  - exists (R0 2). split; [left; reflexivity|]. split; [reflexivity|]. split; [reflexivity|]. vm_compute. discriminate.
  - intros (m & x & Hm & Hx & Hr & _). destruct Hm as [<-|[]]. cbn in Hx. destruct Hx as [<-|[<-|[]]]; discriminate.
Qed.

(* witness of the fixed finding F27: y = 2 * x[0:2], the input of interest is the base Signal x = [1, 2, 3], on which the
   caller left the sensitivity [9, 9, 9]. The tuples are (2, 2), (2, 2), (0, 0) — no 9 anywhere —, only zeros are left on the base of the slice,
   and the stores with and without the left-over are related by se_free (C19_independent_of_input_sensitivities) *)
Definition sl_mod : module :=
  poly_module [{| s_root := 0; s_slice := Some ([0; 1]%nat, [2%Z]) |}] [R0 1] (lin_spec [[r 2; r 0]; [r 0; r 2]]).
Definition sl_store (left_over : option val) : store :=
  [ {| st := Some (V [r 1; r 2; r 3] (KArr [3%Z]) false); se := left_over; keep := false |}; sig0 ].
Definition sl_cfg : fdcfg :=
  {| c_dx := Q2Qc (1 # 4); c_rel := false; c_keepzero := true; c_random := false; c_usedf := None; c_rand := [];
     c_order := [[0; 1; 2]%nat] |}.
Example C19_ex_left_over_input_sensitivity :
  let x := finite_difference sl_cfg false [sl_mod] [R0 0] [R0 1] (sl_store (Some (V [r 9; r 9; r 9] (KArr [3%Z]) false))) in
  Qll_eqb (reports_of x) [[1; 0; 1 # 4; 2; 2]; [2; 0; 1 # 4; 2; 2]; [3; 0; 1 # 4; 0; 0]] = true /\
  sens_of x = [Some [0; 0; 0]; None] /\
  se_free [R0 0] (sl_store None) (sl_store (Some (V [r 9; r 9; r 9] (KArr [3%Z]) false))).
Proof.
  split; [vm_compute; reflexivity|split; [vm_compute; reflexivity|]].
  split; [reflexivity|]. intros [|[|j]]; [|left; reflexivity|left; reflexivity].
  right. split; [split; reflexivity|]. split; [reflexivity|]. exists (R0 0). cbn. auto.
Qed.

(* non-vacuity of the hypotheses of C19_linear_exact / C19_restores_states / C19_no_sensitivity_left on this instance *)
Example C19_ex_affine_hypothesis :
  let s1 := n_response [ex_mod] (ex_store false) in
  let o := {| o_ref := R0 1; o_f0 := V [r 4; r 6] (KArr [2%Z]) false; o_w := V [r 1; r 1] (KArr [2%Z]) false; o_dx := [] |} in
  let sp := n_response [ex_mod] (set_state (R0 0) (V [r (5 # 4); r 2] (KArr [2%Z]) false) s1) in
  Forall2 (affine_re (Q2Qc (1 # 4)) sp) [o] [[r 2; r 0]].
Proof.
  cbn zeta. constructor; [|constructor]. eexists. split; [reflexivity|]. split; [reflexivity|].
  apply kl_eqb_sound. vm_compute. reflexivity.
Qed.

Example C19_ex_frame_hypotheses :
  resp_pres [ex_mod] 0 /\ direct_sig [ex_mod] 0 /\ direct_sig [ex_mod] 1 /\ ref_wf (R0 0).
Proof.
  split; [|split; [|split]].
  - apply resp_pres_not_output. repeat constructor. cbn. discriminate.
  - exists ex_mod, (R0 0). cbn. auto.
  - exists ex_mod, (R0 1). cbn. auto.
  - exact I.
Qed.
