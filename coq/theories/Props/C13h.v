(* C13, second part — the DomainDefinition OBJECT as a state machine: queries are pure and return fresh arrays.
   Statements only; every proof is `exact <lemma>`; Print Assumptions under each.

   Model/Grid.v and Model/Shape.v (Props/C13.v) are functional: there a query cannot depend on what happened
   before.  Model/GridHist.v models the object and its callers with a heap of arrays: the record `dom` holds the
   scalars and the REFERENCES of the arrays the object owns (element_size, origin, conn, elements, nodes), the
   methods `m_*` are written as in the source in terms of what is stored on the object, every query allocates its
   result, `OFill r v` is the caller overwriting an array it was handed, `OWriteVti` is write_to_vti (what it reads
   and computes for the header), `OSnap` reads every attribute.  `run s ops` is the state after the history `ops`,
   `run_obs s ops` its observations, `pure_obs g h o` the observation of the functional model of Props/C13.v for the
   constructor arguments (g, h).

   What is proved: in the model, for EVERY history — any sequence of queries with any arguments, writes of files
   with any scale/origin, and the caller overwriting any array it was ever handed — the object's record and own
   arrays stay what the constructor left and every observation equals the functional model's, so every theorem of
   Props/C13.v holds of the object at every point of its life.
   What the correspondence adds (tools/checks/C13.py, every run): the real object is driven through such histories
   (deterministic ones on every seed + random ones), every returned array is overwritten by the harness, and Coq
   evaluates `run_obs` of the same history against what the implementation returned and what its attributes held.
   A method that hands out `self.conn` or scales `self.element_size` in place makes the implementation's
   observations differ from `run_obs`; the model itself cannot express such a method without changing `step`. *)
From Coq Require Import ZArith QArith List Bool.
From Pymoto Require Import Base.Num Base.Cmp Model.Grid Model.Shape Model.GridHist Proofs.GridP Proofs.GridHistP.
Import ListNotations.
Open Scope Z_scope.

(* a query allocates: its result is a new array behind every existing one; heap prefix, object and the caller's
   other arrays are untouched *)
Theorem C13_query_returns_fresh_array : forall (s : st) (o : op) (a : arr),
  query_result (s_hp s) (s_dom s) o = Some a ->
  step s o = ({| s_hp := s_hp s ++ [a]; s_dom := s_dom s; s_owned := length (s_hp s) :: s_owned s |}, ObArr a).
Proof. exact step_query_fresh. Qed.
Print Assumptions C13_query_returns_fresh_array.

(* no operation (query, write_to_vti, plot, caller write, snapshot) changes the object's record, and arrays the caller
   was not handed are never written *)
Theorem C13_step_keeps_object : forall (s : st) (o : op), s_dom (fst (step s o)) = s_dom s.
Proof. exact step_dom. Qed.
Print Assumptions C13_step_keeps_object.

Theorem C13_step_keeps_foreign_arrays : forall (s : st) (o : op) (r : nat),
  ~ In r (s_owned s) -> (r < length (s_hp s))%nat -> nth_error (s_hp (fst (step s o))) r = nth_error (s_hp s) r.
Proof. exact step_untouched. Qed.
Print Assumptions C13_step_keeps_foreign_arrays.

(* after ANY history on a domain built on top of any heap hp0: record unchanged, the heap the constructor left
   (hp0 and the object's five arrays) unchanged, and the next observation is the functional model's *)
Theorem C13_object_history_pure : forall (hp0 : heap) (g : grid) (h : list Q) (ops : list op) (o : op), wf g ->
  let s0 := new_st hp0 g h in
  let s := run s0 ops in
  s_dom s = s_dom s0 /\
  firstn (length (s_hp s0)) (s_hp s) = s_hp s0 /\
  snd (step s o) = pure_obs g h o.
Proof. exact history_pure. Qed.
Print Assumptions C13_object_history_pure.

(* the whole observation sequence of a history is the functional model applied operation by operation *)
Theorem C13_object_history_observations : forall (hp0 : heap) (g : grid) (h : list Q) (ops : list op), wf g ->
  run_obs (new_st hp0 g h) ops = map (pure_obs g h) ops.
Proof. exact history_obs. Qed.
Print Assumptions C13_object_history_observations.

(* every array ever handed to the caller is none of the object's own arrays (nor any array that existed before) *)
Theorem C13_handed_arrays_fresh : forall (hp0 : heap) (g : grid) (h : list Q) (ops : list op),
  Forall (fun r => (length (s_hp (new_st hp0 g h)) <= r)%nat) (s_owned (run (new_st hp0 g h) ops)).
Proof. exact history_handed_fresh. Qed.
Print Assumptions C13_handed_arrays_fresh.

(* non-vacuity: on a 2x1 grid the caller's write into the array returned by get_dofconnectivity(1) really happens
   (reference 5 holds the garbage afterwards) and the later queries and the snapshot are unaffected *)
Example C13_nonvacuous_history :
  let g := {| nelx := 2; nely := 1; nelz := 0 |} in
  let s0 := new_st [] g [2; 1; 1]%Q in
  let ops := [ODofConn 1; OFill 5 (-7); ODofConn 1; OWriteVti 2 [1; 0; 0]%Q; ONodePosition (Some [5])] in
  wf g /\
  nth_error (s_hp (run s0 ops)) 5 = Some (AZ [[-7; -7; -7; -7]; [-7; -7; -7; -7]]) /\
  obsl_eqb (run_obs s0 ops)
           [ObArr (AZ [[0; 1; 3; 4]; [1; 2; 4; 5]]); ObNone; ObArr (AZ [[0; 1; 3; 4]; [1; 2; 4; 5]]);
            ObVti [4; 2; 2]%Q [2; 0; 0]%Q; ObArr (AQ [[4; 1]%Q])] = true.
Proof. split; [unfold wf; cbn; repeat split; discriminate | split; reflexivity]. Qed.
