From Coq Require Import ZArith QArith List Bool.
From Pymoto Require Import Base.Num Base.QMat Model.Eig Proofs.EigP.
Import ListNotations.
