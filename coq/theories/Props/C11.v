(* C11 — EigenSolve returns genuine, normalised, ordered eigenpairs.
   Statements only; every proof is `exact <lemma of Proofs/EigP.v>`; Print Assumptions under each.

   Setting (Model/Eig.v).  K is the scalar type with the ring signature `Num K`; `num_ring K` / `num_field K` say
   that it is a commutative ring / field with Leibniz equality (instances: R, and RC = pairs of reals = the complex
   numbers, see C11_complex_numbers_are_a_field).  The library eigen-decomposition is an ORACLE: its raw result
   (W, Qm) (eigenvalues, matrix whose columns are the vectors, as a list of rows) enters as a variable and its
   contract  `contract A M W Qm`  (A q_i = lambda_i M q_i for every column, one column per eigenvalue) is a premise.
   `postprocess ops sf B W Qm` is everything EigenSolve._response does after the library call: W[isort], Q[:, isort]
   for isort = sf W Qm (the sorting function), then the normalisation loop with the assertion; it returns
   `Ok (W', Q')` or `Err` (AssertionError / IndexError).  `response` / `run` model the dispatch and the state machine
   of _sparse_eigs and return the library call the module issues.
   np.sqrt is the field `ksqrt` of `ops` with the contract `sqrt_contract` (s*s = v, v <> 0 on values that pass the
   assertion); over R it is the real square root and the contract is proved (no premise left). *)
From Coq Require Import ZArith QArith Reals List Bool Permutation Sorted.
From Pymoto Require Import Base.Num Base.QMat Model.Eig Proofs.EigP.
Import ListNotations.

(* ---- genuine eigenpairs --------------------------------------------------------------------------- *)
(* permutation / selection of columns by ANY sorting function that returns valid indices, followed by the scaling
   of every column, preserves the oracle contract: over any commutative ring (real or complex data) *)
Theorem C11_postprocess_keeps_eigenpairs :
  forall (K : Type) (N : Num K) (ops : EigOps K), num_ring K ->
  forall (sf : sortfn) (A : mat) (B : option mat) (W : list K) (Qm : mat) (W' : list K) (Q' : mat),
    contract A B W Qm -> postprocess ops sf B W Qm = Ok (W', Q') -> contract A B W' Q'.
Proof. exact (fun K N ops Rth => @postprocess_keeps_eigenpairs K N ops Rth). Qed.
Print Assumptions C11_postprocess_keeps_eigenpairs.

(* the returned vectors are non-zero whenever the library's are (the scale factor is invertible) *)
Theorem C11_eigenvectors_stay_nonzero :
  forall (K : Type) (N : Num K) (ops : EigOps K), num_field K -> sqrt_contract ops ->
  forall (sf : sortfn) (B : option mat) (W : list K) (Qm : mat) (W' : list K) (Q' : mat),
    postprocess ops sf B W Qm = Ok (W', Q') ->
    forall j, (j < length W')%nat ->
      is_zero_vec (getcol j Q') -> is_zero_vec (getcol (nth j (sf W Qm) O) Qm).
Proof.
  exact (fun K N ops Fth Hsq sf B W Qm W' Q' => @postprocess_keeps_nonzero K N ops Fth sf B W Qm W' Q' Hsq).
Qed.
Print Assumptions C11_eigenvectors_stay_nonzero.

(* ---- normalisation -------------------------------------------------------------------------------- *)
(* (sf q)^T B (sf q) = 1 for sf = sgn / s, s^2 = q^T B q <> 0, sgn = +-1: bilinear form, no conjugate, any field *)
Theorem C11_normalised_vector :
  forall (K : Type) (N : Num K), num_ring K -> num_field K ->
  forall (B : option mat) (q : list K) (s sgn : K),
    nmul s s = bform B q -> bform B q <> nzero -> (sgn = none_ \/ sgn = nopp none_) ->
    bform B (vscaler (ndiv sgn s) q) = none_.
Proof. exact (fun K N Rth Fth => @normalised_vector K N Rth Fth). Qed.
Print Assumptions C11_normalised_vector.

(* ... and that is what the loop of the module does to every returned column (in-place scaling of one column does
   not disturb the others; the factor of column i is computed from column i of the sorted matrix) *)
Theorem C11_normalised :
  forall (K : Type) (N : Num K) (ops : EigOps K), num_ring K -> num_field K -> sqrt_contract ops ->
  forall (sf : sortfn) (B : option mat) (W : list K) (Qm : mat) (W' : list K) (Q' : mat),
    postprocess ops sf B W Qm = Ok (W', Q') ->
    forall j, (j < length W')%nat -> bform B (getcol j Q') = none_.
Proof.
  exact (fun K N ops Rth Fth Hsq sf B W Qm W' Q' => @postprocess_normalised K N ops Rth Fth sf B W Qm W' Q' Hsq).
Qed.
Print Assumptions C11_normalised.

(* the complex numbers (pairs of reals) satisfy the premises num_ring / num_field of the generic theorems *)
Theorem C11_complex_numbers_are_a_field : num_ring RC /\ num_field RC.
Proof. exact (conj num_ring_RC num_field_RC). Qed.
Print Assumptions C11_complex_numbers_are_a_field.

(* ---- ordering ------------------------------------------------------------------------------------- *)
(* np.argsort (modelled: stable insertion sort of the indices) returns a permutation and ascending keys, for any
   total order test `kleb` (<= on reals, lexicographic (re, im) on complex numbers) *)
Theorem C11_argsort :
  forall (K : Type) (N : Num K) (ops : EigOps K),
    (forall a b, kleb ops a b = true \/ kleb ops b a = true) ->
  forall keys : list K,
    Permutation (argsort ops keys) (seq 0 (length keys)) /\
    Sorted (fun a b => kleb ops a b = true) (take (argsort ops keys) keys).
Proof. exact (fun K N ops tot => @argsort_spec K N ops tot). Qed.
Print Assumptions C11_argsort.

(* default sorting function: the returned eigenvalues ascend *)
Theorem C11_sorted :
  forall (K : Type) (N : Num K) (ops : EigOps K),
    (forall a b, kleb ops a b = true \/ kleb ops b a = true) ->
  forall (B : option mat) (W : list K) (Qm : mat) (W' : list K) (Q' : mat),
    postprocess ops (sort_default ops) B W Qm = Ok (W', Q') ->
    Sorted (fun a b => kleb ops a b = true) W'.
Proof. exact (fun K N ops tot => @postprocess_sorted K N ops tot). Qed.
Print Assumptions C11_sorted.

(* ---- completeness of the dense path --------------------------------------------------------------- *)
(* a sorting function that returns a permutation (the default does: C11_argsort) loses and duplicates nothing:
   with the n pairs of LAPACK (length W = n) the output has n pairs, its eigenvalues are a permutation of the
   library's, and output pair j is library pair isort_j with the vector scaled by its normalisation factor *)
Theorem C11_dense_complete :
  forall (K : Type) (N : Num K) (ops : EigOps K),
  forall (sf : sortfn) (B : option mat) (W : list K) (Qm : mat) (W' : list K) (Q' : mat),
    Permutation (sf W Qm) (seq 0 (length W)) ->
    postprocess ops sf B W Qm = Ok (W', Q') ->
    length W' = length W /\ Permutation W' W /\
    forall j, (j < length W)%nat ->
      let i := nth j (sf W Qm) O in
      (i < length W)%nat /\ nth j W' nzero = nth i W nzero /\
      getcol j Q' = vscaler (norm_factor ops B (getcol i Qm)) (getcol i Qm).
Proof. exact (fun K N ops => @postprocess_complete K N ops). Qed.
Print Assumptions C11_dense_complete.

Theorem C11_default_sort_is_permutation :
  forall (K : Type) (N : Num K) (ops : EigOps K),
    (forall a b, kleb ops a b = true \/ kleb ops b a = true) ->
  forall (W : list K) (Qm : mat), Permutation (sort_default ops W Qm) (seq 0 (length W)).
Proof. exact (fun K N ops tot => @default_sort_is_permutation K N ops tot). Qed.
Print Assumptions C11_default_sort_is_permutation.

(* ---- real data: sign rule, and the real symmetric problem end to end ------------------------------ *)
Open Scope R_scope.

(* after the sign rule the mean entry of every returned (real) vector is >= 0, whatever the sorting function *)
Theorem C11_sign :
  forall (sf : sortfn) (B : option (@mat R)) (W : list R) (Qm : @mat R) (W' : list R) (Q' : @mat R),
    postprocess opsR sf B W Qm = Ok (W', Q') ->
    forall j, (j < length W')%nat -> 0 <= navg (getcol j Q').
Proof. exact postprocess_sign. Qed.
Print Assumptions C11_sign.

(* real symmetric (generalised) problem with the default sorting function: given the oracle contract on the raw
   library result, the module output consists of eigenpairs, is B-normalised, ascending, has non-negative means
   and is the complete (permuted) library spectrum.  sqrt is the real square root: no premise about it. *)
Theorem C11_real_symmetric_response :
  forall (A : @mat R) (B : option (@mat R)) (W : list R) (Qm : @mat R) (W' : list R) (Q' : @mat R),
    contract A B W Qm ->
    postprocess opsR (sort_default opsR) B W Qm = Ok (W', Q') ->
    contract A B W' Q' /\
    (forall j, (j < length W')%nat -> bform B (getcol j Q') = 1) /\
    Sorted Rle W' /\
    (forall j, (j < length W')%nat -> 0 <= navg (getcol j Q')) /\
    length W' = length W /\ Permutation W' W.
Proof. exact real_symmetric_response. Qed.
Print Assumptions C11_real_symmetric_response.

(* and the module does return (no AssertionError) when q^T B q > 0 on the library's vectors (B positive definite) *)
Theorem C11_real_symmetric_returns :
  forall (B : option (@mat R)) (W : list R) (Qm : @mat R),
    (forall i, (i < length W)%nat -> 0 < bform B (getcol i Qm)) ->
    exists W' Q', postprocess opsR (sort_default opsR) B W Qm = Ok (W', Q').
Proof. exact real_symmetric_total. Qed.
Print Assumptions C11_real_symmetric_returns.
Close Scope R_scope.

(* ---- dispatch and the shift-invert state machine -------------------------------------------------- *)
(* which routine is called: sparse iff A and B are sparse, Hermitian routine iff the flag (given, cached, or
   detected on A and B at the first call) is set; the flag is stored *)
Theorem C11_dispatch :
  forall (K : Type) (N : Num K) (ops : EigOps K) (auto_solver : mat -> bool -> nat)
         (st : estate) (p : pencil) (st' : estate) (c : libcall),
    response ops auto_solver st p = (st', Ok c) ->
    cFun c = (if pencil_sparse p then (if herm_flag ops st p then EIGSH else EIGS)
              else (if herm_flag ops st p then EIGH else EIG)) /\
    cA c = pA p /\ sHerm st' = Some (herm_flag ops st p) /\
    (pencil_sparse p = false -> cM c = pB p /\ cOPinv c = None).
Proof. exact (fun K N ops au => @dispatch K N ops au). Qed.
Print Assumptions C11_dispatch.

(* nmodes, sigma and mode are documented as sparse-only.  For dense input (A or B not sparse) the library call and hence
   -- `postprocess` takes no state -- the whole response is the same for any two module states with the same Hermitian
   flag, whatever nmodes / sigma / mode / cached solver they hold (constructor keywords, or values a previous SPARSE call
   of the same module stored); the call is eigh / eig on (A, B) without k, sigma, mode or OPinv.  Together with
   C11_dense_complete / C11_normalised (which range over ALL length W columns) every column of the complete spectrum is
   normalised, sign-fixed and ordered, also when nmodes < n is given. *)
Theorem C11_dense_ignores_sparse_options :
  forall (K : Type) (N : Num K) (ops : EigOps K) (auto_solver : mat -> bool -> nat)
         (st st2 : estate) (p : pencil),
    pencil_sparse p = false -> sHerm st = sHerm st2 ->
    snd (response ops auto_solver st p) = snd (response ops auto_solver st2 p) /\
    exists c, snd (response ops auto_solver st p) = Ok c /\
              cFun c = (if herm_flag ops st p then EIGH else EIG) /\ cA c = pA p /\ cM c = pB p /\
              cK c = None /\ cSigma c = None /\ cMode c = None /\ cOPinv c = None.
Proof. exact (fun K N ops au => @dense_ignores_options K N ops au). Qed.
Print Assumptions C11_dense_ignores_sparse_options.

(* the automatic detection (np.allclose based) accepts every exactly symmetric real matrix, dense or sparse: with the
   default hermitian=None a real symmetric pencil is sent to the Hermitian routine (eigh / eigsh) *)
Theorem C11_detects_real_symmetric :
  forall (sp : bool) (A : @mat R),
    (forall i j, (i < length A)%nat -> (j < length A)%nat -> entry A i j = entry A j i) ->
    is_hermitian_mat opsR sp A = true.
Proof. exact detect_symmetric_R. Qed.
Print Assumptions C11_detects_real_symmetric.

(* the flag of the first call is used by every later call of the same module (a later matrix of another class is
   decomposed with the routine of the first class: outside C11, see the report) *)
Theorem C11_hermitian_flag_cached :
  forall (K : Type) (N : Num K) (ops : EigOps K) (auto_solver : mat -> bool -> nat)
         (st : estate) (os : list op) (h : bool),
    sHerm st = Some h -> sHerm (run_state ops auto_solver st os) = Some h.
Proof. exact (fun K N ops au => @flag_sticky K N ops au). Qed.
Print Assumptions C11_hermitian_flag_cached.

(* by induction over ANY sequence of response() calls and m.sigma assignments, with changing A and B: at every
   sparse call the operator handed to ARPACK as OPinv is the solver updated with the CURRENT A - sigma B
   (B = I when absent and sigma <> 0; A itself when sigma = 0), and k, sigma, M are the current
   nmodes (default 6), sigma (default 0) and B (`call_current`, unfolded in Proofs/EigP.v) *)
Theorem C11_factorisation_current :
  forall (K : Type) (N : Num K) (ops : EigOps K) (auto_solver : mat -> bool -> nat)
         (hermitian : option bool) (nmodes : option Z) (sigma : option K) (mode : nat) (os : list op),
    history_current ops auto_solver (prepare hermitian nmodes sigma mode) os.
Proof. exact (fun K N ops au => @factorisation_current K N ops au). Qed.
Print Assumptions C11_factorisation_current.

(* FULL CLAUSE (not proved): "the sparse path returns the requested number of eigenvalues closest to the shift".
   That ARPACK's shift-invert iteration converges to the k eigenvalues nearest sigma is run-time behaviour of the
   library (validated on every run against an independent dense spectrum).  PROVED PART: in every reachable state the
   module requests k = nmodes (default 6) eigenvalues around sigma (default 0) with the current shift-invert
   operator, and returns exactly the library's eigenvalues, reordered (none dropped, none duplicated). *)
Theorem C11_sparse_selection_partial :
  forall (K : Type) (N : Num K) (ops : EigOps K) (auto_solver : mat -> bool -> nat),
    (forall a b, kleb ops a b = true \/ kleb ops b a = true) ->
  forall (hermitian : option bool) (nmodes : option Z) (sigma : option K) (mode : nat) (os : list op)
         (p : pencil) (st' : estate) (c : libcall),
    let st := run_state ops auto_solver (prepare hermitian nmodes sigma mode) os in
    response ops auto_solver st p = (st', Ok c) -> pencil_sparse p = true ->
    cK c = Some (match sNmodes st with None => 6%Z | Some k => k end) /\
    cSigma c = Some (match sSigma st with None => nzero | Some s => s end) /\
    (exists kind, cOPinv c = Some (kind, Some (shifted_of ops (sSigma st) p))) /\
    forall (W : list K) (Qm : mat) (W' : list K) (Q' : mat),
      postprocess ops (sort_default ops) (pB p) W Qm = Ok (W', Q') ->
      length W' = length W /\ Permutation W' W.
Proof. exact (fun K N ops au => @sparse_selection_partial K N ops au). Qed.
Print Assumptions C11_sparse_selection_partial.

(* ---- non-vacuity ---------------------------------------------------------------------------------- *)
(* a concrete real instance meets the premises (contract, positivity) and runs through all clauses *)
Example C11_nonvacuous_real :
  contract exA None exW exQ /\
  exists W' Q', postprocess opsR (sort_default opsR) None exW exQ = Ok (W', Q') /\
    contract exA None W' Q' /\ Sorted Rle W' /\ Permutation W' exW.
Proof. exact (conj ex_contract ex_runs). Qed.
Print Assumptions C11_nonvacuous_real.

(* a three-call history (sigma default, then m.sigma = 2) on the dyadic evaluation instance: the OPinv matrices are
   A1, A2 and A1 - 2 I *)
Example C11_nonvacuous_history :
  ex_opinvs = [Some [[dz 2; dz 1]; [dz 1; dz 3]]; Some [[dz 5; dz 1]; [dz 1; dz 4]]; None;
               Some [[dz 0; dz 1]; [dz 1; dz 1]]].
Proof. exact ex_opinvs_value. Qed.
Print Assumptions C11_nonvacuous_history.
