From Coq Require Import List Bool ZArith.
From Pymoto Require Import Base.Fld Model.Lda Proofs.LdaP.
Theorem C06_stub : forall s h, adjoint_mode s h 0 = false.
Proof. exact stub_adjoint_N. Qed.
Print Assumptions C06_stub.
