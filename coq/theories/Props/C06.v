(* C06 — the linear-dependency-aware solver (LDAWrapper) is transparent and reuses earlier solutions.
   Statements only; every proof is `exact <lemma>` (Proofs/LdaP.v, Base/QIP.v); Print Assumptions under each.
   The model is Model/Lda.v: generic over a field F with involution (class Fld = operations, class FldLaws = laws,
   explicit premises below) and over the inner solver `inner` (explicit argument with its contract `inner_ok`
   as a hypothesis of the history).  C06_instance_Qi shows that the Gaussian rationals evaluated by the
   correspondence check satisfy the laws, so every theorem applies to the evaluated instance. *)
From Coq Require Import List Bool ZArith.
From Coq Require Import QArith.
From Pymoto Require Import Base.Fld Base.FldP Base.QI Base.QIP Model.Lda Proofs.LdaP Model.LdaGlue Proofs.LdaGlueP.
Import ListNotations.

(* storage selection / conjugation per trans mode and symmetry class (12 cases):
   for truthful flags, solving  S y = conj?(b)  with S = A^H in adjoint mode and S = A otherwise, and returning
   conj?(y), solves  op_trans(A) x = b.  bridge/C06/ModeBridge.v restates this on the booleans regenerated from
   the source on every run. *)
Theorem C06_mode_table : forall (F : Type) (I : Fld F), FldLaws F ->
  forall (sym herm : bool) (t : Z) (A : mat F) (y b : vec F),
  trans_valid t = true -> truthful sym herm A ->
  mv (if adjoint_mode sym herm t then mH A else A) y = (if conj_mode sym herm t then vconj b else b) ->
  mv (op_mat t A) (if conj_mode sym herm t then vconj y else y) = b.
Proof. intros F I L. exact (@mode_table F I L). Qed.
Print Assumptions C06_mode_table.

(* get_diagonal_indices marks only dofs whose row AND column vanish off the diagonal (and whose diagonal entry is
   non-zero): exactly what solving them by division needs *)
Theorem C06_diag_detect_sound : forall (F : Type) (I : Fld F), FldLaws F ->
  forall (n : nat) (A : mat F), wfm n A -> Decoupled n A (get_diagonal_indices A).
Proof. intros F I L. exact (@diag_detect_sound F I L). Qed.
Print Assumptions C06_diag_detect_sound.

(* sanity instance, exhaustive: on all 530 matrices with entries in {0,1} of size n <= 3 the detected mask is
   exactly the set of decoupled dofs (soundness and completeness) *)
Theorem C06_diag_detect_exact_n3 :
  forallb (fun n => forallb (detect_exact n) (mats01 n)) [1; 2; 3]%nat = true /\
  map (fun n => length (mats01 n)) [1; 2; 3]%nat = [2; 16; 512]%nat.
Proof. exact diag_detect_exact_n3. Qed.
Print Assumptions C06_diag_detect_exact_n3.

(* _do_solve_1rhs: under the database invariant and decoupling every returned column solves A x = rhs exactly,
   for every block of right-hand sides (new, repeated, zero, dependent), every x0, every dtype tag;
   and the database invariant (every stored pair satisfies A x = b, x lives on the non-diagonal dofs, |b|^2 <> 0,
   later b's are orthogonal to earlier ones) is preserved *)
Theorem C06_db_invariant : forall (F : Type) (I : Fld F), FldLaws F ->
  forall (n : nat) (A : mat F) (cplxA : bool) (m : list bool) (db : list pair) (adj : bool)
         (solve_fn : list (vec F) -> option (list (vec F)) -> list (vec F))
         (crhs isvec : bool) (RHS : list (vec F)) (X0 : option (list (vec F))),
  wfm n A -> Decoupled n A m -> db_inv n A m db -> solve_fn_ok n A solve_fn ->
  Forall (fun r => length r = n) RHS ->
  Forall2 (fun rhs x => length x = n /\ mv A x = rhs) RHS
          (fst (fst (do_solve A cplxA m db adj solve_fn crhs isvec RHS X0))) /\
  db_inv n A m (snd (fst (do_solve A cplxA m db adj solve_fn crhs isvec RHS X0))).
Proof. intros F I L. exact (@do_solve_correct F I L). Qed.
Print Assumptions C06_db_invariant.

(* update() empties both databases (and the invariant holds again for the new matrix: C06_update_invariant) *)
Theorem C06_update_clears : forall (F : Type) (I : Fld F) (st : @state F) (c : bool) (A : mat F),
  s_dbN (update st c A) = [] /\ s_dbH (update st c A) = [].
Proof. intros F I. exact (@update_clears F I). Qed.
Print Assumptions C06_update_clears.

Theorem C06_update_invariant : forall (F : Type) (I : Fld F), FldLaws F ->
  forall inner (st : @state F) (c : bool) (A : mat F),
  wfm (length A) A -> inner_ok inner (length A) A -> (c = false -> mconj A = A) ->
  (s_sym st = Some true -> mtrans A = A) -> (s_herm st = Some true -> mH A = A) ->
  state_inv inner (update st c A).
Proof. intros F I L. exact (@update_inv F I L). Qed.
Print Assumptions C06_update_invariant.

(* solve(): in a state satisfying the invariant (flags truthful for the current A is part of it) the returned
   vectors solve op_trans(A) x = b exactly, no error is raised, the invariant is preserved *)
Theorem C06_solve_correct : forall (F : Type) (I : Fld F), FldLaws F ->
  forall inner (st : @state F) (c : bool) (A : mat F) (crhs isvec : bool) (RHS : list (vec F))
         (X0 : option (list (vec F))) (t : Z),
  state_inv inner st -> s_A st = Some (c, A) -> trans_valid t = true ->
  Forall (fun r => length r = length A) RHS ->
  exists res, snd (solve inner st crhs isvec RHS X0 t) = inr res /\
              Forall2 (fun b x => mv (op_mat t A) x = b) RHS (r_x res) /\
              state_inv inner (fst (solve inner st crhs isvec RHS X0 t)).
Proof. intros F I L. exact (@solve_correct F I L). Qed.
Print Assumptions C06_solve_correct.

(* ANY history of update()/solve() (hist_ok: matrices square with the inner-solver contract, dtype tags truthful,
   cached class flags truthful for every later matrix, right-hand sides of the right length, trans in N/T/H):
   every call returns, and returns an exact solution of the requested system of the current matrix *)
Theorem C06_history_correct : forall (F : Type) (I : Fld F), FldLaws F ->
  forall inner (ops : list (@op F)) (st : @state F),
  state_inv inner st -> hist_ok inner st ops -> answers_ok inner st ops.
Proof. intros F I L. exact (@history_correct F I L). Qed.
Print Assumptions C06_history_correct.

Theorem C06_history_from_fresh_wrapper : forall (F : Type) (I : Fld F), FldLaws F ->
  forall inner (sym herm : option bool) (ops : list (@op F)),
  hist_ok inner (init_state sym herm) ops -> answers_ok inner (init_state sym herm) ops.
Proof. intros F I L inner sym herm ops. exact (@history_correct F I L inner ops _ (init_state_inv inner sym herm)). Qed.
Print Assumptions C06_history_from_fresh_wrapper.

(* reuse: if the (non-diagonal part of the, possibly conjugated) right-hand sides lie in the span of the stored
   right-hand sides of the selected storage, and no dtype narrowing applies (complex system, or no complex vector
   stored), the inner solver is not called and the state does not change.
   partial: for a real rhs with complex vectors stored the implementation skips stored vectors (known finding K01). *)
Theorem C06_reuse_partial : forall (F : Type) (I : Fld F), FldLaws F ->
  forall inner (st : @state F) (c : bool) (A : mat F) (sym herm crhs isvec : bool) (RHS : list (vec F))
         (X0 : option (list (vec F))) (t : Z),
  state_inv inner st -> s_A st = Some (c, A) -> s_sym st = Some sym -> s_herm st = Some herm ->
  trans_valid t = true -> Forall (fun r => length r = length A) RHS ->
  (c || crhs = true \/ Forall (fun p => p_tag p = false) (sel_db st sym herm t)) ->
  Forall (fun rhs => span (length A) (map p_b (sel_db st sym herm t))
                          (pn (s_mask st) (if conj_mode sym herm t then vconj rhs else rhs))) RHS ->
  exists res, snd (solve inner st crhs isvec RHS X0 t) = inr res /\ r_call res = None /\
              fst (solve inner st crhs isvec RHS X0 t) = st.
Proof. intros F I L. exact (@solve_reuse F I L). Qed.
Print Assumptions C06_reuse_partial.

(* reuse along a history: a right-hand side in the span of right-hand sides solved EARLIER IN THE HISTORY for the
   current matrix through the same storage (any solves in between, no update()) is answered without calling the
   inner solver.  partial: same dtype condition as above (K01). *)
Theorem C06_history_reuse_partial : forall (F : Type) (I : Fld F), FldLaws F ->
  forall inner (st : @state F) (c : bool) (A : mat F) (sym herm : bool)
         (crhs1 isvec1 : bool) (RHS1 : list (vec F)) (X01 : option (list (vec F))) (t1 : Z) (ops : list (@op F))
         (crhs2 isvec2 : bool) (RHS2 : list (vec F)) (X02 : option (list (vec F))) (t2 : Z),
  state_inv inner st -> s_A st = Some (c, A) -> s_sym st = Some sym -> s_herm st = Some herm ->
  trans_valid t1 = true -> Forall (fun r => length r = length A) RHS1 ->
  solves_only ops -> hist_ok inner (fst (solve inner st crhs1 isvec1 RHS1 X01 t1)) ops ->
  trans_valid t2 = true -> Forall (fun r => length r = length A) RHS2 ->
  adjoint_mode sym herm t2 = adjoint_mode sym herm t1 ->
  (c || crhs2 = true \/
   Forall (fun p => p_tag p = false)
          (sel_db (final inner (fst (solve inner st crhs1 isvec1 RHS1 X01 t1)) ops) sym herm t2)) ->
  Forall (fun rhs2 => span (length A) (map (fun r1 => pn (s_mask st) (tr_rhs sym herm t1 r1)) RHS1)
                           (pn (s_mask st) (tr_rhs sym herm t2 rhs2))) RHS2 ->
  exists res, snd (solve inner (final inner (fst (solve inner st crhs1 isvec1 RHS1 X01 t1)) ops)
                         crhs2 isvec2 RHS2 X02 t2) = inr res /\ r_call res = None.
Proof. intros F I L. exact (@history_reuse F I L). Qed.
Print Assumptions C06_history_reuse_partial.

(* nothing stored for an earlier matrix is used after update(): the databases are empty (C06_update_clears) and
   with an empty database a right-hand side with non-zero non-diagonal part always reaches the inner solver *)
Theorem C06_empty_db_calls_inner : forall (F : Type) (I : Fld F), FldLaws F ->
  forall (n : nat) (A : mat F) (cplxA : bool) (m : list bool) (adj : bool)
         (solve_fn : list (vec F) -> option (list (vec F)) -> list (vec F))
         (crhs isvec : bool) (rhs : vec F) (X0 : option (list (vec F))),
  wfm n A -> Decoupled n A m -> length rhs = n -> pn m rhs <> vzero n ->
  snd (do_solve A cplxA m [] adj solve_fn crhs isvec [rhs] X0) <> None.
Proof. intros F I L. exact (@empty_db_calls_inner F I L). Qed.
Print Assumptions C06_empty_db_calls_inner.

(* the model omits `badd /= bnrm; xadd /= bnrm`: the three expressions through which a stored pair is used are
   invariant under a common non-zero scaling of the pair *)
Theorem C06_normalisation_irrelevant : forall (F : Type) (I : Fld F), FldLaws F ->
  forall (s : F) (v x b : vec F), s <> f0 -> nrm2 b <> f0 ->
  vscale (fdiv (hdot v (vscale s b)) (nrm2 (vscale s b))) (vscale s b) = vscale (fdiv (hdot v b) (nrm2 b)) b /\
  vscale (fdiv (hdot v (vscale s b)) (nrm2 (vscale s b))) (vscale s x) = vscale (fdiv (hdot v b) (nrm2 b)) x /\
  (vscale (fdiv (hdot v (vscale s x)) (nrm2 (vscale s x))) (vscale s x) = vscale (fdiv (hdot v x) (nrm2 x)) x \/
   nrm2 x = f0).
Proof. intros F I L. exact (@lda_normalisation_irrelevant F I L). Qed.
Print Assumptions C06_normalisation_irrelevant.

(* the Gaussian rationals Qc[i] evaluated in the correspondence check satisfy the laws *)
Theorem C06_instance_Qi : @FldLaws C FldC.
Proof. exact FldLawsC. Qed.
Print Assumptions C06_instance_Qi.

(* class flags are cached from the first update(): a history that changes the matrix class is outside hist_ok,
   and the faithful model then returns a wrong answer (documentation of the hypothesis; LinearSolver.update
   documents "a new matrix of the same structure") *)
Theorem C06_class_change_refuted :
  is_symmetric cc_A1 = true /\ is_symmetric cc_A2 = false /\ cc_answer_solves = false.
Proof. exact class_change_wrong. Qed.
Print Assumptions C06_class_change_refuted.

(* non-vacuity: a concrete history (zero-diagonal symmetric matrix, vector / scaled / complex block right-hand
   sides, x0, all three modes) meets every hypothesis of C06_history_correct, and it is non-trivial:
   inner-solver columns per call = 1, 0 (reuse), 1 (one of two columns reused) *)
Example C06_nonvacuous_history : hist_ok inner_swap (init_state None None) nv_ops.
Proof. exact nv_hist_ok. Qed.
Example C06_nonvacuous_calls : call_pattern (run inner_swap (init_state None None) nv_ops) = [9; 1; 0; 1]%nat.
Proof. exact nv_calls. Qed.

(* ---- "LinSolve wraps every solver in LDAWrapper by default" (Model/LdaGlue.v = the wrapping statement of
   LinSolve._response, regenerated from the source on every run, bridge/C06/GlueBridge.v).  The wrapper tolerance the
   property names is derived from the solver that is wrapped: 5 x its tolerance when it has one (iterative solvers),
   the default 1e-7 of LDAWrapper otherwise.  Residuals and tolerances are exact rationals here; that the floating
   point residuals of the implementation obey these inequalities is checked by the oracle of tools/checks/C06.py
   (LinSolve around counting CG solvers with tolerances 1e-4 .. 1e-12 and direct solvers). *)
Theorem C06_linsolve_wraps_by_default : forall is_lda use_lda,
  wrap_needed is_lda use_lda = true <-> is_lda = false /\ use_lda = true.
Proof. exact wrap_needed_spec. Qed.
Print Assumptions C06_linsolve_wraps_by_default.

Theorem C06_linsolve_wrapper_tol : (forall t, linsolve_wrapper_tol (Some t) == 5 * t)%Q /\
                                   (linsolve_wrapper_tol None == 1 # 10000000)%Q.
Proof. exact (conj wrapper_tol_iterative wrapper_tol_direct). Qed.
Print Assumptions C06_linsolve_wrapper_tol.

(* a solution accepted by the wrapped solver (relative residual <= its tolerance t) passes the acceptance test of the
   wrapper LinSolve built around it (also with a margin of a factor 5): it is recognised, not solved again *)
Theorem C06_linsolve_inner_solution_recognised : forall t res, (0 <= t)%Q -> (res <= 5 * t)%Q ->
  needs_inner (linsolve_wrapper_tol (Some t)) res = false.
Proof. exact inner_solution_margin. Qed.
Print Assumptions C06_linsolve_inner_solution_recognised.

(* whatever is answered from the database meets the named tolerance; anything worse reaches the inner solver *)
Theorem C06_linsolve_database_answer_within_tol : forall it res,
  needs_inner (linsolve_wrapper_tol it) res = false ->
  (res <= match it with Some t => 5 * t | None => 1 # 10000000 end)%Q.
Proof. exact database_answer_within_tol. Qed.
Print Assumptions C06_linsolve_database_answer_within_tol.

Theorem C06_linsolve_worse_is_solved : forall it res,
  (match it with Some t => 5 * t | None => 1 # 10000000 end < res)%Q -> needs_inner (linsolve_wrapper_tol it) res = true.
Proof. exact worse_than_tol_is_solved. Qed.
Print Assumptions C06_linsolve_worse_is_solved.

(* the variant that tests `hasattr(self.solver, 'tol')` after self.solver was replaced by the wrapper (always
   5 x default) differs from the model for every solver without tolerance and every tolerance other than the default *)
Theorem C06_linsolve_test_after_construction_differs :
  (forall t, ~ (t == lda_default_tol)%Q -> ~ (linsolve_wrapper_tol (Some t) == wrapper_tol_test_after (Some t))%Q) /\
  ~ (linsolve_wrapper_tol None == wrapper_tol_test_after None)%Q.
Proof. exact (conj test_after_differs_iterative test_after_differs_direct). Qed.
Print Assumptions C06_linsolve_test_after_construction_differs.

(* ---- which freshly solved columns are STORED (Model/LdaGlue.v `stored` = the test of _do_solve_1rhs as written,
   regenerated and bridged on every run): the reference of "adds nothing new up to the tolerance" is the norm of the
   column's OWN right-hand side.  Hence the decision is independent of the magnitude (units) of the column -- a block
   whose columns differ by any factor stores each column exactly when it would be stored on its own -- and a column
   of which more than the fraction tol survives the orthogonalisation is stored, so that a later right-hand side in its
   span finds it (reuse theorems above). *)
Theorem C06_storage_test_per_column : forall tol s bnrm bnrm0, (0 < s)%Q ->
  stored tol (s * bnrm) (s * bnrm0) = stored tol bnrm bnrm0.
Proof. exact stored_scale. Qed.
Print Assumptions C06_storage_test_per_column.

Theorem C06_storage_independent_column_stored : forall tol c bnrm0, (tol < c)%Q -> (0 < bnrm0)%Q ->
  stored tol (c * bnrm0) bnrm0 = true.
Proof. exact stored_fraction. Qed.
Print Assumptions C06_storage_independent_column_stored.

(* with any reference norm taken over the whole block (>= the largest column), a column 1/tol times smaller than that
   reference is dropped although it is independent of everything stored: the per-column reference is necessary *)
Theorem C06_storage_large_reference_drops : forall tol bnrm ref, (bnrm <= tol * ref)%Q -> stored tol bnrm ref = false.
Proof. exact stored_large_reference. Qed.
Print Assumptions C06_storage_large_reference_drops.

Theorem C06_storage_block_reference_refuted :
  exists tol bnrm bnrm0 ref, (0 < tol)%Q /\ (tol < 1)%Q /\ (0 < bnrm0)%Q /\ (bnrm0 <= ref)%Q /\
    stored tol bnrm bnrm0 = true /\ stored tol bnrm ref = false.
Proof. exact stored_reference_matters. Qed.
Print Assumptions C06_storage_block_reference_refuted.

(* non-vacuity: CG(tol=1e-4) wrapped by LinSolve: the stored solution (residual 1e-4) and twice it are recognised;
   a direct solver: a right-hand side at relative distance 3e-7 from the database is solved, not reconstructed *)
Example C06_linsolve_tol_examples :
  needs_inner (linsolve_wrapper_tol (Some (1 # 10000))) (1 # 10000) = false /\
  needs_inner (wrapper_tol_test_after (Some (1 # 10000))) (1 # 10000) = true /\
  needs_inner (linsolve_wrapper_tol None) (3 # 10000000) = true /\
  needs_inner (wrapper_tol_test_after None) (3 # 10000000) = false.
Proof. vm_compute. repeat split. Qed.
