(* C12 — element-level operators reproduce affine fields exactly and agree with assembly.
   Statements only; every proof is `exact <lemma>`; Print Assumptions under each.

   Models: Model/ElemOps.v (ElementOperation, Strain, Stress, ElementAverage, NodalOperation, ThermoMechanical as
   written) on top of Model/ElemMat.v / Model/Assembly.v (C08).  s3 stands for the number np.sqrt(3); the theorems
   hold for every s3 <> 0.  Fields: `nodal_field g ndof f` is the nodal vector with value f(node, dof);
   `affine_field2/3` is u(n) = G * get_node_position(n) + c.

   KNOWN FINDING (DESIGN section 5 item 9; pinned by tests/test_element_operations.py::test_pure_shear).
   The full statement of the first clause of the property would be

     C12_strain_affine :  Strain(voigt=True)(u) = (G11, G22, G12 + G21)  [2-D]
                          resp. (G11, G22, G33, G23+G32, G13+G31, G12+G21)  [3-D, Voigt order]   in every element.

   The faithful model (B[idx_shear, :] *= 2 applied to rows of get_B that are engineering shear already) satisfies
   instead `C12_strain_affine_partial_*` below: normal components exact, shear components = 2 x engineering shear;
   `C12_strain_shear_refuted_*` exhibits gradients for which the shear component is not G_ij + G_ji.
   Stress = D @ Strain inherits the doubled shear (C12_stress_affine_2d, _3d), and so does the energy identity:
   `C12_energy_*` states what is true of the model: sum_e x_e V_e sigma_e.eps_e = u^T K u + 3 * shear energy,
   hence equality exactly for shear-free gradients (`C12_energy_shear_free_*`). *)
From Coq Require Import ZArith List Reals Lra.
From Pymoto Require Import Base.Num Base.Qsqrt3 Base.SparseLin Base.FEMat Model.Grid Model.Shape Model.ElemMat Model.Assembly Model.ElemOps.
From Pymoto Require Import Proofs.GridP Proofs.ShapeP Proofs.ElemMatP Proofs.AssemblyP Proofs.ElemOpsP.
Import ListNotations.
Open Scope R_scope.

(* ------------------------------------------------------------------ Strain *)
(* at EVERY point of the element B(p) u = symmetric gradient with engineering shear (the kinematics are right) *)
Theorem C12_B_affine_2d :
  forall hx hy hz px py pz g11 g12 g21 g22 c1 c2, hx <> 0 -> hy <> 0 ->
    mvmul (B_at 2 [hx; hy; hz] [px; py; pz]) (aff2 [hx; hy; hz] g11 g12 g21 g22 c1 c2) = [g11; g22; g12 + g21].
Proof. exact B_affine2. Qed.
Print Assumptions C12_B_affine_2d.

Theorem C12_B_affine_3d :
  forall hx hy hz px py pz g11 g12 g13 g21 g22 g23 g31 g32 g33 c1 c2 c3, hx <> 0 -> hy <> 0 -> hz <> 0 ->
    mvmul (B_at 3 [hx; hy; hz] [px; py; pz]) (aff3 [hx; hy; hz] g11 g12 g13 g21 g22 g23 g31 g32 g33 c1 c2 c3)
    = [g11; g22; g33; g23 + g32; g13 + g31; g12 + g21].
Proof. exact B_affine3. Qed.
Print Assumptions C12_B_affine_3d.

(* what Strain(voigt=True) returns on every grid: rows = components, columns = elements *)
Theorem C12_strain_affine_partial_2d :
  forall g (s3 hx hy hz : R), wf g -> nelz g = 0%Z -> s3 <> 0 -> hx <> 0 -> hy <> 0 ->
  forall g11 g12 g21 g22 c1 c2,
    eo_response g (strain_opmat s3 2 [hx; hy; hz] true) (nodal_field g 2 (affine_field2 g hx hy g11 g12 g21 g22 c1 c2))
    = map (fun v => repeat v (Z.to_nat (nel g))) [g11; g22; 2 * (g12 + g21)].
Proof. exact strain2_global_voigt. Qed.
Print Assumptions C12_strain_affine_partial_2d.

Theorem C12_strain_affine_partial_3d :
  forall g (s3 hx hy hz : R), wf g -> nelz g <> 0%Z -> s3 <> 0 -> hx <> 0 -> hy <> 0 -> hz <> 0 ->
  forall g11 g12 g13 g21 g22 g23 g31 g32 g33 c1 c2 c3,
    eo_response g (strain_opmat s3 3 [hx; hy; hz] true)
                (nodal_field g 3 (affine_field3 g hx hy hz g11 g12 g13 g21 g22 g23 g31 g32 g33 c1 c2 c3))
    = map (fun v => repeat v (Z.to_nat (nel g))) [g11; g22; g33; 2 * (g23 + g32); 2 * (g13 + g31); 2 * (g12 + g21)].
Proof. exact strain3_global_voigt. Qed.
Print Assumptions C12_strain_affine_partial_3d.

(* voigt=False returns the engineering shear gamma (the docstring promises the tensor component eps_xy) *)
Theorem C12_strain_novoigt_2d :
  forall g (s3 hx hy hz : R), wf g -> nelz g = 0%Z -> s3 <> 0 -> hx <> 0 -> hy <> 0 ->
  forall g11 g12 g21 g22 c1 c2,
    eo_response g (strain_opmat s3 2 [hx; hy; hz] false) (nodal_field g 2 (affine_field2 g hx hy g11 g12 g21 g22 c1 c2))
    = map (fun v => repeat v (Z.to_nat (nel g))) [g11; g22; g12 + g21].
Proof. exact strain2_global_novoigt. Qed.
Print Assumptions C12_strain_novoigt_2d.

Theorem C12_strain_novoigt_3d :
  forall g (s3 hx hy hz : R), wf g -> nelz g <> 0%Z -> s3 <> 0 -> hx <> 0 -> hy <> 0 -> hz <> 0 ->
  forall g11 g12 g13 g21 g22 g23 g31 g32 g33 c1 c2 c3,
    eo_response g (strain_opmat s3 3 [hx; hy; hz] false)
                (nodal_field g 3 (affine_field3 g hx hy hz g11 g12 g13 g21 g22 g23 g31 g32 g33 c1 c2 c3))
    = map (fun v => repeat v (Z.to_nat (nel g))) [g11; g22; g33; g23 + g32; g13 + g31; g12 + g21].
Proof. exact strain3_global_novoigt. Qed.
Print Assumptions C12_strain_novoigt_3d.

(* the shear component of Strain(voigt=True) is NOT the engineering shear: witness u = (y, 0) on one unit element *)
Theorem C12_strain_shear_refuted_2d :
  exists g (s3 hx hy hz g11 g12 g21 g22 c1 c2 : R),
    wf g /\ nelz g = 0%Z /\ s3 <> 0 /\ hx <> 0 /\ hy <> 0 /\
    nth 2 (eo_response g (strain_opmat s3 2 [hx; hy; hz] true) (nodal_field g 2 (affine_field2 g hx hy g11 g12 g21 g22 c1 c2))) []
    <> repeat (g12 + g21) (Z.to_nat (nel g)).
Proof. exact strain2_shear_refuted. Qed.
Print Assumptions C12_strain_shear_refuted_2d.

Theorem C12_strain_shear_refuted_3d :
  exists g (s3 hx hy hz g11 g12 g13 g21 g22 g23 g31 g32 g33 c1 c2 c3 : R),
    wf g /\ nelz g <> 0%Z /\ s3 <> 0 /\ hx <> 0 /\ hy <> 0 /\ hz <> 0 /\
    nth 5 (eo_response g (strain_opmat s3 3 [hx; hy; hz] true)
                       (nodal_field g 3 (affine_field3 g hx hy hz g11 g12 g13 g21 g22 g23 g31 g32 g33 c1 c2 c3))) []
    <> repeat (g12 + g21) (Z.to_nat (nel g)).
Proof. exact strain3_shear_refuted. Qed.
Print Assumptions C12_strain_shear_refuted_3d.

(* ------------------------------------------------------------------ Stress *)
(* sigma_e = D . eps_e for ANY nodal vector (eps_e = what Strain(voigt=True) returns in that element) *)
Theorem C12_stress_is_D_strain_2d :
  forall (s3 hx hy hz E nu : R) mode v,
    mvmul (stress_B s3 2 [hx; hy; hz] E nu mode) v
    = mvmul (material_D 2 [hx; hy; hz] E nu mode) (mvmul (strain_B s3 2 [hx; hy; hz] true) v).
Proof. exact stress2_is_D_strain. Qed.
Print Assumptions C12_stress_is_D_strain_2d.

Theorem C12_stress_is_D_strain_3d :
  forall (s3 hx hy hz E nu : R) mode v,
    mvmul (stress_B s3 3 [hx; hy; hz] E nu mode) v
    = mvmul (material_D 3 [hx; hy; hz] E nu mode) (mvmul (strain_B s3 3 [hx; hy; hz] true) v).
Proof. exact stress3_is_D_strain. Qed.
Print Assumptions C12_stress_is_D_strain_3d.

Theorem C12_stress_affine_2d :
  forall g (s3 hx hy hz E nu : R) mode g11 g12 g21 g22 c1 c2,
    wf g -> nelz g = 0%Z -> s3 <> 0 -> hx <> 0 -> hy <> 0 ->
    eo_response g (stress_opmat s3 2 [hx; hy; hz] E nu mode) (nodal_field g 2 (affine_field2 g hx hy g11 g12 g21 g22 c1 c2))
    = map (fun v => repeat v (Z.to_nat (nel g))) (mvmul (material_D 2 [hx; hy; hz] E nu mode) [g11; g22; 2 * (g12 + g21)]).
Proof. exact stress2_global. Qed.
Print Assumptions C12_stress_affine_2d.

Theorem C12_stress_affine_3d :
  forall g (s3 hx hy hz E nu : R) mode g11 g12 g13 g21 g22 g23 g31 g32 g33 c1 c2 c3,
    wf g -> nelz g <> 0%Z -> s3 <> 0 -> hx <> 0 -> hy <> 0 -> hz <> 0 ->
    eo_response g (stress_opmat s3 3 [hx; hy; hz] E nu mode)
                (nodal_field g 3 (affine_field3 g hx hy hz g11 g12 g13 g21 g22 g23 g31 g32 g33 c1 c2 c3))
    = map (fun v => repeat v (Z.to_nat (nel g)))
          (mvmul (material_D 3 [hx; hy; hz] E nu mode) [g11; g22; g33; 2 * (g23 + g32); 2 * (g13 + g31); 2 * (g12 + g21)]).
Proof. exact stress3_global. Qed.
Print Assumptions C12_stress_affine_3d.

(* ------------------------------------------------------------------ energy *)
(* element level, true strain: u_e^T K_e u_e = V_e * eps^T D eps *)
Theorem C12_energy_elem_2d :
  forall (s3 hx hy hz E nu g11 g12 g21 g22 c1 c2 : R) mode, (mode = 0 \/ mode = 1)%Z -> hx <> 0 -> hy <> 0 ->
    quad (stiffness_element s3 2 [hx; hy; hz] E nu mode) (aff2 [hx; hy; hz] g11 g12 g21 g22 c1 c2)
    = hx * hy * quad (material_D 2 [hx; hy; hz] E nu mode) [g11; g22; g12 + g21].
Proof. exact energy2_elem. Qed.
Print Assumptions C12_energy_elem_2d.

Theorem C12_energy_elem_3d :
  forall (s3 hx hy hz E nu g11 g12 g13 g21 g22 g23 g31 g32 g33 c1 c2 c3 : R) mode, hx <> 0 -> hy <> 0 -> hz <> 0 ->
    quad (stiffness_element s3 3 [hx; hy; hz] E nu mode) (aff3 [hx; hy; hz] g11 g12 g13 g21 g22 g23 g31 g32 g33 c1 c2 c3)
    = hx * hy * hz * quad (material_D 3 [hx; hy; hz] E nu mode) [g11; g22; g33; g23 + g32; g13 + g31; g12 + g21].
Proof. exact energy3_elem. Qed.
Print Assumptions C12_energy_elem_3d.

(* module outputs against the assembled stiffness matrix of C08 (2-D: D carries the thickness hz, V_e = hx*hy) *)
Theorem C12_energy_2d :
  forall g (s3 hx hy hz E nu : R) mode (bcd : R) (x : list R) g11 g12 g21 g22 c1 c2,
    wf g -> nelz g = 0%Z -> (mode = 0 \/ mode = 1)%Z -> s3 <> 0 -> hx <> 0 -> hy <> 0 -> length x = Z.to_nat (nel g) ->
    let h := [hx; hy; hz] in
    let u := nodal_field g 2 (affine_field2 g hx hy g11 g12 g21 g22 c1 c2) in
    let D := material_D 2 h E nu mode in
    energy_sum x (hx * hy) (eo_response g (stress_opmat s3 2 h E nu mode) u) (eo_response g (strain_opmat s3 2 h true) u)
    = dot u (apply (to_triples (asm_ztriples g (stiffness_element s3 2 h E nu mode) None bcd x)) (Z.to_nat (asm_n g 2)) u)
      + 3 * (hx * hy) * quad D [0; 0; g12 + g21] * nsum x.
Proof. exact energy2_global. Qed.
Print Assumptions C12_energy_2d.

Theorem C12_energy_3d :
  forall g (s3 hx hy hz E nu : R) mode (bcd : R) (x : list R) g11 g12 g13 g21 g22 g23 g31 g32 g33 c1 c2 c3,
    wf g -> nelz g <> 0%Z -> s3 <> 0 -> hx <> 0 -> hy <> 0 -> hz <> 0 -> length x = Z.to_nat (nel g) ->
    let h := [hx; hy; hz] in
    let u := nodal_field g 3 (affine_field3 g hx hy hz g11 g12 g13 g21 g22 g23 g31 g32 g33 c1 c2 c3) in
    let D := material_D 3 h E nu mode in
    energy_sum x (hx * hy * hz) (eo_response g (stress_opmat s3 3 h E nu mode) u) (eo_response g (strain_opmat s3 3 h true) u)
    = dot u (apply (to_triples (asm_ztriples g (stiffness_element s3 3 h E nu mode) None bcd x)) (Z.to_nat (asm_n g 3)) u)
      + 3 * (hx * hy * hz) * quad D [0; 0; 0; g23 + g32; g13 + g31; g12 + g21] * nsum x.
Proof. exact energy3_global. Qed.
Print Assumptions C12_energy_3d.

Theorem C12_energy_shear_free_2d :
  forall g (s3 hx hy hz E nu : R) mode (bcd : R) (x : list R) g11 g12 g21 g22 c1 c2,
    wf g -> nelz g = 0%Z -> (mode = 0 \/ mode = 1)%Z -> s3 <> 0 -> hx <> 0 -> hy <> 0 -> length x = Z.to_nat (nel g) ->
    g12 + g21 = 0 ->
    let h := [hx; hy; hz] in
    let u := nodal_field g 2 (affine_field2 g hx hy g11 g12 g21 g22 c1 c2) in
    energy_sum x (hx * hy) (eo_response g (stress_opmat s3 2 h E nu mode) u) (eo_response g (strain_opmat s3 2 h true) u)
    = dot u (apply (to_triples (asm_ztriples g (stiffness_element s3 2 h E nu mode) None bcd x)) (Z.to_nat (asm_n g 2)) u).
Proof. exact energy2_shear_free. Qed.
Print Assumptions C12_energy_shear_free_2d.

Theorem C12_energy_shear_free_3d :
  forall g (s3 hx hy hz E nu : R) mode (bcd : R) (x : list R) g11 g12 g13 g21 g22 g23 g31 g32 g33 c1 c2 c3,
    wf g -> nelz g <> 0%Z -> s3 <> 0 -> hx <> 0 -> hy <> 0 -> hz <> 0 -> length x = Z.to_nat (nel g) ->
    g23 + g32 = 0 -> g13 + g31 = 0 -> g12 + g21 = 0 ->
    let h := [hx; hy; hz] in
    let u := nodal_field g 3 (affine_field3 g hx hy hz g11 g12 g13 g21 g22 g23 g31 g32 g33 c1 c2 c3) in
    energy_sum x (hx * hy * hz) (eo_response g (stress_opmat s3 3 h E nu mode) u) (eo_response g (strain_opmat s3 3 h true) u)
    = dot u (apply (to_triples (asm_ztriples g (stiffness_element s3 3 h E nu mode) None bcd x)) (Z.to_nat (asm_n g 3)) u).
Proof. exact energy3_shear_free. Qed.
Print Assumptions C12_energy_shear_free_3d.

(* ------------------------------------------------------------------ ElementAverage *)
Theorem C12_element_average_centroid_2d :
  forall g (hx hy hz c0 gx gy : R), wf g -> nelz g = 0%Z -> hx <> 0 -> hy <> 0 ->
    eo_response g (average_opmat 2 [hx; hy; hz]) (nodal_field g 1 (lin_field2 g hx hy c0 gx gy))
    = [map (fun e => c0 + gx * (hx * (IZR (elem_i g e) + 1 / 2)) + gy * (hy * (IZR (elem_j g e) + 1 / 2))) (zrange (nel g))].
Proof. exact average2_global. Qed.
Print Assumptions C12_element_average_centroid_2d.

Theorem C12_element_average_centroid_3d :
  forall g (hx hy hz c0 gx gy gz : R), wf g -> nelz g <> 0%Z -> hx <> 0 -> hy <> 0 -> hz <> 0 ->
    eo_response g (average_opmat 3 [hx; hy; hz]) (nodal_field g 1 (lin_field3 g hx hy hz c0 gx gy gz))
    = [map (fun e => c0 + gx * (hx * (IZR (elem_i g e) + 1 / 2)) + gy * (hy * (IZR (elem_j g e) + 1 / 2))
                        + gz * (hz * (IZR (elem_k g e) + 1 / 2))) (zrange (nel g))].
Proof. exact average3_global. Qed.
Print Assumptions C12_element_average_centroid_3d.

(* ------------------------------------------------------------------ NodalOperation = transpose of ElementOperation *)
(* the two einsum/scatter primitives are adjoint for every operator array, connectivity and data *)
Theorem C12_primitives_adjoint :
  forall kd (rows : list (list R)) (dcs : list (list Z)) n (W : list (list R)) u,
    Forall (fun r => length r = kd) rows ->
    length W = length rows -> Forall (fun w => length w = length dcs) W ->
    length u = n -> Forall (fun dce => Forall (fun d => (Z.to_nat d < n)%nat) dce) dcs ->
    mdot W (op_fwd rows dcs u) = dot (op_bwd kd rows dcs n W) u.
Proof. exact (op_adjoint RthR). Qed.
Print Assumptions C12_primitives_adjoint.

(* <X, ElementOperation(u)> = <NodalOperation(X), u> on every grid, for every operator array with
   #dofs_per_element columns and any leading shape (rows = its C-order flattening) *)
Theorem C12_nodal_is_transpose :
  forall g (em : @opmat R) ndof (X : list (list R)) (u : list R),
    wf g -> (1 <= ndof)%Z -> om_kd em = (elemnodes g * ndof)%Z ->
    Forall (fun r => length r = Z.to_nat (om_kd em)) (om_rows em) ->
    length u = Z.to_nat (ndof * nnodes g) ->
    length X = length (om_rows em) -> Forall (fun w => length w = Z.to_nat (nel g)) X ->
    mdot X (eo_response g em u) = dot (no_response g em X) u.
Proof. exact eo_no_adjoint. Qed.
Print Assumptions C12_nodal_is_transpose.

(* ------------------------------------------------------------------ ThermoMechanical *)
Theorem C12_thermal_self_equilibrated_2d :
  forall g (s3 hx hy hz E nu alpha : R) mode (x : list R) k,
    wf g -> nelz g = 0%Z -> (mode = 0 \/ mode = 1)%Z -> hx <> 0 -> hy <> 0 -> length x = Z.to_nat (nel g) -> (k < 2)%nat ->
    dot (no_response g (thermo_opmat s3 2 [hx; hy; hz] E nu alpha mode) [x]) (nodal_field g 2 (dir_field (Z.of_nat k))) = 0.
Proof. exact thermal2_self_equilibrated. Qed.
Print Assumptions C12_thermal_self_equilibrated_2d.

Theorem C12_thermal_self_equilibrated_3d :
  forall g (s3 hx hy hz E nu alpha : R) mode (x : list R) k,
    wf g -> nelz g <> 0%Z -> hx <> 0 -> hy <> 0 -> hz <> 0 -> length x = Z.to_nat (nel g) -> (k < 3)%nat ->
    dot (no_response g (thermo_opmat s3 3 [hx; hy; hz] E nu alpha mode) [x]) (nodal_field g 3 (dir_field (Z.of_nat k))) = 0.
Proof. exact thermal3_self_equilibrated. Qed.
Print Assumptions C12_thermal_self_equilibrated_3d.

(* element level: K_e times the free thermal expansion field alpha*x (any offset) = the element load alpha*BDPhi.
   (holds algebraically for every plane mode; the property asks for plane stress and 3-D) *)
Theorem C12_thermal_is_K_times_expansion_elem_2d :
  forall (s3 hx hy hz E nu alpha c1 c2 : R) mode, (mode = 0 \/ mode = 1)%Z -> hx <> 0 -> hy <> 0 ->
    mvmul (stiffness_element s3 2 [hx; hy; hz] E nu mode) (aff2 [hx; hy; hz] alpha 0 0 alpha c1 c2)
    = vscale alpha (thermo_BDPhi s3 2 [hx; hy; hz] E nu mode).
Proof. exact thermo2_is_K_expansion. Qed.
Print Assumptions C12_thermal_is_K_times_expansion_elem_2d.

Theorem C12_thermal_is_K_times_expansion_elem_3d :
  forall (s3 hx hy hz E nu alpha c1 c2 c3 : R) mode, hx <> 0 -> hy <> 0 -> hz <> 0 ->
    mvmul (stiffness_element s3 3 [hx; hy; hz] E nu mode) (aff3 [hx; hy; hz] alpha 0 0 0 alpha 0 0 0 alpha c1 c2 c3)
    = vscale alpha (thermo_BDPhi s3 3 [hx; hy; hz] E nu mode).
Proof. exact thermo3_is_K_expansion. Qed.
Print Assumptions C12_thermal_is_K_times_expansion_elem_3d.

(* ------------------------------------------------------------------ non-vacuity *)
(* concrete 2x1 grid, integer operator: ElementOperation / NodalOperation outputs are the expected non-trivial
   numbers and the adjoint identity holds on them (both sides = 227) *)
Example C12_nonvacuous :
  let g := {| nelx := 2; nely := 1; nelz := 0 |} in
  let em : @opmat Z := {| om_lead := [2%Z]; om_kd := 4; om_rows := [[1; 2; 3; 4]; [0; -1; 0; 1]]%Z |} in
  let u := [1; 2; 3; 4; 5; 6]%Z in
  let X := [[7; -1]; [2; 3]]%Z in
  (Z.eqb (eo_status g em 6) 0 = true /\ wf g) /\
  eo_response g em u = [[37; 47]; [3; 3]]%Z /\
  no_response g em X = [7; 11; -5; 21; 27; -1]%Z /\
  nsum (map (fun p => dot (fst p) (snd p)) (combine X (eo_response g em u))) = dot (no_response g em X) u.
Proof. vm_compute. repeat split; try reflexivity; try discriminate. Qed.
