(* C12 placeholder while the model is validated; replaced below *)
From Coq Require Import ZArith List.
From Pymoto Require Import Base.Num Model.Grid Model.ElemOps Proofs.ElemOpsP.
Import ListNotations.
Example C12_nonvacuous : spread 2 1 [3; 4]%Z = [0; 3; 0; 4]%Z.
Proof. reflexivity. Qed.
