(* C15 — DyadCarrier behaves exactly like the dense matrix it represents.
   Statements only; every proof is `exact <lemma>`; Print Assumptions under each.

   Vocabulary (definitions in Model/Dyad.v, Model/DyadSpec.v, Proofs/DyadP.v):
   * carrier  = {us vs : list of stored vectors, each with its own dtype flag; ulen vlen : Z (negative = unknown); cplx}
   * wf c     = the invariant of the class: as many u as v vectors, every u has length ulen, every v length vlen,
                a complex stored vector makes the carrier complex
   * dm       = {dr dc : declared shape; dmat : plain matrix; dflag : numpy's promoted dtype}   (the dense side)
   * R c d    = ulen c = dr d /\ vlen c = dc d /\ todense c = dmat d /\ (cplx c = true -> dflag d = true)
                "d is the dense image of c": same shape, same entries, and the carrier is complex only if numpy's
                promotion rule makes the dense result complex
   * Rres     = R on carrier results, equality of data/shape and the same bound on the complex flag for
                scalar / vector / matrix / batch results, equality of the error class for documented restrictions
   * dstep / drun = the same operation / program on the dense side (None = outside the domain: non-conforming
                shapes, out-of-range indices, unknown shape where numpy needs one) *)
From Coq Require Import ZArith List Bool.
From Pymoto Require Import Base.Gauss Base.Mat Model.Dyad Model.DyadSpec Proofs.DyadP.
Import ListNotations.
Open Scope Z_scope.

(* abstraction function: todense() is the sum of the outer products, entry by entry, for any number of dyads *)
Theorem C15_todense : forall c, wf c ->
  todense c = mtab (Z.to_nat (ulen c)) (Z.to_nat (vlen c))
                   (fun i j => csum (map (fun p => vget (vd (fst p)) i * vget (vd (snd p)) j)%C (combine (us c) (vs c)))).
Proof. exact todense_tab. Qed.
Print Assumptions C15_todense.

(* construction from vector lists / blocks / scalars / shape only, and add_dyad(u, v, fac) *)
Theorem C15_constructor : forall u v r cn d', dadd_dyad (dzero r cn) u v None = Some d' ->
  exists c', new u v r cn = Ok c' /\ wf c' /\ R c' d'.
Proof. exact new_refines. Qed.
Print Assumptions C15_constructor.

Theorem C15_add_dyad : forall c d u v fac d', wf c -> R c d -> dadd_dyad d u v fac = Some d' ->
  exists c', add_dyad c u v fac = (c', None) /\ wf c' /\ R c' d'.
Proof. exact add_dyad_refines. Qed.
Print Assumptions C15_add_dyad.

(* copy, +A, -A, transpose / T, conj, real, imag *)
Theorem C15_unary : forall k c d, wf c -> R c d -> exists c', un_apply k c = Ok c' /\ wf c' /\ R c' (dun k d).
Proof. exact un_refines. Qed.
Print Assumptions C15_unary.

(* A * s and s * A *)
Theorem C15_scalar_mul : forall c d x f, wf c -> R c d -> exists c', mul c x f = Ok c' /\ wf c' /\ R c' (dmul d x f).
Proof. exact mul_refines. Qed.
Print Assumptions C15_scalar_mul.

Theorem C15_scalar_rmul : forall c d x f, wf c -> R c d -> exists c', rmul c x f = Ok c' /\ wf c' /\ R c' (dmul d x f).
Proof. exact rmul_refines. Qed.
Print Assumptions C15_scalar_rmul.

(* A += B, A -= B *)
Theorem C15_inplace_add_sub : forall (minus : bool) c o d od d', wf c -> wf o -> R c d -> R o od ->
  diadd minus d od = Some d' ->
  exists c', (if minus then isub c o else iadd c o) = (c', None) /\ wf c' /\ R c' d'.
Proof. exact iadd_refines. Qed.
Print Assumptions C15_inplace_add_sub.

(* A + x, x + A, A - x, x - A (x: scalar 0, carrier, broadcast dense array), A @ x, x @ A, A.dot(x) (x: vector, matrix) *)
Theorem C15_binary : forall k c d x dx r, wf c -> R c d -> Rarg x dx -> dbin k d dx = Some r -> Rres (bin_apply k c x) r.
Proof. exact bin_refines. Qed.
Print Assumptions C15_binary.

Theorem C15_diagonal : forall c d k, wf c -> R c d -> out_le (diagonal c k) (ddiag d k).
Proof. exact diag_refines. Qed.
Print Assumptions C15_diagonal.

(* A[i, j]: element, row / column slice, paired index arrays, sub-block *)
Theorem C15_getitem : forall c d i j r, wf c -> R c d -> dget d i j = Some r -> Rres (getitem c i j) r.
Proof. exact get_refines. Qed.
Print Assumptions C15_getitem.

(* A[i, :] = 0, A[:, j] = 0, A[:, :] = 0, and the documented errors *)
Theorem C15_setitem : forall c d i j v d' e, wf c -> R c d -> dset d i j v = Some (d', e) ->
  exists c', setitem c i j v = (c', e) /\ wf c' /\ R c' d'.
Proof. exact set_refines. Qed.
Print Assumptions C15_setitem.

(* contract(): plain, with a (dense or sparse) matrix, sliced rows / cols, batched *)
Theorem C15_contract : forall c d mat rows cols r, wf c -> R c d -> dcontract d mat rows cols = Some r ->
  Rres (contract c mat rows cols) r.
Proof. exact contract_refines. Qed.
Print Assumptions C15_contract.

(* contract_multi(): a list of sparse matrices (coo triples), None entries and dense fall-backs *)
Theorem C15_contract_multi : forall c d mats r, wf c -> R c d -> dcontract_multi d mats = Some r ->
  Rres (contract_multi c mats) r.
Proof. exact multi_refines. Qed.
Print Assumptions C15_contract_multi.

(* one step and whole programs: the dense image of the final store is the dense program's final store and every
   output agrees, for every program the dense side accepts; the invariant is preserved *)
Theorem C15_step : forall o s ds ds' r', wfs s -> Rs s ds -> dstep o ds = Some (ds', r') ->
  exists s' r, step o s = (s', r) /\ wfs s' /\ Rs s' ds' /\ Rres r r'.
Proof. exact step_refines. Qed.
Print Assumptions C15_step.

Theorem C15_program : forall p s ds ds' rs', wfs s -> Rs s ds -> drun p ds = Some (ds', rs') ->
  exists s' rs, run p s = (s', rs) /\ wfs s' /\ Rs s' ds' /\ Forall2 Rres rs rs'.
Proof. exact program_refines. Qed.
Print Assumptions C15_program.

(* the accumulator pattern  A = DyadCarrier() / DyadCarrier(shape=...);  A += B  (A -= B): a carrier without dyads
   takes its unknown dimensions from the first carrier with dyads that is added and then represents (minus) that matrix *)
Theorem C15_accumulate_into_empty : forall (minus : bool) c o od, wf c -> wf o -> R o od ->
  us c = [] -> us o <> [] -> (ulen c < 0 \/ ulen c = ulen o) -> (vlen c < 0 \/ vlen c = vlen o) ->
  exists c', (if minus then isub c o else iadd c o) = (c', None) /\ wf c' /\
             R c' (mkdm (dr od) (dc od) (if minus then mmap copp (dmat od) else dmat od) (dflag od || cplx c)).
Proof. exact iadd_into_empty_refines. Qed.
Print Assumptions C15_accumulate_into_empty.

(* the complex/real type is sound: when every float64-typed input holds real data (op_real: literal operands of the
   program; wrs: the initial store), every carrier of the final store that reports iscomplex() = False represents a
   matrix without imaginary parts.  (The other direction is the flag clause of R: complex only if numpy promotes.) *)
Theorem C15_real_type : forall c, wf c -> wr c -> cplx c = false -> Forall (Forall creal) (todense c).
Proof. exact real_type. Qed.
Print Assumptions C15_real_type.

Theorem C15_real_type_program : forall p s ds ds' rs', wfs s -> wrs s -> Rs s ds -> Forall op_real p ->
  drun p ds = Some (ds', rs') ->
  forall c, In c (fst (run p s)) -> cplx c = false -> Forall (Forall creal) (todense c).
Proof. exact program_real_type. Qed.
Print Assumptions C15_real_type_program.

(* value semantics: a step changes no slot of the store other than the one it binds / mutates in place *)
Theorem C15_value_semantics : forall o s n, writes o <> Some n -> (n < length s)%nat ->
  nth_error (fst (step o s)) n = nth_error s n.
Proof. exact step_frame. Qed.
Print Assumptions C15_value_semantics.

(* ---- no hidden state (the object keeps nothing between calls that an in-place operation could leave stale).
   same_value a b = both results have the same data and shape (carriers: the same represented matrix and shape), or
   both are the same documented error.  These are consequences of C15_step / C15_program: every result is related
   to the result of the dense program, which is a function of the current matrices only. *)
(* todense, diagonal, contract and contract_multi leave every carrier of the store as it is *)
Theorem C15_reads_keep_store : forall o s, writes o = None -> fst (step o s) = s.
Proof. exact read_keeps_store. Qed.
Print Assumptions C15_reads_keep_store.

(* any operation on two stores that represent the same matrices returns the same value and leads to stores that
   again represent the same matrices *)
Theorem C15_no_hidden_state : forall o s1 s2 ds ds' r', wfs s1 -> wfs s2 -> Rs s1 ds -> Rs s2 ds ->
  dstep o ds = Some (ds', r') ->
  same_value (snd (step o s1)) (snd (step o s2)) /\ Rs (fst (step o s1)) ds' /\ Rs (fst (step o s2)) ds'.
Proof. exact step_no_hidden_state. Qed.
Print Assumptions C15_no_hidden_state.

(* two histories (programs from the empty store) ending in the same matrices: every further operation, a read in
   particular, returns the same value after both, namely the value of the dense operation *)
Theorem C15_history_independence : forall p1 p2 ds rs1 rs2 o ds' r',
  drun p1 [] = Some (ds, rs1) -> drun p2 [] = Some (ds, rs2) -> dstep o ds = Some (ds', r') ->
  same_value (snd (step o (fst (run p1 [])))) (snd (step o (fst (run p2 [])))) /\
  Rres (snd (step o (fst (run p1 [])))) r'.
Proof. exact history_independence. Qed.
Print Assumptions C15_history_independence.

(* ---- non-vacuity: a concrete program with real/complex mixtures, zero vectors, an empty carrier, slicing, zeroing and
   contraction is inside the domain of the dense side (so C15_program applies to it from the empty store) *)
Definition demo : list op :=
  [ ONew 0 (UList [IVec (rv [1; 2; 3]) false; IVec [(0, 1); (2, 0); (0, 0)] true; IVec (rv [0; 0; 0]) false])
           (UList [IVec (rv [1; -1]) false; IVec (rv [2; 5]) false; IVec (rv [1; 1]) false]) (-1) (-1);
    ONew 1 UNone UNone (-1) (-1);
    OUn UImag 2 0;
    OBin BMatmul 3 0 (AMat 2 2 (rm [[1; 2]; [3; 4]]) false);
    OIsub 3 2;
    OIadd 3 1;
    OBin BAdd 1 3 (ASlot 0);
    OGet 2 1 (ISlice (Some 1) None None) (IArr [1; -2]);
    OGet 2 1 (IInt (-1)) (ISlice None None (Some (-1)));
    OSet 1 (IArr [1; -2]) (ISlice None None None) c0;
    OSet 1 (IInt 0) (IInt 0) c1;
    OBin BSub 2 1 (AVec (rv [1; 1]) false);
    ODiag 1 (-1);
    OContract 1 (Some (mkcmat (Some [2]) 2 2 [rm [[1; 0]; [0; 1]]; rm [[0; 1]; [1; 0]]] false))
              (Some (mkcidx (Some [2]) 2 [[0; 1]; [1; 2]])) None;
    OContractMulti 1 [MSp [(0, 1, (2, 0)); (2, 0, (0, 1))] true; MNone; MDense (mkcmat None 3 2 [rm [[1; 1]; [1; 1]; [1; 1]]] false)];
    OBin BRadd 2 1 (AScal c1 false) ].

Example C15_program_nonvacuous : exists ds rs, drun demo [] = Some (ds, rs) /\ length rs = 16%nat /\ length ds = 4%nat.
Proof. eexists _, _. split; [vm_compute; reflexivity | split; reflexivity]. Qed.

Example C15_demo_operands_typed : Forall op_real demo.
Proof. unfold demo. repeat (constructor; cbn; intros; try discriminate; auto). Qed.

Example C15_demo_outputs :
  nth 8 (snd (run demo [])) (Er OtherE) = Ok (OVec [(-9, 0); (-3, 0)] true) /\
  nth 10 (snd (run demo [])) (Ok ONone) = Er ValueE /\
  nth 11 (snd (run demo [])) (Er OtherE) = Ok (OMat 3 2 [[(-4, 19); (-9, 29)]; [(-1, 0); (-1, 0)]; [(-4, 0); (-10, 0)]] true) /\
  nth 13 (snd (run demo [])) (Er OtherE) = Ok (OBatch [2] [(-3, 19); (-3, 0)] true) /\
  nth 14 (snd (run demo [])) (Er OtherE) = Ok (OVec [(-16, 55); (0, 0); (-23, 48)] true) /\
  nth 15 (snd (run demo [])) (Ok ONone) = Er RuntimeE.
Proof. vm_compute. repeat split. Qed.

(* non-vacuity of C15_history_independence: contract_multi after (new; contract_multi; zero a row) and after
   (new with that row already zero) — same matrices, different histories and different stored vectors *)
Definition hist1 : list op :=
  [ ONew 0 (UList [IVec (rv [1; 2; 3]) false; IVec (rv [0; 1; 1]) false]) (UList [IVec (rv [1; -1]) false; IVec (rv [2; 5]) false]) (-1) (-1);
    OContractMulti 0 [MSp [(0, 1, (2, 0)); (1, 0, (1, 0))] false];
    OSet 0 (IInt 1) (ISlice None None None) c0 ].
Definition hist2 : list op :=
  [ ONew 0 (UList [IVec (rv [1; 0; 3]) false; IVec (rv [0; 0; 1]) false; IVec (rv [0; 0; 0]) false])
           (UList [IVec (rv [1; -1]) false; IVec (rv [2; 5]) false; IVec (rv [1; 1]) false]) 3 2 ].
Example C15_history_independence_nonvacuous : exists ds rs1 rs2 ds' r',
  drun hist1 [] = Some (ds, rs1) /\ drun hist2 [] = Some (ds, rs2) /\
  dstep (OContractMulti 0 [MSp [(0, 1, (2, 0)); (1, 0, (1, 0))] false]) ds = Some (ds', r') /\
  snd (step (OContractMulti 0 [MSp [(0, 1, (2, 0)); (1, 0, (1, 0))] false]) (fst (run hist1 []))) = Ok (OVec [(-2, 0)] false).
Proof. eexists _, _, _, _, _. repeat split; vm_compute; reflexivity. Qed.
