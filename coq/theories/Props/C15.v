(* C15 — DyadCarrier behaves exactly like the dense matrix it represents (statements only). *)
From Coq Require Import ZArith List Bool.
From Pymoto Require Import Base.Gauss Base.Mat Model.Dyad.
Import ListNotations.
Open Scope Z_scope.

Example C15_placeholder : todense (empty 1 1) = [[c0]].
Proof. reflexivity. Qed.
