(* C01 (part c) — OverhangFilter: the sensitivity is the exact adjoint of the response.
   Statements only; every proof is `exact <lemma>`; Print Assumptions under each.
   Models: Model/Overhang.v (_prepare, _response; property C14) and Model/OverhangAdj.v (_sensitivity, the array
   self.smax stored by _response, the tangent sweep); lemmas: Proofs/OverhangAdjP.v.

   Vocabulary
     sweep smin smax 0 g dl dx n x        the loop of _response (dir_layer = dl, dx_layer = dx, nsampling = n)  [C14]
     sweep2 smin smax g dl dx n x         the same loop returning (xprint, self.smax); its first component IS sweep
     sens_sweep dmin_x dmin_s dmax g dl dx n x xprint smax w
                                          the reverse loop of _sensitivity for the seed w = dxprint: layers from the last
                                          printed one down to layer 1, per layer dx[els] = w dmin_x, dfdsmax = w dmin_s, then for
                                          every offset (in table order, masked) dxprint[supports] += dfdsmax dmax; finally the
                                          base layer is transferred; a single-layer domain returns the seed
     tangent_sweep ... x xprint smax v    forward-mode linearisation of the response loop in direction v, with the same factor
                                          functions evaluated at the same stored values
     dmin_x_R, dmin_s_R, dmax_R           the partial derivatives as the code computes them (dmax from the STORED maximum:
                                          keep = (smax+backshift)^q, p keep^(1/q-1)/q (xp+shift)^(p-1))
     sensitivity / response .. g d n ..   the module for a direction vector d (dl = argmax |d|, dx = sign d[dl])
     dot, vadd, vscale                    Base/Num.v;  vadd x (vscale t v) = x + t v                                         *)
From Coq Require Import ZArith QArith List Reals Lia.
From Coquelicot Require Import Coquelicot.
From Pymoto Require Import Base.Num Model.Grid Model.Overhang Model.OverhangAdj Proofs.GridP Proofs.OverhangP Proofs.OverhangAdjP.
Import ListNotations.
Open Scope Z_scope.

(* ------------------------------------------------------------------------------------------------------------ *)
(* 1. Algebraic adjointness.  Over ANY commutative ring K, for ANY factor functions dmin_x, dmin_s, dmax and ANY stored
      arrays x, xprint, smax (any lengths): the reverse sweep is the transpose of the tangent sweep.  Every grid with
      >= 1 layer, each print axis dl = 0,1,2 and both senses, EVERY nsampling (in particular 3, 5, 9), every seed w and
      direction v.  (Induction over the layers; the reverse sweep multiplies the layer Jacobians in reverse order.)      *)
Theorem C01_overhang_algebraic_adjoint :
  forall (K : Type) (H : Num K), ring_theory (@nzero K H) none_ nadd nmul nsub nopp (@eq K) ->
  forall (dmin_x dmin_s dmax : K -> K -> K) (g : grid) (dl dx nsamp : Z),
  wf g -> 0 <= dl <= 2 -> dx = 1 \/ dx = -1 ->
  forall x xprint smax v : list K, Z.of_nat (length v) = nel g ->
  forall w : list K, Z.of_nat (length w) = nel g ->
  dot w (tangent_sweep dmin_x dmin_s dmax g dl dx nsamp x xprint smax v) =
  dot (sens_sweep dmin_x dmin_s dmax g dl dx nsamp x xprint smax w) v.
Proof. exact @sens_sweep_adjoint. Qed.
Print Assumptions C01_overhang_algebraic_adjoint.

(* a domain with one layer in print direction: the seed is returned unchanged (the response is the identity there: C14) *)
Theorem C01_overhang_single_layer :
  forall (K : Type) (H : Num K) (dmin_x dmin_s dmax : K -> K -> K) g dl dx nsamp (x xprint smax w : list K),
  nlay g dl = 1 -> sens_sweep dmin_x dmin_s dmax g dl dx nsamp x xprint smax w = w.
Proof. exact @sens_single_layer. Qed.
Print Assumptions C01_overhang_single_layer.

(* what _response stores for _sensitivity: xprint is the C14 sweep; self.smax[e] is the smooth maximum of the printed
   supports of e (layer l >= 1 counted from the base plate) *)
Theorem C01_overhang_stored_xprint :
  forall (K : Type) (H : Num K) (smin : K -> K -> K) (smax : list K -> K) g dl dx nsamp (x : list K),
  fst (sweep2 smin smax g dl dx nsamp x) = sweep smin smax nzero g dl dx nsamp x.
Proof. exact @fst_sweep2. Qed.
Print Assumptions C01_overhang_stored_xprint.

Theorem C01_overhang_stored_smax :
  forall (K : Type) (H : Num K) (smin : K -> K -> K) (smax : list K -> K) g dl dx nsamp (x : list K),
  wf g -> 0 <= dl <= 2 -> dx = 1 \/ dx = -1 -> Z.of_nat (length x) = nel g ->
  forall l p, 1 <= l < nlay g dl -> inl g dl p ->
  gk (snd (sweep2 smin smax g dl dx nsamp x)) (lkey g dl (phys g dl dx l) p) =
  smax (map (fun o => spec smin smax nzero g dl dx nsamp x (Z.to_nat (l - 1)) (padd p o))
            (filter (fun o => in_layer g dl (padd p o)) (layer_offsets nsamp))).
Proof. exact @sweep2_smax. Qed.
Print Assumptions C01_overhang_stored_smax.

(* ------------------------------------------------------------------------------------------------------------ *)
(* 2. Over R, with the smooth minimum / maximum of the code (smin_R, smax_R) and the partial derivatives as the code
      computes them: every entry of the tangent sweep IS the derivative of the corresponding entry of the response along
      x + t v (chain rule, induction over the layers).  Differentiability side conditions, stated on the computed arrays:
      the radicand of the smooth minimum is positive (eps > 0, or x[e] <> smax[e]), and the bases of the powers are
      positive (xprint[e] + shift > 0).                                                                               *)
Open Scope R_scope.
Theorem C01_overhang_tangent_is_derivative :
  forall g dl dx nsamp (x v : list R) (eps p q shift backshift : R),
  wf g -> (0 <= dl <= 2)%Z -> dx = 1%Z \/ dx = (-1)%Z -> (2 <= nsamp)%Z ->
  Z.of_nat (length x) = nel g -> Z.of_nat (length v) = nel g -> q <> 0 ->
  (forall e, (0 <= e < nel g)%Z ->
     0 < (gk x e - gk (snd (sweep2 (smin_R eps) (smax_R p q shift backshift) g dl dx nsamp x)) e) *
         (gk x e - gk (snd (sweep2 (smin_R eps) (smax_R p q shift backshift) g dl dx nsamp x)) e) + eps) ->
  (forall e, (0 <= e < nel g)%Z -> 0 < gk (fst (sweep2 (smin_R eps) (smax_R p q shift backshift) g dl dx nsamp x)) e + shift) ->
  forall e, (0 <= e < nel g)%Z ->
  is_derive (fun t => getT 0 (sweep (smin_R eps) (smax_R p q shift backshift) 0 g dl dx nsamp (vadd x (vscale t v))) e) 0
            (getT 0 (tangent_sweep (dmin_x_R eps) (dmin_s_R eps) (dmax_R p q shift backshift) g dl dx nsamp x
                       (fst (sweep2 (smin_R eps) (smax_R p q shift backshift) g dl dx nsamp x))
                       (snd (sweep2 (smin_R eps) (smax_R p q shift backshift) g dl dx nsamp x)) v) e).
Proof. exact tangent_is_derivative. Qed.
Print Assumptions C01_overhang_tangent_is_derivative.

(* ------------------------------------------------------------------------------------------------------------ *)
(* 3. The property for the module: Re<g, v> = D_v <w, y>.  For every seed w and direction v, the value <g, v> formed with
      the computed sensitivity g is the derivative at t = 0 of t |-> <w, response(x + t v)>.
      (a) under the side conditions of 2. (covers eps = 0 at points where x <> smax everywhere);                         *)
Theorem C01_overhang_adjoint_general :
  forall g dl dx nsamp (x v : list R) (eps p q shift backshift : R),
  wf g -> (0 <= dl <= 2)%Z -> dx = 1%Z \/ dx = (-1)%Z -> (2 <= nsamp)%Z ->
  Z.of_nat (length x) = nel g -> Z.of_nat (length v) = nel g -> q <> 0 ->
  (forall e, (0 <= e < nel g)%Z ->
     0 < (gk x e - gk (snd (sweep2 (smin_R eps) (smax_R p q shift backshift) g dl dx nsamp x)) e) *
         (gk x e - gk (snd (sweep2 (smin_R eps) (smax_R p q shift backshift) g dl dx nsamp x)) e) + eps) ->
  (forall e, (0 <= e < nel g)%Z -> 0 < gk (fst (sweep2 (smin_R eps) (smax_R p q shift backshift) g dl dx nsamp x)) e + shift) ->
  forall w : list R, Z.of_nat (length w) = nel g ->
  is_derive (fun t => dot w (sweep (smin_R eps) (smax_R p q shift backshift) 0 g dl dx nsamp (vadd x (vscale t v)))) 0
            (dot (sens_sweep (dmin_x_R eps) (dmin_s_R eps) (dmax_R p q shift backshift) g dl dx nsamp x
                    (fst (sweep2 (smin_R eps) (smax_R p q shift backshift) g dl dx nsamp x))
                    (snd (sweep2 (smin_R eps) (smax_R p q shift backshift) g dl dx nsamp x)) w) v).
Proof. exact sensitivity_is_adjoint_derivative. Qed.
Print Assumptions C01_overhang_adjoint_general.

(*    (b) the module with a print direction given as an axis-aligned vector of any non-zero length, under conditions on the
          INPUTS only: eps > 0, q <> 0, 0 <= backshift < shift, densities x >= 0.  nsampling >= 2 (3, 5, 9 in the code).  *)
Theorem C01_overhang_adjoint :
  forall g axis c nsamp (x v w : list R) (eps p q shift backshift : R),
  wf g -> (0 <= axis <= 2)%Z -> ~ (c == 0)%Q -> (2 <= nsamp)%Z ->
  Z.of_nat (length x) = nel g -> Z.of_nat (length v) = nel g -> Z.of_nat (length w) = nel g ->
  0 < eps -> q <> 0 -> 0 <= backshift < shift -> List.Forall (fun u => 0 <= u) x ->
  is_derive (fun t => dot w (response (smin_R eps) (smax_R p q shift backshift) 0 g (axis_vec 3 axis c) nsamp (vadd x (vscale t v)))) 0
            (dot (sensitivity (smin_R eps) (smax_R p q shift backshift) (dmin_x_R eps) (dmin_s_R eps) (dmax_R p q shift backshift)
                              g (axis_vec 3 axis c) nsamp x w) v).
Proof. exact overhang_module_adjoint. Qed.
Print Assumptions C01_overhang_adjoint.

(* the default parameters of the module (p = 40, xi_0 = 0.5, eps = 1e-4; q, shift, backshift by set_parameters for float64)
   meet the conditions of (b), for nsampling 3, 5 and 9 *)
Example C01_overhang_default_parameters_admissible : forall n : R, n = 3 \/ n = 5 \/ n = 9 ->
  let q := q_of 40 n (1 / 2) in
  let s := shift_of 40 dbl_tiny in
  let b := backshift_of n 40 q s in
  0 < 1 / 10000 /\ q <> 0 /\ 0 <= b < s.
Proof. exact default_params_differentiable. Qed.
Print Assumptions C01_overhang_default_parameters_admissible.
Close Scope R_scope.

(* ------------------------------------------------------------------------------------------------------------ *)
(* 4. Non-vacuity: concrete instances, evaluated.
      (i) over Z (a commutative ring) with non-trivial integer factor functions on a 3x3 grid printed in -x with three
          layers: both sides of theorem 1 are the same NON-ZERO number, and the sensitivity differs from the seed;      *)
Definition ex_g : grid := {| nelx := 3; nely := 3; nelz := 0 |}.
Definition ex_fx (a s : Z) : Z := a + 2 * s + 1.
Definition ex_fs (a s : Z) : Z := 3 * a - s + 2.
Definition ex_fm (s xp : Z) : Z := s * xp + 1.
Definition ex_x : list Z := [1; 2; 3; 4; 5; 6; 7; 8; 9].
Definition ex_y : list Z := [2; 0; 1; 3; 1; 2; 0; 4; 1].
Definition ex_s : list Z := [1; 1; 2; 0; 3; 1; 2; 2; 1].
Definition ex_w : list Z := [1; -2; 3; 0; 1; -1; 2; 1; -3].
Definition ex_v : list Z := [2; 1; -1; 1; 0; 3; -2; 1; 1].
Example C01_overhang_adjoint_instance_Z :
  dot ex_w (tangent_sweep ex_fx ex_fs ex_fm ex_g 0 (-1) 3 ex_x ex_y ex_s ex_v) = 208404 /\
  dot (sens_sweep ex_fx ex_fs ex_fm ex_g 0 (-1) 3 ex_x ex_y ex_s ex_w) ex_v = 208404 /\
  sens_sweep ex_fx ex_fs ex_fm ex_g 0 (-1) 3 ex_x ex_y ex_s ex_w <> ex_w.
Proof. vm_compute. repeat split; discriminate. Qed.

(*    (ii) the rational instance evaluated by the correspondence check (p = 2, q = 1, eps = 1/64) on a 2x3 grid printed in
           +y: the model sensitivity of the whole module (response, stored smax, reverse sweep) is not the seed, and the
           adjoint identity holds on it exactly.                                                                      *)
Definition ex_gq : grid := {| nelx := 2; nely := 3; nelz := 0 |}.
Definition ex_xq : list Q := [1#2; 1#4; 3#4; 1; 1#8; 1#2]%Q.
Definition ex_wq : list Q := [1; -1#2; 2; 1#4; -1; 3#2]%Q.
Definition ex_vq : list Q := [1#2; 1; -1; 2; 1#4; -3#4]%Q.
Example C01_overhang_adjoint_instance_Q :
  Qeq_bool (dot ex_wq (tangent_Q ex_gq [0; 1; 0]%Q 3 2 1 (1#64) ex_xq ex_vq))
           (dot (sensitivity_Q ex_gq [0; 1; 0]%Q 3 2 1 (1#64) ex_xq ex_wq) ex_vq) = true /\
  Qeq_bool (dot (sensitivity_Q ex_gq [0; 1; 0]%Q 3 2 1 (1#64) ex_xq ex_wq) ex_vq) (dot ex_wq ex_vq) = false.
Proof. vm_compute. split; reflexivity. Qed.

(*    (iii) the hypotheses of theorem 3(b) are satisfiable: the default parameters (example above) with any
            non-negative field on any well-formed grid, e.g. the 2x3 grid with the field below.                        *)
Example C01_overhang_adjoint_hypotheses_met :
  wf {| nelx := 2; nely := 3; nelz := 0 |} /\ (0 <= 1 <= 2) /\ ~ (1 == 0)%Q /\ (2 <= 3) /\
  Z.of_nat (length [1; 0; 1 / 2; 1; 1 / 4; 0]%R) = nel {| nelx := 2; nely := 3; nelz := 0 |} /\
  List.Forall (fun u => (0 <= u)%R) [1; 0; 1 / 2; 1; 1 / 4; 0]%R.
Proof. exact hypotheses_met_example. Qed.
