(* C12, second part — histories on ONE module instance.
   Statements only; every proof is `exact <lemma>`; Print Assumptions under each.

   Props/C12.v speaks about single calls (eo_response, eo_sensitivity, no_response, no_sensitivity of
   Model/ElemOps.v).  Model/ElemHist.v models what the modules keep on `self` between calls:
   ElementOperation (Strain, Stress, ElementAverage) re-assigns its operator array at the first response when it has
   #nodes_per_element columns, caches the dof connectivity and sizes the sensitivity by the last input;
   NodalOperation (ThermoMechanical) prepares (operator, dofconn, ndofs) once and allocates the nodal vector at every
   response.  `hrun step s ops` are the observations of the history `ops` (MResp v: set the input, response();
   MSens dy: set the output seed, sensitivity()), `eo_fresh` / `no_fresh` what a fresh module returns for that one
   operation.

   What is proved: in the model, for EVERY history, each call returns what a fresh module returns for that call's own
   input — nothing accumulates, so the transpose / affine-field / thermal-load theorems of Props/C12.v hold at every
   call of every history (ElementOperation: for histories whose nodal vectors all have n entries; an instance fed
   vectors of different sizes raises in the implementation).
   What the correspondence adds (tools/checks/C12.py, every run): real module instances — several per domain object,
   evaluated interleaved — are driven through response / sensitivity histories with changed, in-place modified and
   repeated inputs; Coq evaluates `hrun` on the same history against what the implementation returned each time. *)
From Coq Require Import ZArith List Bool.
From Pymoto Require Import Base.Num Base.Qsqrt3 Base.SparseLin Base.FEMat Model.Grid Model.Shape Model.ElemMat Model.Assembly Model.ElemOps Model.ElemHist.
From Pymoto Require Import Proofs.ElemHistP.
Import ListNotations.

(* NodalOperation / ThermoMechanical: every response is the scatter of THAT call's element data into zeros *)
Theorem C12_nodal_history : forall (K : Type) (H : Num K) (g : grid) (em : @opmat K) (ops : list (mop K)),
  hrun no_hstep (no_prepare g em) ops = map (no_fresh g em) ops.
Proof. exact @no_history. Qed.
Print Assumptions C12_nodal_history.

Theorem C12_nodal_state_constant : forall (K : Type) (H : Num K) (s : @no_st K) (ops : list (mop K)),
  hstate no_hstep s ops = s.
Proof. exact @no_hstate_const. Qed.
Print Assumptions C12_nodal_state_constant.

(* ElementOperation / Strain / Stress / ElementAverage: after the first response the instance is in the state
   `eo_warm` for good, and every call returns what a fresh module returns *)
Theorem C12_elemop_history : forall (K : Type) (H : Num K) (g : grid) (em : @opmat K) (n : Z) (v : list (list K)) (ops : list (mop K)),
  resp_size n (MResp v) -> Forall (resp_size n) ops ->
  hrun (eo_hstep g) (eo_prepare em) (MResp v :: ops) = map (eo_fresh g em n) (MResp v :: ops).
Proof. exact @eo_history. Qed.
Print Assumptions C12_elemop_history.

Theorem C12_elemop_state_settles : forall (K : Type) (H : Num K) (g : grid) (em : @opmat K) (n : Z) (v : list (list K)) (ops : list (mop K)),
  resp_size n (MResp v) -> Forall (resp_size n) ops ->
  hstate (eo_hstep g) (eo_prepare em) (MResp v :: ops) = eo_warm g em n.
Proof. exact @eo_history_state. Qed.
Print Assumptions C12_elemop_state_settles.

(* non-vacuity: 2x1 grid, integer operator; second response and the responses around a sensitivity are those of the
   call's own input (no running sum) *)
Example C12_nonvacuous_history :
  let g := {| nelx := 2; nely := 1; nelz := 0 |} in
  let em : @opmat Z := {| om_lead := [2%Z]; om_kd := 4; om_rows := [[1; 2; 3; 4]; [0; -1; 0; 1]]%Z |} in
  hrun no_hstep (no_prepare g em) [MResp [[7; -1]; [2; 3]]%Z; MResp [[1; 0]; [0; 0]]%Z; MSens [[1; 2; 3; 4; 5; 6]]%Z; MResp [[7; -1]; [2; 3]]%Z]
  = [MOut [[7; 11; -5; 21; 27; -1]]%Z; MOut [[1; 2; 0; 3; 4; 0]]%Z; MOut [[37; 47]; [3; 3]]%Z; MOut [[7; 11; -5; 21; 27; -1]]%Z] /\
  hrun (eo_hstep g) (eo_prepare em) [MResp [[1; 2; 3; 4; 5; 6]]%Z; MSens [[7; -1]; [2; 3]]%Z; MResp [[1; 0; 0; 0; 0; 0]]%Z]
  = [MOut [[37; 47]; [3; 3]]%Z; MOut [[7; 11; -5; 21; 27; -1]]%Z; MOut [[1; 0]; [0; 0]]%Z].
Proof. split; reflexivity. Qed.
