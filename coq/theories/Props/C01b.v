(* C01, family F3 (mathcomp): exact secant identities of the linear-system modules, any ring with a transpose. *)
From mathcomp Require Import all_ssreflect all_algebra.
From Pymoto Require Import Proofs.SecantP.
Import GRing.Theory.
Local Open Scope ring_scope.

(* LinSolve: with A x = b, A' x' = b', A^T lam = w:  w^T (x'-x) = lam^T (b'-b) - lam^T (A'-A) x'.
   Hence db = lam and dA = -lam x^T (the code's formulas) are the exact coefficients as x' -> x. *)
Theorem C01_F3_linsolve_secant : forall (R : ringType) (tr : R -> R),
  (forall a b, tr (a * b) = tr b * tr a) -> (forall a, tr (tr a) = a) ->
  forall A A' x x' b b' lam w : R,
  A * x = b -> A' * x' = b' -> tr A * lam = w ->
  tr w * (x' - x) = tr lam * (b' - b) - tr lam * (A' - A) * x'.
Proof. exact linsolve_secant. Qed.
Print Assumptions C01_F3_linsolve_secant.

(* Inverse: B' - B = - B (A' - A) B' *)
Theorem C01_F3_inverse_secant : forall (R : ringType) (A A' B B' : R),
  B * A = 1 -> A' * B' = 1 -> B' - B = - (B * (A' - A) * B').
Proof. exact inverse_secant. Qed.
Print Assumptions C01_F3_inverse_secant.

(* block elimination used by SystemOfEquations / StaticCondensation *)
Theorem C01_F3_block_reduced : forall (R : ringType) (A x b Df Dp xp : R),
  Df + Dp = 1 -> Df * (A * x) = Df * b -> Dp * x = xp ->
  Df * A * (Df * x) = Df * b - Df * A * xp.
Proof. exact block_reduced. Qed.
Print Assumptions C01_F3_block_reduced.

(* EigenSolve eigenvalue sensitivities: (l' - l) p^T B q' = p^T ((A'-A) - l' (B'-B)) q'  (l, l' scalars) *)
Theorem C01_F3_eigenvalue_secant : forall (R : ringType) (A A' B B' p q' l l' : R),
  (forall x, l * x = x * l) -> (forall x, l' * x = x * l') ->
  p * (A - l * B) = 0 -> (A' - l' * B') * q' = 0 ->
  (l' - l) * (p * B * q') = p * ((A' - A) - l' * (B' - B)) * q'.
Proof. exact eigenvalue_secant. Qed.
Print Assumptions C01_F3_eigenvalue_secant.
