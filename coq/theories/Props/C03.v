(* C03 — Results depend only on current inputs and seeds, never on call history.
   Statements only; every proof is `exact <lemma>`; Print Assumptions under each.

   Model: Model/Hist.v = the value-level network model of Model/Net.v (C02) extended with the op language
   {OSet, OResp, OSeed, OSens, OReset}, a per-module memory, Signal.reset / SignalSlice.reset / Module.reset /
   Network.reset and keep_alloc.  `run keep mods ops x` executes a history; `fresh dims keep mods mem0 inputs` is a
   freshly constructed network; `fresh_cycle seeds` = response; seeds; sensitivity.
   admissible_run is the protocol of the property: sensitivity() directly after a response(), seeds of the right
   shape on signals the network holds directly, inputs keep their shape.
   hwf = acyclic wiring (C02).  h_shaped = modules are shape-correct and their adjoint is linear in the seed
   (zero seeds give zero/None results; C01/C04).  Sensitivities are compared with ceq: up to None = zero array
   (keep_alloc keeps zeroed arrays, a slice leaves a zeroed base array behind). *)
From Coq Require Import ZArith List Bool Arith.
From Pymoto Require Import Base.Num Model.Net Model.Hist Proofs.NetP Proofs.HistP Model.HistBuild Proofs.HistBuildP.
Import ListNotations.

Definition comm_ring (K : Type) `{Num K} : Prop := ring_theory nzero none_ nadd nmul nsub nopp (@eq K).

(* MAIN (modules without memory): after ANY admissible history, reset(); [input updates]; response(); seeds;
   sensitivity() leaves the states and (up to None = 0) the sensitivities that a freshly constructed identical
   network produces when it is evaluated once on the current inputs and the same seeds. *)
Theorem C03_core_history_independent :
  forall (K : Type) (NK : Num K), comm_ring K ->
  forall (keep : nat -> bool) (dims : nat -> nat) (M : Type) (mods : list (hmod M)) (mem0 : list M)
         (inputs0 : nat -> list K) (hist sets : list op) (seeds : list (nat * list K)),
    hwf mods = true -> Forall (h_shaped dims) mods -> Forall h_memless mods -> length mem0 = length mods ->
    (forall s, ~ In s (h_written mods) -> length (inputs0 s) = dims s) ->
    only_sets sets -> seeds_shaped dims seeds ->
    admissible_run keep mods (hist ++ [OReset] ++ sets) (fresh dims keep mods mem0 inputs0) ->
    let xh := run keep mods (hist ++ [OReset] ++ sets) (fresh dims keep mods mem0 inputs0) in
    let xf := run keep mods (fresh_cycle seeds) xh in
    let yf := run keep mods (fresh_cycle seeds) (fresh dims keep mods mem0 (s_st xh)) in
    (forall s, s_st xf s = s_st yf s) /\ ceq dims (s_se xf) (s_se yf).
Proof. exact (@history_independent). Qed.
Print Assumptions C03_core_history_independent.

(* reset() leaves no sensitivity behind: on every signal it is None or an all-zero array *)
Theorem C03_reset_clears :
  forall (K : Type) (NK : Num K) (keep : nat -> bool) (dims : nat -> nat) (M : Type) (mods : list (hmod M))
         (mem0 : list M) (inputs0 : nat -> list K) (hist : list op),
    hwf mods = true -> Forall (h_shaped dims) mods -> length mem0 = length mods ->
    (forall s, ~ In s (h_written mods) -> length (inputs0 s) = dims s) ->
    admissible_run keep mods hist (fresh dims keep mods mem0 inputs0) ->
    forall s, zeroish (dims s) (s_se (run keep mods (hist ++ [OReset]) (fresh dims keep mods mem0 inputs0)) s).
Proof. exact (@reset_clears_after_history). Qed.
Print Assumptions C03_reset_clears.

(* sensitivity() without any seed changes nothing: with no sensitivity set anywhere, none is set afterwards
   (modules without outputs have the default adjoint that returns None and are excluded here) ... *)
Theorem C03_unseeded_sensitivity_is_noop :
  forall (K : Type) (NK : Num K) (keep : nat -> bool) (M : Type) (mods : list (hmod M)) (x : nst M),
    Forall (fun h : hmod M => h_outs h <> []) mods -> (forall s, s_se x s = None) ->
    forall s, s_se (step keep mods x OSens) s = None.
Proof. exact (@unseeded_sensitivity_noop). Qed.
Print Assumptions C03_unseeded_sensitivity_is_noop.

(* ... and with the zeroed arrays that reset() keeps (keep_alloc, bases of slices) only zeros are added:
   history; reset(); [input updates]; response(); sensitivity() leaves None or zeros everywhere *)
Theorem C03_unseeded_cycle_stays_clean :
  forall (K : Type) (NK : Num K), comm_ring K ->
  forall (keep : nat -> bool) (dims : nat -> nat) (M : Type) (mods : list (hmod M)) (mem0 : list M)
         (inputs0 : nat -> list K) (hist sets : list op),
    hwf mods = true -> Forall (h_shaped dims) mods -> length mem0 = length mods ->
    (forall s, ~ In s (h_written mods) -> length (inputs0 s) = dims s) -> only_sets sets ->
    admissible_run keep mods (hist ++ [OReset] ++ sets) (fresh dims keep mods mem0 inputs0) ->
    forall s, zeroish (dims s)
                (s_se (run keep mods ((hist ++ [OReset] ++ sets) ++ [OResp; OSens]) (fresh dims keep mods mem0 inputs0)) s).
Proof. exact (@unseeded_cycle_stays_clean). Qed.
Print Assumptions C03_unseeded_cycle_stays_clean.

(* CACHING MODULES.  cc h sp ("cache-correct"): there is an invariant Good mem last -- "everything cached that the
   next result depends on is a function of the inputs of the latest response" -- that holds initially, is
   re-established by every response from any Good memory, and under which response and sensitivity equal pure
   functions c_f / c_g of the current inputs.  Networks of cache-correct modules are history independent too
   (pures mods specs is the memoryless network with the same input-output behaviour). *)
Theorem C03_cache_history_independent :
  forall (K : Type) (NK : Num K), comm_ring K ->
  forall (keep : nat -> bool) (dims : nat -> nat) (M : Type) (mods : list (hmod M)) (specs : list (cspec M))
         (inputs0 : nat -> list K) (hist sets : list op) (seeds : list (nat * list K)),
    hwf mods = true -> Forall2 cc mods specs -> Forall (h_shaped dims) (pures mods specs) ->
    (forall s, ~ In s (h_written mods) -> length (inputs0 s) = dims s) ->
    only_sets sets -> seeds_shaped dims seeds ->
    admissible_run keep mods (hist ++ [OReset] ++ sets) (fresh dims keep mods (map c_mu0 specs) inputs0) ->
    let xh := run keep mods (hist ++ [OReset] ++ sets) (fresh dims keep mods (map c_mu0 specs) inputs0) in
    let xf := run keep mods (fresh_cycle seeds) xh in
    let yf := run keep mods (fresh_cycle seeds) (fresh dims keep mods (map c_mu0 specs) (s_st xh)) in
    (forall s, s_st xf s = s_st yf s) /\ ceq dims (s_se xf) (s_se yf).
Proof. exact (@cache_history_independent). Qed.
Print Assumptions C03_cache_history_independent.

(* LinSolve: the stored solution u is used (a) as initial guess when it has the shape of the new right-hand side and
   (b) by the sensitivity.  Under the solver contract "the answer does not depend on the initial guess" the module is
   cache-correct: the stored u is always the solution of the latest response. *)
Theorem C03_mem_invariant_linsolve :
  forall (K : Type)
         (solve : list K -> list K -> option (list K) -> list K) (solveT : list K -> list K -> list K)
         (outer_neg : list K -> list K -> list K),
    (forall A b x0, solve A b x0 = solve A b None) ->
    forall (ins : list ref) (out : nat),
      cache_correct (linsolve_h solve solveT outer_neg ins out) None
                    (linsolve_good solve) (linsolve_f solve) (linsolve_g solveT outer_neg).
Proof. exact (@linsolve_cache_correct). Qed.
Print Assumptions C03_mem_invariant_linsolve.

(* the contract holds for every exact solver on regular matrices ("to solver tolerance" in the property) *)
Theorem C03_exact_solver_ignores_guess :
  forall (K : Type) (solve : list K -> list K -> option (list K) -> list K)
         (mulA : list K -> list K -> list K) (regular : list K -> Prop),
    (forall A b x0, regular A -> mulA A (solve A b x0) = b) ->
    (forall A x y, regular A -> mulA A x = mulA A y -> x = y) ->
    forall A b x0, regular A -> solve A b x0 = solve A b None.
Proof. exact (@exact_solver_ignores_guess). Qed.
Print Assumptions C03_exact_solver_ignores_guess.

(* OverhangFilter: q/shift/backshift are set once, as a function of the dtype only; smax is overwritten by every
   response before the sensitivity reads it *)
Theorem C03_mem_invariant_overhang :
  forall (K : Type) (P : Type) (params_of_dtype : P)
         (sweep : P -> list K -> list K * list K)
         (sweep_adj : P -> list K -> list K -> list K -> list K -> list K) (r : ref) (out : nat),
    cache_correct (overhang_h P params_of_dtype sweep sweep_adj r out) (None, [])
                  (overhang_good P params_of_dtype sweep) (overhang_f P params_of_dtype sweep)
                  (overhang_g P params_of_dtype sweep sweep_adj).
Proof. exact (@overhang_cache_correct). Qed.
Print Assumptions C03_mem_invariant_overhang.

(* SystemOfEquations: the index sets f/p are completed on the first response as a function of the system size only *)
Theorem C03_mem_invariant_system_of_equations :
  forall (K : Type) (n_of : list (list K) -> nat) (complete : nat -> list nat * list nat)
         (soe : list nat * list nat -> list (list K) -> list (list K))
         (soe_adj : list nat * list nat -> list (list K) -> list (list K) -> list (list K) -> list (option (list K)))
         (n : nat),
    (forall xs, n_of xs = n) ->
    forall (ins : list ref) (outs : list nat),
      cache_correct (soe_h n_of complete soe soe_adj ins outs) None
                    (soe_good complete n) (soe_f complete soe n) (soe_g complete soe_adj n).
Proof. exact (@soe_cache_correct). Qed.
Print Assumptions C03_mem_invariant_system_of_equations.

(* EigenSolve (sparse branch): do_solve is set by the first response and never cleared, so the shift-invert
   factorisation used by every response is the one of the current shifted matrix *)
Theorem C03_eigensolve_factorisation_current :
  forall (K : Type) (F : Type) (factorise : list K -> F) (shifted : list (list K) -> list K) (sigma_nonzero : bool)
         (eigs : F -> list (list K) -> list (list K))
         (eig_adj : list (list K) -> list (list K) -> list (list K) -> list (option (list K)))
         (ins : list ref) (outs : list nat),
    cache_correct (eigensolve_h F factorise shifted sigma_nonzero eigs eig_adj ins outs) (None, false)
                  (eigensolve_good F factorise shifted) (eigensolve_f F factorise shifted eigs)
                  (fun xs ys ws => eig_adj xs ys ws).
Proof. exact (@eigensolve_cache_correct). Qed.
Print Assumptions C03_eigensolve_factorisation_current.

(* MODULES WHOSE SENSITIVITY WRITES THEIR MEMORY (smod: EigenSolve creates and refactorises one adjoint solver per mode
   inside _sensitivity).  run_s / step_s thread the memories through Network.sensitivity as well (sens_sweep).
   scc h sp = cc plus "every sensitivity pass that follows the response keeps the invariant".  Networks of such
   modules (ordinary cache-correct modules included: C03_plain_cache_is_sens_cache) are history independent. *)
Theorem C03_sens_cache_history_independent :
  forall (K : Type) (NK : Num K), comm_ring K ->
  forall (keep : nat -> bool) (dims : nat -> nat) (M : Type) (mods : list (smod M)) (specs : list (cspec M))
         (inputs0 : nat -> list K) (hist sets : list op) (seeds : list (nat * list K)),
    hwf (map sm_mod mods) = true -> Forall2 scc mods specs -> Forall (h_shaped dims) (pures (map sm_mod mods) specs) ->
    (forall s, ~ In s (h_written (map sm_mod mods)) -> length (inputs0 s) = dims s) ->
    only_sets sets -> seeds_shaped dims seeds ->
    admissible_run_s keep mods (hist ++ [OReset] ++ sets) (fresh dims keep (map sm_mod mods) (map c_mu0 specs) inputs0) ->
    let xh := run_s keep mods (hist ++ [OReset] ++ sets) (fresh dims keep (map sm_mod mods) (map c_mu0 specs) inputs0) in
    let xf := run_s keep mods (fresh_cycle seeds) xh in
    let yf := run_s keep mods (fresh_cycle seeds) (fresh dims keep (map sm_mod mods) (map c_mu0 specs) (s_st xh)) in
    (forall s, s_st xf s = s_st yf s) /\ ceq dims (s_se xf) (s_se yf).
Proof. exact (@sens_cache_history_independent). Qed.
Print Assumptions C03_sens_cache_history_independent.

(* SEVERAL PASSES PER RESPONSE.  After any history, response(); then any number of seed / sensitivity() / reset()
   calls (mid: passes with whatever seed supports); reset(); seeds; sensitivity() -- WITHOUT a new response() --
   leaves the states and (up to None = 0) the sensitivities a freshly constructed identical network leaves after
   response(); seeds; sensitivity() on the current inputs.  (pass_only seeds = seeds; sensitivity().) *)
Theorem C03_further_pass_on_same_response :
  forall (K : Type) (NK : Num K), comm_ring K ->
  forall (keep : nat -> bool) (dims : nat -> nat) (M : Type) (mods : list (smod M)) (specs : list (cspec M))
         (inputs0 : nat -> list K) (hist mid : list op) (seeds : list (nat * list K)),
    hwf (map sm_mod mods) = true -> Forall2 scc mods specs -> Forall (h_shaped dims) (pures (map sm_mod mods) specs) ->
    (forall s, ~ In s (h_written (map sm_mod mods)) -> length (inputs0 s) = dims s) ->
    forallb pass_op mid = true -> seeds_shaped dims seeds ->
    admissible_run_s keep mods (hist ++ [OResp] ++ mid ++ [OReset])
                     (fresh dims keep (map sm_mod mods) (map c_mu0 specs) inputs0) ->
    let xh := run_s keep mods (hist ++ [OResp] ++ mid ++ [OReset])
                    (fresh dims keep (map sm_mod mods) (map c_mu0 specs) inputs0) in
    let xf := run_s keep mods (pass_only seeds) xh in
    let yf := run_s keep mods (fresh_cycle seeds) (fresh dims keep (map sm_mod mods) (map c_mu0 specs) (s_st xh)) in
    (forall s, s_st xf s = s_st yf s) /\ ceq dims (s_se xf) (s_se yf).
Proof. exact (@sens_cache_further_pass_independent). Qed.
Print Assumptions C03_further_pass_on_same_response.

Theorem C03_plain_cache_is_sens_cache :
  forall (K M : Type) (h : @hmod K M) (sp : @cspec K M), @cc K M h sp -> @scc K M (lift_s h) sp.
Proof. exact (@lift_scc). Qed.
Print Assumptions C03_plain_cache_is_sens_cache.

(* SolverDenseCholesky with its LDL fallback (the solver of dense Hermitian matrices with a one-signed diagonal inside
   LinSolve / SystemOfEquations / StaticCondensation): memory = (success flag, U, backup factorisation); a failed
   attempt leaves a stale U, a successful one a stale backup factorisation.  update() sets the flag BOTH ways, so
   the solver always answers for the matrix of the latest update: LinSolve with this solver is cache-correct
   (definite -> indefinite -> definite histories included) ... *)
Theorem C03_mem_invariant_cholesky_fallback :
  forall (K FU FL : Type) (chol : list K -> option FU) (ldl : list K -> FL)
         (usolve : FU -> bool -> list K -> list K) (lsolve : FL -> bool -> list K -> list K)
         (unfactorised : list K) (outer_neg : list K -> list K -> list K) (ins : list ref) (out : nat),
    cache_correct (chol_linsolve_h FU FL chol ldl usolve lsolve unfactorised outer_neg ins out) (cs_init FU FL, None)
                  (chol_good FU FL chol ldl usolve lsolve unfactorised) (chol_f FU FL chol ldl usolve lsolve)
                  (chol_g FU FL chol ldl usolve lsolve outer_neg).
Proof. exact (@chol_linsolve_cache_correct). Qed.
Print Assumptions C03_mem_invariant_cholesky_fallback.

(* ... and at the level of one solver object fed A_1, A_2, ...: its k-th answers (normal and transposed solve) are
   those of a fresh solver that has seen A_k only, from ANY earlier state s *)
Theorem C03_cholesky_solver_answers_for_latest_matrix :
  forall (K FU FL : Type) (chol : list K -> option FU) (ldl : list K -> FL)
         (usolve : FU -> bool -> list K -> list K) (lsolve : FL -> bool -> list K -> list K)
         (unfactorised : list K) (As : list (list K)) (s : cstate FU FL) (b : list K),
    chol_answers FU FL chol ldl usolve lsolve unfactorised s As b =
    flat_map (fun A : list K => [chol_fresh_solve FU FL chol ldl usolve lsolve A false b;
                                 chol_fresh_solve FU FL chol ldl usolve lsolve A true b]) As.
Proof. exact (@chol_answers_fresh). Qed.
Print Assumptions C03_cholesky_solver_answers_for_latest_matrix.

(* EigenSolve (sparse branch) with its per-mode adjoint solvers: unseeded modes are skipped and keep the
   factorisation of an EARLIER response; adjoint_solvers_need_update is set by every response and never cleared, so a
   mode that is visited is refactorised first: every pass reads current factorisations only, whatever the seed
   supports of earlier passes were (eigadj_g uses adj_current = all visited modes freshly factorised). *)
Theorem C03_mem_invariant_eigensolve_adjoint_solvers :
  forall (K FA : Type) (afact : list K -> FA) (F : Type) (factorise : list K -> F) (shifted : list (list K) -> list K)
         (sigma_nonzero : bool) (eigs : F -> list (list K) -> list (list K)) (nmodes : list (list K) -> nat)
         (modes_of : list (list K) -> list (list K) -> list (list K) -> list (nat * bool * list K))
         (eig_adj_with : list (list K) -> list (list K) -> list (list K) -> list (nat * option FA) -> list (option (list K)))
         (ins : list ref) (outs : list nat),
    scc (eigadj_s FA afact F factorise shifted sigma_nonzero eigs nmodes modes_of eig_adj_with ins outs)
        {| c_mu0 := (None, false, amem0 FA);
           c_good := eigadj_good FA F factorise shifted;
           c_f := eigadj_f F factorise shifted eigs;
           c_g := eigadj_g FA afact modes_of eig_adj_with |}.
Proof. exact (@eigadj_scc). Qed.
Print Assumptions C03_mem_invariant_eigensolve_adjoint_solvers.

(* LinSolve's detections with LDAWrapper.update: the VALUE KIND (iscomplex, read by _sensitivity: dmat.real for a real
   matrix) and the SPARSITY PATTERN (LDAWrapper's partition in decoupled / coupled dofs, through which every solve goes)
   are detected at EVERY response, only the class (Hermitian / symmetric flags, solver chosen from them) at the first.
   For a constant class the module is cache-correct whatever sequence of real / complex matrices and of patterns with
   decoupled dofs appearing, disappearing or moving it sees ... *)
Theorem C03_mem_invariant_linsolve_detections :
  forall (K C P : Type) (cls_of : list K -> C) (is_cplx : list K -> bool) (part_of : list K -> P)
         (solve_with : C -> P -> list K -> bool -> list K -> list K) (dmat_of : bool -> list K -> list K -> list K)
         (db_of : list K -> list K -> list K) (c0 : C),
    (forall A, cls_of A = c0) ->
    forall (ins : list ref) (out : nat),
      cache_correct (det_linsolve_h C P cls_of is_cplx part_of solve_with dmat_of db_of ins out) (d_init C P)
                    (det_good C P is_cplx part_of solve_with c0) (det_f C P cls_of part_of solve_with)
                    (det_g C P cls_of is_cplx part_of solve_with dmat_of db_of).
Proof. exact (@det_linsolve_cache_correct). Qed.
Print Assumptions C03_mem_invariant_linsolve_detections.

(* ... and at the level of one module fed A_1, A_2, ... from ANY earlier state s: the value kind and the partition it holds
   after the k-th response are those of A_k (no class hypothesis needed) *)
Theorem C03_linsolve_detections_follow_latest_matrix :
  forall (K C P : Type) (cls_of : list K -> C) (is_cplx : list K -> bool) (part_of : list K -> P)
         (As : list (list K)) (s : dstate C P),
    det_trace C P cls_of is_cplx part_of s As = map (fun A => (is_cplx A, Some (part_of A))) As.
Proof. exact (@det_trace_fresh). Qed.
Print Assumptions C03_linsolve_detections_follow_latest_matrix.

(* non-vacuity (tag instance evaluated by the bookkeeping correspondence; get_diagonal_indices as written): real matrix with
   dof 0 decoupled, complex fully coupled matrix of the same shape, real matrix with dof 2 decoupled *)
Example C03_detections_nonvacuous :
  tag_det_trace [[0; 3;  1;0;0; 0;1;1; 0;1;1]; [1; 3;  1;1;0; 1;1;1; 0;1;1]; [0; 3;  1;1;0; 1;1;0; 0;0;1]]%Z
  = [[0; 0]; [1]; [0; 2]]%Z.
Proof. exact detections_nonvacuous. Qed.
Print Assumptions C03_detections_nonvacuous.

(* non-vacuity of the two memories (tag instances, the ones the bookkeeping correspondence of tools/checks/C03.py
   evaluates): the memories really hold STALE entries.  Adjoint solvers, 3 modes: response 1; pass seeding mode 0;
   response 2; pass seeding modes 1, 2 (mode 0 still holds [1; 0], the factorisation of response 1); pass seeding
   mode 0 (refreshed to [2; 0]).  Cholesky: definite, indefinite, definite: every answer names the current matrix. *)
Example C03_memories_nonvacuous :
  tag_adj_trace 3 [None; Some [true; false; false]; None; Some [false; true; true]; Some [true; false; false]]
  = [[Some [1; 0]; None; None]; [Some [1; 0]; Some [2; 1]; Some [2; 2]]; [Some [2; 0]; Some [2; 1]; Some [2; 2]]]%Z /\
  tag_answers [[1; 1]; [2; 0]; [3; 1]]%Z = [[1]; [1]; [2]; [2]; [3]; [3]]%Z.
Proof. exact memories_nonvacuous. Qed.
Print Assumptions C03_memories_nonvacuous.

(* Why "the matrix class (storage, symmetric / Hermitian or not, size -- NOT the value kind real / complex and NOT the
   sparsity pattern, see above) is constant within a history" is assumed (agreed scope; LinearSolver.update documents "a new
   matrix of the same structure"): LinSolve keeps `ishermitian` and the solver chosen from it from its FIRST matrix.
   In the 2x2 integer instance a symmetric matrix followed by the non-symmetric [[1,2],[0,1]] with b = [3,1] is
   answered [3,1] (lower triangle only) where a fresh module answers [1,1]. *)
Theorem C03_linsolve_class_change_refuted :
  s_st (run (fun _ => false) [flagged_linsolve_h] cls_hist cls_start) 2 = [3; 1]%Z /\
  s_st (run (fun _ => false) [flagged_linsolve_h] cls_fresh cls_start) 2 = [1; 1]%Z.
Proof. exact class_change_counterexample. Qed.
Print Assumptions C03_linsolve_class_change_refuted.

(* the hypotheses are met by the modules the correspondence runs on the real implementation *)
Theorem C03_block_matrix_modules_meet_hypotheses :
  forall (dims : nat -> nat) (ins : list ref) (outs : list nat) (L : lin Z),
    linmod_ok dims ins outs L = true -> h_shaped dims (lin_h ins outs L) /\ h_memless (lin_h ins outs L).
Proof. exact (fun dims ins outs L H => conj (lin_h_shaped dims ins outs L H) (lin_h_memless ins outs L)). Qed.
Print Assumptions C03_block_matrix_modules_meet_hypotheses.

Theorem C03_square_module_meets_hypotheses :
  forall (dims : nat -> nat) (r : ref) (out : nat),
    wt_ref dims r = true -> ref_dim dims r = dims out -> h_shaped dims (sq_h r out) /\ h_memless (sq_h r out).
Proof. exact (fun dims r out H1 H2 => conj (sq_h_shaped dims r out H1 H2) (sq_h_memless r out)). Qed.
Print Assumptions C03_square_module_meets_hypotheses.

Theorem C03_product_module_meets_hypotheses :
  forall (dims : nat -> nat) (r1 r2 : ref) (out : nat),
    wt_ref dims r1 = true -> wt_ref dims r2 = true -> ref_dim dims r1 = dims out -> ref_dim dims r2 = dims out ->
    h_shaped dims (mul_h r1 r2 out) /\ h_memless (mul_h r1 r2 out).
Proof.
  exact (fun dims r1 r2 out H1 H2 H3 H4 => conj (mul_h_shaped dims r1 r2 out H1 H2 H3 H4) (mul_h_memless r1 r2 out)).
Qed.
Print Assumptions C03_product_module_meets_hypotheses.

(* a user module that recomputes only when its inputs changed is cache-correct *)
Theorem C03_user_cache_is_cache_correct :
  forall (ins : list ref) (outs : list nat) (L : lin Z), cc (cached_h ins outs L) (cached_spec L).
Proof. exact cached_h_cache_correct. Qed.
Print Assumptions C03_user_cache_is_cache_correct.

(* ---- CONSTRUCTION HISTORIES (Model/HistBuild.v).  The theorems above run a history on the FINAL flat module list.  In
   /repo a network can also be put together in any order of append() calls -- an inner network placed in the outer one
   while it is still empty, extended afterwards (by modules and by further networks), also after the outer network was
   evaluated.  That the behaviour of a constructed network is a function of its member tree only (not of the order of
   the append calls, nor of the sig_in / sig_out lists a Network gathers in its own append) is C02's statement
   (Model/NetBuild.v, C02_behaviour_is_a_function_of_the_member_tree); here it is covered by the CORRESPONDENCE
   (run_built: every op is applied to the modules the outer network reaches at that moment, a module not reached yet is
   `absent_h` at its position) and by the oracle (after reset() no signal found by walking the member tree holds a
   non-zero sensitivity; final cycle = freshly constructed network).  Proved here only: construction without
   evaluation in between is the flat model, the last segment is an ordinary history, an unreached module is inert for
   reset().  NOT proved: history independence for histories that evaluate partially built networks (the invariants of
   C03_core_history_independent would have to be carried through changing module lists). *)
Theorem C03_construction_without_evaluation_is_the_flat_model :
  forall (K : Type) (NK : Num K) (M : Type) (keep : nat -> bool) (mods : list (hmod M))
         (segs : list (list bool * list op)) (x : nst M),
    (forall sg, In sg segs -> all_true (fst sg) = true \/ snd sg = []) ->
    run_built keep mods segs x = run keep mods (concat (map snd segs)) x.
Proof. exact (@run_built_complete). Qed.
Print Assumptions C03_construction_without_evaluation_is_the_flat_model.

Theorem C03_construction_last_segment_is_a_history :
  forall (K : Type) (NK : Num K) (M : Type) (keep : nat -> bool) (mods : list (hmod M))
         (segs : list (list bool * list op)) (vis : list bool) (ops : list op) (x : nst M),
    run_built keep mods (segs ++ [(vis, ops)]) x = run keep (visible vis mods) ops (run_built keep mods segs x).
Proof. exact (@run_built_snoc). Qed.
Print Assumptions C03_construction_last_segment_is_a_history.

Theorem C03_unreached_module_is_inert_for_reset :
  forall (K M : Type), mod_refs (@absent_h K M) = [].
Proof. exact (@absent_no_refs). Qed.
Print Assumptions C03_unreached_module_is_inert_for_reset.

(* ---- non-vacuity: a three-module network (slice, keep_alloc input, square module) with an 8-op history meets every
   hypothesis of C03_core_history_independent; corpus/C03/example.json runs the same history on the implementation *)
Example C03_example_nonvacuous :
  hwf ex_mods = true /\ Forall (h_shaped (dims_of ex_dims)) ex_mods /\ Forall h_memless ex_mods /\
  admissible_run (keep_of ex_keep) ex_mods (ex_hist ++ [OReset] ++ ex_sets) (start ex_dims ex_keep ex_mods ex_inputs) /\
  only_sets ex_sets /\ seeds_shaped (dims_of ex_dims) ex_seeds /\
  observe 5 (run (keep_of ex_keep) ex_mods (ex_hist ++ [OReset] ++ ex_sets ++ fresh_cycle ex_seeds)
                 (start ex_dims ex_keep ex_mods ex_inputs))
  = ([[0; 1; 2]; [1; 1]; [4; -2]; [16; 4]; [15]]%Z,
     [Some [16; 0; 24]; Some [4; 2]; Some [16; 8]; Some [2; -2]; Some [2]]%Z).
Proof. exact ex_facts. Qed.
Print Assumptions C03_example_nonvacuous.
