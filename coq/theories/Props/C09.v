(* C09 — density filters are the normalised local averages they are defined to be.
   Statements only; every proof is `exact <lemma>`; Print Assumptions under each.
   Models: Model/Pad.v (numpy.pad index semantics, _process_padding, overrides, get_padded_vector),
           Model/Conv.v (FilterConv: valid convolution, scatter, set_filter_radius),
           Model/DensFilt.v (DensityFilter._calculate_h, Filter base class). *)
From Coq Require Import ZArith QArith List Reals Bool.
From Pymoto Require Import Base.Num Base.SparseLin Model.Grid Model.Pad Model.Conv Model.DensFilt
     Proofs.GridP Proofs.PadP Proofs.ConvP Proofs.DensFiltP Model.FiltHist Proofs.FiltHistP.
Import ListNotations.
Open Scope Z_scope.

(* ================================================================= padding = ideal extension *)

(* one axis, any element type: entry i of the array produced by the faithful sequence (wrap on both sides first,
   then edge 1, then edge 0, each through numpy.pad on the intermediate array) reads what the per-side rule
   ext1 prescribes - for pad <= n with ANY two modes, and for every pad size when the mode pair is compatible
   (everything except symmetric-left with a non-symmetric right side, and wrap-left with symmetric-right) *)
Theorem C09_pad_axis_is_extension : forall (K A : Type) (c d : A) (m0 m1 : bmode K) (p : Z) (l : list A) (i : Z),
  1 <= Z.of_nat (length l) -> 0 <= p ->
  (p <= Z.of_nat (length l) \/ modes_compatible m0 m1 = true) ->
  0 <= i < Z.of_nat (length l) + 2 * p ->
  nth (Z.to_nat i) (axis_pad c m0 m1 p l) d = reads c l (ext1 m0 m1 (Z.of_nat (length l)) (i - p)).
Proof. exact @axis_pad_nth. Qed.
Print Assumptions C09_pad_axis_is_extension.

(* up to one period beyond either boundary the rule is elementary: mirror about the boundary face (-1-i, 2n-1-i),
   clamp (0, n-1), shift by one period (i+n, i-n), or the constant *)
Theorem C09_extension_rule_elementary : forall (K : Type) (m0 m1 : bmode K) (n i : Z),
  1 <= n -> - n <= i < 2 * n -> ext1 m0 m1 n i = ext1_simple m0 m1 n i.
Proof. exact @ext1_simple_eq. Qed.
Print Assumptions C09_extension_rule_elementary.

(* C09_pad_is_extension, 3-D: the index array el3d_pad built by the three _process_padding calls equals the ideal
   extension of the element numbering, each axis independently (0 where a constant is read) *)
Theorem C09_pad_is_extension : forall (K : Type) (c : padcfg K), pads_nonneg c -> pad_ok c ->
  forall i j k, 0 <= i < sx1 c + 2 * ppx c -> 0 <= j < sy1 c + 2 * ppy c -> 0 <= k < sz1 c + 2 * ppz c ->
  nth3 (el3d_pad c) i j k 0 = ext3_idx c (i - ppx c) (j - ppy c) (k - ppz c).
Proof. exact @el3d_pad_nth3. Qed.
Print Assumptions C09_pad_is_extension.

(* get_padded_vector (index array + the override index sets stored for constant values, which also cover the
   corners, + the overrides added by override_values) is the field extended beyond each boundary by the selected
   rule: x, then y, then z; user overrides on top *)
Theorem C09_padded_vector_is_extension : forall (K : Type) (H : Num K) (c : padcfg K),
  pads_nonneg c -> dims_ok c -> pad_ok c ->
  forall (uov : list (override K)) (x : list K) i j k,
  0 <= i < sx1 c + 2 * ppx c -> 0 <= j < sy1 c + 2 * ppy c -> 0 <= k < sz1 c + 2 * ppz c ->
  xpad_at c uov x i j k = apply_ovs uov i j k (ext3 c x (i - ppx c) (j - ppy c) (k - ppz c)).
Proof. exact @xpad_at_ext3_user. Qed.
Print Assumptions C09_padded_vector_is_extension.

(* what is NOT covered above (pad > n with an incompatible mode pair) really differs from the periodic per-side
   rule: the left mirror then reflects the already right-extended array (witness n = 3, pad = 5).
   The property text does not say what "extended by the selected rule" means there; nothing is claimed. *)
Theorem C09_pad_mixed_oversize_differs :
  let l := [10; 11; 12] in
  let ideal (m0 m1 : bmode Z) := map (fun i => reads 0 l (ext1 m0 m1 3 (i - 5))) (zrange 13) in
  axis_pad 0 (@BSym Z) BEdge 5 l <> ideal BSym BEdge /\
  axis_pad 0 (@BSym Z) BWrap 5 l <> ideal BSym BWrap /\
  axis_pad 0 BSym (BConst 7) 5 l <> ideal BSym (BConst 7) /\
  axis_pad 0 (@BWrap Z) BSym 5 l <> ideal BWrap BSym.
Proof. exact axis_pad_mixed_large_differs. Qed.
Print Assumptions C09_pad_mixed_oversize_differs.

(* ... and what the code does there, exactly.  Symmetric on the left (any right mode, ANY pad size): the left pad
   is the mirror image, about the left boundary face, of the ALREADY RIGHT-EXTENDED array; everything from the
   left boundary on is the per-side rule *)
Theorem C09_pad_sym_left_oversize : forall (K A : Type) (c d : A) (m1 : bmode K) (p : Z) (l : list A),
  1 <= Z.of_nat (length l) -> 0 <= p ->
  (forall i, 0 <= i < p ->
     nth (Z.to_nat i) (axis_pad c (@BSym K) m1 p l) d = nth (Z.to_nat (2 * p - 1 - i)) (axis_pad c (@BSym K) m1 p l) d) /\
  (forall i, p <= i < Z.of_nat (length l) + 2 * p ->
     nth (Z.to_nat i) (axis_pad c (@BSym K) m1 p l) d = reads c l (ext1 (@BSym K) m1 (Z.of_nat (length l)) (i - p))).
Proof. exact @axis_pad_sym_left_oversize. Qed.
Print Assumptions C09_pad_sym_left_oversize.

(* wrap on the left, symmetric on the right (ANY pad size): everything up to the right boundary is the per-side
   rule; the right pad is the mirror image of the ALREADY LEFT-WRAPPED array about the right boundary face *)
Theorem C09_pad_wrap_sym_oversize : forall (A : Type) (c d : A) (p : Z) (l : list A),
  1 <= Z.of_nat (length l) -> 0 <= p ->
  let n := Z.of_nat (length l) in
  (forall i, 0 <= i < n + p ->
     nth (Z.to_nat i) (axis_pad c (@BWrap Z) BSym p l) d = reads c l (ext1 (@BWrap Z) BSym n (i - p))) /\
  (forall i, n + p <= i < n + 2 * p ->
     nth (Z.to_nat i) (axis_pad c (@BWrap Z) BSym p l) d =
     nth (Z.to_nat (2 * (n + p) - 1 - i)) (axis_pad c (@BWrap Z) BSym p l) d).
Proof. exact @axis_pad_wrap_sym_oversize. Qed.
Print Assumptions C09_pad_wrap_sym_oversize.

(* ================================================================= FilterConv = convolution with the extension *)

(* the constructor ("assert shape % 2 == 1", "pad_sizes = shape // 2") establishes the shape hypothesis used below:
   weights.shape = 2 * pad_sizes + 1 with pad_sizes >= 0 *)
Theorem C09_constructor_shape : forall (K : Type) (H : Num K) (g : grid) (w : arr3 K)
  (bx0 bx1 by0 by1 bz0 bz1 : bmode K) upts kx ky kz,
  shape3 w = (kx, ky, kz) -> kx mod 2 = 1 -> ky mod 2 = 1 -> kz mod 2 = 1 ->
  let f := mk_fconv g w bx0 bx1 by0 by1 bz0 bz1 upts in
  let c := fc_pad f in
  pads_nonneg c /\ shape3 (fc_w f) = (2 * ppx c + 1, 2 * ppy c + 1, 2 * ppz c + 1) /\
  pg c = g /\ fc_w f = w /\
  (mx0 c, mx1 c, my0 c, my1 c, mz0 c, mz1 c) = (bx0, bx1, by0, by1, bz0, bz1).
Proof. exact @mk_fconv_odd. Qed.
Print Assumptions C09_constructor_shape.

(* np.add.at(y, el3d_orig, y3d): entry (a, b, d) of the valid-mode convolution lands at its element number *)
Theorem C09_response_scatter : forall (K : Type) (H : Num K),
  ring_theory nzero none_ nadd nmul nsub nopp (@eq K) ->
  forall f : @fconv K, let c := fc_pad f in
  pads_nonneg c -> dims_ok c -> pad_ok c ->
  shape3 (fc_w f) = (2 * ppx c + 1, 2 * ppy c + 1, 2 * ppz c + 1) ->
  forall (x : list K) a b d, Z.of_nat (length x) = nel (pg c) ->
  0 <= a < nelx (pg c) -> 0 <= b < nely (pg c) -> 0 <= d < nz1 (pg c) ->
  zget (fc_response f x) (elemnumber (pg c) a b d) = fc_y3d_at f x a b d.
Proof. exact @fc_response_at. Qed.
Print Assumptions C09_response_scatter.

(* C09_conv_formula : y_e = sum_q w[q] * ext(x)(e - (q - pad))   (kernel flipped; q - pad is the centred offset) *)
Theorem C09_conv_formula : forall (K : Type) (H : Num K),
  ring_theory nzero none_ nadd nmul nsub nopp (@eq K) ->
  forall f : @fconv K, let c := fc_pad f in
  pads_nonneg c -> dims_ok c -> pad_ok c ->
  shape3 (fc_w f) = (2 * ppx c + 1, 2 * ppy c + 1, 2 * ppz c + 1) ->
  forall (x : list K) a b d, Z.of_nat (length x) = nel (pg c) ->
  0 <= a < nelx (pg c) -> 0 <= b < nely (pg c) -> 0 <= d < nz1 (pg c) ->
  zget (fc_response f x) (elemnumber (pg c) a b d) =
  zsum3 (2 * ppx c + 1) (2 * ppy c + 1) (2 * ppz c + 1) (fun qa qb qc =>
    nmul (wget (fc_w f) qa qb qc)
         (apply_ovs (fc_uov f) (a + 2 * ppx c - qa) (b + 2 * ppy c - qb) (d + 2 * ppz c - qc)
            (ext3 c x (a - (qa - ppx c)) (b - (qb - ppy c)) (d - (qc - ppz c))))).
Proof. exact @fc_conv_formula. Qed.
Print Assumptions C09_conv_formula.

(* the same map as a triple list (dst, src, coeff) plus an affine part for the constants: equal to the faithful
   response at every element, all destinations/sources are element numbers, hence <w, T x> = <T^T w, x> *)
Theorem C09_triples_form : forall (K : Type) (H : Num K),
  ring_theory nzero none_ nadd nmul nsub nopp (@eq K) ->
  forall f : @fconv K, let c := fc_pad f in
  pads_nonneg c -> dims_ok c -> pad_ok c ->
  shape3 (fc_w f) = (2 * ppx c + 1, 2 * ppy c + 1, 2 * ppz c + 1) ->
  forall (x : list K) a b d, Z.of_nat (length x) = nel (pg c) ->
  0 <= a < nelx (pg c) -> 0 <= b < nely (pg c) -> 0 <= d < nz1 (pg c) ->
  zget (fc_response_lin f x) (elemnumber (pg c) a b d) = zget (fc_response f x) (elemnumber (pg c) a b d).
Proof. exact @fc_response_lin_at. Qed.
Print Assumptions C09_triples_form.

Theorem C09_triples_adjoint : forall (K : Type) (H : Num K),
  ring_theory nzero none_ nadd nmul nsub nopp (@eq K) ->
  forall f : @fconv K, let c := fc_pad f in
  pads_nonneg c -> dims_ok c -> pad_ok c ->
  shape3 (fc_w f) = (2 * ppx c + 1, 2 * ppy c + 1, 2 * ppz c + 1) ->
  forall w x : list K, length w = Z.to_nat (nel (pg c)) -> length x = Z.to_nat (nel (pg c)) ->
  dot w (apply (fc_triples f) (Z.to_nat (nel (pg c))) x) = dot (fc_sensitivity_lin f (Z.to_nat (nel (pg c))) w) x.
Proof. exact @fc_triples_adjoint. Qed.
Print Assumptions C09_triples_adjoint.

(* C09_bounds: non-negative kernel summing to one, no constant padding, no overrides => lo <= x <= hi implies
   lo <= y <= hi (take lo = min x, hi = max x) *)
Theorem C09_bounds : forall f : @fconv R, let c := fc_pad f in
  pads_nonneg c -> dims_ok c -> pad_ok c ->
  shape3 (fc_w f) = (2 * ppx c + 1, 2 * ppy c + 1, 2 * ppz c + 1) ->
  no_const c -> fc_uov f = [] ->
  (forall qa qb qc, 0 <= qa < 2 * ppx c + 1 -> 0 <= qb < 2 * ppy c + 1 -> 0 <= qc < 2 * ppz c + 1 ->
     (0 <= wget (fc_w f) qa qb qc)%R) ->
  zsum3 (2 * ppx c + 1) (2 * ppy c + 1) (2 * ppz c + 1) (wget (fc_w f)) = 1%R ->
  forall (x : list R) (lo hi : R) a b d, Z.of_nat (length x) = nel (pg c) ->
  (forall e, 0 <= e < nel (pg c) -> (lo <= zget x e <= hi)%R) ->
  0 <= a < nelx (pg c) -> 0 <= b < nely (pg c) -> 0 <= d < nz1 (pg c) ->
  (lo <= zget (fc_response f x) (elemnumber (pg c) a b d) <= hi)%R.
Proof. exact fc_bounds. Qed.
Print Assumptions C09_bounds.

Theorem C09_constant_preserved : forall f : @fconv R, let c := fc_pad f in
  pads_nonneg c -> dims_ok c -> pad_ok c ->
  shape3 (fc_w f) = (2 * ppx c + 1, 2 * ppy c + 1, 2 * ppz c + 1) ->
  no_const c -> fc_uov f = [] ->
  (forall qa qb qc, 0 <= qa < 2 * ppx c + 1 -> 0 <= qb < 2 * ppy c + 1 -> 0 <= qc < 2 * ppz c + 1 ->
     (0 <= wget (fc_w f) qa qb qc)%R) ->
  zsum3 (2 * ppx c + 1) (2 * ppy c + 1) (2 * ppz c + 1) (wget (fc_w f)) = 1%R ->
  forall (x : list R) (v : R) a b d, Z.of_nat (length x) = nel (pg c) ->
  (forall e, 0 <= e < nel (pg c) -> zget x e = v) ->
  0 <= a < nelx (pg c) -> 0 <= b < nely (pg c) -> 0 <= d < nz1 (pg c) ->
  zget (fc_response f x) (elemnumber (pg c) a b d) = v.
Proof. exact fc_constant. Qed.
Print Assumptions C09_constant_preserved.

(* C09_radius_kernel_normalised: the kernel of set_filter_radius (weights / sum(weights)) has the odd shape
   2*delem+1, is >= 0 and sums to one, whenever the cone table is >= 0 and positive at distance 0 (r > 0) *)
Theorem C09_radius_kernel_normalised : forall (dlx dly dlz sx sy sz : Z) (wtab : Z -> R),
  0 <= dlx -> 0 <= dly -> 0 <= dlz -> (forall k, (0 <= wtab k)%R) -> (0 < wtab 0%Z)%R ->
  let w := radius_kernel dlx dly dlz sx sy sz wtab in
  shape3 w = (2 * dlx + 1, 2 * dly + 1, 2 * dlz + 1) /\
  (forall qa qb qc, 0 <= qa < 2 * dlx + 1 -> 0 <= qb < 2 * dly + 1 -> 0 <= qc < 2 * dlz + 1 ->
     (0 <= wget w qa qb qc)%R) /\
  zsum3 (2 * dlx + 1) (2 * dly + 1) (2 * dlz + 1) (wget w) = 1%R.
Proof. exact radius_kernel_normalised. Qed.
Print Assumptions C09_radius_kernel_normalised.

(* ... and is invariant under the mirror of every axis (so the volume theorem applies to it) *)
Theorem C09_radius_kernel_mirror : forall (dlx dly dlz sx sy sz : Z) (wtab : Z -> R),
  let w := radius_kernel dlx dly dlz sx sy sz wtab in
  forall qa qb qc, 0 <= qa < 2 * dlx + 1 -> 0 <= qb < 2 * dly + 1 -> 0 <= qc < 2 * dlz + 1 ->
  wget w (2 * dlx - qa) qb qc = wget w qa qb qc /\
  wget w qa (2 * dly - qb) qc = wget w qa qb qc /\
  wget w qa qb (2 * dlz - qc) = wget w qa qb qc.
Proof. exact radius_kernel_mirror. Qed.
Print Assumptions C09_radius_kernel_mirror.

(* end to end for FilterConv(radius=...): pad = delem <= n on every axis, so ALL mode combinations are covered;
   without constant modes the filtered field stays within the bounds of x ... *)
Theorem C09_radius_filter_bounds : forall (g : grid) (dlx dly dlz sx sy sz : Z) (wtab : Z -> R)
  (bx0 bx1 by0 by1 bz0 bz1 : bmode R),
  1 <= nelx g -> 1 <= nely g -> (1 <= nelz g \/ (nelz g = 0 /\ dlz = 0)) ->
  0 <= dlx <= nelx g -> 0 <= dly <= nely g -> 0 <= dlz <= nelz g ->
  (forall k, (0 <= wtab k)%R) -> (0 < wtab 0%Z)%R ->
  forall (x : list R) (lo hi : R) a b d,
  is_const bx0 = false -> is_const bx1 = false -> is_const by0 = false -> is_const by1 = false ->
  is_const bz0 = false -> is_const bz1 = false ->
  Z.of_nat (length x) = nel g ->
  (forall e, 0 <= e < nel g -> (lo <= zget x e <= hi)%R) ->
  0 <= a < nelx g -> 0 <= b < nely g -> 0 <= d < nz1 g ->
  (lo <= zget (fc_response (mk_fconv g (radius_kernel dlx dly dlz sx sy sz wtab) bx0 bx1 by0 by1 bz0 bz1 []) x)
             (elemnumber g a b d) <= hi)%R.
Proof. exact radius_filter_bounds. Qed.
Print Assumptions C09_radius_filter_bounds.

(* ... and with the default all-symmetric boundaries the volume is preserved *)
Theorem C09_radius_filter_volume : forall (g : grid) (dlx dly dlz sx sy sz : Z) (wtab : Z -> R) (x : list R),
  1 <= nelx g -> 1 <= nely g -> (1 <= nelz g \/ (nelz g = 0 /\ dlz = 0)) ->
  0 <= dlx <= nelx g -> 0 <= dly <= nely g -> 0 <= dlz <= nelz g ->
  (forall k, (0 <= wtab k)%R) -> (0 < wtab 0%Z)%R ->
  Z.of_nat (length x) = nel g ->
  nsum (fc_response (mk_fconv g (radius_kernel dlx dly dlz sx sy sz wtab) BSym BSym BSym BSym BSym BSym []) x) = nsum x.
Proof. exact radius_filter_volume. Qed.
Print Assumptions C09_radius_filter_volume.

(* the pad size chosen by set_filter_radius never exceeds the domain: delem = min(n, .) *)
Theorem C09_radius_pad_within_domain : forall (r dx : Q) (n : Z), radius_delem r dx n <= n.
Proof. exact radius_delem_le. Qed.
Print Assumptions C09_radius_pad_within_domain.

(* 1-D core of volume preservation: the window positions that read element j at offsets +t and -t read every
   element exactly twice in total (any offset t, also beyond the domain size) *)
Theorem C09_mirror_pair_count : forall (n : Z), 1 <= n -> forall (g : Z -> R) (t : Z),
  (zsum n (fun a => g (sym_idx n (a + t)%Z)) + zsum n (fun a => g (sym_idx n (a - t)%Z)) = 2 * zsum n g)%R.
Proof. exact sym_pair_sum. Qed.
Print Assumptions C09_mirror_pair_count.

(* C09_volume_preserved: six symmetric boundaries, kernel invariant under each axis mirror and summing to one
   => sum y = sum x  (all pad sizes) *)
Theorem C09_volume_preserved : forall (f : @fconv R) (x : list R), let c := fc_pad f in
  pads_nonneg c -> dims_ok c ->
  shape3 (fc_w f) = (2 * ppx c + 1, 2 * ppy c + 1, 2 * ppz c + 1) ->
  all_sym c -> fc_uov f = [] ->
  (forall qa qb qc, 0 <= qa < 2 * ppx c + 1 -> 0 <= qb < 2 * ppy c + 1 -> 0 <= qc < 2 * ppz c + 1 ->
     wget (fc_w f) (2 * ppx c - qa) qb qc = wget (fc_w f) qa qb qc /\
     wget (fc_w f) qa (2 * ppy c - qb) qc = wget (fc_w f) qa qb qc /\
     wget (fc_w f) qa qb (2 * ppz c - qc) = wget (fc_w f) qa qb qc) ->
  zsum3 (2 * ppx c + 1) (2 * ppy c + 1) (2 * ppz c + 1) (wget (fc_w f)) = 1%R ->
  Z.of_nat (length x) = nel (pg c) ->
  nsum (fc_response f x) = nsum x.
Proof. exact fc_volume_preserved. Qed.
Print Assumptions C09_volume_preserved.

(* ================================================================= DensityFilter = normalised cone average *)

(* window_complete: outside the +-int(radius) window of element (i,j,k), in any direction, the cone weight is 0,
   so restricting the assembly to the window loses nothing *)
Theorem C09_window_complete : forall (r : R) (delem : Z), 0 <= delem -> (r < IZR (delem + 1))%R ->
  forall wtab : Z -> R, (forall d2, 0 <= d2 -> wtab d2 = Rmax 0 (r - sqrt (IZR d2))) ->
  forall (g : grid) i j k a b c,
  0 <= i < nelx g -> 0 <= j < nely g -> 0 <= k < nz1 g ->
  0 <= a < nelx g -> 0 <= b < nely g -> 0 <= c < nz1 g ->
  ((a < win_lo i delem \/ win_hi i delem (nelx g) < a) \/
   (b < win_lo j delem \/ win_hi j delem (nely g) < b) \/
   (c < win_lo k delem \/ win_hi k delem (nz1 g) < c)) ->
  cone_H wtab i j k a b c = 0%R.
Proof. exact window_complete. Qed.
Print Assumptions C09_window_complete.

(* int(radius) is the floor the theorem above needs *)
Theorem C09_delem_is_floor : forall q : Q, (0 <= q)%Q ->
  0 <= dens_delem q /\ (Q2R q < IZR (dens_delem q + 1))%R.
Proof. exact dens_delem_spec. Qed.
Print Assumptions C09_delem_is_floor.

(* C09_cone_formula: y_i = sum_j H_ij x_j / sum_j H_ij with H_ij = max(0, r - dist(i, j)) and j ranging over ALL
   elements of the domain *)
Theorem C09_cone_formula : forall (g : grid), wf g ->
  forall (r : R) (delem : Z), 0 <= delem -> (r < IZR (delem + 1))%R ->
  forall wtab : Z -> R, (forall d2, 0 <= d2 -> wtab d2 = Rmax 0 (r - sqrt (IZR d2))) ->
  forall i j k, 0 <= i < nelx g -> 0 <= j < nely g -> 0 <= k < nz1 g ->
  forall (kmax : R -> R -> R) (x : list R),
  zget (dens_response g delem wtab kmax None x) (elemnumber g i j k) =
  (zsum3 (nelx g) (nely g) (nz1 g) (fun a b c =>
      Rmax 0 (r - sqrt (IZR (sq (i - a) + sq (j - b) + sq (k - c)))) * zget x (elemnumber g a b c)) /
   zsum3 (nelx g) (nely g) (nz1 g) (fun a b c => Rmax 0 (r - sqrt (IZR (sq (i - a) + sq (j - b) + sq (k - c))))))%R.
Proof. exact dens_cone_formula. Qed.
Print Assumptions C09_cone_formula.

(* the normalisation s_i = sum_j H_ij is the stored row sum and it is positive (H_ii = r > 0): no division by zero *)
Theorem C09_cone_rowsum : forall (g : grid), wf g ->
  forall (r : R) (delem : Z), 0 <= delem -> (r < IZR (delem + 1))%R ->
  forall wtab : Z -> R, (forall d2, 0 <= d2 -> wtab d2 = Rmax 0 (r - sqrt (IZR d2))) ->
  forall i j k, 0 <= i < nelx g -> 0 <= j < nely g -> 0 <= k < nz1 g ->
  rowsum g delem wtab (elemnumber g i j k) =
  zsum3 (nelx g) (nely g) (nz1 g) (fun a b c => cone_H wtab i j k a b c).
Proof. exact rowsum_full. Qed.
Print Assumptions C09_cone_rowsum.

Theorem C09_cone_rowsum_positive : forall (g : grid) (r : R), (0 < r)%R ->
  forall wtab : Z -> R, (forall d2, 0 <= d2 -> wtab d2 = Rmax 0 (r - sqrt (IZR d2))) ->
  forall i j k, 0 <= i < nelx g -> 0 <= j < nely g -> 0 <= k < nz1 g ->
  (0 < zsum3 (nelx g) (nely g) (nz1 g) (fun a b c => cone_H wtab i j k a b c))%R.
Proof. exact Ssum_pos. Qed.
Print Assumptions C09_cone_rowsum_positive.

(* elements listed in nonpadding keep exactly that value *)
Theorem C09_nonpadding_member : forall (g : grid), wf g ->
  forall (r : R) (delem : Z), 0 <= delem -> (r < IZR (delem + 1))%R ->
  forall wtab : Z -> R, (forall d2, 0 <= d2 -> wtab d2 = Rmax 0 (r - sqrt (IZR d2))) ->
  forall i j k, 0 <= i < nelx g -> 0 <= j < nely g -> 0 <= k < nz1 g ->
  forall (kmax : R -> R -> R) (l : list Z) (x : list R), zmem (elemnumber g i j k) l = true ->
  zget (dens_response g delem wtab kmax (Some l) x) (elemnumber g i j k) =
  zget (dens_response g delem wtab kmax None x) (elemnumber g i j k).
Proof. exact dens_nonpadding_member. Qed.
Print Assumptions C09_nonpadding_member.

Theorem C09_dens_bounds : forall (g : grid), wf g ->
  forall (r : R) (delem : Z), 0 <= delem -> (r < IZR (delem + 1))%R -> (0 < r)%R ->
  forall wtab : Z -> R, (forall d2, 0 <= d2 -> wtab d2 = Rmax 0 (r - sqrt (IZR d2))) ->
  forall i j k, 0 <= i < nelx g -> 0 <= j < nely g -> 0 <= k < nz1 g ->
  forall (kmax : R -> R -> R) (x : list R) (lo hi : R),
  (forall e, 0 <= e < nel g -> (lo <= zget x e <= hi)%R) ->
  (lo <= zget (dens_response g delem wtab kmax None x) (elemnumber g i j k) <= hi)%R.
Proof. exact dens_bounds. Qed.
Print Assumptions C09_dens_bounds.

Theorem C09_dens_constant_preserved : forall (g : grid), wf g ->
  forall (r : R) (delem : Z), 0 <= delem -> (r < IZR (delem + 1))%R -> (0 < r)%R ->
  forall wtab : Z -> R, (forall d2, 0 <= d2 -> wtab d2 = Rmax 0 (r - sqrt (IZR d2))) ->
  forall i j k, 0 <= i < nelx g -> 0 <= j < nely g -> 0 <= k < nz1 g ->
  forall (kmax : R -> R -> R) (x : list R) (v : R),
  (forall e, 0 <= e < nel g -> zget x e = v) ->
  zget (dens_response g delem wtab kmax None x) (elemnumber g i j k) = v.
Proof. exact dens_constant. Qed.
Print Assumptions C09_dens_constant_preserved.

(* the block of every element has the announced number nwind of entries: the slice assignments of the assembly
   loop are shape-consistent and h_rows/h_cols are the concatenation of the blocks *)
Theorem C09_window_count : forall (K : Type) (g : grid) (delem : Z) (wtab : Z -> K) (el : Z),
  0 <= delem -> wf g -> 0 <= el < nel g ->
  Z.of_nat (length (h_row g delem wtab el)) = nwind g delem el.
Proof. exact @h_row_length. Qed.
Print Assumptions C09_window_count.

(* the cone matrix is symmetric: _sensitivity may multiply with H instead of its transpose *)
Theorem C09_cone_symmetric : forall (K : Type) (wtab : Z -> K) i j k a b c,
  cone_H wtab i j k a b c = cone_H wtab a b c i j k.
Proof. exact @cone_H_symmetric. Qed.
Print Assumptions C09_cone_symmetric.

(* ================================================================= histories (Model/FiltHist.v) *)
(* FilterConv: option-changing public methods between responses.  `frun f ops` are the observations of the history
   `ops` (FOvVal = override_values, FOvPad = override_padded_values, FSetW = set_filter_radius re-assigning the
   kernel, FResp x = response on x, FPadded x = get_padded_vector(x)) on a module whose state after construction is f.
   A response returns fc_response of the module with the padding of its construction, the LAST kernel and ALL
   overrides registered so far, in call order — to which C09_conv_formula / C09_bounds / ... apply verbatim. *)
Theorem C09_history_response : forall (K : Type) (H : Num K) (f : @fconv K) (ops : list (fop K)) (x : list K),
  frun f (ops ++ [FResp x]) =
  frun f ops ++ [ObsY (fc_response {| fc_pad := fc_pad f; fc_w := hist_kernel (fc_w f) ops;
                                     fc_uov := fc_uov f ++ hist_overrides (fc_pad f) ops |} x)].
Proof. exact @fc_history_response. Qed.
Print Assumptions C09_history_response.

Theorem C09_history_padded_vector : forall (K : Type) (H : Num K) (f : @fconv K) (ops : list (fop K)) (x : list K),
  frun f (ops ++ [FPadded x]) =
  frun f ops ++ [ObsPad (xpad_arr (fc_pad f) (fc_uov f ++ hist_overrides (fc_pad f) ops) x)].
Proof. exact @fc_history_padded. Qed.
Print Assumptions C09_history_padded_vector.

(* Filter / DensityFilter: _prepare stores H and Hs on the module, the nonpadding branch overwrites the module's own
   Hs; `drun kmax [] ops` are the responses of a population of filters (DNew options | DResp i x).  Every response is
   the normalised cone average of the filter's OWN (grid, radius, nonpadding), whatever other filters exist. *)
Theorem C09_dens_history_response : forall (K : Type) (H : Num K) (kmax : K -> K -> K) (ops : list (dop K)) (i : nat) (x : list K),
  drun kmax [] (ops ++ [DResp i x]) =
  drun kmax [] ops ++
    [option_map (fun o => dens_response (do_g o) (do_delem o) (do_wtab o) kmax (do_nonpad o) x)
                (nth_error (dhist_opts ops) i)].
Proof. exact @dens_history_response. Qed.
Print Assumptions C09_dens_history_response.

Theorem C09_dens_history_stable : forall (K : Type) (ops1 ops2 : list (dop K)) (i : nat) (o : dopts K),
  nth_error (dhist_opts ops1) i = Some o -> nth_error (dhist_opts (ops1 ++ ops2)) i = Some o.
Proof. exact @dens_history_stable. Qed.
Print Assumptions C09_dens_history_stable.

(* non-vacuity: ex_f, overrides registered AFTER a first response change the later responses *)
Example C09_nonvacuous_history :
  frun ex_f [FResp [1; 2; 3; 4; 5; 6]%Q; FOvVal [(1, 0, 0)] 10%Q; FResp [1; 2; 3; 4; 5; 6]%Q; FOvPad [] 3%Q;
             FOvPad [(0, 1, 0)] 0%Q; FResp [1; 2; 3; 4; 5; 6]%Q]
  = [ObsY [(11#4); (7#2); (17#4); (29#8); (33#8); (19#4)]%Q; ObsY [(15#4); (11#2); (21#4); (29#8); (41#8); (23#4)]%Q;
     ObsY [(29#8); (11#2); (21#4); (7#2); (41#8); (23#4)]%Q].
Proof. vm_compute. reflexivity. Qed.

(* two filters on the same grid and radius, the second with nonpadding, built AFTER the first was evaluated: the
   first one answers the same before and after (cone table of r = 3/2 restricted to axis neighbours) *)
Example C09_nonvacuous_dens_history :
  let wt := fun d2 : Z => if d2 =? 0 then (3#2)%Q else if d2 =? 1 then (1#2)%Q else 0%Q in
  let qmax := fun a b : Q => if Qle_bool a b then b else a in
  let g := {| nelx := 3; nely := 1; nelz := 0 |} in
  drun qmax [] [DNew {| do_g := g; do_delem := 1; do_wtab := wt; do_nonpad := None |}; DResp 0 [1; 2; 4]%Q;
                DNew {| do_g := g; do_delem := 1; do_wtab := wt; do_nonpad := Some [1] |}; DResp 1 [1; 2; 4]%Q;
                DResp 0 [1; 2; 4]%Q]
  = [Some [(5#4); (11#5); (7#2)]%Q; Some [1; (11#5); (14#5)]%Q; Some [(5#4); (11#5); (7#2)]%Q].
Proof. vm_compute. reflexivity. Qed.

(* ================================================================= non-vacuity *)
(* ex_f (defined in Proofs/ConvP.v): grid 3 x 2, kernel [[1/8,1/8,0],[1/8,1/4,1/8],[0,1/8,1/8]],
   xmin symmetric, xmax edge, ymin wrap, ymax constant 5 *)
(* the hypotheses of the padding / formula theorems hold for a concrete mixed-mode configuration, and the model
   evaluates to a non-trivial response on it *)
Example C09_nonvacuous_config :
  pads_nonneg (fc_pad ex_f) /\ dims_ok (fc_pad ex_f) /\ pad_ok (fc_pad ex_f) /\
  shape3 (fc_w ex_f) = (2 * ppx (fc_pad ex_f) + 1, 2 * ppy (fc_pad ex_f) + 1, 2 * ppz (fc_pad ex_f) + 1) /\
  el3d_pad (fc_pad ex_f) = [[[3]; [0]; [3]; [0]]; [[3]; [0]; [3]; [0]]; [[4]; [1]; [4]; [0]]; [[5]; [2]; [5]; [0]];
                            [[5]; [2]; [5]; [0]]] /\
  fc_response ex_f [1; 2; 3; 4; 5; 6]%Q = [(11#4); (7#2); (17#4); (29#8); (33#8); (19#4)]%Q.
Proof. exact ex_config_ok. Qed.

(* the hypotheses of the bounds / volume theorems are satisfiable over R (normalised mirror-symmetric kernel) *)
Example C09_nonvacuous_kernel : exists f : @fconv R, let c := fc_pad f in
  pads_nonneg c /\ dims_ok c /\ pad_ok c /\ no_const c /\ all_sym c /\ fc_uov f = [] /\ ppx c = 1 /\ ppy c = 1 /\
  shape3 (fc_w f) = (2 * ppx c + 1, 2 * ppy c + 1, 2 * ppz c + 1) /\
  (forall qa qb qc, 0 <= qa < 2 * ppx c + 1 -> 0 <= qb < 2 * ppy c + 1 -> 0 <= qc < 2 * ppz c + 1 ->
     (0 <= wget (fc_w f) qa qb qc)%R /\
     wget (fc_w f) (2 * ppx c - qa) qb qc = wget (fc_w f) qa qb qc /\
     wget (fc_w f) qa (2 * ppy c - qb) qc = wget (fc_w f) qa qb qc /\
     wget (fc_w f) qa qb (2 * ppz c - qc) = wget (fc_w f) qa qb qc) /\
  zsum3 (2 * ppx c + 1) (2 * ppy c + 1) (2 * ppz c + 1) (wget (fc_w f)) = 1%R.
Proof. exact ex_kernel_ok. Qed.

(* the cone hypotheses are satisfiable (r = 3/2, delem = 1) and the window really excludes elements *)
Example C09_nonvacuous_cone : exists (wtab : Z -> R) (r : R) (delem : Z),
  0 <= delem /\ (r < IZR (delem + 1))%R /\ (0 < r)%R /\
  (forall d2, 0 <= d2 -> wtab d2 = Rmax 0 (r - sqrt (IZR d2))) /\
  (3 < win_lo 5 delem) /\ cone_H wtab 5 0 0 3 0 0 = 0%R.
Proof. exact ex_cone_ok. Qed.
