(* C09 — placeholder while the proofs are being written *)
From Coq Require Import ZArith List.
From Pymoto Require Import Base.Num Model.Grid Model.Pad Model.Conv Model.DensFilt.
