(* C20 — result files decode back to the data that was written.  (under construction) *)
From Coq Require Import ZArith List.
From Pymoto Require Import Base.Bytes Model.B64 Model.Vti Model.Log Proofs.BytesP Proofs.B64P.
Import ListNotations.
Open Scope Z_scope.

Theorem C20_b64_roundtrip : forall bs, bytes_ok bs -> b64_decode (b64_encode bs) = Some bs.
Proof. exact b64_roundtrip. Qed.
Print Assumptions C20_b64_roundtrip.
