(* C20 — result files decode back to the data that was written.
   Statements only; every proof is `exact <lemma>`; Print Assumptions under each.
   Models: Model/B64.v (RFC 4648, VTK block), Model/Vti.v (write_to_vti, WriteToVTI), Model/Log.v (ScalarToFile).
   Oracles (explicit premises): f32 = ndarray.astype(float32) per entry (contract: four bytes),
   fmt = value.__format__(format) (contract where needed: the text does not contain the separator). *)
From Coq Require Import ZArith List Bool Lia.
From Pymoto Require Import Base.Bytes Model.Grid Model.B64 Model.Vti Model.Log
  Proofs.GridP Proofs.BytesP Proofs.B64P Proofs.FsP Proofs.VtiP Proofs.LogP.
Import ListNotations.
Open Scope Z_scope.

(* ------------------------------------------------------------------ base64 and the block header *)
(* RFC 4648: decoding an encoding gives the bytes back, for ALL byte lists (induction in steps of 3, both paddings) *)
Theorem C20_b64_roundtrip : forall bs, bytes_ok bs -> b64_decode (b64_encode bs) = Some bs.
Proof. exact b64_roundtrip. Qed.
Print Assumptions C20_b64_roundtrip.

Theorem C20_b64_length : forall bs, length (b64_encode bs) = (4 * ((length bs + 2) / 3))%nat.
Proof. exact b64_encode_length. Qed.
Print Assumptions C20_b64_length.

(* struct.pack('<Q', v): eight bytes that read back as v *)
Theorem C20_header_roundtrip : forall v, 0 <= v < 2 ^ 64 ->
  bytes_ok (le64 v) /\ length (le64 v) = 8%nat /\ le_value (le64 v) = v.
Proof. intros v Hv. exact (conj (le_bytes_ok 8 v) (conj (le_bytes_length 8 v) (le64_roundtrip v Hv))). Qed.
Print Assumptions C20_header_roundtrip.

(* the block b64(uint64_le(len)) ++ b64(raw): the data part decodes to raw; the header reads back as the number the
   code stored (the length of the base64 TEXT; the property does not fix this number, it is modelled as written) *)
Theorem C20_block_roundtrip : forall raw, bytes_ok raw -> Z.of_nat (length (b64_encode raw)) < 2 ^ 64 ->
  vtk_block_data (vtk_block raw) = Some raw /\
  vtk_block_header (vtk_block raw) = Some (Z.of_nat (length (b64_encode raw))).
Proof. intros raw Hraw Hlen. exact (conj (vtk_block_data_roundtrip raw Hraw) (vtk_block_header_roundtrip raw Hlen)). Qed.
Print Assumptions C20_block_roundtrip.

(* ------------------------------------------------------------------ cell / point classification *)
(* FULL statement intended by the property: for every domain whose element and node counts are not multiples of each
   other, a vector of c*nel entries is cell data and a vector of c*nnodes entries is point data.
   For plain vectors (anything but 2-D arrays; sorted by total size, cell asked first) the second half is FALSE for the
   code and the faithful model: C20_classification_literal_refuted (sizes that fit both counts are inherently
   ambiguous).  Proved: the statement with the hypothesis on the sizes in play, nel does not divide c*nnodes. *)
Theorem C20_classification_partial : forall g shape c, wf g -> length shape <> 2%nat ->
  (size shape = c * nel g -> classify g shape = Cell) /\
  (size shape = c * nnodes g -> (c * nnodes g) mod nel g <> 0 -> classify g shape = Point).
Proof.
  intros g shape c Hwf H2. exact (conj (classify_cell g shape c Hwf H2) (classify_point g shape c Hwf H2)).
Qed.
Print Assumptions C20_classification_partial.

Theorem C20_classification_literal_refuted :
  exists g c, wf g /\ nnodes g mod nel g <> 0 /\ nel g mod nnodes g <> 0 /\ 1 <= c <= 3 /\
              classify g [c * nnodes g] = Cell.
Proof. exact classification_literal_refuted. Qed.
Print Assumptions C20_classification_literal_refuted.

(* block vectors (2-D arrays) are sorted by the length of their AXES (repaired code, F21): an axis of c*nel entries
   makes cell data; an axis of c*nnodes entries makes point data as soon as no axis is a multiple of nel -- the total
   size plays no role any more *)
Theorem C20_classification_blocks : forall g k c, wf g ->
  (classify g [k; c * nel g] = Cell /\ classify g [c * nel g; k] = Cell) /\
  (k mod nel g <> 0 -> (c * nnodes g) mod nel g <> 0 ->
   classify g [k; c * nnodes g] = Point /\ classify g [c * nnodes g; k] = Point).
Proof. intros g k c Hwf. exact (conj (classify_block_cell g k c Hwf) (classify_block_point g k c Hwf)). Qed.
Print Assumptions C20_classification_blocks.

Theorem C20_neither_is_skipped : forall g shape,
  Forall (fun s => s mod nel g <> 0 /\ s mod nnodes g <> 0) (class_sizes shape) -> classify g shape = Skip.
Proof. exact classify_skip. Qed.
Print Assumptions C20_neither_is_skipped.

(* ------------------------------------------------------------------ components, padding, blocks *)
(* a vector of c*n entries (n = nel or nnodes > 0) becomes ONE array, named by its key, with c components;
   a 2-component point vector of a 2-D domain is written with 3 components through pad3 *)
Theorem C20_components : forall point dim2 n key ws, 0 < n -> forall c,
  entry_arrays point dim2 n key [c * n] ws = Ok [mk_array point (point && (c =? 2) && dim2) n c key ws].
Proof. exact entry_1d. Qed.
Print Assumptions C20_components.

(* the strided assignments vec_pad[0::3] = v[0::2]; vec_pad[1::3] = v[1::2] give [v0, v1, 0, v2, v3, 0, ...] for every
   number of nodes nn *)
Theorem C20_padding : forall (A : Type) (z d : A) nn v, length v = (2 * nn)%nat ->
  pad3 z nn v = pad_spec z v /\ length (pad3 z nn v) = (3 * nn)%nat /\
  forall k, (k < nn)%nat ->
    nth (3 * k) (pad3 z nn v) d = nth (2 * k) v d /\
    nth (3 * k + 1) (pad3 z nn v) d = nth (2 * k + 1) v d /\
    nth (3 * k + 2) (pad3 z nn v) d = z.
Proof. exact @padding_full. Qed.
Print Assumptions C20_padding.

(* block vectors: every row (shape k x c*n, k not a multiple of n) resp. column (shape c*n x k) becomes its own array,
   in order, named key(i) *)
Theorem C20_block_vectors : forall point dim2 n key ws k c, 0 < n -> 1 < k ->
  (k mod n <> 0 ->
   entry_arrays point dim2 n key [k; c * n] ws =
   Ok (map (fun i => mk_array point (point && (c =? 2) && dim2) n c (vec_name point k key i) (block_row (c * n) i ws))
           (zrange k))) /\
  entry_arrays point dim2 n key [c * n; k] ws =
  Ok (map (fun i => mk_array point (point && (c =? 2) && dim2) n c (vec_name point k key i) (block_col k i ws))
          (zrange k)).
Proof.
  intros point dim2 n key ws k c Hn Hk.
  exact (conj (entry_block_rows point dim2 n key ws Hn k c Hk) (entry_block_cols point dim2 n key ws Hn k c Hk)).
Qed.
Print Assumptions C20_block_vectors.

(* ... and row i / column i are the entries (i, j) of the C-ordered input *)
Theorem C20_block_entries : forall (A : Type) (d : A) cols i data j,
  (0 <= i -> 0 <= j < cols -> nth (Z.to_nat j) (block_row cols i data) d = nth (Z.to_nat (i * cols + j)) data d) /\
  (0 <= i < cols -> 0 <= j -> nth (Z.to_nat j) (block_col cols i data) d = nth (Z.to_nat (j * cols + i)) data d).
Proof. intros A d cols i data j. exact (conj (block_row_nth d cols i data j) (block_col_nth d cols i data j)). Qed.
Print Assumptions C20_block_entries.

(* ------------------------------------------------------------------ decode = input *)
(* whatever the shapes were: every array of a file the model writes decodes (data part of its block) to the bytes of
   its words, and the bytes split back into the words; the file consists of exactly those arrays, point data first *)
Theorem C20_every_array_decodes : forall g vs ds, Forall vec_ok vs -> vti_arrays g vs = Ok ds ->
  Forall (fun d => vtk_block_data (vtk_block (concat (da_words d))) = Some (concat (da_words d))
                   /\ chunk4 (concat (da_words d)) = da_words d) ds.
Proof. exact vti_arrays_decode. Qed.
Print Assumptions C20_every_array_decodes.

Theorem C20_file_layout : forall g os ss vs bytes, vti_file g os ss vs = Ok (Some bytes) ->
  exists pa ca, point_arrays g vs = Ok pa /\ cell_arrays g vs = Ok ca /\ vti_arrays g vs = Ok (pa ++ ca) /\
    bytes = render_header g os ss
            ++ render_section (s2z "PointData") (nonempty (point_vecs g vs)) pa
            ++ render_section (s2z "CellData") (nonempty (cell_vecs g vs)) ca ++ render_footer.
Proof. exact vti_file_layout. Qed.
Print Assumptions C20_file_layout.

(* the WholeExtent / Piece Extent text reads back as the element counts of the domain *)
Theorem C20_extent_describes_domain : forall g, wf g ->
  map parse_dec (split_on 32 (extent g)) = map Some [0; nelx g; 0; nely g; 0; nelz g].
Proof. exact extent_parses. Qed.
Print Assumptions C20_extent_describes_domain.

(* composition with the float32 oracle: the array written for a vector decodes to the float32 images of its entries
   (padded to three components where required); same for the i-th array of a block *)
Theorem C20_decode_equals_input : forall (V : Type) (f32 : V -> word), (forall v, word_ok (f32 v)) ->
  forall point dim2 n key c vals, 0 < n -> length vals = Z.to_nat (c * n) ->
  let padv := point && (c =? 2) && dim2 in
  exists d, entry_arrays point dim2 n key [c * n] (map f32 vals) = Ok [d] /\
    da_point d = point /\ da_name d = key /\ da_ncomp d = (if padv then 3 else c) /\
    option_map chunk4 (vtk_block_data (vtk_block (concat (da_words d))))
      = Some (if padv then pad_spec zero_word (map f32 vals) else map f32 vals).
Proof. exact decode_vector. Qed.
Print Assumptions C20_decode_equals_input.

Theorem C20_decode_equals_input_block_rows : forall (V : Type) (f32 : V -> word), (forall v, word_ok (f32 v)) ->
  forall point dim2 n key k c vals, 0 < n -> 1 < k -> k mod n <> 0 ->
  let padv := point && (c =? 2) && dim2 in
  exists ds, entry_arrays point dim2 n key [k; c * n] (map f32 vals) = Ok ds /\ length ds = Z.to_nat k /\
    forall i, 0 <= i < k ->
      (padv = true -> length (block_row (c * n) i vals) = (2 * Z.to_nat n)%nat) ->
      let d := nth (Z.to_nat i) ds (mkDA false [] 0 []) in
      da_point d = point /\ da_name d = vec_name point k key i /\ da_ncomp d = (if padv then 3 else c) /\
      option_map chunk4 (vtk_block_data (vtk_block (concat (da_words d))))
        = Some (expected_words V f32 padv (block_row (c * n) i vals)).
Proof. exact decode_block_rows. Qed.
Print Assumptions C20_decode_equals_input_block_rows.

Theorem C20_decode_equals_input_block_cols : forall (V : Type) (f32 : V -> word), (forall v, word_ok (f32 v)) ->
  forall point dim2 n key k c vals, 0 < n -> 1 < k ->
  let padv := point && (c =? 2) && dim2 in
  exists ds, entry_arrays point dim2 n key [c * n; k] (map f32 vals) = Ok ds /\ length ds = Z.to_nat k /\
    forall i, 0 <= i < k ->
      (padv = true -> length (block_col k i vals) = (2 * Z.to_nat n)%nat) ->
      let d := nth (Z.to_nat i) ds (mkDA false [] 0 []) in
      da_point d = point /\ da_name d = vec_name point k key i /\ da_ncomp d = (if padv then 3 else c) /\
      option_map chunk4 (vtk_block_data (vtk_block (concat (da_words d))))
        = Some (expected_words V f32 padv (block_col k i vals)).
Proof. exact decode_block_cols. Qed.
Print Assumptions C20_decode_equals_input_block_cols.

(* ------------------------------------------------------------------ WriteToVTI file names *)
(* numbered mode: different iterations write different files (also after the ".vti" suffix rule of write_to_vti);
   overwrite mode: always the given name *)
Theorem C20_file_per_iteration : forall saveto i j, 0 <= i -> 0 <= j ->
  vti_filename (iter_filename saveto false i) = vti_filename (iter_filename saveto false j) -> i = j.
Proof. exact wvti_filenames_distinct. Qed.
Print Assumptions C20_file_per_iteration.

Theorem C20_overwrite_name : forall saveto i, iter_filename saveto true i = saveto.
Proof. exact iter_filename_overwrite. Qed.
Print Assumptions C20_overwrite_name.

(* the iteration number in the name reads back *)
Theorem C20_iteration_number_parses : forall w n, 0 <= n -> parse_dec (zpad w (dec n)) = Some n.
Proof. exact parse_dec_zpad. Qed.
Print Assumptions C20_iteration_number_parses.

(* ------------------------------------------------------------------ ScalarToFile *)
(* a history of n >= 1 calls whose logged values keep tags, shapes and entry counts (arrays are not empty; `loggable`):
   the run succeeds, the file has the header line and n rows, row k is  k, then the formatted values of call k in the
   order they are visited, and has as many columns as the header has names *)
Theorem C20_log_shape : forall (V : Type) (fmt : V -> str) sep c0 rest,
  Forall (fun tv => loggable V (snd tv)) c0 ->
  Forall (fun c => same_call V c0 c /\ Forall (fun tv => loggable V (snd tv)) c) rest ->
  exists st names,
    log_run V fmt sep l_init (c0 :: rest) = Ok st /\
    l_iter st = Z.of_nat (length (c0 :: rest)) /\
    length (l_lines st) = S (length (c0 :: rest)) /\
    nth 0 (l_lines st) [] = join sep (s2z "Iteration" :: names) /\
    forall k, (k < length (c0 :: rest))%nat ->
      nth (S k) (l_lines st) [] = join sep (dec (Z.of_nat k) :: map fmt (call_vals V (nth k (c0 :: rest) []))) /\
      length (call_vals V (nth k (c0 :: rest) [])) = length names.
Proof. exact log_shape. Qed.
Print Assumptions C20_log_shape.

(* C-contiguous arrays are logged entry by entry in C order *)
Theorem C20_log_c_order : forall (V : Type) (shape : list Z) (data : list V),
  Forall (fun s => 0 <= s) shape -> Z.of_nat (length data) = lsize shape ->
  call_vals V [([], LArr shape data false)] = data.
Proof.
  intros V shape data Hs Hl.
  exact (eq_trans (app_nil_r _) (sig_vals_c_order V shape data Hs Hl)).
Qed.
Print Assumptions C20_log_c_order.

(* reading back: the lines of the file are recovered by splitting at "\n"; a row splits at the separator character
   into its columns, the first of which parses to the iteration number (format oracle contract: no column text
   contains the separator) *)
Theorem C20_log_lines_parse : forall ls, Forall (Forall (fun x => x <> 10)) ls ->
  split_on 10 (unlines ls) = ls ++ [[]].
Proof. exact split_unlines. Qed.
Print Assumptions C20_log_lines_parse.

Theorem C20_log_row_parses : forall c k texts, 0 <= k -> ~ is_digit c -> Forall (Forall (fun x => x <> c)) texts ->
  split_on c (join [c] (dec k :: texts)) = dec k :: texts /\ parse_dec (dec k) = Some k.
Proof. exact row_parses. Qed.
Print Assumptions C20_log_row_parses.

(* ------------------------------------------------------------------ the state of the file system *)
(* Model/Fs.v: files are a map from names to bytes.  open(name, "w"/"w+"/"wb") + writes: the file holds exactly what
   was written, whatever it held before; open(name, "a+") + writes: the writes follow the previous content *)
Theorem C20_open_for_writing_truncates : forall fs name bytes other,
  fs_read (fs_open_w fs name bytes) name = Some bytes /\
  (other <> name -> fs_read (fs_open_w fs name bytes) other = fs_read fs other).
Proof. intros fs name bytes other. exact (conj (fs_open_w_read fs name bytes) (fs_open_w_other fs name bytes other)). Qed.
Print Assumptions C20_open_for_writing_truncates.

Theorem C20_open_for_appending : forall fs name bytes,
  fs_read (fs_open_a fs name bytes) name = Some (match fs_read fs name with Some old => old ++ bytes | None => bytes end).
Proof. exact fs_open_a_read. Qed.
Print Assumptions C20_open_for_appending.

(* ScalarToFile, ANY file system `fs` before the first response (the target may exist with any content: the log of an
   earlier run with other tags / format / separator, longer or shorter, empty, without final newline), a new module
   instance, a history of n >= 1 calls (hypotheses of C20_log_shape): the run succeeds and the target file consists of
   EXACTLY the header line and the n rows of THIS history -- nothing of the old content survives --; every other file
   is untouched *)
Theorem C20_log_any_file_system : forall (V : Type) (fmt : V -> str) fs saveto sep c0 rest,
  Forall (fun tv => loggable V (snd tv)) c0 ->
  Forall (fun c => same_call V c0 c /\ Forall (fun tv => loggable V (snd tv)) c) rest ->
  exists fs' m' lines names,
    log_fs_run V fmt fs (mkM saveto sep 0) (c0 :: rest) = Ok (fs', m') /\
    m_iter m' = Z.of_nat (length (c0 :: rest)) /\
    fs_read fs' saveto = Some (unlines lines) /\
    (forall other, other <> saveto -> fs_read fs' other = fs_read fs other) /\
    length lines = S (length (c0 :: rest)) /\
    nth 0 lines [] = join sep (s2z "Iteration" :: names) /\
    forall k, (k < length (c0 :: rest))%nat ->
      nth (S k) lines [] = join sep (dec (Z.of_nat k) :: map fmt (call_vals V (nth k (c0 :: rest) []))) /\
      length (call_vals V (nth k (c0 :: rest) [])) = length names.
Proof. exact log_file_any_fs. Qed.
Print Assumptions C20_log_any_file_system.

(* the same as a refinement: on ANY file system the file is the text of the line-list model of C20_log_shape *)
Theorem C20_log_file_is_line_model : forall (V : Type) (fmt : V -> str) fs saveto sep c0 rest st,
  log_run V fmt sep l_init (c0 :: rest) = Ok st ->
  exists fs' m', log_fs_run V fmt fs (mkM saveto sep 0) (c0 :: rest) = Ok (fs', m') /\
    m_iter m' = Z.of_nat (length (c0 :: rest)) /\
    fs_read fs' saveto = Some (log_file st) /\
    forall other, other <> saveto -> fs_read fs' other = fs_read fs other.
Proof. exact log_any_fs. Qed.
Print Assumptions C20_log_file_is_line_model.

(* in the histories of events the case files evaluate (several module instances, writes and removals by the
   environment), consecutive calls of one instance are such a run *)
Theorem C20_log_history_calls : forall (V : Type) (fmt : V -> str) id calls fs mods m fs' m',
  nth_error mods id = Some m -> log_fs_run V fmt fs m calls = Ok (fs', m') ->
  log_world_run V fmt (fs, mods) (map (LCall id) calls) = Ok (fs', lset_nth mods id m').
Proof. exact world_calls_are_run. Qed.
Print Assumptions C20_log_history_calls.

(* reset() of a module or of the Network around it (between the iterations of every optimiser: "clear the
   sensitivities") and sensitivity() are events of the history language that change NOTHING: whatever a history with
   them leaves behind (files, iteration numbers of all instances), the history without them leaves behind too *)
Theorem C20_log_reset_changes_nothing : forall (V : Type) (fmt : V -> str) events w w',
  log_world_run V fmt w events = Ok w' -> log_world_run V fmt w (l_strip V events) = Ok w'.
Proof. exact world_run_strip. Qed.
Print Assumptions C20_log_reset_changes_nothing.

(* hence the theorems above (C20_log_any_file_system, C20_log_file_is_line_model) hold unchanged for the loop
   response -> sensitivity -> reset -> response ...: the calls of one instance with reset / sensitivity events of any
   existing instance anywhere in between are the run of the calls alone *)
Theorem C20_log_history_calls_with_resets : forall (V : Type) (fmt : V -> str) id events calls fs mods m fs' m',
  nth_error mods id = Some m ->
  Forall (fun e => match e with LCall i _ => i = id | LReset i | LSens i => (i < length mods)%nat | _ => False end) events ->
  l_strip V events = map (LCall id) calls ->
  log_fs_run V fmt fs m calls = Ok (fs', m') ->
  log_world_run V fmt (fs, mods) events = Ok (fs', lset_nth mods id m').
Proof. exact world_calls_with_resets. Qed.
Print Assumptions C20_log_history_calls_with_resets.

Example C20_log_reset_nonvacuous :
  let id := fun s : str => s in
  let c k := [(s2z "g", LNum (dec k))] in
  exists fs, log_world_run str id ([], []) [LNew (s2z "log.txt") [9]; LCall 0%nat (c 7); LSens 0%nat; LReset 0%nat;
                                              LCall 0%nat (c 8); LReset 0%nat; LReset 0%nat; LCall 0%nat (c 9)]
             = Ok (fs, [mkM (s2z "log.txt") [9] 3]) /\
             fs_read fs (s2z "log.txt") = Some (s2z "Iteration" ++ [9] ++ s2z "g" ++ [10] ++ s2z "0" ++ [9] ++ s2z "7" ++ [10]
                                                  ++ s2z "1" ++ [9] ++ s2z "8" ++ [10] ++ s2z "2" ++ [9] ++ s2z "9" ++ [10]).
Proof. eexists. split; vm_compute; reflexivity. Qed.

(* WriteToVTI, one response on ANY file system: the file it names holds exactly the bytes of the model's file (what a
   file of that name held before is gone), every other file is untouched; nothing to write: no file is touched *)
Theorem C20_wvti_file_exact : forall fs m sigs fs' m', wvti_step fs m sigs = Ok (fs', m') ->
  m' = vm_next m /\
  match vm_response m sigs with
  | Ok (Some (name, bytes)) =>
    fs_read fs' name = Some bytes /\ forall other, other <> name -> fs_read fs' other = fs_read fs other
  | _ => fs' = fs
  end.
Proof. exact wvti_step_file. Qed.
Print Assumptions C20_wvti_file_exact.

(* numbered mode, a history of n calls on ANY file system, starting at any iteration number: afterwards the file of
   call k holds exactly the model's file of call k, for every k; files named by no call are untouched (e.g. files of
   other iterations left by an earlier run) *)
Theorem C20_wvti_numbered_files : forall calls fs m fs' m',
  0 <= vm_iter m -> vm_overwrite m = false -> wvti_fs_run fs m calls = Ok (fs', m') ->
  (forall k name bytes, (k < length calls)%nat ->
     vm_response (vm_at m (Z.of_nat k)) (nth k calls []) = Ok (Some (name, bytes)) -> fs_read fs' name = Some bytes) /\
  (forall other,
     (forall k name bytes, (k < length calls)%nat ->
        vm_response (vm_at m (Z.of_nat k)) (nth k calls []) = Ok (Some (name, bytes)) -> other <> name) ->
     fs_read fs' other = fs_read fs other).
Proof. exact wvti_numbered_files. Qed.
Print Assumptions C20_wvti_numbered_files.

(* both modes: the file of the LAST call is exactly the model's file of that call; overwrite mode touches one name *)
Theorem C20_wvti_last_file : forall calls c fs m fs' m' name bytes,
  wvti_fs_run fs m (calls ++ [c]) = Ok (fs', m') ->
  vm_response (vm_at m (Z.of_nat (length calls))) c = Ok (Some (name, bytes)) ->
  fs_read fs' name = Some bytes.
Proof. exact wvti_last_file. Qed.
Print Assumptions C20_wvti_last_file.

Theorem C20_wvti_overwrite_others : forall calls fs m fs' m',
  vm_overwrite m = true -> wvti_fs_run fs m calls = Ok (fs', m') ->
  forall other, other <> vti_filename (vm_saveto m) -> fs_read fs' other = fs_read fs other.
Proof. exact wvti_overwrite_others. Qed.
Print Assumptions C20_wvti_overwrite_others.

Theorem C20_wvti_history_calls : forall id calls fs mods m fs' m',
  nth_error mods id = Some m -> wvti_fs_run fs m calls = Ok (fs', m') ->
  wvti_world_run (fs, mods) (map (VCall id) calls) = Ok (fs', set_nth mods id m').
Proof. exact vworld_calls_are_run. Qed.
Print Assumptions C20_wvti_history_calls.

(* the same for WriteToVTI: reset() / sensitivity() events change neither the iteration counters nor the files, so
   C20_wvti_numbered_files, C20_wvti_last_file and C20_wvti_overwrite_others hold for histories with them *)
Theorem C20_wvti_reset_changes_nothing : forall events w w',
  wvti_world_run w events = Ok w' -> wvti_world_run w (v_strip events) = Ok w'.
Proof. exact vworld_run_strip. Qed.
Print Assumptions C20_wvti_reset_changes_nothing.

Theorem C20_wvti_history_calls_with_resets : forall id events calls fs mods m fs' m',
  nth_error mods id = Some m ->
  Forall (fun e => match e with VCall i _ => i = id | VReset i | VSens i => (i < length mods)%nat | _ => False end) events ->
  v_strip events = map (VCall id) calls ->
  wvti_fs_run fs m calls = Ok (fs', m') ->
  wvti_world_run (fs, mods) events = Ok (fs', set_nth mods id m').
Proof. exact vworld_calls_with_resets. Qed.
Print Assumptions C20_wvti_history_calls_with_resets.

(* ------------------------------------------------------------------ repaired defects (F21, F22, F23): what holds now *)
(* F21: a block of k nodal vectors (k x c*nnodes) goes through the whole of write_to_vti as k point arrays whenever no
   axis is a multiple of nel; C20_block_point_arrays_witness: the hypotheses hold for the former failing input, the
   2 x 18 block on the 2 x 2 grid, whose total size 36 is a multiple of nel = 4 *)
Theorem C20_block_point_arrays : forall g key k c ws,
  wf g -> 1 < k -> k mod nel g <> 0 -> k mod nnodes g <> 0 -> (c * nnodes g) mod nel g <> 0 ->
  vti_arrays g [(key, [k; c * nnodes g], ws)] =
  Ok (map (fun i => mk_array true (true && (c =? 2) && (dim g =? 2)) (nnodes g) c (vec_name true k key i)
                             (block_row (c * nnodes g) i ws)) (zrange k)).
Proof. exact block_point_arrays. Qed.
Print Assumptions C20_block_point_arrays.

Example C20_block_point_arrays_witness :
  let g := {| nelx := 2; nely := 2; nelz := 0 |} in
  wf g /\ 2 mod nel g <> 0 /\ 2 mod nnodes g <> 0 /\ (2 * nnodes g) mod nel g <> 0 /\ (2 * (2 * nnodes g)) mod nel g = 0.
Proof. exact block_point_arrays_witness. Qed.

(* F22: a block with a single vector (1 x c*n or c*n x 1) is written exactly like the plain vector of c*n entries,
   3-component padding included (compare C20_components) *)
Theorem C20_single_vector_block : forall point dim2 n key ws c, 1 < n ->
  entry_arrays point dim2 n key [1; c * n] ws = Ok [mk_array point (point && (c =? 2) && dim2) n c key ws] /\
  entry_arrays point dim2 n key [c * n; 1] ws = Ok [mk_array point (point && (c =? 2) && dim2) n c key ws].
Proof. exact entry_single_vector_block. Qed.
Print Assumptions C20_single_vector_block.

(* F23: an array with exactly one entry is logged as one column named tag[0] (C20_log_shape covers it: `loggable`
   only asks for arrays that have entries) *)
Theorem C20_log_single_entry : forall (V : Type) (fmt : V -> str) tag x fo,
  sig_cols V fmt tag (LArr [1] [x] fo) = Ok [(tag ++ s2z "[0]", fmt x)].
Proof. exact single_entry_logged. Qed.
Print Assumptions C20_log_single_entry.

(* ------------------------------------------------------------------ non-vacuity *)
Definition G (a b c : Z) : grid := {| nelx := a; nely := b; nelz := c |}.
Definition w1 (k : Z) : word := [k; 0; 128; 63].

(* the hypotheses of the classification theorem hold on a 2 x 2 grid for 1, 2 and 3 nodal components *)
Example C20_classification_nonvacuous :
  wf (G 2 2 0) /\ forallb (fun c => negb ((c * nnodes (G 2 2 0)) mod nel (G 2 2 0) =? 0)) [1; 2; 3] = true.
Proof. unfold wf. cbn. repeat split; try lia. Qed.

(* a complete small file: a padded nodal vector and a 2-row cell block on the 3 x 1 grid (nel 3, nnodes 8);
   the model writes it, and every array decodes to the input words (zeros inserted in the padded one) *)
Example C20_decode_nonvacuous :
  let g := G 3 1 0 in
  let u := map w1 (zrange 16) in
  let s := map w1 (zrange 6) in
  match vti_arrays g [(s2z "u", [16], u); (s2z "s", [2; 3], s)] with
  | Ok ds =>
    map da_point ds = [true; false; false] /\ map da_ncomp ds = [3; 1; 1] /\
    map da_name ds = [s2z "u"; s2z "s(0)"; s2z "s(1)"] /\
    map (fun d => option_map chunk4 (vtk_block_data (vtk_block (concat (da_words d))))) ds
    = [Some (pad_spec zero_word u); Some (firstn 3 s); Some (skipn 3 s)]
  | Err _ => False
  end.
Proof. vm_compute. repeat split. Qed.

(* a log: three calls, a scalar and a 2 x 2 array, ";" as separator *)
Example C20_log_nonvacuous :
  let call (x : Z) := [(s2z "f", LNum x); (s2z "g", LArr [2; 2] [x + 1; x + 2; x + 3; x + 4] false)] in
  match log_run Z dec [59] l_init [call 10; call 20; call 30] with
  | Ok st => map (split_on 59) (l_lines st) =
             [[s2z "Iteration"; s2z "f"; s2z "g[0, 0]"; s2z "g[0, 1]"; s2z "g[1, 0]"; s2z "g[1, 1]"];
              map dec [0; 10; 11; 12; 13; 14]; map dec [1; 20; 21; 22; 23; 24]; map dec [2; 30; 31; 32; 33; 34]]
  | Err _ => False
  end.
Proof. vm_compute. reflexivity. Qed.

(* the same log written where an older, longer log with another separator and other tags already is (and a second
   file next to it): the old content is gone, the neighbour is untouched *)
Example C20_log_any_fs_nonvacuous :
  let call (x : Z) := [(s2z "f", LNum x)] in
  let old := [(s2z "log.txt", s2z "Iteration,a,b
0,1,2
1,3,4
2,5,6
3,7,8
no newline at the end"); (s2z "log.txt.bak", s2z "keep")] in
  match log_fs_run Z dec old (mkM (s2z "log.txt") [59] 0) [call 10; call 20] with
  | Ok (fs', m') => m_iter m' = 2 /\ fs_read fs' (s2z "log.txt") = Some (s2z "Iteration;f
0;10
1;20
") /\ fs_read fs' (s2z "log.txt.bak") = Some (s2z "keep")
  | Err _ => False
  end.
Proof. vm_compute. repeat split. Qed.

(* WriteToVTI histories on a file system that holds files of iterations 0 and 7 of an earlier run: numbered mode
   replaces 0000, adds 0001, leaves 0007; overwrite mode writes the one file twice *)
Example C20_wvti_any_fs_nonvacuous :
  let g := G 3 1 0 in
  let os := [s2z "0.0"; s2z "0.0"; s2z "0.0"] in
  let c (k : Z) := [(s2z "s", [3], map w1 [k; k + 1; k + 2])] in
  let old := [(s2z "o.0000.vti", s2z "old, and much longer than nothing"); (s2z "o.0007.vti", s2z "seven"); (s2z "o.vti", [])] in
  match wvti_fs_run old (mkVM g (s2z "o.vti") false os os 0) [c 1; c 2],
        wvti_fs_run old (mkVM g (s2z "o.vti") true os os 0) [c 1; c 2],
        vti_file g os os (c 1), vti_file g os os (c 2) with
  | Ok (fa, _), Ok (fb, _), Ok (Some b1), Ok (Some b2) =>
    fa = [(s2z "o.0000.vti", b1); (s2z "o.0007.vti", s2z "seven"); (s2z "o.vti", []); (s2z "o.0001.vti", b2)] /\
    fb = [(s2z "o.0000.vti", s2z "old, and much longer than nothing"); (s2z "o.0007.vti", s2z "seven"); (s2z "o.vti", b2)] /\
    b1 <> b2
  | _, _, _, _ => False
  end.
Proof. vm_compute. repeat split. discriminate. Qed.
