(* C14 — the overhang filter prints layer by layer in the requested direction.
   Statements only; every proof is `exact <lemma>`; Print Assumptions under each.
   Model: Model/Overhang.v (OverhangFilter._prepare / set_parameters / _response); lemmas: Proofs/OverhangCoreP.v.

   Vocabulary (all from Model/Overhang.v):
     sweep smin smax dflt g dl dx n x   the while loop of _response for dir_layer = dl, dx_layer = dx, nsampling = n,
                                        generic in the value type and in the two functions smin / smax_of_list
     response .. g d n x                the same for a direction vector d (dl = argmax |d|, dx = sign d[dl])
     coord g dl dx l a b                element number of layer l COUNTED FROM THE BASE PLATE, in-layer position (a, b)
     layered dflt g dl dx x             the flat field x read in those coordinates
     print_spec smin smax m1 m2 offs xl the direction-free specification  y_0 = x_0,
                                        y_l(p) = smin (x_l(p)) (smax [ y_{l-1}(p+o) : o in offs, p+o inside ])
     nlay / n1 / n2                     number of layers and the two in-layer sizes for print axis dl            *)
From Coq Require Import String Ascii.
From Coq Require Import ZArith QArith List Reals Permutation Lia.
From Pymoto Require Import Model.Grid Model.Overhang Model.OverhangHist Proofs.GridP Proofs.OverhangCoreP Proofs.OverhangHistP.
Import ListNotations.
Open Scope Z_scope.

(* ------------------------------------------------------------------------------------------------------------ *)
(* 1. The sweep is the layer-by-layer scheme, in the requested direction: for every grid with >= 1 layer, each of
      the print axes dl = 0,1,2 (x,y,z) and both senses dx = +1/-1, EVERY nsampling (in particular 3, 5, 9), every
      field, and any functions smin / smax.                                                                       *)
Theorem C14_sweep_refines_spec :
  forall (T : Type) (smin : T -> T -> T) (smax : list T -> T) (dflt : T) (g : grid) (dl dx nsamp : Z) (x : list T),
  wf g -> 0 <= dl <= 2 -> dx = 1 \/ dx = -1 -> Z.of_nat (length x) = nel g ->
  forall l a b, 0 <= l < nlay g dl -> 0 <= a < n1 g dl -> 0 <= b < n2 g dl ->
  getT dflt (sweep smin smax dflt g dl dx nsamp x) (coord g dl dx l a b) =
  print_spec smin smax (n1 g dl) (n2 g dl) (layer_offsets nsamp) (layered dflt g dl dx x) (Z.to_nat l) (a, b).
Proof. exact @sweep_refines_spec. Qed.
Print Assumptions C14_sweep_refines_spec.

(* the layered coordinates cover every element exactly once, so the theorem above determines the whole output *)
Theorem C14_coord_onto : forall g dl dx e, wf g -> 0 <= dl <= 2 -> 0 <= e < nel g ->
  exists l a b, 0 <= l < nlay g dl /\ 0 <= a < n1 g dl /\ 0 <= b < n2 g dl /\ coord g dl dx l a b = e.
Proof. exact sweep_elem. Qed.
Print Assumptions C14_coord_onto.

Theorem C14_output_length :
  forall (T : Type) (smin : T -> T -> T) (smax : list T -> T) (dflt : T) (g : grid) (dl dx nsamp : Z) (x : list T),
  wf g -> 0 <= dl <= 2 -> dx = 1 \/ dx = -1 -> Z.of_nat (length x) = nel g ->
  length (sweep smin smax dflt g dl dx nsamp x) = length x.
Proof. exact @sweep_length. Qed.
Print Assumptions C14_output_length.

(* ... and for a direction given as an axis-aligned vector of any non-zero length c (dx = sign of c) *)
Theorem C14_response_refines_spec :
  forall (T : Type) (smin : T -> T -> T) (smax : list T -> T) (dflt : T) g axis c nsamp (x : list T) l a b,
  wf g -> 0 <= axis <= 2 -> ~ (c == 0)%Q -> Z.of_nat (length x) = nel g ->
  0 <= l < nlay g axis -> 0 <= a < n1 g axis -> 0 <= b < n2 g axis ->
  getT dflt (response smin smax dflt g (axis_vec 3 axis c) nsamp x) (coord g axis (qsign c) l a b) =
  print_spec smin smax (n1 g axis) (n2 g axis) (layer_offsets nsamp) (layered dflt g axis (qsign c) x) (Z.to_nat l) (a, b).
Proof. exact @response_refines_spec. Qed.
Print Assumptions C14_response_refines_spec.

(* 2. the base layer is unchanged; a domain with one layer in print direction is returned as it is *)
Theorem C14_base_layer_unchanged :
  forall (T : Type) (smin : T -> T -> T) (smax : list T -> T) (dflt : T) g dl dx nsamp (x : list T) a b,
  wf g -> 0 <= dl <= 2 -> dx = 1 \/ dx = -1 -> Z.of_nat (length x) = nel g ->
  0 <= a < n1 g dl -> 0 <= b < n2 g dl ->
  getT dflt (sweep smin smax dflt g dl dx nsamp x) (coord g dl dx 0 a b) = getT dflt x (coord g dl dx 0 a b).
Proof. exact @base_layer_unchanged. Qed.
Print Assumptions C14_base_layer_unchanged.

Theorem C14_single_layer_identity :
  forall (T : Type) (smin : T -> T -> T) (smax : list T -> T) (dflt : T) g dl dx nsamp (x : list T) e,
  wf g -> 0 <= dl <= 2 -> dx = 1 \/ dx = -1 -> Z.of_nat (length x) = nel g -> nlay g dl = 1 ->
  0 <= e < nel g -> getT dflt (sweep smin smax dflt g dl dx nsamp x) e = getT dflt x e.
Proof. exact @single_layer_identity. Qed.
Print Assumptions C14_single_layer_identity.

(* ------------------------------------------------------------------------------------------------------------ *)
(* 3. Equivariance.  Hypothesis on smax: it does not depend on the order of the support values (true for the real
      P-Q mean, a sum; in floating point only up to rounding).
      Mirrors: the design mirrored along `axis`, filtered in the mirrored direction (sense reversed iff axis is the
      print axis), is the mirrored result.  All three axes, all print directions, nsampling 3/5/9.                *)
Theorem C14_mirror_equivariance :
  forall (T : Type) (smin : T -> T -> T) (smax : list T -> T) (dflt : T),
  (forall l l' : list T, Permutation l l' -> smax l = smax l') ->
  forall g dl dx axis nsamp (x x' : list T),
  wf g -> 0 <= dl <= 2 -> 0 <= axis <= 2 -> dx = 1 \/ dx = -1 -> nsamp = 3 \/ nsamp = 5 \/ nsamp = 9 ->
  Z.of_nat (length x) = nel g -> Z.of_nat (length x') = nel g ->
  (forall t, in_grid g t -> getT dflt x' (elemnumber3 g (mirror_el g axis t)) = getT dflt x (elemnumber3 g t)) ->
  forall t, in_grid g t ->
    getT dflt (sweep smin smax dflt g dl (if axis =? dl then - dx else dx) nsamp x') (elemnumber3 g (mirror_el g axis t))
    = getT dflt (sweep smin smax dflt g dl dx nsamp x) (elemnumber3 g t).
Proof. exact @mirror_equivariance. Qed.
Print Assumptions C14_mirror_equivariance.

(* Axis swaps: the design with axes ax1 <-> ax2 exchanged (on the grid with the two sizes exchanged), filtered in
   the exchanged direction, is the exchanged result.  2-D: x <-> y with nsampling 3 (print axis in the plane);
   3-D: all three transpositions with nsampling 5 or 9.  Mirrors and swaps generate all 8 / 48 symmetries.        *)
Theorem C14_swap_equivariance :
  forall (T : Type) (smin : T -> T -> T) (smax : list T -> T) (dflt : T),
  (forall l l' : list T, Permutation l l' -> smax l = smax l') ->
  forall g dl dx ax1 ax2 nsamp (x x' : list T),
  wf g -> swap_ok g ax1 ax2 -> 0 <= dl <= 2 -> dx = 1 \/ dx = -1 ->
  ((nelz g = 0 /\ dl <> 2 /\ nsamp = 3) \/ (1 <= nelz g /\ (nsamp = 5 \/ nsamp = 9))) ->
  Z.of_nat (length x) = nel g -> Z.of_nat (length x') = nel (swap_grid g ax1 ax2) ->
  (forall t, in_grid g t ->
     getT dflt x' (elemnumber3 (swap_grid g ax1 ax2) (swap_el ax1 ax2 t)) = getT dflt x (elemnumber3 g t)) ->
  forall t, in_grid g t ->
    getT dflt (sweep smin smax dflt (swap_grid g ax1 ax2) (swap_axis ax1 ax2 dl) dx nsamp x')
         (elemnumber3 (swap_grid g ax1 ax2) (swap_el ax1 ax2 t))
    = getT dflt (sweep smin smax dflt g dl dx nsamp x) (elemnumber3 g t).
Proof. exact @swap_equivariance. Qed.
Print Assumptions C14_swap_equivariance.

(* the fact behind both: each offset set is invariant under negating the in-layer axes, the 3-D sets also under
   exchanging them *)
Theorem C14_offsets_symmetric : forall s n, n = 3 \/ n = 5 \/ n = 9 -> (ls_swap s = true -> n <> 3) ->
  Permutation (map (lsym_lin s) (layer_offsets n)) (layer_offsets n).
Proof. exact offsets_sym. Qed.
Print Assumptions C14_offsets_symmetric.

(* ------------------------------------------------------------------------------------------------------------ *)
(* 4. Direction parsing.  Strings: for EVERY string (any length, any bytes) the parser returns the documented
      reading `documented` (Proofs/OverhangCoreP.v): exactly one of the axis letters x/y/z occurs (either case) -> that
      axis, negative iff a '-' occurs; otherwise ValueError.                                                       *)
Theorem C14_parse_string_all : forall s, parse_string s = documented s.
Proof. exact parse_string_documented. Qed.
Print Assumptions C14_parse_string_all.

(* the finite form of the property statement: all 820 strings of length <= 3 over {x,y,z,+,-,X,Y,Z,' '}, by
   evaluation; and the 30 documented spellings (optional sign before or after the axis letter) give the documented
   vector *)
Theorem C14_parse_strings :
  length (strings_upto 3) = 820%nat /\
  forallb (fun s => res_eqb (parse_string s) (documented s)) (strings_upto 3) = true /\
  forallb (fun sv => res_eqb (parse_string (fst sv)) (Ok (snd sv))) canonical_table = true /\
  length canonical_table = 30%nat.
Proof. exact parse_strings_finite. Qed.
Print Assumptions C14_parse_strings.

(* Vectors: every axis-aligned vector of length 2 or 3 with any non-zero component c (any positive or negative
   scale) is accepted (except a z direction on a 2-D domain: AssertionError), its normalisation is the sign vector,
   and the sweep uses dir_layer = axis, dx_layer = sign c. *)
Theorem C14_parse_vectors : forall dimg len axis c,
  dimg = 2 \/ dimg = 3 -> (len = 2 \/ len = 3)%nat -> 0 <= axis < Z.of_nat len -> ~ (c == 0)%Q ->
  prepare dimg (DVec (axis_vec len axis c)) None =
    (if (dimg =? 2) && (axis =? 2) then Err AssertionError
     else Ok (axis_vec 3 axis c, if dimg =? 2 then 3 else 5)) /\
  unit_dir (axis_vec 3 axis c) = Some (axis_vec 3 axis (inject_Z (qsign c))) /\
  dir_layer_of (axis_vec 3 axis c) = axis /\ dx_layer_of (axis_vec 3 axis c) = qsign c.
Proof. exact parse_vectors. Qed.
Print Assumptions C14_parse_vectors.

Theorem C14_sign : forall c, ~ (c == 0)%Q ->
  (qsign c = 1 \/ qsign c = -1) /\ ((0 < c)%Q -> qsign c = 1) /\ ((c < 0)%Q -> qsign c = -1).
Proof. exact qsign_cases. Qed.
Print Assumptions C14_sign.

(* Observation about the code as it is (not demanded by the property): the assertion
   `abs(direction).sum() >= 1 - 1e-10` can never fail, so EVERY non-zero vector is accepted, also when it is not
   aligned with an axis (the sweep then uses the axis of the first largest component). *)
Theorem C14_alignment_assert_vacuous : forall dimg a b c,
  ~ (a * a + b * b + c * c == 0)%Q -> (dimg = 2 -> (c == 0)%Q) -> check_dir dimg [a; b; c] = Ok [a; b; c].
Proof. exact check_dir_ok. Qed.
Print Assumptions C14_alignment_assert_vacuous.

(* ------------------------------------------------------------------------------------------------------------ *)
(* 5. Smooth minimum (over R):  smin(a,b) = (a + b - sqrt((a-b)^2 + eps) + sqrt(eps))/2                           *)
Open Scope R_scope.
Theorem C14_smin_le : forall eps a b, 0 <= eps ->
  smin_R eps a b <= a + sqrt eps / 2 /\ smin_R eps a b <= b + sqrt eps / 2 /\ Rmin a b <= smin_R eps a b.
Proof. exact (fun eps a b H => conj (smin_le_l eps a b H) (conj (smin_le_r eps a b H) (smin_ge_min eps a b H))). Qed.
Print Assumptions C14_smin_le.

Theorem C14_smin_exact_at_eps0 : forall a b, smin_R 0 a b = Rmin a b.
Proof. exact smin_eps0. Qed.
Print Assumptions C14_smin_exact_at_eps0.

(* hence: no element exceeds its input by more than sqrt(eps)/2 — every element of the flat output, every
   direction, every nsampling, ANY smooth maximum *)
Theorem C14_no_overshoot : forall g dl dx nsamp (x : list R) eps,
  wf g -> (0 <= dl <= 2)%Z -> (dx = 1 \/ dx = -1)%Z -> Z.of_nat (length x) = nel g -> 0 <= eps ->
  forall (smax : list R -> R) e, (0 <= e < nel g)%Z ->
  getT 0 (sweep (smin_R eps) smax 0 g dl dx nsamp x) e <= getT 0 x e + sqrt eps / 2.
Proof. exact no_overshoot. Qed.
Print Assumptions C14_no_overshoot.

(* 6. Smooth maximum:  smax(l) = (sum_{v in l} (v + shift)^p)^(1/q) - backshift  (Rpower; all bases positive, see
      C14_bases_positive).  Bounds: above any single support's (v+shift)^(p/q) - backshift; below
      n^(1/q) (delta+shift)^(p/q) - backshift when all supports are <= delta; >= 1 as soon as one support is >= 1. *)
Theorem C14_smax_bounds : forall p q shift backshift, 0 < p -> 0 < q ->
  (forall l v, In v l -> 0 < v + shift -> Rpower (v + shift) (p / q) - backshift <= smax_R p q shift backshift l) /\
  (forall n delta l, l <> [] -> INR (length l) <= n -> (forall v, In v l -> 0 < v + shift <= delta + shift) ->
     smax_R p q shift backshift l <= Rpower n (1 / q) * Rpower (delta + shift) (p / q) - backshift) /\
  (forall l, backshift <= Rpower (1 + shift) (p / q) - 1 -> 0 < shift -> (exists v, In v l /\ 1 <= v) ->
     1 <= smax_R p q shift backshift l).
Proof.
  exact (fun p q shift backshift Hp Hq =>
           conj (smax_ge_single p q shift backshift Hq)
          (conj (smax_le_delta p q shift backshift Hp Hq) (smax_solid p q shift backshift Hp Hq))).
Qed.
Print Assumptions C14_smax_bounds.

(* printed densities never fall below -backshift > -shift, so every power in the sweep has a positive base *)
Theorem C14_bases_positive : forall g dl dx nsamp (x : list R) eps,
  wf g -> (0 <= dl <= 2)%Z -> (dx = 1 \/ dx = -1)%Z -> Z.of_nat (length x) = nel g -> 0 <= eps ->
  forall p q shift backshift, 0 <= backshift < shift ->
  forall e, Forall (fun v => 0 <= v) x -> (0 <= e < nel g)%Z ->
  - backshift <= getT 0 (sweep (smin_R eps) (smax_R p q shift backshift) 0 g dl dx nsamp x) e.
Proof. exact sweep_lower. Qed.
Print Assumptions C14_bases_positive.

(* 7. Fully supported solid stays solid: a solid element (x = 1) that is `supported` (solid base-layer element, or
      one of its supports in the layer below is a supported solid element) is printed with density in
      [1, 1 + sqrt(eps)/2] — exactly solid from below, the documented overshoot from above.
      Premise on the parameters: backshift <= (1+shift)^(p/q) - 1 (implied by backshift <= shift and q <= p,
      C14_solid_premise; holds for the defaults, C14_default_parameters). *)
Theorem C14_solid_stays_solid : forall g dl dx nsamp (x : list R) eps p q shift backshift l a b,
  wf g -> (0 <= dl <= 2)%Z -> (dx = 1 \/ dx = -1)%Z -> Z.of_nat (length x) = nel g -> 0 <= eps ->
  0 < p -> 0 < q -> 0 <= backshift < shift -> backshift <= Rpower (1 + shift) (p / q) - 1 ->
  Forall (fun v => 0 <= v) x ->
  (0 <= l < nlay g dl)%Z -> (0 <= a < n1 g dl)%Z -> (0 <= b < n2 g dl)%Z ->
  supported 1 (n1 g dl) (n2 g dl) (layer_offsets nsamp) (layered 0 g dl dx x) (Z.to_nat l) (a, b) ->
  1 <= getT 0 (sweep (smin_R eps) (smax_R p q shift backshift) 0 g dl dx nsamp x) (coord g dl dx l a b)
    <= 1 + sqrt eps / 2.
Proof. exact solid_stays_solid_full. Qed.
Print Assumptions C14_solid_stays_solid.

(* in particular a solid column standing on the base plate *)
Theorem C14_solid_column : forall g dl dx nsamp (x : list R) eps p q shift backshift l a b,
  wf g -> (0 <= dl <= 2)%Z -> (dx = 1 \/ dx = -1)%Z -> Z.of_nat (length x) = nel g -> 0 <= eps ->
  0 < p -> 0 < q -> 0 <= backshift < shift -> backshift <= Rpower (1 + shift) (p / q) - 1 ->
  (2 <= nsamp)%Z -> Forall (fun v => 0 <= v) x ->
  (0 <= l < nlay g dl)%Z -> (0 <= a < n1 g dl)%Z -> (0 <= b < n2 g dl)%Z ->
  (forall l', (0 <= l' <= l)%Z -> getT 0 x (coord g dl dx l' a b) = 1) ->
  1 <= getT 0 (sweep (smin_R eps) (smax_R p q shift backshift) 0 g dl dx nsamp x) (coord g dl dx l a b)
    <= 1 + sqrt eps / 2.
Proof. exact solid_column. Qed.
Print Assumptions C14_solid_column.

Theorem C14_solid_premise : forall p q shift backshift, 0 < q <= p -> 0 < shift -> backshift <= shift ->
  backshift <= Rpower (1 + shift) (p / q) - 1.
Proof. exact solid_premise. Qed.
Print Assumptions C14_solid_premise.

(* 8. Unsupported material is removed: if the printed densities of all supports of an element are <= delta, its
      printed density is at most n^(1/q) (delta+shift)^(p/q) - backshift + sqrt(eps)/2 ... *)
Theorem C14_unsupported_removed : forall g dl dx nsamp (x : list R) eps,
  wf g -> (0 <= dl <= 2)%Z -> (dx = 1 \/ dx = -1)%Z -> Z.of_nat (length x) = nel g -> 0 <= eps ->
  forall p q shift backshift, 0 < p -> 0 < q -> 0 <= backshift < shift ->
  forall l a b delta, (nsamp = 3 \/ nsamp = 5 \/ nsamp = 9)%Z -> Forall (fun v => 0 <= v) x ->
  (0 <= l)%Z -> (l + 1 < nlay g dl)%Z -> (0 <= a < n1 g dl)%Z -> (0 <= b < n2 g dl)%Z ->
  (forall o, In o (layer_offsets nsamp) -> inside (n1 g dl) (n2 g dl) (padd (a, b) o) = true ->
     getT 0 (sweep (smin_R eps) (smax_R p q shift backshift) 0 g dl dx nsamp x)
          (coord g dl dx l (fst (padd (a, b) o)) (snd (padd (a, b) o))) <= delta) ->
  getT 0 (sweep (smin_R eps) (smax_R p q shift backshift) 0 g dl dx nsamp x) (coord g dl dx (l + 1) a b) <=
    Rpower (IZR nsamp) (1 / q) * Rpower (delta + shift) (p / q) - backshift + sqrt eps / 2.
Proof. exact unsupported_removed. Qed.
Print Assumptions C14_unsupported_removed.

(* ... in particular when the INPUT has no material on any support (then delta = sqrt(eps)/2) *)
Theorem C14_unsupported_input_removed : forall g dl dx nsamp (x : list R) eps,
  wf g -> (0 <= dl <= 2)%Z -> (dx = 1 \/ dx = -1)%Z -> Z.of_nat (length x) = nel g -> 0 <= eps ->
  forall p q shift backshift, 0 < p -> 0 < q -> 0 <= backshift < shift ->
  forall l a b, (nsamp = 3 \/ nsamp = 5 \/ nsamp = 9)%Z -> Forall (fun v => 0 <= v) x ->
  (0 <= l)%Z -> (l + 1 < nlay g dl)%Z -> (0 <= a < n1 g dl)%Z -> (0 <= b < n2 g dl)%Z ->
  (forall o, In o (layer_offsets nsamp) -> inside (n1 g dl) (n2 g dl) (padd (a, b) o) = true ->
     getT 0 x (coord g dl dx l (fst (padd (a, b) o)) (snd (padd (a, b) o))) = 0) ->
  getT 0 (sweep (smin_R eps) (smax_R p q shift backshift) 0 g dl dx nsamp x) (coord g dl dx (l + 1) a b) <=
    Rpower (IZR nsamp) (1 / q) * Rpower (sqrt eps / 2 + shift) (p / q) - backshift + sqrt eps / 2.
Proof. exact unsupported_input_removed. Qed.
Print Assumptions C14_unsupported_input_removed.

(* 9. The default parameters p = 40, xi_0 = 1/2, eps = 1e-4 with float64 meet every premise used above:
      C14_default_parameters in Props/C14b.v (Interval tactic; kept in its own file so that this one is independent of
      the Interval library).                                                                                       *)

(* q = p - k for xi_0 = n^(-1/k): the rational instances evaluated by the correspondence check *)
Theorem C14_q_of_root : forall p n k, 0 < n -> n <> 1 -> k <> 0 -> q_of p n (Rpower n (- (1 / k))) = p - k.
Proof. exact q_of_root. Qed.
Print Assumptions C14_q_of_root.
Close Scope R_scope.

(* ------------------------------------------------------------------------------------------------------------ *)
(* 10. Call histories (Model/OverhangHist.v).  Filter instances are objects with memory (self.smax, the parameters set
       at the first response, the state of the output signal); one process holds one domain g, input signals and
       instances cfgs (each with its own direction / nsampling / smooth min / max, connected to signal c_src; two
       instances may read the same signal).  Events: SetSig s x (signal.state = fresh array), WriteAll s x
       (signal.state[:] = x in place), WriteAt s i v (signal.state[i] = v in place), Respond j, Seed j w / Sens j /
       Reset j (sensitivity calls: ANY function aux_step of the whole state into the sensitivity attributes).
       `run` executes a history on the model with memory and returns the observed responses (instance, output state)
       in call order; `responses_spec` is the memory-free reading: every Respond j is the layer sweep, with the
       configuration of instance j, of the CURRENT contents of its input signal.
       For EVERY history, every set of instances and every starting memory the two agree: all of sections 1-9 hold
       for every response of every history.                                                                       *)
Theorem C14_history_responses :
  forall (T : Type) (dflt : T) (S : Type) (aux_step : grid -> list (config T) -> event T -> sys T S -> S)
         (g : grid) (cfgs : list (config T)) (h : list (event T)) (st : sys T S),
  fst (run dflt aux_step g cfgs h st) = responses_spec dflt g cfgs h (s_sigs st).
Proof. exact @run_responses. Qed.
Print Assumptions C14_history_responses.

(* the filter never writes an input signal *)
Theorem C14_history_inputs_untouched :
  forall (T : Type) (dflt : T) (S : Type) (aux_step : grid -> list (config T) -> event T -> sys T S -> S)
         (g : grid) (cfgs : list (config T)) (h : list (event T)) (st : sys T S),
  s_sigs (snd (run dflt aux_step g cfgs h st)) = fold_left sig_step h (s_sigs st).
Proof. exact @run_signals. Qed.
Print Assumptions C14_history_inputs_untouched.

(* a used instance answers like a fresh one: the responses depend on the input signals only *)
Theorem C14_history_memory_independent :
  forall (T : Type) (dflt : T) (S : Type) (aux_step : grid -> list (config T) -> event T -> sys T S -> S)
         (g : grid) (cfgs : list (config T)) (h : list (event T)) (st st' : sys T S),
  s_sigs st = s_sigs st' -> fst (run dflt aux_step g cfgs h st) = fst (run dflt aux_step g cfgs h st').
Proof. exact @run_memory_independent. Qed.
Print Assumptions C14_history_memory_independent.

(* sensitivity() / reset() / seeding between responses changes no response *)
Theorem C14_history_sensitivity_calls_irrelevant :
  forall (T : Type) (dflt : T) (S : Type) (aux_step : grid -> list (config T) -> event T -> sys T S -> S)
         (g : grid) (cfgs : list (config T)) (h : list (event T)) (st : sys T S),
  fst (run dflt aux_step g cfgs h st) = fst (run dflt aux_step g cfgs (filter (fun e => negb (quiet e)) h) st).
Proof. exact @run_without_quiet. Qed.
Print Assumptions C14_history_sensitivity_calls_irrelevant.

(* the map form for one instance: iterations (design given as a fresh array or written in place; any Seed / Sens /
   Reset calls; response()) return the map of the sweep over the designs *)
Theorem C14_single_instance_history :
  forall (T : Type) (dflt : T) (S : Type) (aux_step : grid -> list (config T) -> event T -> sys T S -> S)
         (g : grid) (c : config T) (its : list (bool * list T * list (event T))) (st : sys T S),
  c_src c = 0%nat -> s_sigs st <> [] -> (forall it, In it its -> forallb quiet (snd it) = true) ->
  fst (run dflt aux_step g [c] (flat_map iteration its) st) =
  map (fun it => (0%nat, sweep (c_smin c) (c_smax c) dflt g (c_dl c) (c_dx c) (c_ns c) (snd (fst it)))) its.
Proof. exact @single_instance_history. Qed.
Print Assumptions C14_single_instance_history.

(* ------------------------------------------------------------------------------------------------------------ *)
(* non-vacuity: concrete non-trivial instances (exact rational instance p = 2, q = 1, eps = 0)                     *)
Definition ex_g : grid := {| nelx := 3; nely := 3; nelz := 0 |}.
Definition ex_x : list Q := [1; 0; 1 # 2; 1; 1 # 2; 0; 1; 1; 1]%Q.
(* printing in +y: the overhanging half-dense element is reduced, the supported column stays *)
Example C14_example_sweep :
  wf ex_g /\ Z.of_nat (length ex_x) = nel ex_g /\
  response_Q ex_g [0; 1; 0]%Q 3 2 1 0 ex_x = [1; 0; 1 # 2; 1; 1 # 2; 0; 1; 1; 1 # 4]%Q /\
  response_Q ex_g [0; -1; 0]%Q 3 2 1 0 ex_x = [1; 0; 1 # 4; 1; 1 # 2; 0; 1; 1; 1]%Q /\
  response_Q ex_g [-3; 0; 0]%Q 3 2 1 0 ex_x = [1 # 4; 0; 1 # 2; 1; 1 # 2; 0; 1; 1; 1]%Q.
Proof. split; [unfold wf, ex_g; cbn; lia | split; [reflexivity | repeat split; vm_compute; reflexivity]]. Qed.
(* the mirror hypothesis is met by a concrete non-symmetric pair, and the conclusion is the non-trivial equation *)
Example C14_example_mirror :
  let x' := [1 # 2; 0; 1; 0; 1 # 2; 1; 1; 1; 1]%Q in
  (forall t, In t [(0,0,0); (1,0,0); (2,0,0); (0,1,0); (1,1,0); (2,1,0); (0,2,0); (1,2,0); (2,2,0)] ->
     getT 0%Q x' (elemnumber3 ex_g (mirror_el ex_g 0 t)) = getT 0%Q ex_x (elemnumber3 ex_g t)) /\
  response_Q ex_g [0; 1; 0]%Q 3 2 1 0 x' = [1 # 2; 0; 1; 0; 1 # 2; 1; 1 # 4; 1; 1]%Q.
Proof.
  cbv zeta. split; [|vm_compute; reflexivity].
  intros t H. cbn [In] in H. repeat (destruct H as [E | H]; [subst t; vm_compute; reflexivity |]). destruct H.
Qed.
(* `supported` is inhabited: the left column of ex_x printed in +y *)
Example C14_example_supported :
  supported 1%Q 3 1 (layer_offsets 3) (layered 0%Q ex_g 1 1 ex_x) 2 (0, 0).
Proof.
  apply (sup_step _ _ _ _ _ 1%nat (0, 0) (0, 0)); [reflexivity | vm_compute; auto | reflexivity |].
  apply (sup_step _ _ _ _ _ 0%nat (0, 0) (0, 0)); [reflexivity | vm_compute; auto | reflexivity |].
  apply sup_base. reflexivity.
Qed.
(* a history on ex_g: two instances (+y and x-) reading the SAME signal, the design replaced, one entry written in
   place, sensitivity calls in between; evaluated on the model with memory *)
Example C14_example_history :
  match all_some [cfgQ ex_g 0 (DStr "+y") None 2 1 0; cfgQ ex_g 0 (DStr "x-") (Some 3) 2 1 0] with
  | Some cfgs =>
      run_Q ex_g cfgs [ex_x]
            [Respond 0; Seed 0 ex_x; Sens 0; Reset 0; Respond 1; WriteAt 0 5 1%Q; Respond 0;
             SetSig 0 [0; 0; 0; 0; 1; 0; 0; 0; 0]%Q; Respond 1; Respond 0] =
      [(0%nat, [1; 0; 1 # 2; 1; 1 # 2; 0; 1; 1; 1 # 4]%Q);
       (1%nat, [1 # 4; 0; 1 # 2; 1; 1 # 2; 0; 1; 1; 1]%Q);
       (0%nat, [1; 0; 1 # 2; 1; 1 # 2; 1 # 4; 1; 1; 5 # 16]%Q);
       (1%nat, [0; 0; 0; 0; 0; 0; 0; 0; 0]%Q);
       (0%nat, [0; 0; 0; 0; 0; 0; 0; 0; 0]%Q)]
  | None => False
  end.
Proof. vm_compute. reflexivity. Qed.
