From Coq Require Import ZArith List Bool.
From Pymoto Require Import Base.Cmp Model.Signal Proofs.SignalP.
Import ListNotations.
