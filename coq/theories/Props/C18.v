(* C18 — signals and slices alias state, isolate accumulations and reset cleanly.
   Statements only (every proof is `exact <lemma>`), Print Assumptions under each, non-vacuity examples at the end.
   Model: Model/Signal.v (heap of buffers, values are windows onto buffers; Signal = root record, SignalSlice =
   (root, path of index objects); numpy's index semantics enters through the tables `slc`, supplied and validated by
   the harness).  Vocabulary (Proofs/SignalP.v):
     root w i                 the record of Signal i            get_fld r_st / r_se   the .state / .sensitivity getters
     resolve ix shp p         positions+shape selected by a path p of nested VIEW (basic) slices, innermost last
     win_ok h r ix            ix are distinct valid positions of buffer r
     fits h x shp n tcx       x is a scalar or an array of exactly shape shp (n entries), complex only onto complex
     promotes h x shp n tcx   x is a COMPLEX scalar or array of exactly shape shp (non 0-d, n entries) and the target is
                              not complex (tcx = false): numpy refuses the in-place addition
     vdata h x n              the data of x (a scalar is repeated n times)
     wrote h h' r tix d       in h', entries tix of buffer r hold d; all other entries of r, its size and dtype, and
                              every other buffer that existed in h are unchanged
     same_old h h'            h' only has additional buffers
     Inv / protocol / targets / sens_abs   the no-alias invariant, see below *)
From Coq Require Import ZArith List Bool.
From Pymoto Require Import Base.Cmp Model.Signal Proofs.SignalP.
Import ListNotations.
Local Open Scope nat_scope.

(* ------------------------------------------------------------------ 1. a slice READS the corresponding entries *)
(* through nested basic slices the getter returns a view: a window on the SAME buffer at exactly the selected
   positions; the world is untouched (f = r_st: state, f = r_se: sensitivity) *)
Theorem C18_slice_reads_view : forall (f : rootsig -> val) i p w r ix shp jx shp1,
  f (root w i) = VWin r ix shp -> resolve ix shp p = Some (jx, shp1) ->
  get_fld f i p w = (w, Ok (VWin r jx shp1)).
Proof. exact get_fld_view. Qed.
Print Assumptions C18_slice_reads_view.

(* a final integer-array index returns a fresh array (no sharing) holding those entries *)
Theorem C18_slice_reads_copy : forall (f : rootsig -> val) i s p w r ix shp jx shp1 si,
  f (root w i) = VWin r ix shp -> resolve ix shp p = Some (jx, shp1) ->
  lookup_slc s shp1 = Some si -> si_kind si = KCopy ->
  get_fld f i (s :: p) w =
    (set_heap w (heap w ++ [copy_buf (heap w) r (sub_ix jx (si_idx si))]),
     Ok (VWin (length (heap w)) (whole (length (si_idx si))) (si_shape si))) /\
  rd (heap w ++ [copy_buf (heap w) r (sub_ix jx (si_idx si))]) (length (heap w))
     (whole (length (sub_ix jx (si_idx si)))) = rd (heap w) r (sub_ix jx (si_idx si)).
Proof.
  intros f i s p w r ix shp jx shp1 si H1 H2 H3 H4.
  exact (conj (get_fld_copy f i s p w r ix shp jx shp1 si H1 H2 H3 H4) (copy_reads (heap w) r (sub_ix jx (si_idx si)))).
Qed.
Print Assumptions C18_slice_reads_copy.

Theorem C18_slice_reads_scalar : forall (f : rootsig -> val) i s p w r ix shp jx shp1 si,
  f (root w i) = VWin r ix shp -> resolve ix shp p = Some (jx, shp1) ->
  lookup_slc s shp1 = Some si -> si_kind si = KScalar ->
  get_fld f i (s :: p) w =
    (w, Ok (VScal (hd c0 (rd (heap w) r (sub_ix jx (si_idx si)))) (bcplx (getbuf (heap w) r)) true)).
Proof. exact get_fld_scalar. Qed.
Print Assumptions C18_slice_reads_scalar.

(* None base: the slice reads None whatever the path *)
Theorem C18_slice_reads_none : forall (f : rootsig -> val) i p w,
  f (root w i) = VNone -> get_fld f i p w = (w, Ok VNone).
Proof. exact get_fld_none. Qed.
Print Assumptions C18_slice_reads_none.

(* ------------------------------------------------------------------ 2. a slice WRITES those entries and nothing else *)
Theorem C18_slice_writes_state : forall i s p x w r ix shp jx shp1 si,
  r_st (root w i) = VWin r ix shp -> resolve ix shp p = Some (jx, shp1) ->
  lookup_slc s shp1 = Some si -> (si_kind si = KView \/ si_kind si = KCopy) ->
  win_ok (heap w) r (sub_ix jx (si_idx si)) ->
  fits (heap w) x (si_shape si) (length (si_idx si)) (bcplx (getbuf (heap w) r)) ->
  exists w', set_st i (s :: p) x w = (w', Ok tt) /\ roots w' = roots w /\ vars w' = vars w /\
    wrote (heap w) (heap w') r (sub_ix jx (si_idx si)) (vdata (heap w) x (length (si_idx si))).
Proof. exact set_st_slice_wrote. Qed.
Print Assumptions C18_slice_writes_state.

(* frame for EVERY path (also through copying inner slices, where the write is lost) and every outcome (also errors):
   no signal record, no variable and no buffer other than the one behind the root's state changes *)
Theorem C18_slice_write_footprint : forall i s p x w w' res,
  (forall r, state_is w i r -> r < length (heap w)) ->
  set_st i (s :: p) x w = (w', res) ->
  roots w' = roots w /\ vars w' = vars w /\ heap_frame (state_is w i) (heap w) (heap w').
Proof. exact set_st_slice_footprint. Qed.
Print Assumptions C18_slice_write_footprint.

(* ------------------------------------------------------------------ 3. add_sensitivity through a slice *)
(* base sensitivity exists: exactly the selected entries are increased by ds (read-add-write-back; final index basic
   or integer array) *)
Theorem C18_add_through_slice_accumulates : forall i s p ds w rs ixs shp jx shp1 si,
  r_se (root w i) = VWin rs ixs shp -> resolve ixs shp p = Some (jx, shp1) ->
  lookup_slc s shp1 = Some si -> (si_kind si = KView \/ si_kind si = KCopy) -> si_shape si <> [] ->
  win_ok (heap w) rs (sub_ix jx (si_idx si)) ->
  fits (heap w) ds (si_shape si) (length (si_idx si)) (bcplx (getbuf (heap w) rs)) ->
  (forall r', vref ds = Some r' -> r' < length (heap w)) ->
  exists w', add_se i (s :: p) ds w = (w', Ok tt) /\ roots w' = roots w /\ vars w' = vars w /\
    wrote (heap w) (heap w') rs (sub_ix jx (si_idx si))
          (map2 cadd (rd (heap w) rs (sub_ix jx (si_idx si))) (vdata (heap w) ds (length (si_idx si)))).
Proof. exact add_se_slice_exists. Qed.
Print Assumptions C18_add_through_slice_accumulates.

(* no base sensitivity: a FRESH array of the base state's shape and dtype is created, zero everywhere except the
   selected (logical) positions, which hold ds; nothing else changes *)
Theorem C18_add_through_slice_creates_zero : forall i s p ds w r0 ix0 shp jx0 kx shp1 si,
  i < length (roots w) -> r_se (root w i) = VNone -> r_st (root w i) = VWin r0 ix0 shp -> shp <> [] ->
  r0 < length (heap w) ->
  resolve ix0 shp p = Some (jx0, shp1) -> resolve (whole (length ix0)) shp p = Some (kx, shp1) ->
  lookup_slc s shp1 = Some si -> (si_kind si = KView \/ si_kind si = KCopy) -> si_shape si <> [] ->
  NoDup (sub_ix kx (si_idx si)) -> Forall (fun k => k < length ix0) (sub_ix kx (si_idx si)) ->
  fits (heap w) ds (si_shape si) (length (si_idx si)) (bcplx (getbuf (heap w) r0)) ->
  (forall r', vref ds = Some r' -> r' < length (heap w)) ->
  exists w' rs, add_se i (s :: p) ds w = (w', Ok tt) /\
    vars w' = vars w /\ (forall j, j <> i -> root w' j = root w j) /\ r_st (root w' i) = r_st (root w i) /\
    r_se (root w' i) = VWin rs (whole (length ix0)) shp /\ length (heap w) <= rs /\
    bcplx (getbuf (heap w') rs) = bcplx (getbuf (heap w) r0) /\
    length (bdata (getbuf (heap w') rs)) = length ix0 /\
    rd (heap w') rs (sub_ix kx (si_idx si)) = vdata (heap w) ds (length (si_idx si)) /\
    (forall k, ~ In k (sub_ix kx (si_idx si)) -> nth k (bdata (getbuf (heap w') rs)) c0 = c0) /\
    same_old (heap w) (heap w').
Proof. exact add_se_slice_none. Qed.
Print Assumptions C18_add_through_slice_creates_zero.

(* ------------------------------------------------------------------ 4. add_sensitivity on a Signal *)
(* first contribution: deep copy into a fresh buffer *)
Theorem C18_add_first_is_deepcopy : forall i w r' ix' shp', r_se (root w i) = VNone ->
  add_se i [] (VWin r' ix' shp') w =
    (set_roots (set_heap w (heap w ++ [copy_buf (heap w) r' ix']))
       (upd (roots w) i {| r_st := r_st (root w i);
                           r_se := VWin (length (heap w)) (whole (length ix')) shp';
                           r_keep := r_keep (root w i) |}), Ok tt).
Proof. exact add_se_root_first_array. Qed.
Print Assumptions C18_add_first_is_deepcopy.

(* later contributions, when the in-place addition is admissible (premise `fits`: a complex contribution only onto a
   complex array): in place, same object *)
Theorem C18_add_accumulates_in_place : forall i w rs ixs shp ds,
  i < length (roots w) -> r_se (root w i) = VWin rs ixs shp ->
  fits (heap w) ds shp (length ixs) (bcplx (getbuf (heap w) rs)) ->
  add_se i [] ds w =
    (set_heap w (hwrite (heap w) rs ixs (map2 cadd (rd (heap w) rs ixs) (vdata (heap w) ds (length ixs)))), Ok tt).
Proof. exact add_se_root_accumulate. Qed.
Print Assumptions C18_add_accumulates_in_place.

(* later contributions the held array cannot take in place (complex onto non-complex; repaired defect F37): the sum
   is built OUT OF PLACE and the sensitivity field is re-bound to it.  The result lives in a fresh buffer (index
   length (heap w): referenced by nothing that existed, neither ds nor the old sensitivity nor any variable or state),
   is complex, has the shape of the old array and holds old + ds; the heap is only extended, so the old buffer, the
   buffer of ds and every other array keep their contents; state, keep_alloc and all other signals are unchanged.
   The no-alias invariant and the isolation theorems of section 5 are proved for the model containing this branch,
   i.e. they hold for ALL operation sequences including promoting additions. *)
Theorem C18_add_promotes_out_of_place : forall i w rs ixs shp ds,
  i < length (roots w) -> r_se (root w i) = VWin rs ixs shp ->
  promotes (heap w) ds shp (length ixs) (bcplx (getbuf (heap w) rs)) ->
  add_se i [] ds w =
    (set_roots (set_heap w (heap w ++ [{| bdata := map2 cadd (rd (heap w) rs ixs) (vdata (heap w) ds (length ixs));
                                          bcplx := true |}]))
       (upd (roots w) i {| r_st := r_st (root w i);
                           r_se := VWin (length (heap w)) (whole (length ixs)) shp;
                           r_keep := r_keep (root w i) |}), Ok tt).
Proof. exact add_se_root_promote. Qed.
Print Assumptions C18_add_promotes_out_of_place.

Theorem C18_add_promoted_value : forall i w rs ixs shp ds w',
  i < length (roots w) -> r_se (root w i) = VWin rs ixs shp -> rs < length (heap w) ->
  promotes (heap w) ds shp (length ixs) (bcplx (getbuf (heap w) rs)) ->
  add_se i [] ds w = (w', Ok tt) ->
  exists rn, r_se (root w' i) = VWin rn (whole (length ixs)) shp /\ rn = length (heap w) /\
    bcplx (getbuf (heap w') rn) = true /\
    rd (heap w') rn (whole (length ixs)) = map2 cadd (rd (heap w) rs ixs) (vdata (heap w) ds (length ixs)) /\
    same_old (heap w) (heap w') /\ vars w' = vars w /\
    r_st (root w' i) = r_st (root w i) /\ r_keep (root w' i) = r_keep (root w i) /\
    (forall j, j <> i -> root w' j = root w j).
Proof. exact add_se_root_promote_reads. Qed.
Print Assumptions C18_add_promoted_value.

Theorem C18_add_none_is_noop : forall i p w, add_se i p VNone w = (w, Ok tt).
Proof. exact add_se_none. Qed.
Print Assumptions C18_add_none_is_noop.

(* footprint of add_sensitivity / reset for EVERY path, argument and outcome: only root i's sensitivity field and
   the buffer it referred to (or fresh buffers) change; afterwards the field refers to the same or a fresh buffer *)
Theorem C18_add_footprint : forall i p ds w w' r,
  (forall r, sens_is w i r -> r < length (heap w)) -> add_se i p ds w = (w', r) -> sens_footprint i w w'.
Proof. exact add_se_footprint. Qed.
Print Assumptions C18_add_footprint.

Theorem C18_reset_footprint : forall i p k w w' r,
  (forall r, sens_is w i r -> r < length (heap w)) -> reset i p k w = (w', r) -> sens_footprint i w w'.
Proof. exact reset_footprint. Qed.
Print Assumptions C18_reset_footprint.

(* ------------------------------------------------------------------ 5. the no-alias invariant, all operation sequences
   Inv w: every reference is valid and the buffer held as sensitivity of a Signal is referenced by no variable of
   the test, no state of any signal and no other signal's sensitivity.
   protocol w o: o is any operation except `sig.sensitivity = <array object>` on a Signal, `x = sig.sensitivity`,
   and constructing a Signal around an existing sensitivity array (these hand the object out / in).
   targets o i: o is add_sensitivity / reset / sensitivity assignment on Signal i or one of its slices. *)
Theorem C18_no_alias_initial : forall n, Inv (world0 n).
Proof. exact Inv_world0. Qed.
Print Assumptions C18_no_alias_initial.

Theorem C18_no_alias_step : forall w o, Inv w -> protocol w o ->
  Inv (exec o w) /\
  (forall i, ~ targets o i -> i < length (roots w) -> sens_abs (exec o w) i = sens_abs w i) /\
  length (roots w) <= length (roots (exec o w)).
Proof. exact isolation_step. Qed.
Print Assumptions C18_no_alias_step.

Theorem C18_no_alias_run : forall os w, Inv w -> protocol_run w os -> Inv (run os w).
Proof. exact no_alias_run. Qed.
Print Assumptions C18_no_alias_run.

(* what a signal holds is changed by NO sequence of operations that does not address that signal: external mutation
   of any array (in particular of the ds that was added), state assignments anywhere, additions / resets on other
   signals (also of the same ds object), slicing, ... *)
Theorem C18_isolation_run : forall os w i, Inv w -> protocol_run w os -> i < length (roots w) ->
  Forall (fun o => ~ targets o i) os -> sens_abs (run os w) i = sens_abs w i.
Proof. exact isolation_run. Qed.
Print Assumptions C18_isolation_run.

Theorem C18_changing_ds_afterwards : forall w i p v d, Inv w -> i < length (roots w) ->
  sens_abs (exec (OMut v d) (exec (OAddSens i p v) w)) i = sens_abs (exec (OAddSens i p v) w) i.
Proof. exact mutate_after_add. Qed.
Print Assumptions C18_changing_ds_afterwards.

Theorem C18_same_object_to_two_signals : forall w i j p q v, Inv w -> i < length (roots w) -> i <> j ->
  let w1 := exec (OAddSens i p v) w in let w2 := exec (OAddSens j q v) w1 in
  Inv w2 /\ sens_abs w2 i = sens_abs w1 i /\
  forall os, protocol_run w2 os -> Forall (fun o => ~ targets o i) os -> sens_abs (run os w2) i = sens_abs w1 i.
Proof. exact same_object_two_signals. Qed.
Print Assumptions C18_same_object_to_two_signals.

(* ------------------------------------------------------------------ 6. reset *)
Theorem C18_reset_none : forall i k w, r_se (root w i) = VNone -> reset i [] k w = (w, Ok tt).
Proof. exact reset_root_none. Qed.
Print Assumptions C18_reset_none.

Theorem C18_reset_clears : forall i k w, r_se (root w i) <> VNone -> keep_flag w i k = false ->
  reset i [] k w =
    (set_roots w (upd (roots w) i {| r_st := r_st (root w i); r_se := VNone; r_keep := r_keep (root w i) |}), Ok tt).
Proof. exact reset_root_clear. Qed.
Print Assumptions C18_reset_clears.

(* allocation kept: the sensitivity field is untouched (same object), its entries are overwritten with zeros *)
Theorem C18_reset_keeps_allocation : forall i k w rs ixs shp,
  r_se (root w i) = VWin rs ixs shp -> keep_flag w i k = true ->
  reset i [] k w = (set_heap w (hwrite (heap w) rs ixs (repeat c0 (length ixs))), Ok tt).
Proof. exact reset_root_keep_array. Qed.
Print Assumptions C18_reset_keeps_allocation.

Theorem C18_reset_keeps_scalar : forall i k w c cx np, r_se (root w i) = VScal c cx np -> keep_flag w i k = true ->
  reset i [] k w =
    (set_roots w (upd (roots w) i {| r_st := r_st (root w i); r_se := VScal c0 cx np; r_keep := r_keep (root w i) |}), Ok tt).
Proof. exact reset_root_keep_scalar. Qed.
Print Assumptions C18_reset_keeps_scalar.

(* resetting a slice zeroes exactly its own entries (whatever keep_alloc) ... *)
Theorem C18_reset_slice_zeroes_own_entries : forall i s p k w rs ixs shp jx shp1 si,
  r_se (root w i) = VWin rs ixs shp -> resolve ixs shp p = Some (jx, shp1) ->
  lookup_slc s shp1 = Some si -> (si_kind si = KView \/ si_kind si = KCopy) -> si_shape si <> [] ->
  win_ok (heap w) rs (sub_ix jx (si_idx si)) ->
  exists w', reset i (s :: p) k w = (w', Ok tt) /\ roots w' = roots w /\ vars w' = vars w /\
    wrote (heap w) (heap w') rs (sub_ix jx (si_idx si)) (repeat c0 (length (si_idx si))).
Proof. exact reset_slice_exists. Qed.
Print Assumptions C18_reset_slice_zeroes_own_entries.

(* ... and does nothing when the base has no sensitivity *)
Theorem C18_reset_slice_without_sensitivity : forall i s p k w,
  r_se (root w i) = VNone -> reset i (s :: p) k w = (w, Ok tt).
Proof. exact reset_slice_none. Qed.
Print Assumptions C18_reset_slice_without_sensitivity.

(* ------------------------------------------------------------------ non-vacuity: a 3x4 base, the row slice [1:3], the
   column slice [:, 1:3] nested inside it, and the overlapping integer-array slice [[2, 0]] *)
Local Open Scope Z_scope.
Definition SI (ix : list nat) (k : kind) (shp : list Z) : sinfo := {| si_idx := ix; si_kind := k; si_shape := shp |}.
Definition s_rows : slc := [([3; 4], SI [4; 5; 6; 7; 8; 9; 10; 11]%nat KView [2; 4])].
Definition s_cols : slc := [([2; 4], SI [1; 2; 5; 6]%nat KView [2; 2]); ([3; 4], SI [1; 2; 5; 6; 9; 10]%nat KView [3; 2])].
Definition s_fancy : slc := [([3; 4], SI [8; 9; 10; 11; 0; 1; 2; 3]%nat KCopy [2; 4])].
Definition zc (z : Z) : C := (z, 0).
Definition ex_setup : list op :=
  [ONewArr 0 (map zc [10; 11; 12; 13; 14; 15; 16; 17; 18; 19; 20; 21]) false [3; 4];
   ONewSig 0 1;
   ONewArr 2 (map zc [1; 2; 3; 4]) false [2; 2];
   ONewArr 3 (map zc [1; 1; 1; 1; 5; 5; 5; 5]) false [2; 4]].
Definition w_ex : world := run ex_setup (world0 4).
Definition ex_ops : list op :=
  [OAddSens 0 [s_cols; s_rows] 2;       (* base[1:3][:, 1:3].add_sensitivity(v2): creates the zero base sensitivity *)
   OMut 2 (map zc [9; 9; 9; 9]);        (* the test changes v2 afterwards *)
   OAddSens 0 [s_fancy] 3;              (* base[[2, 0]].add_sensitivity(v3): overlaps the first slice *)
   ONewSig 1 1; OAddSens 1 [] 3;        (* the same object v3 goes to a second signal *)
   OReset 0 [s_rows] None].             (* reset of the row slice *)

Example C18_ex_values :
  sens_abs (run ex_ops w_ex) 0 = AArr (map zc [5; 5; 5; 5; 0; 0; 0; 0; 0; 0; 0; 0]) [3; 4] false /\
  sens_abs (run ex_ops w_ex) 1 = AArr (map zc [1; 1; 1; 1; 5; 5; 5; 5]) [2; 4] false /\
  sens_abs (run (firstn 3 ex_ops) w_ex) 0 = AArr (map zc [5; 5; 5; 5; 0; 1; 2; 0; 1; 4; 5; 1]) [3; 4] false.
Proof. vm_compute. repeat split. Qed.

Example C18_ex_protocol : Inv w_ex /\ protocol_run w_ex ex_ops.
Proof.
  split.
  - apply (no_alias_run ex_setup (world0 4) (Inv_world0 4)). vm_compute. repeat split.
  - vm_compute. repeat split.
Qed.

(* the hypotheses of the nested-slice theorems are met by this instance *)
Example C18_ex_creates_zero :
  exists w' rs, add_se 0 [s_cols; s_rows] (nth 2 (vars w_ex) VNone) w_ex = (w', Ok tt) /\
    r_se (root w' 0) = VWin rs (whole 12) [3; 4] /\
    rd (heap w') rs [5; 6; 9; 10]%nat = map zc [1; 2; 3; 4].
Proof.
  set (si := SI [1; 2; 5; 6]%nat KView [2; 2]).
  set (rows := [4; 5; 6; 7; 8; 9; 10; 11]%nat).
  assert (H1 : (0 < length (roots w_ex))%nat) by (vm_compute; auto with arith).
  assert (H2 : r_se (root w_ex 0) = VNone) by reflexivity.
  assert (H3 : r_st (root w_ex 0) = VWin 0 (whole 12) [3; 4]) by reflexivity.
  assert (H4 : [3; 4] <> []) by discriminate.
  assert (H5 : (0 < length (heap w_ex))%nat) by (vm_compute; auto with arith).
  assert (H6 : resolve (whole 12) [3; 4] [s_rows] = Some (rows, [2; 4])) by reflexivity.
  assert (H7 : resolve (whole (length (whole 12))) [3; 4] [s_rows] = Some (rows, [2; 4])) by reflexivity.
  assert (H8 : lookup_slc s_cols [2; 4] = Some si) by reflexivity.
  assert (H9 : si_kind si = KView \/ si_kind si = KCopy) by (left; reflexivity).
  assert (H10 : si_shape si <> []) by discriminate.
  assert (H11 : NoDup (sub_ix rows (si_idx si))) by (apply nodupb_sound; reflexivity).
  assert (H12 : Forall (fun k => (k < length (whole 12))%nat) (sub_ix rows (si_idx si))).
  { apply Forall_forall. intros k Hk. vm_compute in Hk. vm_compute. intuition (subst; auto 20 with arith). }
  assert (H13 : fits (heap w_ex) (nth 2 (vars w_ex) VNone) (si_shape si) (length (si_idx si)) (bcplx (getbuf (heap w_ex) 0))).
  { split; [discriminate|]. vm_compute. repeat split; discriminate. }
  assert (H14 : forall r', vref (nth 2 (vars w_ex) VNone) = Some r' -> (r' < length (heap w_ex))%nat).
  { intros r' Hr'. vm_compute in Hr'. inversion Hr'; subst. vm_compute; auto with arith. }
  destruct (add_se_slice_none 0%nat s_cols [s_rows] _ w_ex 0%nat (whole 12) [3; 4] rows rows [2; 4] si
              H1 H2 H3 H4 H5 H6 H7 H8 H9 H10 H11 H12 H13 H14)
    as (w' & rs & E & _ & _ & _ & Hse & _ & _ & _ & Hrd & _).
  exists w', rs. split; [exact E|]. split; [exact Hse|exact Hrd].
Qed.

Example C18_ex_accumulates_and_reset :
  let w1 := run (firstn 2 ex_ops) w_ex in
  (exists w', add_se 0 [s_fancy] (nth 3 (vars w1) VNone) w1 = (w', Ok tt) /\
     rd (heap w') 4 [8; 9; 10; 11; 0; 1; 2; 3]%nat = map zc [1; 4; 5; 1; 5; 5; 5; 5]) /\
  (exists w', reset 0 [s_rows] None w1 = (w', Ok tt) /\
     rd (heap w') 4 [4; 5; 6; 7; 8; 9; 10; 11]%nat = repeat c0 8 /\
     forall k, ~ In k [4; 5; 6; 7; 8; 9; 10; 11]%nat ->
       nth k (bdata (getbuf (heap w') 4)) c0 = nth k (bdata (getbuf (heap w1) 4)) c0).
Proof.
  intros w1.
  assert (Hse : r_se (root w1 0) = VWin 4 (whole 12) [3; 4]) by reflexivity.
  assert (Hr : resolve (whole 12) [3; 4] [] = Some (whole 12, [3; 4])) by reflexivity.
  split.
  - set (si := SI [8; 9; 10; 11; 0; 1; 2; 3]%nat KCopy [2; 4]).
    assert (H3 : lookup_slc s_fancy [3; 4] = Some si) by reflexivity.
    assert (H4 : si_kind si = KView \/ si_kind si = KCopy) by (right; reflexivity).
    assert (H5 : si_shape si <> []) by discriminate.
    assert (H6 : win_ok (heap w1) 4 (sub_ix (whole 12) (si_idx si))) by (apply win_okb_sound; vm_compute; reflexivity).
    assert (H7 : fits (heap w1) (nth 3 (vars w1) VNone) (si_shape si) (length (si_idx si)) (bcplx (getbuf (heap w1) 4))).
    { split; [discriminate|]. vm_compute. repeat split; discriminate. }
    assert (H8 : forall r', vref (nth 3 (vars w1) VNone) = Some r' -> (r' < length (heap w1))%nat).
    { intros r' Hr'. vm_compute in Hr'. inversion Hr'; subst. vm_compute; auto with arith. }
    destruct (add_se_slice_exists 0%nat s_fancy [] _ w1 4%nat (whole 12) [3; 4] (whole 12) [3; 4] si Hse Hr H3 H4 H5 H6 H7 H8)
      as (w' & E & _ & _ & W).
    exists w'. split; [exact E|]. destruct W as (_ & W2 & _). exact W2.
  - set (si := SI [4; 5; 6; 7; 8; 9; 10; 11]%nat KView [2; 4]).
    assert (H3 : lookup_slc s_rows [3; 4] = Some si) by reflexivity.
    assert (H4 : si_kind si = KView \/ si_kind si = KCopy) by (left; reflexivity).
    assert (H5 : si_shape si <> []) by discriminate.
    assert (H6 : win_ok (heap w1) 4 (sub_ix (whole 12) (si_idx si))) by (apply win_okb_sound; vm_compute; reflexivity).
    destruct (reset_slice_exists 0%nat s_rows [] None w1 4%nat (whole 12) [3; 4] (whole 12) [3; 4] si Hse Hr H3 H4 H5 H6)
      as (w' & E & _ & _ & W).
    exists w'. split; [exact E|]. destruct W as (_ & W2 & W3 & _). split; [exact W2|exact W3].
Qed.

(* F37: a real (integer) sensitivity receives a complex array, then a complex python scalar; a second signal that got
   the same real object first is not affected, and neither are the contributed objects *)
Definition ex_promote : list op :=
  [ONewArr 0 (map zc [1; 2; 3]) false [3];                    (* v0: state / real contribution *)
   ONewNone 1;
   ONewSig 0 1; ONewSig 0 1;
   ONewArr 2 [(0, 1); (4, -1); (0, 2)] true [3];              (* v2: complex contribution *)
   ONewScal 3 (0, 5) true false;                              (* v3 = 5j *)
   OAddSens 0 [] 0; OAddSens 1 [] 0;                          (* both signals: first contribution v0 (deep copies) *)
   OAddSens 0 [] 2;                                           (* promoted out of place *)
   OAddSens 0 [] 3;                                           (* now complex: in place *)
   OMut 2 [(9, 9); (9, 9); (9, 9)]].
Example C18_ex_promotes :
  let w := run ex_promote (world0 4) in
  sens_abs w 0 = AArr [(1, 6); (6, 4); (3, 7)] [3] true /\
  sens_abs w 1 = AArr (map zc [1; 2; 3]) [3] false /\
  Inv w /\
  (let w9 := run (firstn 8 ex_promote) (world0 4) in
   promotes (heap w9) (nth 2 (vars w9) VNone) [3] 3 (bcplx (getbuf (heap w9) 2)) /\
   r_se (root w9 0) = VWin 2 (whole 3) [3]).
Proof.
  intros w. split; [vm_compute; reflexivity|]. split; [vm_compute; reflexivity|]. split.
  - apply (no_alias_run ex_promote (world0 4) (Inv_world0 4)). vm_compute. repeat split.
  - vm_compute. repeat split; try reflexivity; discriminate.
Qed.
