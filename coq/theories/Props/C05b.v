(* C05, second file -- the matrix classification auto_determine_solver relies on
   (pymoto/solvers/matrix_checks.py), for every container the checks accept.
   Statements only; every proof is `exact <lemma>`; Print Assumptions under each.

   atoms            : every library expression the predicates evaluate (one field per branch of the source)
   matrix_is_*      : the predicates as written, functions of the atoms (regenerated from the source on every run
                      and proved equal in bridge/C05/ChecksBridge.v)
   storage          : dense numpy array | scipy.sparse.dia_matrix with its offsets array in stored order |
                      any other scipy sparse container (csc, csr, coo, bsr, lil, dok, the *_array classes)
   atoms_of s c A   : the atoms of the exact matrix A (entries in Q[i]) of dtype class c held in container s
   dia_dense        : the matrix a DIA container (offsets, data) denotes
   auto_on          : auto_determine_solver on a stored matrix = Model/AutoSolver.v fed with these predicates. *)
From Coq Require Import ZArith QArith List Bool.
From Pymoto Require Import Base.CQMat Model.AutoSolver Model.MatrixChecks Proofs.AutoSolverP Proofs.MatrixChecksP.
From Pymoto Require Import Model.Grid Model.MGInterp Proofs.MGInterpP Model.CGExit.
Import ListNotations.

(* the DIA fast path `len(A.offsets) == 1 and A.offsets[0] == 0` accepts exactly the offsets array [0] ... *)
Theorem C05_dia_offsets_test :
  forall offs : list Z, offs_len_is offs 1 && offs_nth_is offs 0 0 = offs_main_only offs.
Proof. exact offs_tests_main_only. Qed.
Print Assumptions C05_dia_offsets_test.

(* ... and then the matrix has no entry off the main diagonal: for every shape and every data block *)
Theorem C05_dia_fast_path_sound :
  forall (n m : nat) (offs : list Z) (data : list (list C)),
  offs_main_only offs = true -> offdiag_zero (dia_dense n m offs data) = true.
Proof. exact dia_fast_path_sound. Qed.
Print Assumptions C05_dia_fast_path_sound.

(* any other offsets array (other order, further diagonals, one off-diagonal only) is NOT called diagonal, even
   when the further diagonals hold explicit zeros: the test is one-sided *)
Theorem C05_dia_fast_path_one_sided :
  exists offs data,
    offdiag_zero (dia_dense 2 2 offs data) = true /\
    matrix_is_diagonal (atoms_of (SDiaMatrix offs) false (dia_dense 2 2 offs data)) = false.
Proof. exact dia_fast_path_incomplete. Qed.
Print Assumptions C05_dia_fast_path_one_sided.

(* matrix_is_diagonal never invents a diagonal matrix, in any container *)
Theorem C05_diagonal_detection_sound :
  forall (s : storage) (cplx : bool) (A : cmat),
  (forall offs, s = SDiaMatrix offs -> exists data, A = dia_dense (length A) (ncols A) offs data) ->
  matrix_is_diagonal (atoms_of s cplx A) = true -> offdiag_zero A = true.
Proof. exact diagonal_sound. Qed.
Print Assumptions C05_diagonal_detection_sound.

(* and is exact in every container except the dia_matrix fast path *)
Theorem C05_diagonal_detection_exact_outside_dia :
  forall (s : storage) (cplx : bool) (A : cmat),
  st_isdia s = false -> matrix_is_diagonal (atoms_of s cplx A) = offdiag_zero A.
Proof. exact diagonal_nondia. Qed.
Print Assumptions C05_diagonal_detection_exact_outside_dia.

(* symmetric / Hermitian / complex / sparse do not depend on the container *)
Theorem C05_symmetric_any_storage :
  forall s cplx A, matrix_is_symmetric (atoms_of s cplx A) = m_symmetric A.
Proof. exact symmetric_any_storage. Qed.
Print Assumptions C05_symmetric_any_storage.

Theorem C05_hermitian_any_storage :
  forall s cplx A, matrix_is_hermitian (atoms_of s cplx A) = if cplx then m_hermitian A else m_symmetric A.
Proof. exact hermitian_any_storage. Qed.
Print Assumptions C05_hermitian_any_storage.

Theorem C05_complex_any_storage :
  forall s cplx A, matrix_is_complex (atoms_of s cplx A) = cplx.
Proof. exact complex_any_storage. Qed.
Print Assumptions C05_complex_any_storage.

(* the solver choice needs only a one-sided diagonal test fd (fd -> the matrix is diagonal) *)
Theorem C05_auto_class_sound_one_sided_diagonal :
  forall (m : mclass) (fd dpos dneg hp hs hc : bool) (o_diag o_herm o_sym o_pd : option bool),
  m_square m = true -> mclass_consistent m = true ->
  implb fd (m_diag m) = true ->
  truthful o_diag (m_diag m) = true -> truthful o_herm (m_herm m) = true -> truthful o_sym (m_sym m) = true ->
  pd_truthful o_pd m = true ->
  (hs || hc) && negb (pd_heuristic_right m dpos dneg) = false ->
  admissible (auto_solver (m_sparse m) (m_square m) fd (m_complex m) (m_herm m) (m_sym m) dpos dneg
                          hp hs hc o_diag o_herm o_sym o_pd) m = true.
Proof. exact auto_class_sound_detected. Qed.
Print Assumptions C05_auto_class_sound_one_sided_diagonal.

(* auto_determine_solver on a stored square matrix, ANY container and offsets order: the returned solver documents
   a class that contains the matrix (mclass_of = the true properties of A; definiteness `def` arbitrary, it only
   matters for the optional sparse Cholesky packages through the last premise, as in C05_auto_class_sound) *)
Theorem C05_auto_on_class_sound :
  forall (s : storage) (cplx : bool) (A : cmat) (def hp hs hc : bool) (o_diag o_herm o_sym o_pd : option bool),
  let m := mclass_of s cplx A def in
  m_square_shape A = true -> mclass_consistent m = true ->
  (forall offs, s = SDiaMatrix offs -> exists data, A = dia_dense (length A) (ncols A) offs data) ->
  truthful o_diag (m_diag m) = true -> truthful o_herm (m_herm m) = true -> truthful o_sym (m_sym m) = true ->
  pd_truthful o_pd m = true ->
  (hs || hc) && negb (pd_heuristic_right m (diag_pos A) (diag_neg A)) = false ->
  admissible (auto_on s cplx A hp hs hc o_diag o_herm o_sym o_pd) m = true.
Proof. exact auto_on_class_sound. Qed.
Print Assumptions C05_auto_on_class_sound.

(* non-vacuity: the upper bidiagonal matrix [[4,1],[0,5]] as dia_matrix with offsets [0,1] and [1,0], as csr, dense;
   a diagonal matrix as dia_matrix with offsets [0] *)
Example C05_auto_on_nonvacuous :
  let A := rmat [[4; 1]; [0; 5]]%Q in
  let D := rmat [[4; 0]; [0; 5]]%Q in
  dia_dense 2 2 [0%Z; 1%Z] [[cre 4; cre 5]; [c0; cre 1]] = A /\
  auto_on (SDiaMatrix [0%Z; 1%Z]) false A false false false None None None None = KSparseLU /\
  auto_on (SDiaMatrix [1%Z; 0%Z]) false A false false false None None None None = KSparseLU /\
  auto_on SSparse false A false false false None None None None = KSparseLU /\
  auto_on SDense false A false false false None None None None = KDenseLU /\
  auto_on (SDiaMatrix [0%Z]) false D false false false None None None None = KDiagonal /\
  auto_on (SDiaMatrix [0%Z; 1%Z]) false D false false false None None None None = KSparseLU.
Proof. vm_compute. repeat split. Qed.

(* ------------------------------------------------------------------ geometric multigrid: the prolongation R
   interp_triples fine ndof : the (row, col, 8 * value) triples GeometricMultigrid.setup_interpolation assembles for the
   domain `fine` (sizes divisible by 2, nelx, nely, nelz independent: even_grid) with ndof dofs per node; the coarse
   domain is sub_grid fine.  (Exact correspondence with the implementation's R on rectangular 2-D / 3-D domains on
   every run.) *)

(* every triple lies inside the (ndof * fine nodes) x (ndof * coarse nodes) matrix, with a weight in 1/8 .. 1 *)
Theorem C05_mg_interp_in_range :
  forall (fine : grid) (ndof : Z), even_grid fine -> (1 <= ndof)%Z ->
  forall r col v : Z, In (r, col, v) (interp_triples fine ndof) ->
  (0 <= r < nfine fine ndof)%Z /\ (0 <= col < ncoarse fine ndof)%Z /\ (1 <= v <= 8)%Z.
Proof. exact interp_in_range. Qed.
Print Assumptions C05_mg_interp_in_range.

(* the row of the fine node (2a, 2b, 2c) holds the coarse node (a, b, c) with weight 1 and nothing else *)
Theorem C05_mg_interp_pinned_rows :
  forall (fine : grid) (ndof : Z), even_grid fine -> (1 <= ndof)%Z ->
  forall a b c d : Z,
  (0 <= a <= nelx (sub_grid fine))%Z -> (0 <= b <= nely (sub_grid fine))%Z -> (0 <= c <= nelz (sub_grid fine))%Z ->
  (0 <= d < ndof)%Z ->
  let r := (nodenumber fine (2 * a) (2 * b) (2 * c) * ndof + d)%Z in
  let q := (nodenumber (sub_grid fine) a b c * ndof + d)%Z in
  In (r, q, 8%Z) (interp_triples fine ndof) /\
  forall col v, In (r, col, v) (interp_triples fine ndof) -> col = q /\ v = 8%Z.
Proof. exact interp_pinned_rows. Qed.
Print Assumptions C05_mg_interp_pinned_rows.

(* hence R has full column rank: R x = 0 only for x = 0 (no empty or dependent column; the Galerkin coarse matrix
   R^T A R of a positive definite A is positive definite, so the coarse solve is well-defined) *)
Theorem C05_mg_interp_injective :
  forall (fine : grid) (ndof : Z), even_grid fine -> (1 <= ndof)%Z ->
  forall x : Z -> Z,
  (forall r, (0 <= r < nfine fine ndof)%Z -> apply_row (interp_triples fine ndof) x r = 0%Z) ->
  forall q, (0 <= q < ncoarse fine ndof)%Z -> x q = 0%Z.
Proof. exact interp_injective. Qed.
Print Assumptions C05_mg_interp_injective.

(* non-vacuity: a 4 x 2 domain (nelx <> nely), one dof per node: 15 fine nodes, 6 coarse nodes, 28 entries *)
Example C05_mg_interp_nonvacuous :
  let g := {| nelx := 4; nely := 2; nelz := 0 |} in
  even_grid g /\ nfine g 1 = 15%Z /\ ncoarse g 1 = 6%Z /\ length (interp_triples g 1) = 28%nat /\
  In (14, 5, 8)%Z (interp_triples g 1) /\ In (7, 1, 4)%Z (interp_triples g 1).
Proof.
  split; [exists 2%Z, 1%Z, 0%Z; cbn; repeat split; try reflexivity; discriminate|]. vm_compute. intuition.
Qed.

(* ------------------------------------------------------------------ the convergence test of CG.solve (Model/CGExit.v):
   non-vacuity of C05_cg_exit_sound_per_column / C05_cg_zero_rhs (Props/C05.v): a block with a zero column *)
Example C05_cg_exit_test_nonvacuous :
  exit_test (1#10) [0; 1#20]%Q [0; 1]%Q = true /\ exit_test (1#10) [1#5; 0]%Q [0; 1]%Q = false /\
  exit_test (1#10) [1#20; 1#5]%Q [0; 4]%Q = true /\
  columns_bound (1#10) [1#20; 1#5]%Q [0; 4]%Q /\ exit_test (1#10) (zeros 3) (zeros 3) = true.
Proof. vm_compute. repeat split; discriminate. Qed.

(* ------------------------------------------------------------------ the ABSOLUTE tolerance of np.allclose (K06)
   atoms_of_tol tol : the atoms with  np.allclose(x, 0)  read as  |x| <= tol  entry by entry (atol8 = 1e-8; all atoms
   whose reference is zero: the off-diagonal-part atoms of every container and the sparse symmetric / Hermitian atoms).
   The property ("for ANY non-singular square matrix") is false of the decision procedure as written: *)
Theorem C05_auto_tolerance_refuted :
  offdiag_zero k06_witness = false /\ m_symmetric k06_witness = false /\
  matrix_is_diagonal (atoms_of_tol atol8 SDense false k06_witness) = true /\
  matrix_is_diagonal (atoms_of_tol atol8 SSparse false k06_witness) = true /\
  matrix_is_symmetric (atoms_of_tol atol8 SSparse false k06_witness) = true /\
  auto_on_tol atol8 SDense false k06_witness false false false None None None None = KDiagonal /\
  auto_on_tol atol8 SSparse false k06_witness false false false None None None None = KDiagonal /\
  admissible KDiagonal (mclass_of SDense false k06_witness false) = false /\
  admissible KDiagonal (mclass_of SSparse false k06_witness false) = false.
Proof. exact tolerance_misclassifies. Qed.
Print Assumptions C05_auto_tolerance_refuted.

(* sound direction: as soon as ONE off-diagonal entry exceeds the tolerance the matrix is not called diagonal *)
Theorem C05_diagonal_tolerance_sound :
  forall (tol : Q) (s : storage) (cplx : bool) (A : cmat) (i j : nat),
  st_isdia s = false -> (i < length A)%nat -> (j < ncols A)%nat -> i <> j ->
  c_within tol (mget A i j) = false ->
  matrix_is_diagonal (atoms_of_tol tol s cplx A) = false.
Proof. exact diagonal_tol_sound. Qed.
Print Assumptions C05_diagonal_tolerance_sound.

(* an exactly diagonal matrix is recognised at every tolerance; and on (Gaussian) integer entries any tolerance in
   [0, 1) IS the exact test -- the reading the exact correspondence uses on integer-valued matrices *)
Theorem C05_diagonal_tolerance_complete :
  forall (tol : Q) (A : cmat), (0 <= tol)%Q -> offdiag_zero A = true -> offdiag_within tol A = true.
Proof. exact offdiag_zero_within. Qed.
Print Assumptions C05_diagonal_tolerance_complete.

Theorem C05_integer_entries_exact_reading :
  forall (tol : Q) (A : cmat), (0 <= tol)%Q -> (tol < 1)%Q -> m_integer A = true ->
  offdiag_within tol A = offdiag_zero A.
Proof. exact integer_matrix_exact_reading. Qed.
Print Assumptions C05_integer_entries_exact_reading.
