(* C17 (companion) -- "the volume equals the target to bisection tolerance": an explicit bound on the volume gap.
   Statements only; every proof is `exact <lemma>`; Print Assumptions under each.

   Props/C17.v proves that the new design is the update at one end of the final bisection interval [a, b]
   (b - a <= l1l2tol, vol(b) <= maxvol < vol(a)), so that its volume differs from maxvol by at most vol(a) - vol(b),
   and leaves the SIZE of vol(a) - vol(b) to validation.  This file closes that gap for lower bounds xmin >= 0
   (densities): the update entry scales at most like 1/sqrt(lam), clipping to a box with non-negative ends keeps
   that, hence  vol(a) <= sqrt(b/a) * vol(b)  and the relative volume error is at most
   sqrt(b/a) - 1 <= sqrt(1 + l1l2tol/a) - 1   (about l1l2tol / (2a) for small tolerances). *)
From Coq Require Import ZArith List Bool Reals.
From Pymoto Require Import Model.Concat Model.OC Proofs.OCP Proofs.OCGapP.
Import ListNotations.
Open Scope R_scope.

(* one entry, for every move limit, box and gradient value *)
Theorem C17_entry_ratio : forall a b mv xmn xmx x g, 0 < a <= b -> 0 <= x -> g <= 0 ->
  0 <= omax ROOps xmn (x - mv) -> 0 <= omin ROOps xmx (x + mv) ->
  oc_elem ROOps a mv xmn xmx x g <= sqrt (b / a) * oc_elem ROOps b mv xmn xmx x g.
Proof. exact oc_elem_ratio. Qed.
Print Assumptions C17_entry_ratio.

(* the volume: together with C17_volume_monotone,  vol(b) <= vol(a) <= sqrt(b/a) * vol(b)  for 0 < a <= b *)
Theorem C17_volume_ratio : forall (pr : @oc_params R) a b (x g : list R),
  0 < a <= b -> in_box pr x -> 0 <= move pr -> nonneg x -> nonpos g -> length g = length x ->
  bmin_nonneg pr (length x) ->
  osum ROOps (oc_xnew ROOps pr a x g) <= sqrt (b / a) * osum ROOps (oc_xnew ROOps pr b x g).
Proof. exact volume_ratio. Qed.
Print Assumptions C17_volume_ratio.

(* one OC step (bracket growing + bisection) under the hypotheses of C17_volume_to_bisection_tolerance_partial and
   xmin >= 0: the volume of the new design equals the target up to an explicit relative tolerance *)
Theorem C17_volume_to_bisection_tolerance : forall (pr : @oc_params R) maxvol (x g : list R) gfuel bfuel l2g xng a b xnew,
  in_box pr x -> 0 <= move pr -> nonneg x -> nonpos g -> length g = length x -> bmin_nonneg pr (length x) ->
  0 <= l1l2tol pr -> 0 <= l1init pr <= l2init pr ->
  grow ROOps pr maxvol x g gfuel (l2init pr) (oc_xnew ROOps pr (l2init pr) x g) = GrowDone l2g xng ->
  bisect ROOps pr maxvol x g bfuel (l1init pr) l2g (Some xng) = BisDone a b (Some xnew) ->
  osum ROOps (oc_lower ROOps pr x) <= maxvol -> l2g < 10 ^ 40 -> a <> l1init pr ->
  0 < a /\ Rabs (osum ROOps xnew - maxvol) <= (sqrt (b / a) - 1) * maxvol /\
  sqrt (b / a) <= sqrt (1 + l1l2tol pr / a).
Proof. exact oc_step_volume_gap. Qed.
Print Assumptions C17_volume_to_bisection_tolerance.
(* still partial: the bound is relative to the final multiplier a (the tolerance of the loop is absolute in lam), and
   the case "lower end never moved" (a = l1init, target not reachable from above inside the interval) keeps the
   statement of Props/C17.v; both are validated on the implementation by the check (observed gap reported). *)

(* non-vacuity: the hypotheses on the data are met by a concrete density problem *)
Example C17b_nonvacuous :
  let pr := @mkParams R 0 0 1%nat (BScalar 0) (BScalar 1) (1 / 5) 0 100000 (1 / 10000) 0 in
  0 < 1 <= 4 /\ in_box pr [1 / 2] /\ 0 <= move pr /\ nonneg [1 / 2] /\ nonpos [-1] /\ bmin_nonneg pr 1 /\
  0 <= l1l2tol pr /\ 0 <= l1init pr <= l2init pr.
Proof. exact c17b_nonvacuous. Qed.
