(* C05 — every linear solver solves the requested (transposed/adjoint) system.
   Statements only; every proof is `exact <lemma>`; Print Assumptions under each.

   M is ANY ring with a transpose tr and a conjugation cj (star_laws; square complex matrices 'M_n with ^T and
   entry-wise conj are an instance: C05_matrices_are_an_instance).  The right-hand side b ranges over M, so one or
   many columns, real or complex, dependent or not is all covered by the quantifier.  Library calls are function
   arguments with their documented contract as explicit premise (validated at run time on the solver's own factors).
   sol_<Solver> are the return expressions of the solve() methods (regenerated from the source and proved equal in
   bridge/C05/SolverBridge.v).   solves A t x b  :=  op_t(A) * x = b. *)
From mathcomp Require Import all_ssreflect all_algebra.
From Pymoto Require Import Base.StarRing Model.SolverAlg Model.CGinv Model.AutoSolver
  Proofs.SolverAlgP Proofs.CGinvP Proofs.AutoSolverP Model.CGExit Proofs.CGExitP Proofs.CGExitRingP.
(* executable arithmetic used by the generated correspondence cases (kept in this file's dependency cone) *)
From Pymoto Require Base.CQMat.
Set Implicit Arguments.
Unset Strict Implicit.
Import GRing.Theory.
Local Open Scope ring_scope.

Theorem C05_matrices_are_an_instance :
  forall (R : comRingType) (cjR : {rmorphism R -> R}), involutive cjR ->
  forall n, star_laws (@mx_tr R n) (@mx_cj R cjR n).
Proof. exact: matrix_star_laws. Qed.
Print Assumptions C05_matrices_are_an_instance.

(* SolverDiagonal: class = diagonal matrices *)
Theorem C05_Diagonal :
  forall (M : ringType) (tr cj : M -> M), star_laws tr cj ->
  forall (ddiv : M -> M -> M) (A diag : M),
  A = diag -> tr diag = diag -> ddiv_ok ddiv diag -> ddiv_ok ddiv (cj diag) ->
  forall t b, solves tr cj A t (sol_Diagonal cj ddiv diag t b) b.
Proof. exact: diagonal_solves. Qed.
Print Assumptions C05_Diagonal.

(* SolverDenseQR: A = Q R (scipy.linalg.qr), Q unitary *)
Theorem C05_DenseQR :
  forall (M : ringType) (tr cj : M -> M), star_laws tr cj ->
  forall (tsolve : bool -> bool -> M -> trans -> M -> M) (A q r : M),
  A = q * r -> hm tr cj q * q = 1 -> q * hm tr cj q = 1 -> tri_ok tr cj tsolve false false r ->
  forall t b, solves tr cj A t (sol_QR tr cj tsolve q r t b) b.
Proof. exact: qr_solves. Qed.
Print Assumptions C05_DenseQR.

(* SolverDenseLU: A = P L U (scipy.linalg.lu), P a real permutation matrix *)
Theorem C05_DenseLU :
  forall (M : ringType) (tr cj : M -> M), star_laws tr cj ->
  forall (tsolve : bool -> bool -> M -> trans -> M -> M) (A p l u : M),
  A = p * l * u -> tr p * p = 1 -> p * tr p = 1 -> cj p = p ->
  tri_ok tr cj tsolve true false l -> tri_ok tr cj tsolve false false u ->
  forall t b, solves tr cj A t (sol_LU tr tsolve p l u t b) b.
Proof. exact: lu_solves. Qed.
Print Assumptions C05_DenseLU.

(* SolverDenseCholesky, factorisation succeeded: A = U^H U (scipy.linalg.cholesky, upper factor) *)
Theorem C05_DenseCholesky :
  forall (M : ringType) (tr cj : M -> M), star_laws tr cj ->
  forall (tsolve : bool -> bool -> M -> trans -> M -> M) (A U : M) (hb : bool) (l d1 Pm : M),
  A = hm tr cj U * U -> tri_ok tr cj tsolve false false U ->
  forall t b, solves tr cj A t (sol_Cholesky tr cj tsolve true U hb l d1 Pm t b) b.
Proof. exact: cholesky_solves. Qed.
Print Assumptions C05_DenseCholesky.

(* SolverDenseLDL: A = L D L^H (hermitian=True) or L D L^T (hermitian=False, incl. complex symmetric)
   (scipy.linalg.ldl); Pm = selection matrix of the returned permutation, Pm L unit lower triangular,
   d1 = inverse of the block-diagonal D *)
Theorem C05_DenseLDL :
  forall (M : ringType) (tr cj : M -> M), star_laws tr cj ->
  forall (tsolve : bool -> bool -> M -> trans -> M -> M) (A l d d1 Pm : M) (h : bool),
  A = l * d * (if h then hm tr cj l else tr l) ->
  tr Pm * Pm = 1 -> Pm * tr Pm = 1 -> cj Pm = Pm -> d1 * d = 1 -> d * d1 = 1 ->
  tri_ok tr cj tsolve true true (Pm * l) ->
  forall t b, solves tr cj A t (sol_LDL tr cj tsolve h l d1 Pm t b) b.
Proof. exact: ldl_solves. Qed.
Print Assumptions C05_DenseLDL.

(* SolverDenseCholesky, factorisation failed: the LDL fallback answers *)
Theorem C05_DenseCholesky_fallback :
  forall (M : ringType) (tr cj : M -> M), star_laws tr cj ->
  forall (tsolve : bool -> bool -> M -> trans -> M -> M) (A U : M) (hb : bool) (l d d1 Pm : M),
  A = l * d * (if hb then hm tr cj l else tr l) ->
  tr Pm * Pm = 1 -> Pm * tr Pm = 1 -> cj Pm = Pm -> d1 * d = 1 -> d * d1 = 1 ->
  tri_ok tr cj tsolve true true (Pm * l) ->
  forall t b, solves tr cj A t (sol_Cholesky tr cj tsolve false U hb l d1 Pm t b) b.
Proof. exact: cholesky_fallback_solves. Qed.
Print Assumptions C05_DenseCholesky_fallback.

(* SolverSparseLU: the SuperLU object is the oracle; the theorem is that `trans` is passed on unchanged *)
Theorem C05_SparseLU :
  forall (M : ringType) (tr cj : M -> M) (splu : trans -> M -> M) (A : M),
  splu_ok tr cj splu A -> forall t b, solves tr cj A t (sol_SparseLU splu t b) b.
Proof. exact: sparselu_solves. Qed.
Print Assumptions C05_SparseLU.

(* the solution is unique when op_t(A) has a left inverse: the harness compares with THE exact solution *)
Theorem C05_solution_unique :
  forall (M : ringType) (tr cj : M -> M) (A Ai : M) t x y b,
  Ai * op tr cj t A = 1 -> solves tr cj A t x b -> solves tr cj A t y b -> x = y.
Proof. exact: solves_unique. Qed.
Print Assumptions C05_solution_unique.

(* non-vacuity: concrete factors meet all premises (M = rat, A = 6 = 1*2*3; A = 12 = 2*3*2) *)
Example C05_nonvacuous_LU :
  (forall t b, solves id id (6%:Q) t (sol_LU id q_tsolve 1 2%:Q 3%:Q t b) b) /\
  sol_LU id q_tsolve 1 2%:Q 3%:Q tT 12%:Q = 2%:Q.
Proof. exact: (conj instance_lu instance_lu_value). Qed.
Example C05_nonvacuous_LDL :
  forall t b, solves id id (12%:Q) t (sol_LDL id id q_tsolve true 2%:Q (3%:Q)^-1 1 t b) b.
Proof. exact: instance_ldl. Qed.

(* ------------------------------------------------------------------ preconditioned (block) CG
   precond, orth1, orth2, inv, small (the exit test) are ARBITRARY functions; A is the matrix selected for `trans`
   (cg_mat = op_trans, bridge lemma gen_cg_mat_op); x0 any initial guess; restart any period. *)
Theorem C05_cg_residual_invariant_step :
  forall (M : ringType) (tr cj : M -> M) (inv : M -> M) (A b : M) (restart_now : bool) (x r p : M),
  r = b - A * x ->
  cg_step_r tr cj inv A b restart_now x r p = b - A * cg_step_x tr cj inv A x r p.
Proof. exact: step_invariant. Qed.
Print Assumptions C05_cg_residual_invariant_step.

(* r_k = b - A x_k at EVERY iteration of the loop (all pairs the loop visits) *)
Theorem C05_cg_residual_invariant :
  forall (M : ringType) (tr cj : M -> M) (precond orth2 inv : M -> M) (small : M -> bool) (A b : M) (restart : nat)
         (fuel i : nat) (x r p : M),
  r = b - A * x ->
  all (fun xr => xr.2 == b - A * xr.1) (cg_trace tr cj precond orth2 inv small A b restart fuel i x r p).
Proof. exact: trace_invariant. Qed.
Print Assumptions C05_cg_residual_invariant.

Theorem C05_cg_returned_residual :
  forall (M : ringType) (tr cj : M -> M) (precond orth1 orth2 inv : M -> M) (small : M -> bool) (A b : M)
         (restart maxit : nat) (x0 : M),
  (cg_solve tr cj precond orth1 orth2 inv small A b restart maxit x0).2 =
  b - A * (cg_solve tr cj precond orth1 orth2 inv small A b restart maxit x0).1.
Proof. exact: solve_invariant. Qed.
Print Assumptions C05_cg_returned_residual.

(* exit soundness: if solve() returns without the max-iteration warning, the TRUE residual b - A x of the returned
   x passes the convergence test (in exact arithmetic) *)
Theorem C05_cg_exit_sound :
  forall (M : ringType) (tr cj : M -> M) (precond orth1 orth2 inv : M -> M) (small : M -> bool) (A b : M)
         (restart maxit : nat) (x0 : M),
  ~~ cg_warns tr cj precond orth1 orth2 inv small A b restart maxit x0 ->
  small (b - A * (cg_solve tr cj precond orth1 orth2 inv small A b restart maxit x0).1).
Proof. exact: exit_sound. Qed.
Print Assumptions C05_cg_exit_sound.

(* the exit test AS WRITTEN (Model/CGExit.v, regenerated from the source: bridge/C05/CGExitBridge.v):
     cg_small norms tol b r := exit_test tol (norms r) (norms b)
     exit_test: every column passes  |r_j| / (|b_j| if |b_j| <> 0 else 1) <= tol;   norms = np.linalg.norm(., axis=0)
   is an ARBITRARY function into exact rationals.  Without the max-iteration warning every column of the TRUE
   residual b - A x of the returned x meets columns_bound: |r_j| <= tol |b_j| for a non-zero column of b and
   |r_j| <= tol ABSOLUTELY for a zero column (a zero right-hand side / zero column of a block is inside the domain). *)
Theorem C05_cg_exit_sound_per_column :
  forall (M : ringType) (tr cj : M -> M) (precond orth1 orth2 inv : M -> M)
         (norms : M -> list QArith_base.Q) (tol : QArith_base.Q) (A b : M) (restart maxit : nat) (x0 : M),
  all_nonneg (norms b) ->
  ~~ cg_warns tr cj precond orth1 orth2 inv (cg_small norms tol b) A b restart maxit x0 ->
  columns_bound tol
    (norms (b - A * (cg_solve tr cj precond orth1 orth2 inv (cg_small norms tol b) A b restart maxit x0).1)) (norms b).
Proof. move=> M tr cj precond orth1 orth2 inv norms tol A b restart maxit x0; exact: exit_sound_columns. Qed.
Print Assumptions C05_cg_exit_sound_per_column.

(* zero right-hand side without initial guess (x starts as zeros): for any non-negative tolerance, any matrix, any
   preconditioner / trans / maxit the routine returns x = 0 (and residual 0) before entering the loop, without
   warning.  (norms 0 = zeros k : the column norms of the zero block are zero.) *)
Theorem C05_cg_zero_rhs :
  forall (M : ringType) (tr cj : M -> M) (precond orth1 orth2 inv : M -> M)
         (norms : M -> list QArith_base.Q) (tol : QArith_base.Q) (A : M) (restart maxit k : nat),
  qnonneg tol -> norms 0 = zeros k ->
  cg_solve tr cj precond orth1 orth2 inv (cg_small norms tol 0) A 0 restart maxit 0 = (0, 0) /\
  ~~ cg_warns tr cj precond orth1 orth2 inv (cg_small norms tol 0) A 0 restart maxit 0.
Proof. move=> M tr cj precond orth1 orth2 inv norms tol A restart maxit k; exact: solve_zero_rhs. Qed.
Print Assumptions C05_cg_zero_rhs.

(* the step does not depend on scaling / mixing of the search directions (why orth's normalisation and the
   dropping of dependent columns cannot change the iterate): p -> p S with S invertible *)
Theorem C05_cg_step_scaling_invariant :
  forall (M : ringType) (tr cj : M -> M) (inv : M -> M) (A : M), star_laws tr cj ->
  forall x r p S Si : M,
  S * Si = 1 ->
  inv (tr (cj p) * (A * p)) * (tr (cj p) * (A * p)) = 1 ->
  (tr (cj (p * S)) * (A * (p * S))) * inv (tr (cj (p * S)) * (A * (p * S))) = 1 ->
  cg_step_x tr cj inv A x r (p * S) = cg_step_x tr cj inv A x r p.
Proof. move=> M tr cj inv A SL x r p S Si; exact: step_scaling_invariant. Qed.
Print Assumptions C05_cg_step_scaling_invariant.

(* PARTIAL (run-time behaviour, validated not proved): that the loop reaches the exit test before maxit
   (convergence for Hermitian positive definite A and each preconditioner), and floating-point accuracy. *)

(* ------------------------------------------------------------------ auto_determine_solver *)
(* for every square matrix: with exact detection and truthful overrides the returned solver documents a class
   containing the matrix.  Premise 7 concerns only the optional sparse Cholesky packages (absent here). *)
Theorem C05_auto_class_sound :
  forall (m : mclass) (dpos dneg hp hs hc : bool) (o_diag o_herm o_sym o_pd : option bool),
  m_square m = true -> mclass_consistent m = true ->
  truthful o_diag (m_diag m) = true -> truthful o_herm (m_herm m) = true -> truthful o_sym (m_sym m) = true ->
  pd_truthful o_pd m = true ->
  (hs || hc) && negb (pd_heuristic_right m dpos dneg) = false ->
  admissible (auto_solver (m_sparse m) (m_square m) (m_diag m) (m_complex m) (m_herm m) (m_sym m) dpos dneg
                          hp hs hc o_diag o_herm o_sym o_pd) m = true.
Proof. exact: auto_class_sound. Qed.
Print Assumptions C05_auto_class_sound.

Theorem C05_auto_class_sound_no_optional_packages :
  forall (m : mclass) (dpos dneg : bool) (o_diag o_herm o_sym o_pd : option bool),
  m_square m = true -> mclass_consistent m = true ->
  truthful o_diag (m_diag m) = true -> truthful o_herm (m_herm m) = true -> truthful o_sym (m_sym m) = true ->
  admissible (auto_solver (m_sparse m) (m_square m) (m_diag m) (m_complex m) (m_herm m) (m_sym m) dpos dneg
                          false false false o_diag o_herm o_sym o_pd) m = true.
Proof. exact: auto_class_sound_nopkg. Qed.
Print Assumptions C05_auto_class_sound_no_optional_packages.

(* without premise 7 the statement is false of the decision table when scikit-sparse / cvxopt is installed:
   a sparse Hermitian INDEFINITE matrix with positive diagonal is sent to a Cholesky solver without fallback *)
Theorem C05_auto_sparse_cholesky_heuristic_refuted :
  exists m dpos dneg,
    m_square m = true /\ mclass_consistent m = true /\
    admissible (auto_solver (m_sparse m) (m_square m) (m_diag m) (m_complex m) (m_herm m) (m_sym m) dpos dneg
                            false true false None None None None) m = false.
Proof. exact: auto_sparse_cholesky_heuristic_refuted. Qed.
Print Assumptions C05_auto_sparse_cholesky_heuristic_refuted.

Theorem C05_auto_total :
  forall f_sparse f_square f_diag f_complex f_herm f_sym f_dpos f_dneg hp hs hc o_diag o_herm o_sym o_pd,
  auto_solver f_sparse f_square f_diag f_complex f_herm f_sym f_dpos f_dneg hp hs hc o_diag o_herm o_sym o_pd
  <> KNoReturn.
Proof. exact: auto_total. Qed.
Print Assumptions C05_auto_total.

Example C05_auto_nonvacuous :
  auto_solver false true false true true false true false false false false None None None None = KDenseCholesky /\
  auto_solver false true false true false true false false false false false None None None None = KDenseLDL (Some false) /\
  auto_solver true true false false true true true false false false false None None None None = KSparseLU.
Proof. by []. Qed.
