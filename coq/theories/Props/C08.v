(* C08 placeholder while the model is validated; replaced below *)
From Coq Require Import ZArith List.
From Pymoto Require Import Base.Num Model.Grid Model.Assembly.
Import ListNotations.
Example C08_nonvacuous : asm_ndof {| nelx := 1; nely := 1; nelz := 0 |} [[1;2;3;4]]%Z = 1%Z.
Proof. reflexivity. Qed.
