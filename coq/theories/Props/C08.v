(* C08 — finite-element assembly equals the scaled element sum and keeps its physics.
   Statements only; every proof is `exact <lemma>`; Print Assumptions under each.

   Reading.  The module hands (values, (rows, cols)) to the scipy constructor, which sums duplicate index pairs;
   `asm_matrix g Ke bc bcdiagval cst x` is that triple list followed by the triples of add_constant (`mat += C`),
   `zentry T i j` / `SparseLin.dense T n n` is the matrix it denotes.  `asm_spec` is the property text:
       A[i][j] = [i, j not constrained] * sum_e x_e * scatter(Ke, dofconn_e)[i][j]
                 + [i = j] * bcdiagval * #{occurrences of i in bc}  +  C[i][j]
   (the constant is added after the constrained rows/columns are fixed: what code and docstring do).
   All theorems hold for every grid size, element size, material data and scaling vector; arithmetic is exact (R).
   s3 stands for the number np.sqrt(3) of the quadrature loops: the kinematic identities hold at EVERY sampling
   point, so the physics theorems hold for any value of s3 (in particular the true one). *)
From Coq Require Import ZArith List Reals.
From Pymoto Require Import Base.Num Base.SparseLin Base.FEMat Model.Grid Model.Shape Model.ElemMat Model.Assembly.
From Pymoto Require Import Proofs.GridP Proofs.ShapeP Proofs.ElemMatP Proofs.AssemblyP.
From Pymoto Require Import Base.CplxNum Model.AsmHist Proofs.AsmHistP.
Import ListNotations.
Open Scope R_scope.

(* ------------------------------------------------------------------ A = sum_e x_e K_e scattered (+ bc, + constant) *)
Theorem C08_entry_formula :
  forall g (elmat : list (list R)) bc (bcdiagval : R) cst x i j,
    let ndof := asm_ndof g elmat in
    let N := Z.to_nat (asm_n g ndof) in
    asm_wf g elmat bc cst x -> (0 <= i < asm_n g ndof)%Z -> (0 <= j < asm_n g ndof)%Z ->
    nth (Z.to_nat j) (nth (Z.to_nat i) (dense (to_triples (asm_matrix g elmat bc bcdiagval cst x)) N N) []) 0
    = asm_spec g elmat bc bcdiagval cst x i j.
Proof. exact (asm_dense_entry RthR). Qed.
Print Assumptions C08_entry_formula.

(* rows and columns of constrained dofs are zero, with the chosen value on the diagonal (bc without repetitions);
   free rows/columns are unchanged *)
Theorem C08_entry_constrained_row :
  forall g (elmat : list (list R)) bcl bcdiagval cst x i j, NoDup bcl -> isin i bcl = true ->
    asm_spec g elmat (Some bcl) bcdiagval cst x i j = (if Z.eqb i j then bcdiagval else 0) + zentry cst i j.
Proof. exact asm_spec_constrained. Qed.
Print Assumptions C08_entry_constrained_row.

Theorem C08_entry_constrained_col :
  forall g (elmat : list (list R)) bcl bcdiagval cst x i j, NoDup bcl -> isin j bcl = true ->
    asm_spec g elmat (Some bcl) bcdiagval cst x i j = (if Z.eqb i j then bcdiagval else 0) + zentry cst i j.
Proof. exact asm_spec_constrained_col. Qed.
Print Assumptions C08_entry_constrained_col.

Theorem C08_entry_free :
  forall g (elmat : list (list R)) bcl bcdiagval cst x i j, NoDup bcl -> isin i bcl = false -> isin j bcl = false ->
    asm_spec g elmat (Some bcl) bcdiagval cst x i j = asm_spec g elmat None bcdiagval cst x i j.
Proof. exact asm_spec_free. Qed.
Print Assumptions C08_entry_free.

(* every index handed to the sparse constructor lies inside the matrix *)
Theorem C08_indices_in_range :
  forall g (elmat : list (list R)) bc bcdiagval cst x,
    let ndof := asm_ndof g elmat in
    wf g -> (0 <= ndof)%Z -> bc_ok g ndof bc -> zbounded (asm_n g ndof) cst ->
    zbounded (asm_n g ndof) (asm_matrix g elmat bc bcdiagval cst x).
Proof. exact asm_zbounded. Qed.
Print Assumptions C08_indices_in_range.

(* ------------------------------------------------------------------ symmetry *)
Theorem C08_symmetric :
  forall g (elmat : list (list R)) bc bcdiagval cst x i j,
    asm_wf g elmat bc cst x -> msym elmat -> (forall p q, zentry cst p q = zentry cst q p) ->
    zentry (asm_matrix g elmat bc bcdiagval cst x) i j = zentry (asm_matrix g elmat bc bcdiagval cst x) j i.
Proof. exact (asm_symmetric RthR). Qed.
Print Assumptions C08_symmetric.

Theorem C08_stiffness_symmetric_2d :
  forall g (s3 hx hy hz E nu : R) mode bc (bcd : R) cst x i j,
    wf g -> nelz g = 0%Z -> (mode = 0 \/ mode = 1)%Z -> length x = Z.to_nat (nel g) -> bc_ok g 2 bc ->
    zbounded (asm_n g 2) cst -> (forall p q, zentry cst p q = zentry cst q p) ->
    let A := asm_matrix g (stiffness_element s3 2 [hx; hy; hz] E nu mode) bc bcd cst x in
    zentry A i j = zentry A j i.
Proof. exact stiffness2_global_symmetric. Qed.
Print Assumptions C08_stiffness_symmetric_2d.

Theorem C08_stiffness_symmetric_3d :
  forall g (s3 hx hy hz E nu : R) mode bc (bcd : R) cst x i j,
    wf g -> nelz g <> 0%Z -> length x = Z.to_nat (nel g) -> bc_ok g 3 bc ->
    zbounded (asm_n g 3) cst -> (forall p q, zentry cst p q = zentry cst q p) ->
    let A := asm_matrix g (stiffness_element s3 3 [hx; hy; hz] E nu mode) bc bcd cst x in
    zentry A i j = zentry A j i.
Proof. exact stiffness3_global_symmetric. Qed.
Print Assumptions C08_stiffness_symmetric_3d.

Theorem C08_mass_elem_symmetric : forall (s3 : R) d h mp ndof, (d = 2 \/ d = 3)%nat -> msym (mass_element s3 d h mp ndof).
Proof. exact mass_elem_sym. Qed.
Print Assumptions C08_mass_elem_symmetric.

Theorem C08_poisson_elem_symmetric : forall (s3 : R) d h mp, (d = 2 \/ d = 3)%nat -> msym (poisson_element s3 d h mp).
Proof. exact poisson_elem_sym. Qed.
Print Assumptions C08_poisson_elem_symmetric.

(* ------------------------------------------------------------------ u^T A u = sum_e x_e u_e^T K_e u_e ;  PSD *)
Theorem C08_quadratic_form :
  forall g (elmat : list (list R)) (bcd : R) x w u,
    let ndof := asm_ndof g elmat in
    let m := Z.to_nat (elemnodes g * ndof) in
    let N := Z.to_nat (asm_n g ndof) in
    wf g -> (0 <= ndof)%Z -> mshape m m elmat -> length x = Z.to_nat (nel g) -> length w = N -> length u = N ->
    dot w (apply (to_triples (asm_ztriples g elmat None bcd x)) N u) =
    nsum (map (fun p => snd p * bil elmat (gatherZ w (fst p)) (gatherZ u (fst p))) (combine (dofconn_all g ndof) x)).
Proof. exact (asm_bilinear RthR). Qed.
Print Assumptions C08_quadratic_form.

Theorem C08_psd :
  forall g (elmat : list (list R)) bcd x u,
    let ndof := asm_ndof g elmat in
    let N := Z.to_nat (asm_n g ndof) in
    asm_wf g elmat None [] x -> length u = N ->
    (forall v, 0 <= quad elmat v) -> Forall (fun xe => 0 <= xe) x ->
    0 <= dot u (apply (to_triples (asm_ztriples g elmat None bcd x)) N u).
Proof. exact asm_psd. Qed.
Print Assumptions C08_psd.

(* element matrices: B^T D B summed over the Gauss points is symmetric PSD for E >= 0 and admissible nu *)
Theorem C08_stiffness_elem_symm_psd_2d :
  forall (s3 hx hy hz E nu : R) mode, (mode = 0 \/ mode = 1)%Z ->
    msym (stiffness_element s3 2 [hx; hy; hz] E nu mode) /\
    (0 <= hx -> 0 <= hy -> 0 <= hz -> 0 <= E -> (mode = 0%Z -> -1 < nu < 1/2) -> (mode = 1%Z -> -1 < nu < 1) ->
     forall v, 0 <= quad (stiffness_element s3 2 [hx; hy; hz] E nu mode) v).
Proof.
  intros s3 hx hy hz E nu mode Hm.
  exact (conj (stiffness2_sym s3 hx hy hz E nu mode Hm)
              (fun a b c d e f v => stiffness2_psd s3 hx hy hz E nu mode Hm v a b c d e f)).
Qed.
Print Assumptions C08_stiffness_elem_symm_psd_2d.

Theorem C08_stiffness_elem_symm_psd_3d :
  forall (s3 hx hy hz E nu : R) mode,
    msym (stiffness_element s3 3 [hx; hy; hz] E nu mode) /\
    (0 <= hx -> 0 <= hy -> 0 <= hz -> 0 <= E -> -1 < nu < 1/2 ->
     forall v, 0 <= quad (stiffness_element s3 3 [hx; hy; hz] E nu mode) v).
Proof.
  intros s3 hx hy hz E nu mode.
  exact (conj (stiffness3_sym s3 hx hy hz E nu mode)
              (fun a b c d e v => stiffness3_psd s3 hx hy hz E nu mode v a b c d e)).
Qed.
Print Assumptions C08_stiffness_elem_symm_psd_3d.

Theorem C08_stiffness_psd_2d :
  forall g (s3 hx hy hz E nu : R) mode (bcd : R) x u,
    wf g -> nelz g = 0%Z -> (mode = 0 \/ mode = 1)%Z -> length x = Z.to_nat (nel g) ->
    0 <= hx -> 0 <= hy -> 0 <= hz -> 0 <= E -> (mode = 0%Z -> -1 < nu < 1/2) -> (mode = 1%Z -> -1 < nu < 1) ->
    Forall (fun xe => 0 <= xe) x -> length u = Z.to_nat (asm_n g 2) ->
    0 <= dot u (apply (to_triples (asm_ztriples g (stiffness_element s3 2 [hx; hy; hz] E nu mode) None bcd x))
                      (Z.to_nat (asm_n g 2)) u).
Proof. exact stiffness2_global_psd. Qed.
Print Assumptions C08_stiffness_psd_2d.

Theorem C08_stiffness_psd_3d :
  forall g (s3 hx hy hz E nu : R) mode (bcd : R) x u,
    wf g -> nelz g <> 0%Z -> length x = Z.to_nat (nel g) ->
    0 <= hx -> 0 <= hy -> 0 <= hz -> 0 <= E -> -1 < nu < 1/2 ->
    Forall (fun xe => 0 <= xe) x -> length u = Z.to_nat (asm_n g 3) ->
    0 <= dot u (apply (to_triples (asm_ztriples g (stiffness_element s3 3 [hx; hy; hz] E nu mode) None bcd x))
                      (Z.to_nat (asm_n g 3)) u).
Proof. exact stiffness3_global_psd. Qed.
Print Assumptions C08_stiffness_psd_3d.

Theorem C08_mass_elem_psd :
  forall (s3 : R) d hx hy hz mp ndof v, (d = 2 \/ d = 3)%nat ->
    0 <= hx -> 0 <= hy -> 0 <= hz -> 0 <= mp -> 0 <= quad (mass_element s3 d [hx; hy; hz] mp ndof) v.
Proof. exact mass_elem_psd. Qed.
Print Assumptions C08_mass_elem_psd.

Theorem C08_poisson_elem_psd :
  forall (s3 : R) d hx hy hz mp v, (d = 2 \/ d = 3)%nat ->
    0 <= hx -> 0 <= hy -> 0 <= hz -> 0 <= mp -> 0 <= quad (poisson_element s3 d [hx; hy; hz] mp) v.
Proof. exact poisson_elem_psd. Qed.
Print Assumptions C08_poisson_elem_psd.

(* ------------------------------------------------------------------ rigid-body motions *)
(* at EVERY point p of the element: B(p) . r = 0 for translation t + infinitesimal rotation about any centre c *)
Theorem C08_B_rigid_2d :
  forall hx hy hz px py pz tx ty om cx cy, hx <> 0 -> hy <> 0 ->
    mvmul (B_at 2 [hx; hy; hz] [px; py; pz]) (rigid2 [hx; hy; hz] tx ty om cx cy) = [0; 0; 0].
Proof. exact B_rigid2. Qed.
Print Assumptions C08_B_rigid_2d.

Theorem C08_B_rigid_3d :
  forall hx hy hz px py pz tx ty tz wx wy wz cx cy cz, hx <> 0 -> hy <> 0 -> hz <> 0 ->
    mvmul (B_at 3 [hx; hy; hz] [px; py; pz]) (rigid3 [hx; hy; hz] tx ty tz wx wy wz cx cy cz) = [0; 0; 0; 0; 0; 0].
Proof. exact B_rigid3. Qed.
Print Assumptions C08_B_rigid_3d.

(* K r = 0 on every grid, for every scaling vector: r(n) = t + om * (-y_n, x_n), (x_n, y_n) = get_node_position(n) *)
Theorem C08_stiffness_rigid_null_2d :
  forall g (s3 hx hy hz : R), wf g -> nelz g = 0%Z -> hx <> 0 -> hy <> 0 ->
  forall E nu mode (bcd : R) x tx ty om, (mode = 0 \/ mode = 1)%Z ->
    let Ke := stiffness_element s3 2 [hx; hy; hz] E nu mode in
    let N := Z.to_nat (asm_n g 2) in
    apply (to_triples (asm_ztriples g Ke None bcd x)) N (nodal_field g 2 (rigid_field2 g hx hy tx ty om)) = vzero N.
Proof. exact stiffness2_global_rigid_null. Qed.
Print Assumptions C08_stiffness_rigid_null_2d.

(* r(n) = t + w x pos(n): the 6 rigid modes in 3-D *)
Theorem C08_stiffness_rigid_null_3d :
  forall g (s3 hx hy hz : R), wf g -> nelz g <> 0%Z -> hx <> 0 -> hy <> 0 -> hz <> 0 ->
  forall E nu mode (bcd : R) x tx ty tz wx wy wz,
    let Ke := stiffness_element s3 3 [hx; hy; hz] E nu mode in
    let N := Z.to_nat (asm_n g 3) in
    apply (to_triples (asm_ztriples g Ke None bcd x)) N (nodal_field g 3 (rigid_field3 g hx hy hz tx ty tz wx wy wz)) = vzero N.
Proof. exact stiffness3_global_rigid_null. Qed.
Print Assumptions C08_stiffness_rigid_null_3d.

(* ------------------------------------------------------------------ mass *)
(* 1_k^T M 1_k = rho * V_e * sum(x) for every direction k < ndof (2-D: V_e includes the thickness hz) *)
Theorem C08_mass_total_2d :
  forall g (s3 hx hy hz : R), wf g -> nelz g = 0%Z -> hx <> 0 -> hy <> 0 ->
  forall mp nd k (bcd : R) x, (1 <= nd)%nat -> (k < nd)%nat -> length x = Z.to_nat (nel g) ->
    let Me := mass_element s3 2 [hx; hy; hz] mp nd in
    let N := Z.to_nat (asm_n g (Z.of_nat nd)) in
    let one_k := nodal_field g (Z.of_nat nd) (dir_field (Z.of_nat k)) in
    dot one_k (apply (to_triples (asm_ztriples g Me None bcd x)) N one_k) = mp * (hx * hy * hz) * nsum x.
Proof. exact mass2_global_total. Qed.
Print Assumptions C08_mass_total_2d.

Theorem C08_mass_total_3d :
  forall g (s3 hx hy hz : R), wf g -> nelz g <> 0%Z -> hx <> 0 -> hy <> 0 -> hz <> 0 ->
  forall mp nd k (bcd : R) x, (1 <= nd)%nat -> (k < nd)%nat -> length x = Z.to_nat (nel g) ->
    let Me := mass_element s3 3 [hx; hy; hz] mp nd in
    let N := Z.to_nat (asm_n g (Z.of_nat nd)) in
    let one_k := nodal_field g (Z.of_nat nd) (dir_field (Z.of_nat k)) in
    dot one_k (apply (to_triples (asm_ztriples g Me None bcd x)) N one_k) = mp * (hx * hy * hz) * nsum x.
Proof. exact mass3_global_total. Qed.
Print Assumptions C08_mass_total_3d.

(* ------------------------------------------------------------------ Poisson *)
Theorem C08_poisson_constants_2d :
  forall g (s3 hx hy hz : R), wf g -> nelz g = 0%Z -> hx <> 0 -> hy <> 0 ->
  forall mp (bcd : R) x c0,
    let Pe := poisson_element s3 2 [hx; hy; hz] mp in
    let N := Z.to_nat (asm_n g 1) in
    apply (to_triples (asm_ztriples g Pe None bcd x)) N (nodal_field g 1 (lin_field2 g hx hy c0 0 0)) = vzero N.
Proof. exact poisson2_global_constants. Qed.
Print Assumptions C08_poisson_constants_2d.

Theorem C08_poisson_constants_3d :
  forall g (s3 hx hy hz : R), wf g -> nelz g <> 0%Z -> hx <> 0 -> hy <> 0 -> hz <> 0 ->
  forall mp (bcd : R) x c0,
    let Pe := poisson_element s3 3 [hx; hy; hz] mp in
    let N := Z.to_nat (asm_n g 1) in
    apply (to_triples (asm_ztriples g Pe None bcd x)) N (nodal_field g 1 (lin_field3 g hx hy hz c0 0 0 0)) = vzero N.
Proof. exact poisson3_global_constants. Qed.
Print Assumptions C08_poisson_constants_3d.

(* u(n) = c0 + g . pos(n):  u^T P u = k * V_e * |g|^2 * sum(x) *)
Theorem C08_poisson_linear_energy_2d :
  forall g (s3 hx hy hz : R), wf g -> nelz g = 0%Z -> hx <> 0 -> hy <> 0 ->
  forall mp (bcd : R) x c0 gx gy, length x = Z.to_nat (nel g) ->
    let Pe := poisson_element s3 2 [hx; hy; hz] mp in
    let N := Z.to_nat (asm_n g 1) in
    let u := nodal_field g 1 (lin_field2 g hx hy c0 gx gy) in
    dot u (apply (to_triples (asm_ztriples g Pe None bcd x)) N u) = mp * (hx * hy * hz) * (gx * gx + gy * gy) * nsum x.
Proof. exact poisson2_global_linear_energy. Qed.
Print Assumptions C08_poisson_linear_energy_2d.

Theorem C08_poisson_linear_energy_3d :
  forall g (s3 hx hy hz : R), wf g -> nelz g <> 0%Z -> hx <> 0 -> hy <> 0 -> hz <> 0 ->
  forall mp (bcd : R) x c0 gx gy gz, length x = Z.to_nat (nel g) ->
    let Pe := poisson_element s3 3 [hx; hy; hz] mp in
    let N := Z.to_nat (asm_n g 1) in
    let u := nodal_field g 1 (lin_field3 g hx hy hz c0 gx gy gz) in
    dot u (apply (to_triples (asm_ztriples g Pe None bcd x)) N u)
    = mp * (hx * hy * hz) * (gx * gx + gy * gy + gz * gz) * nsum x.
Proof. exact poisson3_global_linear_energy. Qed.
Print Assumptions C08_poisson_linear_energy_3d.

(* ------------------------------------------------------------------ several modules on one domain; histories *)
(* Model/AsmHist.v: _prepare stores the index arrays and options on the module (the domain is only read), _response
   reads them and the current x.  `arun g astate0 ops` are the matrices observed during the history `ops`
   (ANew options | ASetX x | AResp i) of modules that share one DomainDefinition and one input signal.
   Every response of every history is the assembled matrix of the module's OWN options (element matrix, bc set,
   bcdiagval, add_constant) and the CURRENT x — whatever other modules were built or evaluated before. *)
Theorem C08_history_response :
  forall g (ops : list (aop R)) i,
    arun g astate0 (ops ++ [AResp i]) =
    arun g astate0 ops ++
      [option_map (fun o => asm_matrix g (ao_elmat o) (ao_bc o) (ao_bcd o) (ao_cst o) (hv_x (hview_of ops)))
                  (nth_error (hv_opts (hview_of ops)) i)].
Proof. exact asm_history_response. Qed.
Print Assumptions C08_history_response.

(* the options of module i are those given at its construction, for the rest of the history *)
Theorem C08_history_options_stable :
  forall (ops1 ops2 : list (aop R)) i o,
    nth_error (hv_opts (hview_of ops1)) i = Some o -> nth_error (hv_opts (hview_of (ops1 ++ ops2))) i = Some o.
Proof. exact asm_history_options_stable. Qed.
Print Assumptions C08_history_options_stable.

(* re-evaluating module i after any operations that do not re-assign x returns the same matrix *)
Theorem C08_history_repeatable :
  forall g (ops1 ops2 : list (aop R)) i o,
    nth_error (hv_opts (hview_of ops1)) i = Some o ->
    Forall (fun op => match op with ASetX _ => False | _ => True end) ops2 ->
    last (arun g astate0 (ops1 ++ [AResp i] ++ ops2 ++ [AResp i])) None =
    last (arun g astate0 (ops1 ++ [AResp i])) None.
Proof. exact asm_history_repeatable. Qed.
Print Assumptions C08_history_repeatable.

(* the same over complex data (complex x for structural damping, complex Young's modulus): entry formula *)
Theorem C08_entry_formula_complex :
  forall g (elmat : list (list (cplx R))) bc (bcdiagval : cplx R) cst x i j,
    let ndof := asm_ndof g elmat in
    let N := Z.to_nat (asm_n g ndof) in
    asm_wf g elmat bc cst x -> (0 <= i < asm_n g ndof)%Z -> (0 <= j < asm_n g ndof)%Z ->
    nth (Z.to_nat j) (nth (Z.to_nat i) (dense (to_triples (asm_matrix g elmat bc bcdiagval cst x)) N N) []) nzero
    = asm_spec g elmat bc bcdiagval cst x i j.
Proof. exact asm_dense_entry_complex. Qed.
Print Assumptions C08_entry_formula_complex.

(* dtype kinds (integer / float64 / complex128): the kind of the returned matrix is above the kind of every operand
   that contributes values (element matrix, x, bcdiagval when bc is given, add_constant), so no value is cast down
   and the exact-arithmetic reading above applies to the stored values *)
Theorem C08_value_kind_lossless :
  forall ke kx bck kc,
    let out := asm_out_kind ke kx bck kc in
    kle ke out = true /\ kle kx out = true /\
    (forall kb, bck = Some kb -> kle kb out = true /\ kle KFloat out = true) /\
    (forall k, kc = Some k -> kle k out = true).
Proof. exact asm_out_kind_lossless. Qed.
Print Assumptions C08_value_kind_lossless.

(* non-vacuity of the history statements: two modules with different bc sets on one 2x1 grid, evaluated interleaved
   and re-evaluated after x changed *)
Example C08_history_nonvacuous :
  let g := {| nelx := 2; nely := 1; nelz := 0 |} in
  let Ke : list (list Z) := [[4; -1; -2; -1]; [-1; 4; -1; -2]; [-2; -1; 4; -1]; [-1; -2; -1; 4]]%Z in
  let o1 := {| ao_elmat := Ke; ao_bc := Some [1%Z]; ao_bcd := 7%Z; ao_cst := [] |} in
  let o2 := {| ao_elmat := Ke; ao_bc := Some [4; 5]%Z; ao_bcd := 3%Z; ao_cst := [(0, 2, 5)%Z] |} in
  let outs := arun g astate0 [ANew o1; ASetX [2; 3]%Z; AResp 0; ANew o2; AResp 1; AResp 0; ASetX [1; 1]%Z; AResp 0] in
  map (option_map (fun T => map (fun ij => zentry T (fst ij) (snd ij)) [(0, 0); (1, 1); (4, 4); (0, 2)]%Z)) outs
  = [Some [8; 7; 20; 0]; Some [8; 20; 3; 5]; Some [8; 7; 20; 0]; Some [4; 7; 8; 0]]%Z.
Proof. vm_compute. reflexivity. Qed.

(* ------------------------------------------------------------------ non-vacuity *)
(* a concrete 2x1 grid, 4x4 integer element matrix, one constrained dof, a constant: the hypotheses of the entry
   formula hold and both sides evaluate to the same non-trivial numbers *)
Example C08_nonvacuous :
  let g := {| nelx := 2; nely := 1; nelz := 0 |} in
  let Ke : list (list Z) := [[4; -1; -2; -1]; [-1; 4; -1; -2]; [-2; -1; 4; -1]; [-1; -2; -1; 4]]%Z in
  let T := asm_matrix g Ke (Some [1%Z]) 7%Z [(0, 2, 5)%Z] [2; 3]%Z in
  (asm_ndof g Ke = 1%Z /\ Z.eqb (asm_status g Ke (Some [1%Z]) [2; 3]%Z) 0 = true) /\
  map (fun ij => zentry T (fst ij) (snd ij)) [(0, 0); (0, 2); (1, 1); (1, 0); (4, 4); (4, 0)]%Z = [8; 5; 7; 0; 20; -2]%Z /\
  map (fun ij => asm_spec g Ke (Some [1%Z]) 7%Z [(0, 2, 5)%Z] [2; 3]%Z (fst ij) (snd ij))
      [(0, 0); (0, 2); (1, 1); (1, 0); (4, 4); (4, 0)]%Z = [8; 5; 7; 0; 20; -2]%Z.
Proof. vm_compute. repeat split; reflexivity. Qed.
