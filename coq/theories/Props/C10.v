(* C10 -- MMA iterates respect bounds and move limits and converge on convex problems.
   Statements only; every proof is `exact <lemma>`; Print Assumptions under each.
   Model: Model/MMAform.v (MMA.mmasub, residual, subsolv of pymoto/common/mma.py) and Model/MMAvars.v
   (pymoto/utils.py _concatenate_to_array/_split_from_array and the bound expansion / write-back of MMA.response).
   The formulas of MMAform.v are regenerated from the source on every run (tools/gen_C10.py) and proved equal to the
   model in bridge/C10/MMABridge.v.  All real-number theorems are about exact real arithmetic.

   NOT a theorem (validated on generated convex problems by tools/checks/C10.py, reported as partial):
   "on convex problems with a known optimum the iterates approach that optimum while the constraints end up satisfied",
   and convergence of the Newton iteration inside subsolv (the theorems below hold for EVERY Newton direction). *)
From Coq Require Import ZArith QArith Qround String List Bool Reals.
From Coquelicot Require Import Coquelicot.
From Pymoto Require Import Base.Num Base.MMANum Model.MMAform Model.MMAvars Proofs.MMAformP Proofs.MMAvarsP.
Import ListNotations.
Open Scope R_scope.

(* ------------------------------------------------------------------ per design variable (one component j) *)
(* hypotheses: xmin <= xval <= xmax, xmin < xmax, 0 < move, 0 < albefa < 1, 0 < offset *)
Theorem C10_box : forall albefa move xval xmin xmax offset : R,
  xmin <= xval <= xmax -> xmin < xmax -> 0 < move -> 0 < albefa < 1 -> 0 < offset ->
  xmin <= alfa_of albefa move xval xmin xmax offset <= xval /\
  xval <= beta_of albefa move xval xmin xmax offset <= xmax.
Proof. exact box. Qed.
Print Assumptions C10_box.

(* (holds without xmin <= xval <= xmax) *)
Theorem C10_move : forall albefa move xval xmin xmax offset : R,
  xmin < xmax -> 0 < move -> 0 < albefa < 1 -> 0 < offset ->
  xval - move * (xmax - xmin) <= alfa_of albefa move xval xmin xmax offset /\
  beta_of albefa move xval xmin xmax offset <= xval + move * (xmax - xmin).
Proof. exact move_limit. Qed.
Print Assumptions C10_move.

(* (holds without xmin <= xval <= xmax) *)
Theorem C10_asymptotes_enclose : forall albefa move xval xmin xmax offset : R,
  xmin < xmax -> 0 < move -> 0 < albefa < 1 -> 0 < offset ->
  low_of xval xmin xmax offset < alfa_of albefa move xval xmin xmax offset /\
  beta_of albefa move xval xmin xmax offset < upp_of xval xmin xmax offset.
Proof. exact asymptotes_enclose. Qed.
Print Assumptions C10_asymptotes_enclose.

Theorem C10_admissible_interval_nonempty : forall albefa move xval xmin xmax offset : R,
  xmin <= xval <= xmax -> xmin < xmax -> 0 < move -> 0 < albefa < 1 -> 0 < offset ->
  alfa_of albefa move xval xmin xmax offset < beta_of albefa move xval xmin xmax offset.
Proof. exact alfa_lt_beta. Qed.
Print Assumptions C10_admissible_interval_nonempty.

(* every point of [alfa, beta] is inside the box and within the move limit of xval *)
Theorem C10_iterate_in_box_and_move : forall albefa move xval xmin xmax offset : R,
  xmin <= xval <= xmax -> xmin < xmax -> 0 < move -> 0 < albefa < 1 -> 0 < offset ->
  forall x, alfa_of albefa move xval xmin xmax offset <= x <= beta_of albefa move xval xmin xmax offset ->
  xmin <= x <= xmax /\ Rabs (x - xval) <= move * (xmax - xmin).
Proof. exact iterate_ok. Qed.
Print Assumptions C10_iterate_in_box_and_move.

(* the adapted offset is clamped (and positive) whatever asyincr / asydecr / the history are *)
Theorem C10_offset_clamped : forall incr decr bound xval x1 x2 o : R, 0 < bound ->
  let o' := offset_adapt_c incr decr bound xval x1 x2 o in
  0 < o' /\ o' <= bound /\ Rmin (1 / (bound * bound)) bound <= o' /\ (1 <= bound -> 1 / (bound * bound) <= o').
Proof. exact offset_adapt_clamped. Qed.
Print Assumptions C10_offset_clamped.

(* asyincr is applied when the variable keeps its direction, asydecr when it oscillates, nothing when it stalls *)
Theorem C10_offset_oscillation_rule : forall incr decr bound xval x1 x2 o : R,
  let z := (xval - x1) * (x1 - x2) in
  offset_adapt_c incr decr bound xval x1 x2 o =
  clip (if Rlt_dec 0 z then o * incr else if Rlt_dec z 0 then o * decr else o) (1 / (bound * bound)) bound.
Proof. exact offset_adapt_cases. Qed.
Print Assumptions C10_offset_oscillation_rule.

(* invariant over the iteration history: the offset used by a call of mmasub is positive (first calls: asyinit) *)
Theorem C10_offset_positive : forall (p : asypar R) xval x1 x2 o,
  0 < asyinit p -> 0 < asybound p -> (forall v, o = Some v -> 0 < v) -> 0 < offset_step p xval x1 x2 o.
Proof. exact offset_step_pos. Qed.
Print Assumptions C10_offset_positive.

(* gradient reproduction, algebraic form: p - q = shift^2 * dg for both MMA versions *)
Theorem C10_approx_gradient_algebraic : forall xmin xmax offset dg : R, xmin < xmax -> forall v,
  P_of v xmin xmax offset dg - Q_of v xmin xmax offset dg = offset * (xmax - xmin) * (offset * (xmax - xmin)) * dg.
Proof. exact coef_difference. Qed.
Print Assumptions C10_approx_gradient_algebraic.

(* gradient reproduction, analytic form: d/dx [p/(upp-x) + q/(x-low)] at xval is dg *)
Theorem C10_approx_gradient : forall v (xval xmin xmax offset dg : R), xmin < xmax -> 0 < offset ->
  is_derive (fun t => approx_term (P_of v xmin xmax offset dg) (Q_of v xmin xmax offset dg)
                                  (upp_of xval xmin xmax offset) (low_of xval xmin xmax offset) t) xval dg.
Proof. exact approx_gradient. Qed.
Print Assumptions C10_approx_gradient.

(* convexity: p, q >= 0 (strictly positive for Svanberg2007), and the second derivative of a term with p, q >= 0 is
   non-negative everywhere between the asymptotes *)
Theorem C10_approx_convex : forall xmin xmax offset dg : R, xmin < xmax -> 0 < offset -> forall v,
  0 <= P_of v xmin xmax offset dg /\ 0 <= Q_of v xmin xmax offset dg.
Proof. exact coef_nonneg. Qed.
Print Assumptions C10_approx_convex.

Theorem C10_approx_strictly_convex_2007 : forall xmin xmax offset dg : R, xmin < xmax -> 0 < offset ->
  0 < P_of V2007 xmin xmax offset dg /\ 0 < Q_of V2007 xmin xmax offset dg.
Proof. exact coef_pos_2007. Qed.
Print Assumptions C10_approx_strictly_convex_2007.

Theorem C10_approx_term_second_derivative : forall p q u l x : R, l < x < u ->
  is_derive (fun t => approx_term p q u l t) x (p / ((u - x) * (u - x)) - q / ((x - l) * (x - l))) /\
  is_derive (fun t => p / ((u - t) * (u - t)) - q / ((t - l) * (t - l))) x
            (2 * p / ((u - x) * (u - x) * (u - x)) + 2 * q / ((x - l) * (x - l) * (x - l))) /\
  (0 <= p -> 0 <= q -> 0 <= 2 * p / ((u - x) * (u - x) * (u - x)) + 2 * q / ((x - l) * (x - l) * (x - l))).
Proof.
  intros p q u l x Hx.
  exact (conj (approx_term_derive p q u l x Hx) (conj (approx_term_derive2 p q u l x Hx) (approx_term_convex p q u l x Hx))).
Qed.
Print Assumptions C10_approx_term_second_derivative.

(* value reproduction for arbitrary coefficient rows: with b = rhs, sum_j p_j/(upp_j-xval_j)+q_j/(xval_j-low_j) - b = g *)
Theorem C10_approx_value : forall (sh Prow Qrow xval : list R) (g : R),
  length sh = length xval -> length Prow = length xval -> length Qrow = length xval ->
  List.Forall (fun s => s <> 0) sh ->
  approx Prow Qrow (vmap2 Rplus xval sh) (vmap2 Rminus xval sh) xval - rhs_row sh Prow Qrow g = g.
Proof. exact approx_value_gen. Qed.
Print Assumptions C10_approx_value.

(* ------------------------------------------------------------------ the vectors / matrices of one mmasub call *)
(* hypotheses on the whole call: per component  xmin_j <= xval_j <= xmax_j, xmin_j < xmax_j, 0 < move_j;
   0 < albefa < 1, 0 < asyinit, 0 < asybound, stored offsets (if any) positive *)
Theorem C10_mmasub_box_move_asymptotes :
  forall (p : asypar R) (v : version) (xval xmin xmax move : list R) (xold1 xold2 offset : option (list R))
         (g : list R) (dg : list (list R)),
  (forall j, (j < length xval)%nat -> nthK xmin j <= nthK xval j <= nthK xmax j /\ nthK xmin j < nthK xmax j) ->
  (forall j, (j < length xval)%nat -> 0 < nthK move j) ->
  0 < albefa p < 1 -> 0 < asyinit p -> 0 < asybound p ->
  (forall o j, offset = Some o -> (j < length xval)%nat -> 0 < nthK o j) ->
  forall j, (j < length xval)%nat ->
  let out := mmasub_vec p v xval xmin xmax move xold1 xold2 offset g dg in
  let a := nthK (o_alfa out) j in let b := nthK (o_beta out) j in
  let l := nthK (o_low out) j in let u := nthK (o_upp out) j in
  (nthK xmin j <= a <= nthK xval j /\ nthK xval j <= b <= nthK xmax j) /\
  (nthK xval j - nthK move j * (nthK xmax j - nthK xmin j) <= a /\
   b <= nthK xval j + nthK move j * (nthK xmax j - nthK xmin j)) /\
  (l < a /\ b < u) /\ a < b.
Proof. exact vec_box_move_asymptotes. Qed.
Print Assumptions C10_mmasub_box_move_asymptotes.

(* constraint i (row i+1): the approximation handed to subsolv, minus b_i, equals g_(i+1) at xval *)
Theorem C10_mmasub_approx_value :
  forall (p : asypar R) (v : version) (xval xmin xmax move : list R) (xold1 xold2 offset : option (list R))
         (g : list R) (dg : list (list R)),
  (forall j, (j < length xval)%nat -> nthK xmin j <= nthK xval j <= nthK xmax j /\ nthK xmin j < nthK xmax j) ->
  0 < asyinit p -> 0 < asybound p ->
  (forall o j, offset = Some o -> (j < length xval)%nat -> 0 < nthK o j) ->
  forall i, (S i < length dg)%nat ->
  let out := mmasub_vec p v xval xmin xmax move xold1 xold2 offset g dg in
  approx (nthL (o_P out) (S i)) (nthL (o_Q out) (S i)) (o_upp out) (o_low out) xval - nthK (o_b out) i = nthK g (S i).
Proof. exact vec_approx_value. Qed.
Print Assumptions C10_mmasub_approx_value.

(* every response i (objective i = 0 included) and variable j: gradient reproduced, coefficients non-negative *)
Theorem C10_mmasub_approx_gradient_convex :
  forall (p : asypar R) (v : version) (xval xmin xmax move : list R) (xold1 xold2 offset : option (list R))
         (g : list R) (dg : list (list R)),
  (forall j, (j < length xval)%nat -> nthK xmin j <= nthK xval j <= nthK xmax j /\ nthK xmin j < nthK xmax j) ->
  0 < asyinit p -> 0 < asybound p ->
  (forall o j, offset = Some o -> (j < length xval)%nat -> 0 < nthK o j) ->
  forall i j, (i < length dg)%nat -> (j < length xval)%nat ->
  let out := mmasub_vec p v xval xmin xmax move xold1 xold2 offset g dg in
  let pij := nthK (nthL (o_P out) i) j in let qij := nthK (nthL (o_Q out) i) j in
  is_derive (fun t => approx_term pij qij (nthK (o_upp out) j) (nthK (o_low out) j) t) (nthK xval j) (nthK (nthL dg i) j)
  /\ 0 <= pij /\ 0 <= qij /\ (v = V2007 -> 0 < pij /\ 0 < qij).
Proof. exact vec_approx_gradient. Qed.
Print Assumptions C10_mmasub_approx_gradient_convex.

(* ------------------------------------------------------------------ subsolv *)
(* the initial point is strictly interior (x0 = xval needs an admissible interval wider than the hard-coded 2e-10) *)
Theorem C10_subsolv_init_interior : forall (D : sdata R) x0,
  length (d_alfa D) = length (d_beta D) ->
  match x0 with
  | Some v => length v = length (d_alfa D) /\
              forall j, (j < length v)%nat -> nthK (d_alfa D) j + 2 * margin <= nthK (d_beta D) j
  | None => forall j, (j < length (d_alfa D))%nat -> nthK (d_alfa D) j < nthK (d_beta D) j
  end ->
  interior D (init_state D x0).
Proof. exact init_interior. Qed.
Print Assumptions C10_subsolv_init_interior.

(* one trial point of the line search: for EVERY direction d of the right shape and every step 0 < t <= steg
   (so for steg, steg/2, steg/4, ...) alfa < x < beta and y, z, lam, xsi, eta, mu, zet, s > 0 are preserved *)
Theorem C10_subsolv_step_interior : forall (D : sdata R) (st d : sstate R) t,
  interior D st -> length (sx d) = length (sx st) -> 0 < t <= step_length D st d -> interior D (advance st d t).
Proof. exact step_interior. Qed.
Print Assumptions C10_subsolv_step_interior.

(* the whole solver: arbitrary Newton directions (of the right shape), arbitrary norm function *)
Theorem C10_subsolv_interior :
  forall (newton : sdata R -> R -> sstate R -> sstate R) (norm : list R -> R) (D : sdata R),
  (forall e st, length (sx (newton D e st)) = length (sx st)) ->
  forall fuel epsimin x0 r,
  interior D (init_state D x0) -> subsolv newton norm D fuel epsimin x0 = Some r -> interior D (fst (fst r)).
Proof. exact subsolv_interior. Qed.
Print Assumptions C10_subsolv_interior.

(* normal exit: if the inner loop of the last epsi ended because `residumax > 0.9*epsi` became false (not because ittt
   reached maxittt = 400), then at the returned point max|residual(epsi_last)| <= 0.9*epsi_last, and
   epsimin < epsi_last <= 10*epsimin (epsi runs through 1, 1/10, 1/100, ...) *)
Theorem C10_subsolv_exit :
  forall (newton : sdata R -> R -> sstate R -> sstate R) (norm : list R -> R) (D : sdata R),
  forall fuel epsimin x0 st e,
  subsolv newton norm D fuel epsimin x0 = Some (st, e, true) ->
  residumax (residual_st D e st) <= 9 / 10 * e /\ epsimin < e <= 10 * epsimin.
Proof. exact subsolv_exit. Qed.
Print Assumptions C10_subsolv_exit.

(* one complete MMA iteration: the new design stays in [xmin, xmax] and moves by at most move*(xmax-xmin) *)
Theorem C10_iteration_within_bounds :
  forall (p : asypar R) (v : version) (xval xmin xmax move : list R) (xold1 xold2 offset : option (list R))
         (g : list R) (dg : list (list R))
         (newton : sdata R -> R -> sstate R -> sstate R) (norm : list R -> R) (D : sdata R),
  let n := length xval in
  let out := mmasub_vec p v xval xmin xmax move xold1 xold2 offset g dg in
  (forall j, (j < n)%nat -> nthK xmin j <= nthK xval j <= nthK xmax j /\ nthK xmin j < nthK xmax j) ->
  (forall j, (j < n)%nat -> 0 < nthK move j) ->
  0 < albefa p < 1 -> 0 < asyinit p -> 0 < asybound p ->
  (forall o j, offset = Some o -> (j < n)%nat -> 0 < nthK o j) ->
  d_alfa D = o_alfa out -> d_beta D = o_beta out ->
  (forall j, (j < n)%nat -> nthK (o_alfa out) j + 2 * margin <= nthK (o_beta out) j) ->
  (forall e st, length (sx (newton D e st)) = length (sx st)) ->
  forall fuel epsimin r, subsolv newton norm D fuel epsimin (Some xval) = Some r ->
  let x := sx (fst (fst r)) in
  length x = n /\
  forall j, (j < n)%nat ->
    nthK (o_alfa out) j < nthK x j < nthK (o_beta out) j /\
    nthK xmin j <= nthK x j <= nthK xmax j /\
    Rabs (nthK x j - nthK xval j) <= nthK move j * (nthK xmax j - nthK xmin j).
Proof. exact iteration_within_bounds. Qed.
Print Assumptions C10_iteration_within_bounds.

(* ------------------------------------------------------------------ variables spread over several signals *)
Close Scope R_scope.
Open Scope nat_scope.

Theorem C10_concat_spec : forall (A : Type) (vs : list (sval A)),
  concat_to_array vs = (flat_map flat vs, cumlens vs).
Proof. exact @concat_spec. Qed.
Print Assumptions C10_concat_spec.

Theorem C10_split_concat : forall (A : Type) (vs : list (sval A)),
  split_from_array (fst (concat_to_array vs)) (snd (concat_to_array vs)) = Some (map flat vs).
Proof. exact @split_concat. Qed.
Print Assumptions C10_split_concat.

(* the ranges [cum i, cum (i+1)) start at 0, end at n, are ordered, cover [0, n) and are pairwise disjoint *)
Theorem C10_writeback_ranges : forall (A : Type) (vs : list (sval A)),
  nth 0 (cumlens vs) 0 = 0 /\ nth (length vs) (cumlens vs) 0 = total vs /\
  (forall i, i < length vs -> nth i (cumlens vs) 0 <= nth (S i) (cumlens vs) 0) /\
  (forall j, j < total vs -> exists i, i < length vs /\ nth i (cumlens vs) 0 <= j < nth (S i) (cumlens vs) 0) /\
  (forall j i k, i < length vs -> k < length vs ->
     nth i (cumlens vs) 0 <= j < nth (S i) (cumlens vs) 0 -> nth k (cumlens vs) 0 <= j < nth (S k) (cumlens vs) 0 -> i = k).
Proof. exact @ranges_partition. Qed.
Print Assumptions C10_writeback_ranges.

(* the sensitivity row of one response ("Calculate and save sensitivities"): it has one entry per design variable, and the
   block of signal i is that signal's sensitivity of THIS iteration -- or 0*state when the signal holds no sensitivity
   (None): nothing of an earlier iteration survives *)
Theorem C10_sensitivity_row_blocks : forall (A : Type) (z : A -> A) (states : list (sval A)) (sens : list (option (sval A))),
  Forall2 (fun st g => match g with Some v => length (flat v) = length (flat st) | None => True end) states sens ->
  length (sens_row z states sens) = total states /\
  forall i, i < length states ->
    slice (sens_row z states sens) (nth i (cumlens states) 0) (nth (S i) (cumlens states) 0)
    = match nth i sens None with Some g => flat g | None => map z (flat (nth i states (Arr []))) end.
Proof. exact @sens_row_blocks. Qed.
Print Assumptions C10_sensitivity_row_blocks.

(* writing the concatenated vector back gives every signal its own values; one value -> scalar state *)
Theorem C10_writeback_concat : forall (A : Type) (d : A) (vs : list (sval A)),
  let c := concat_to_array vs in
  map flat (writeback d (fst c) (snd c) (length vs)) = map flat vs /\
  forall i, i < length vs ->
    (exists a, nth i (writeback d (fst c) (snd c) (length vs)) (Arr []) = Scal a) <-> length (flat (nth i vs (Arr []))) = 1.
Proof. exact @writeback_concat. Qed.
Print Assumptions C10_writeback_concat.

Theorem C10_bounds_expansion_per_signal : forall (A : Type) (d : A) (vs : list (sval A)) (l : list A) (zero : A),
  length l = length vs ->
  exists e, expand_bound d zero (total vs) (length vs) (cumlens vs) (BList l) = Some e /\ length e = total vs /\
            forall i j, i < length vs -> nth i (cumlens vs) 0 <= j < nth (S i) (cumlens vs) 0 -> nth j e d = nth i l d.
Proof. exact @expand_per_signal. Qed.
Print Assumptions C10_bounds_expansion_per_signal.

Theorem C10_bounds_expansion_other : forall (A : Type) (d : A) (l : list A) (a zero : A) n nvars cum,
  expand_bound d zero n nvars cum (BScal a) = Some (repeat a n) /\
  (length l = n -> length l <> nvars -> expand_bound d zero n nvars cum (BList l) = Some l) /\
  (length l <> n -> length l <> nvars -> expand_bound d zero n nvars cum (BList l) = None).
Proof.
  intros A d l a zero n nvars cum.
  exact (conj (expand_scalar d a zero n nvars cum)
        (conj (expand_per_variable d l zero n nvars cum) (expand_rejects d l zero n nvars cum))).
Qed.
Print Assumptions C10_bounds_expansion_other.

(* ------------------------------------------------------------------ the same code with the numpy dtype of every operand
   (int32 / int64 / float32 / float64; a Python int is int64, a Python float float64 after np.asarray).
   `conv a b x` is ndarray.astype (value x of dtype a stored into dtype b), a parameter; the only contract used is
   that float64 -> float64 keeps the value. *)

(* the concatenated design vector is float64 whatever the dtypes of the variable signals *)
Theorem C10_concat_dtype_float64 : forall (A : Type) (conv : dtype -> dtype -> A -> A) (vs : list (tstate A)) r,
  concat_to_array_t conv vs = Some r -> fst (fst r) = F64.
Proof. exact @concat_t_dtype. Qed.
Print Assumptions C10_concat_dtype_float64.

(* ValueError exactly when a state is None *)
Theorem C10_concat_none_rejected : forall (A : Type) (conv : dtype -> dtype -> A -> A) (vs : list (tstate A)),
  concat_to_array_t conv vs = None <-> existsb is_tnone vs = true.
Proof. exact @concat_t_none. Qed.
Print Assumptions C10_concat_none_rejected.

(* its values and the cumulative indices are those of the untyped model on the states converted to float64 (once each),
   so C10_concat_spec / C10_split_concat / C10_writeback_* apply to it *)
Theorem C10_concat_typed_values : forall (A : Type) (conv : dtype -> dtype -> A -> A),
  (forall a, conv F64 F64 a = a) -> forall vs : list (tstate A), existsb is_tnone vs = false ->
  concat_to_array_t conv vs
  = Some ((F64, fst (concat_to_array (map (untag conv) vs))), snd (concat_to_array (map (untag conv) vs))).
Proof. exact @concat_t_spec. Qed.
Print Assumptions C10_concat_typed_values.

(* what MMA.response leaves in xmin / xmax is float64 whatever the dtypes of the design vector and of the specification *)
Theorem C10_bounds_expansion_dtype_float64 : forall (A : Type) (d : A) (conv : dtype -> dtype -> A -> A)
    (zero : A) (xval : tarr A) nvars cum (b : tbspec A) r,
  expand_bound_t d conv zero xval nvars cum b = Some r -> fst r = F64.
Proof. exact @expand_t_dtype. Qed.
Print Assumptions C10_bounds_expansion_dtype_float64.

(* bound expansion against a float64 design vector: scalar, per-signal and per-variable specifications of ANY dtype
   (Python lists / tuples included) become float64 vectors holding the given values (converted to float64 once, never
   truncated) *)
Theorem C10_bounds_expansion_typed : forall (A : Type) (d : A) (conv : dtype -> dtype -> A -> A),
  (forall a, conv F64 F64 a = a) -> forall (zero : A) (xs : list A) nvars cum sdt (l : list A) (a : A),
  expand_bound_t d conv zero (F64, xs) nvars cum (TBScal sdt a) = Some (F64, repeat (conv sdt F64 a) (length xs)) /\
  (length l = nvars ->
     expand_bound_t d conv zero (F64, xs) nvars cum (TBList sdt l)
     = option_map (pair F64) (expand_bound d zero (length xs) nvars cum (BList (map (conv sdt F64) l)))) /\
  (length l = nvars ->
     expand_move_t d conv zero (F64, xs) nvars cum (TBList sdt l)
     = Some (F64, fill_ranges d zero (length xs) cum (map (conv sdt F64) l))) /\
  (length l <> nvars ->
     expand_bound_t d conv zero (F64, xs) nvars cum (TBList sdt l)
     = if length l =? length xs then Some (F64, map (conv sdt F64) l) else None).
Proof.
  intros A d conv Hc zero xs nvars cum sdt l a.
  exact (conj (expand_t_scalar d conv Hc zero xs nvars cum sdt a)
        (conj (expand_t_per_signal d conv Hc zero xs nvars cum sdt l)
        (conj (expand_move_t_per_signal d conv zero xs nvars cum sdt l)
              (expand_t_per_variable d conv zero (F64, xs) nvars cum sdt l)))).
Qed.
Print Assumptions C10_bounds_expansion_typed.

(* the pipeline of MMA.response: states of ANY dtypes and a per-signal bound of ANY dtype: the design vector is float64,
   every entry of the expanded bound on the range of signal i is the i-th given value converted to float64, and
   every written-back state is float64 *)
Theorem C10_typed_per_signal_bound : forall (A : Type) (d : A) (conv : dtype -> dtype -> A -> A),
  (forall a, conv F64 F64 a = a) ->
  forall (vs : list (tstate A)) (sdt : dtype) (l : list A) (zero : A),
  existsb is_tnone vs = false -> length l = length vs ->
  exists xs cum e,
    concat_to_array_t conv vs = Some ((F64, xs), cum) /\
    expand_bound_t d conv zero (F64, xs) (length vs) cum (TBList sdt l) = Some (F64, e) /\
    length e = length xs /\
    (forall i j, i < length vs -> nth i cum 0 <= j < nth (S i) cum 0 -> nth j e d = conv sdt F64 (nth i l d)) /\
    (forall s, In s (writeback_t d (F64, xs) cum (length vs)) -> exists v, s = TVal F64 v).
Proof. exact @typed_per_signal_bound. Qed.
Print Assumptions C10_typed_per_signal_bound.

(* ------------------------------------------------------------------ non-vacuity *)
Open Scope R_scope.
(* the hypotheses of the component theorems are met by a concrete design at its lower bound *)
Example C10_nonvacuous_component :
  (0 <= 0 <= 1 /\ 0 < 1 /\ 0 < 1 / 10 /\ 0 < 1 / 10 < 1 /\ 0 < 1 / 2) /\
  alfa_of (1 / 10) (1 / 10) 0 0 1 (1 / 2) = 0 /\ beta_of (1 / 10) (1 / 10) 0 0 1 (1 / 2) = 1 / 10.
Proof. exact nonvacuous_component. Qed.
Close Scope R_scope.

Open Scope Q_scope.
(* the same model evaluated over Q on a two-variable call with history: third iteration, variable 0 oscillates
   (offset * asydecr), variable 1 keeps its direction (offset * asyincr) *)
Definition ex_par : asypar Q := {| asyinit := 1 # 2; asyincr := 6 # 5; asydecr := 7 # 10; asybound := 10; albefa := 1 # 10 |}.
Example C10_nonvacuous_mmasub :
  let out := mmasub_vec ex_par V2007 [1 # 2; 1 # 2] [0; 0] [1; 2] [1 # 10; 1 # 10]
                        (Some [6 # 10; 4 # 10]) (Some [1 # 2; 3 # 10]) (Some [1 # 2; 1 # 2])
                        [1; 0] [[1; -1]; [1; 1]] in
  o_offset out = [7 # 20; 3 # 5] /\ o_low out = [3 # 20; -7 # 10] /\ o_upp out = [17 # 20; 17 # 10] /\
  o_alfa out = [2 # 5; 3 # 10] /\ o_beta out = [3 # 5; 7 # 10] /\ length (o_b out) = 1%nat.
Proof. vm_compute. repeat split; reflexivity. Qed.

(* subsolv reaches its normal exit on a concrete subproblem whose initial point already solves the perturbed KKT system
   for epsi = 1 (n = m = 1, alfa = 0, beta = 2, asymptotes -1 and 3); epsimin = 1/2 *)
Definition ex_data : sdata Q :=
  {| d_low := [-1]; d_upp := [3]; d_alfa := [0]; d_beta := [2]; d_P := [[1]; [1]]; d_Q := [[1]; [1]];
     d_a0 := 1; d_a := [0]; d_b := [1]; d_c := [1]; d_d := [1] |}.
Example C10_nonvacuous_subsolv :
  subsolv (fun _ _ st => st) (fun _ => 0) ex_data 5 (1 # 2) None =
  Some ({| sx := [1]; sy := [1]; sz := 1; slam := [1]; sxsi := [1]; seta := [1]; smu := [1]; szet := 1; ss := [1] |}, 1, true)
  /\ residumax (residual_st ex_data 1 (init_state ex_data None)) = 0.
Proof. vm_compute. split; reflexivity. Qed.

(* a scalar signal and an array signal; the response has no sensitivity with respect to the array signal *)
Example C10_nonvacuous_sensitivity_row :
  sens_row (fun _ => 0%Z) [Scal 5%Z; Arr [1; 2; 3]%Z; Arr [7; 8]%Z] [Some (Scal 9%Z); None; Some (Arr [4; 6]%Z)] = [9; 0; 0; 0; 4; 6]%Z /\
  Forall2 (fun st g => match g with Some v => length (flat v) = length (flat st) | None => True end)
          [Scal 5%Z; Arr [1; 2; 3]%Z; Arr [7; 8]%Z] [Some (Scal 9%Z); None; Some (Arr [4; 6]%Z)].
Proof. split; [vm_compute; reflexivity | repeat constructor]. Qed.

Example C10_nonvacuous_vars :
  concat_to_array [Scal 5%Z; Arr [1; 2; 3]%Z; Arr [7]%Z; Arr []] = ([5; 1; 2; 3; 7]%Z, [0; 1; 4; 5; 5]%nat) /\
  writeback 0%Z [5; 1; 2; 3; 7]%Z [0; 1; 4; 5; 5]%nat 4 = [Scal 5%Z; Arr [1; 2; 3]%Z; Scal 7%Z; Arr []] /\
  expand_bound 0%Z 0%Z 5 4 [0; 1; 4; 5; 5]%nat (BList [10; 20; 30; 40]%Z) = Some [10; 20; 20; 20; 30]%Z.
Proof. vm_compute. repeat split; reflexivity. Qed.

(* integer-typed states (an int64 array and a Python int) with the per-signal bound [1/2, 3/2]: the design vector is
   float64 and the expanded bound holds 1/2 and 3/2.  The last line shows that the model does distinguish dtypes: the same
   expansion against an int64 vector of the same length (which a dtype-preserving concatenation would hand over)
   truncates the bound to 0 and 1 (before np.asarray(.., dtype=float) makes it float64 again). *)
Definition ex_conv (src dst : dtype) (q : Q) : Q := match dst with I32 | I64 => inject_Z (Qfloor q) | _ => q end.
Example C10_nonvacuous_typed :
  concat_to_array_t ex_conv [TVal I64 (Arr [2; 2; 2]); TVal I64 (Scal 3)] = Some ((F64, [2; 2; 2; 3]), [0; 3; 4]%nat) /\
  expand_bound_t 0 ex_conv 0 (F64, [2; 2; 2; 3]) 2 [0; 3; 4]%nat (TBList F64 [1 # 2; 3 # 2])
    = Some (F64, [1 # 2; 1 # 2; 1 # 2; 3 # 2]) /\
  writeback_t 0 (F64, [2; 2; 2; 3]) [0; 3; 4]%nat 2 = [TVal F64 (Arr [2; 2; 2]); TVal F64 (Scal 3)] /\
  expand_bound_t 0 ex_conv 0 (I64, [2; 2; 2; 3]) 2 [0; 3; 4]%nat (TBList F64 [1 # 2; 3 # 2])
    = Some (F64, [inject_Z 0; inject_Z 0; inject_Z 0; inject_Z 1]).
Proof. vm_compute. repeat split; reflexivity. Qed.
