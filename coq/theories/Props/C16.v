(* C16 -- Aggregations bound the true extreme; active sets select the requested band.
   Statements only; every proof is `exact <lemma>`; Print Assumptions under each.

   Active set: Model/ActiveSet.v is written over an abstract float-like signature `FOps K`; theorems
   quantified over `O : FOps K` hold for EVERY instance, in particular for the IEEE binary64 instance
   `FloatOps` that is executed (bit-exactly) in the correspondence check, and for the real instance `ROps`.
   np.argsort enters as ANY permutation `isort` (band theorem) / any sorting permutation (extremes).
   Aggregations: Model/Agg.v over R; "the maximum" is characterised (is_max M x), not computed. *)
From Coq Require Import ZArith List Bool Reals Permutation PrimFloat.
From Pymoto Require Import Base.Num Model.ActiveSet Model.Agg Proofs.ActiveSetP Proofs.AggP.
Import ListNotations.

(* ---------------------------------------------------------------- active set, every instance *)

(* AggActiveSet.__call__ returns a mask of the input's length in which entry i is kept iff it passes the
   value tests that are switched on and is in neither of the two index lists removed by count *)
Theorem C16_band : forall (K : Type) (O : FOps K) (c : as_cfg) (isort : list nat) (x : list K) (m : list bool),
  active_set O c isort x = AS_Mask m ->
  length m = length x /\
  forall i, (i < length x)%nat ->
    (nth i m false = true <->
     value_ok O c x i /\ ~ In i (removed_lo O c isort (Z.of_nat (length x)))
                      /\ ~ In i (removed_hi O c isort (Z.of_nat (length x)))).
Proof. exact @band. Qed.
Print Assumptions C16_band.

(* which of the three outcomes: error on empty input, Ellipsis when xmax - xmin == 0, a mask otherwise *)
Theorem C16_result_cases : forall (K : Type) (O : FOps K) c isort (x : list K),
  (x = [] /\ active_set O c isort x = AS_ValueError) \/
  (x <> [] /\ feqb O (fsub O (xmax_of O x) (xmin_of O x)) (f0 O) = true /\ active_set O c isort x = AS_All) \/
  (x <> [] /\ feqb O (fsub O (xmax_of O x) (xmin_of O x)) (f0 O) = false /\ exists m, active_set O c isort x = AS_Mask m).
Proof. exact @result_cases. Qed.
Print Assumptions C16_result_cases.

(* the index lists removed by count are the first min(k_lo,n) / last min(k_hi,n) entries of the permutation *)
Theorem C16_removed_lo_is_prefix : forall (K : Type) (O : FOps K) c isort n, (0 <= n_lower O c n)%Z ->
  removed_lo O c isort n =
    if fltb O (f0 O) (lower_amt c) then firstn (Nat.min (Z.to_nat (n_lower O c n)) (length isort)) isort else [].
Proof. exact @removed_lo_spec. Qed.
Print Assumptions C16_removed_lo_is_prefix.

Theorem C16_removed_hi_is_suffix : forall (K : Type) (O : FOps K) c isort n,
  removed_hi O c isort n =
    if fltb O (upper_amt c) (f1 O) && (0 <? n_upper O c n)%Z
    then skipn (length isort - Nat.min (Z.to_nat (n_upper O c n)) (length isort)) isort else [].
Proof. exact @removed_hi_spec. Qed.
Print Assumptions C16_removed_hi_is_suffix.

(* whole entries: exactly min(k, n) indices are removed by each count clause *)
Theorem C16_removed_counts : forall (K : Type) (O : FOps K) c isort n,
  ((0 <= n_lower O c n)%Z -> fltb O (f0 O) (lower_amt c) = true ->
     length (removed_lo O c isort n) = Nat.min (Z.to_nat (n_lower O c n)) (length isort)) /\
  ((0 < n_upper O c n)%Z -> fltb O (upper_amt c) (f1 O) = true ->
     length (removed_hi O c isort n) = Nat.min (Z.to_nat (n_upper O c n)) (length isort)).
Proof. intros K O c isort n. exact (conj (removed_lo_count O c isort n) (removed_hi_count O c isort n)). Qed.
Print Assumptions C16_removed_counts.

(* a count that rounds to zero removes nothing (repaired code, finding F01) *)
Theorem C16_zero_count_removes_nothing : forall (K : Type) (O : FOps K) c isort n,
  (n_lower O c n = 0%Z -> removed_lo O c isort n = []) /\
  ((n_upper O c n <= 0)%Z -> removed_hi O c isort n = []).
Proof. intros K O c isort n. exact (conj (zero_lower_removes_nothing O c isort n) (zero_upper_removes_nothing O c isort n)). Qed.
Print Assumptions C16_zero_count_removes_nothing.

Theorem C16_zero_counts_keep_value_band : forall (K : Type) (O : FOps K) c isort (x : list K) m,
  active_set O c isort x = AS_Mask m ->
  n_lower O c (Z.of_nat (length x)) = 0%Z -> n_upper O c (Z.of_nat (length x)) = 0%Z ->
  forall i, (i < length x)%nat -> (nth i m false = true <-> value_ok O c x i).
Proof. exact @zero_counts_keep_band. Qed.
Print Assumptions C16_zero_counts_keep_value_band.

(* the code before fix b753644 (slice [-0:]) violated this: with a zero count it removed every index *)
Theorem C16_unguarded_slice_refuted : forall (K : Type) (O : FOps K) c isort n,
  fltb O (upper_amt c) (f1 O) = true -> n_upper O c n = 0%Z -> removed_hi_unguarded O c isort n = isort.
Proof. exact @unguarded_zero_removes_all. Qed.
Print Assumptions C16_unguarded_slice_refuted.

(* every entry removed by the lower count is <= every entry it keeps, every entry removed by the upper
   count is >= every entry it keeps -- for ANY sorting permutation (any tie-breaking of argsort) *)
Theorem C16_removed_are_extremes : forall (K : Type) (O : FOps K) c (x : list K) p,
  sorting_perm O x p ->
  (forall j i, In j (removed_lo O c p (Z.of_nat (length x))) -> (i < length x)%nat ->
               ~ In i (removed_lo O c p (Z.of_nat (length x))) -> fleb O (nthK O x j) (nthK O x i) = true) /\
  (forall j i, In j (removed_hi O c p (Z.of_nat (length x))) -> (i < length x)%nat ->
               ~ In i (removed_hi O c p (Z.of_nat (length x))) -> fleb O (nthK O x i) (nthK O x j) = true).
Proof.
  intros K O c x p SP.
  exact (conj (fun j i => removed_lo_are_lowest O c x p j i SP) (fun j i => removed_hi_are_highest O c x p j i SP)).
Qed.
Print Assumptions C16_removed_are_extremes.

(* the check run inside Coq on numpy's argsort output is sound (<= transitive, e.g. non-NaN floats, R) *)
Theorem C16_argsort_check_sound : forall (K : Type) (O : FOps K),
  (forall a b c, fleb O a b = true -> fleb O b c = true -> fleb O a c = true) ->
  forall (x : list K) p, sorting_perm_b O x p = true -> sorting_perm O x p.
Proof. exact @sorting_perm_b_sound. Qed.
Print Assumptions C16_argsort_check_sound.

(* ---------------------------------------------------------------- active set, real numbers *)
Open Scope R_scope.

(* kept  <->  lower_rel <= xrel_i <= upper_rel  and not among the lowest k_lo / highest k_hi entries *)
Theorem C16_band_real : forall c isort (x : list R), x <> [] -> ~ (forall v w, In v x -> In w x -> v = w) ->
  exists m, active_set ROps c isort x = AS_Mask m /\ length m = length x /\
    forall i, (i < length x)%nat ->
      (nth i m false = true <->
       lower_rel c <= xrel_R x i <= upper_rel c
       /\ ~ In i (removed_lo ROps c isort (Z.of_nat (length x)))
       /\ ~ In i (removed_hi ROps c isort (Z.of_nat (length x)))).
Proof. exact band_R. Qed.
Print Assumptions C16_band_real.

Theorem C16_xrel_normalised : forall (x : list R) i, (i < length x)%nat -> Rmin_list x <> Rmax_list x ->
  0 <= xrel_R x i <= 1.
Proof. exact xrel_R_range. Qed.
Print Assumptions C16_xrel_normalised.

Theorem C16_min_max_real : forall x : list R, x <> [] ->
  (In (Rmin_list x) x /\ forall v, In v x -> Rmin_list x <= v) /\
  (In (Rmax_list x) x /\ forall v, In v x -> v <= Rmax_list x).
Proof. intros x Hx. exact (conj (Rmin_list_spec x Hx) (Rmax_list_spec x Hx)). Qed.
Print Assumptions C16_min_max_real.

(* Ellipsis (= everything is kept) is returned exactly when all entries are equal *)
Theorem C16_shortcut_all_equal : forall c isort (x : list R),
  active_set ROps c isort x = AS_All <-> (x <> [] /\ forall v w, In v x -> In w x -> v = w).
Proof. exact shortcut_R. Qed.
Print Assumptions C16_shortcut_all_equal.

(* the counts are the requested fractions rounded down to whole entries *)
Theorem C16_counts_round_down : forall (c : @as_cfg R) n, (0 <= n)%Z ->
  (0 <= lower_amt c -> (0 <= n_lower ROps c n)%Z /\
     IZR (n_lower ROps c n) <= IZR n * lower_amt c < IZR (n_lower ROps c n) + 1) /\
  (upper_amt c <= 1 -> (0 <= n_upper ROps c n)%Z /\
     IZR (n_upper ROps c n) <= IZR n * (1 - upper_amt c) < IZR (n_upper ROps c n) + 1).
Proof. intros c n Hn. exact (conj (fun H => n_lower_floor c n H Hn) (fun H => n_upper_floor c n H Hn)). Qed.
Print Assumptions C16_counts_round_down.

(* so a fraction that amounts to less than one entry removes nothing *)
Theorem C16_small_fraction_removes_nothing : forall (c : @as_cfg R) isort n, (0 <= n)%Z ->
  (0 <= lower_amt c -> IZR n * lower_amt c < 1 -> removed_lo ROps c isort n = []) /\
  (upper_amt c <= 1 -> IZR n * (1 - upper_amt c) < 1 -> removed_hi ROps c isort n = []).
Proof.
  intros c isort n Hn.
  exact (conj (small_fraction_removes_nothing_lo c isort n Hn) (small_fraction_removes_nothing_hi c isort n Hn)).
Qed.
Print Assumptions C16_small_fraction_removes_nothing.

Theorem C16_removed_are_extremes_real : forall c (x : list R) p, sorting_perm_R x p ->
  (forall j i, In j (removed_lo ROps c p (Z.of_nat (length x))) -> (i < length x)%nat ->
               ~ In i (removed_lo ROps c p (Z.of_nat (length x))) -> nth j x 0 <= nth i x 0) /\
  (forall j i, In j (removed_hi ROps c p (Z.of_nat (length x))) -> (i < length x)%nat ->
               ~ In i (removed_hi ROps c p (Z.of_nat (length x))) -> nth i x 0 <= nth j x 0).
Proof. exact removed_are_extremes_R. Qed.
Print Assumptions C16_removed_are_extremes_real.

(* ---------------------------------------------------------------- aggregation bounds (any n >= 1) *)
Theorem C16_pnorm_bounds : forall p x M, 0 < p -> all_pos x -> is_max M x ->
  M <= pnorm p x <= Rpower (INR (length x)) (1 / p) * M.
Proof. exact pnorm_bounds_pos. Qed.
Print Assumptions C16_pnorm_bounds.

Theorem C16_pnorm_bounds_min : forall p x m, p < 0 -> all_pos x -> is_min m x ->
  Rpower (INR (length x)) (1 / p) * m <= pnorm p x <= m.
Proof. exact pnorm_bounds_neg. Qed.
Print Assumptions C16_pnorm_bounds_min.

Theorem C16_ks_bounds : forall rho x M, 0 < rho -> is_max M x ->
  M <= ks rho x <= M + ln (INR (length x)) / rho.
Proof. exact ks_bounds_pos. Qed.
Print Assumptions C16_ks_bounds.

Theorem C16_ks_bounds_min : forall rho x m, rho < 0 -> is_min m x ->
  m + ln (INR (length x)) / rho <= ks rho x <= m.
Proof. exact ks_bounds_neg. Qed.
Print Assumptions C16_ks_bounds_min.

Theorem C16_softmax_bounds : forall alpha x M, 0 < alpha -> is_max M x ->
  mean x <= softminmax alpha x <= M.
Proof. exact softmax_bounds_pos. Qed.
Print Assumptions C16_softmax_bounds.

Theorem C16_softmax_bounds_min : forall alpha x m, alpha < 0 -> is_min m x ->
  m <= softminmax alpha x <= mean x.
Proof. exact softmax_bounds_neg. Qed.
Print Assumptions C16_softmax_bounds_min.

Theorem C16_softmax_exact_when_equal : forall alpha x c, x <> [] -> (forall v, In v x -> v = c) ->
  softminmax alpha x = c.
Proof. exact softminmax_all_equal. Qed.
Print Assumptions C16_softmax_exact_when_equal.

(* ---------------------------------------------------------------- AggScaling *)
(* undamped (and, for any damping, the first call): scale factor * approximation = true extreme, exactly *)
Theorem C16_scaling_undamped : forall (sf : option R) (t a : R), a <> 0 -> scaling_step 0 sf t a * a = t.
Proof. exact scaling_undamped. Qed.
Print Assumptions C16_scaling_undamped.

Theorem C16_scaling_first_call : forall (d t a : R), a <> 0 -> scaling_step d None t a * a = t.
Proof. exact scaling_first_call. Qed.
Print Assumptions C16_scaling_first_call.

(* Aggregation._response with undamped scaling outputs the true extreme of the selected entries at every
   call of every history of response() calls, from any register contents *)
Theorem C16_response_undamped : forall (agg ext : list R -> R) (hist : list (list R)) (sf : option R),
  (forall xs, In xs hist -> agg xs <> 0) ->
  response_run agg ext (Some 0) sf hist = map ext hist.
Proof. intros agg ext hist sf. exact (response_run_undamped agg ext hist sf). Qed.
Print Assumptions C16_response_undamped.

(* histories in which the aggregation parameter (p, rho, alpha; also its sign) is re-assigned on the module between
   response() calls: hist = [(aggregation function of the CURRENT parameter, selected entries)].
   A constant parameter is the special case; the supplied-value history evaluated by the correspondence check is an
   instance; undamped scaling returns the true extreme at every call; without scaling call k returns the value for
   the parameter of call k, hence within the bounds for THAT parameter. *)
Theorem C16_history_constant_parameter : forall (agg ext : list R -> R) (damp : option R) (hist : list (list R)) sf,
  response_run agg ext damp sf hist = response_run_par ext damp sf (map (fun xs => (agg, xs)) hist).
Proof. intros agg ext damp hist sf. exact (response_run_is_par agg ext damp hist sf). Qed.
Print Assumptions C16_history_constant_parameter.

Theorem C16_history_supplied_values : forall (is_max : bool) (damp : option QArith_base.Q)
    (hist : list (list QArith_base.Q * QArith_base.Q)) sf,
  response_run_obs is_max damp sf hist =
  response_run_par (qext is_max) damp sf (map (fun q => ((fun _ : list QArith_base.Q => snd q), fst q)) hist).
Proof. intros is_max damp hist sf. exact (response_run_obs_is_par is_max damp hist sf). Qed.
Print Assumptions C16_history_supplied_values.

Theorem C16_continuation_undamped : forall (ext : list R -> R) (hist : list ((list R -> R) * list R)) (sf : option R),
  (forall agg xs, In (agg, xs) hist -> agg xs <> 0) ->
  response_run_par ext (Some 0) sf hist = map (fun q => ext (snd q)) hist.
Proof. intros ext hist sf. exact (response_run_par_undamped ext hist sf). Qed.
Print Assumptions C16_continuation_undamped.

Theorem C16_continuation_unscaled : forall (ext : list R -> R) (hist : list ((list R -> R) * list R)) (sf : option R),
  response_run_par ext None sf hist = map (fun q => fst q (snd q)) hist.
Proof. intros ext hist sf. exact (response_run_par_unscaled ext hist sf). Qed.
Print Assumptions C16_continuation_unscaled.

Theorem C16_continuation_pnorm_bounds : forall (ext : list R -> R) (hist : list (R * list R)) (sf : option R) k p x M,
  nth_error hist k = Some (p, x) -> 0 < p -> all_pos x -> is_max M x ->
  exists y, nth_error (response_run_par ext None sf (map (fun q => (pnorm (fst q), snd q)) hist)) k = Some y /\
            M <= y <= Rpower (INR (length x)) (1 / p) * M.
Proof. intros ext hist sf. exact (pnorm_continuation_bounds ext hist sf). Qed.
Print Assumptions C16_continuation_pnorm_bounds.

(* damping d: s_0 = true_0/approx_0, s_k = d*s_(k-1) + (1-d)*true_k/approx_k, for every call sequence *)
Theorem C16_scaling_recurrence : forall (d : R) (calls : list (R * R)),
  let s := scaling_run d None calls in
  length s = length calls /\
  (forall t a, nth_error calls 0 = Some (t, a) -> nth_error s 0 = Some (t / a)) /\
  (forall k t a sp, nth_error calls (S k) = Some (t, a) -> nth_error s k = Some sp ->
                    nth_error s (S k) = Some (d * sp + (1 - d) * (t / a))).
Proof. exact scaling_recurrence. Qed.
Print Assumptions C16_scaling_recurrence.

(* ---------------------------------------------------------------- non-vacuity (executed instance) *)
Open Scope float_scope.
(* the witness of F01 in binary64: n = 5, upper_amt = 0.9, int(5*(1-0.9)) = 0.  numpy's argsort of x is a
   sorting permutation (checked), the repaired code keeps everything, the unguarded slice kept nothing;
   and a band with both counts active on the same vector. *)
Example C16_nonvacuous :
  let x := [3; 1; 4; 1.5; 5]%float in
  let p := [1; 3; 0; 2; 4]%nat in
  let c := mkCfg 0 1 0 0x1.ccccccccccccdp-1 in
  sorting_perm_b FloatOps x p = true /\
  n_upper FloatOps c 5 = 0%Z /\
  active_set_checked FloatOps c p x = AS_Mask [true; true; true; true; true] /\
  active_set_unguarded FloatOps c p x = AS_Mask [false; false; false; false; false] /\
  active_set_checked FloatOps (mkCfg 0.25 1 0.25 0.75) p x = AS_Mask [true; false; true; false; false].
Proof. vm_compute. repeat split; reflexivity. Qed.
