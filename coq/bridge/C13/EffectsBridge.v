(* Frame condition of Model/GridHist.v, tied to the source for ALL inputs.
   GenC13.EffectsGen is regenerated on every run by tools/gen_C13.py (a conservative effect analysis of the methods of
   DomainDefinition): per method the attributes of self / argument arrays it may write and the attributes its result may
   alias.  Model/GridHist.v builds in that no method writes to the object and every query allocates its result
   (`step_dom`, `step_query_fresh`, `history_pure`); these lemmas say the source has no statement that could do
   otherwise.  A change that assigns / augments / scatters into an attribute (directly, through a view, a loop variable
   or a container), hands out `self.X` or a view of it, or adds class-level state breaks one of them. *)
From Coq Require Import String List Bool.
From GenC13 Require Import EffectsGen.
Import ListNotations.
Open Scope string_scope.

Definition pure_entry (e : string * (list string * list string)) : bool :=
  match snd e with ([], []) => true | _ => false end.

(* no method other than the constructor writes an attribute of self or an argument array, none returns (a view of) an attribute *)
Lemma gen_effects_pure : forallb pure_entry gen_effects = true.
Proof. reflexivity. Qed.

(* the operations of Model/GridHist.v are methods that were analysed *)
Lemma modelled_methods_analysed :
  forallb (fun m => existsb (String.eqb m) (map fst gen_effects))
          ["get_elemnumber"; "get_nodenumber"; "get_node_indices"; "get_node_position"; "get_elemconnectivity";
           "get_dofconnectivity"; "eval_shape_fun"; "eval_shape_fun_der"; "write_to_vti"; "plot"; "update_plot"] = true.
Proof. reflexivity. Qed.
