(* The definitions regenerated from pymoto/common/domain.py (GenC13.GridGen) are the committed model
   (Model/Grid.v), for ALL arguments.  A semantic change of the source breaks one of these lemmas. *)
From Coq Require Import ZArith List Bool Lia.
From Pymoto Require Import Model.Grid.
From GenC13 Require Import GridGen.
Import ListNotations.
Open Scope Z_scope.

Lemma gen_dim_eq nx ny nz : gen_dim nx ny nz = dim {| nelx := nx; nely := ny; nelz := nz |}.
Proof. unfold gen_dim, dim; cbn. destruct (nz =? 0), (ny =? 0); reflexivity. Qed.

Lemma gen_nel_eq nx ny nz : gen_nel nx ny nz = nel {| nelx := nx; nely := ny; nelz := nz |}.
Proof. reflexivity. Qed.

Lemma gen_nnodes_eq nx ny nz : gen_nnodes nx ny nz = nnodes {| nelx := nx; nely := ny; nelz := nz |}.
Proof. reflexivity. Qed.

Lemma gen_elemnodes_eq nx ny nz : gen_elemnodes nx ny nz = elemnodes {| nelx := nx; nely := ny; nelz := nz |}.
Proof. unfold gen_elemnodes, elemnodes. rewrite <- gen_dim_eq. reflexivity. Qed.

Lemma gen_node_numbering_eq d : 1 <= d <= 3 -> gen_node_numbering d = node_numbering d.
Proof. intros H. assert (d = 1 \/ d = 2 \/ d = 3) as [-> | [-> | ->]] by lia; reflexivity. Qed.

Lemma gen_elemnumber_eq nx ny nz i j k :
  gen_elemnumber nx ny nz i j k = elemnumber {| nelx := nx; nely := ny; nelz := nz |} i j k.
Proof. unfold gen_elemnumber, elemnumber; cbn. ring. Qed.

Lemma gen_nodenumber_eq nx ny nz i j k :
  gen_nodenumber nx ny nz i j k = nodenumber {| nelx := nx; nely := ny; nelz := nz |} i j k.
Proof. unfold gen_nodenumber, nodenumber; cbn. ring. Qed.

Lemma gen_node_indices_eq nx ny nz n :
  gen_node_indices nx ny nz n = node_indices {| nelx := nx; nely := ny; nelz := nz |} n.
Proof. unfold gen_node_indices, node_indices. rewrite gen_dim_eq. reflexivity. Qed.

Lemma dim_range g : 1 <= dim g <= 3.
Proof. unfold dim. destruct (nelz g =? 0), (nely g =? 0); lia. Qed.

Lemma gen_elemconn_eq nx ny nz i j k :
  gen_elemconn nx ny nz i j k = elemconn {| nelx := nx; nely := ny; nelz := nz |} i j k.
Proof.
  unfold gen_elemconn, elemconn. rewrite gen_dim_eq, gen_node_numbering_eq by apply dim_range.
  apply map_ext. intros [[n0 n1] n2]. apply gen_nodenumber_eq.
Qed.

Lemma gen_dofconn_row_eq ndof row : gen_dofconn_row ndof row = dofconn_row ndof row.
Proof. unfold gen_dofconn_row, dofconn_row. rewrite Nat2Z.id. reflexivity. Qed.
