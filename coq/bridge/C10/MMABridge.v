(* The definitions regenerated from pymoto/common/mma.py (GenC10.MMAGen) are the committed model
   (Model/MMAform.v), for ALL arguments and for every numeric instance (so in particular for R, which the theorems
   are about, and for Q, which is evaluated).  A semantic change of mmasub / residual / subsolv's initial point,
   loop tests, step length or line search breaks one of these lemmas before any input is tried; renaming locals or
   reordering independent statements does not change the generated terms. *)
From Coq Require Import ZArith String List Bool.
From Pymoto Require Import Base.Num Base.MMANum Model.MMAform.
From GenC10 Require Import MMAGen.
Import ListNotations.

Section Bridge.
  Context {K : Type} `{Num K} `{NumOrd K}.

  (* ---- MMA.mmasub: state kept between calls *)
  Lemma gen_dx_init_eq xmin xmax : gen_dx_init xmin xmax = dx_c xmin xmax.
  Proof. reflexivity. Qed.
  Lemma gen_offset_init_eq a : gen_offset_init a = offset_init_c a.
  Proof. reflexivity. Qed.
  Lemma gen_offset_adapt_eq incr decr bound xval x1 x2 o :
    gen_offset_adapt incr decr bound xval x1 x2 o = offset_adapt_c incr decr bound xval x1 x2 o.
  Proof. reflexivity. Qed.
  Lemma gen_low_eq xval o dx : gen_low xval o dx = low_c xval (shift_c o dx).
  Proof. reflexivity. Qed.
  Lemma gen_upp_eq xval o dx : gen_upp xval o dx = upp_c xval (shift_c o dx).
  Proof. reflexivity. Qed.
  Lemma gen_xold2_next_eq (x1 : K) : gen_xold2_next x1 = xold2_next x1.
  Proof. reflexivity. Qed.
  Lemma gen_xold1_next_eq (xv : K) : gen_xold1_next xv = xold1_next xv.
  Proof. reflexivity. Qed.

  (* ---- MMA.mmasub: what is handed to subsolv *)
  Lemma gen_arg_alfa_eq albefa move xval xmin o dx low :
    gen_arg_alfa albefa move xval xmin o dx low = alfa_c albefa move xval xmin dx (shift_c o dx) low.
  Proof. reflexivity. Qed.
  Lemma gen_arg_beta_eq albefa move xval xmax o dx upp :
    gen_arg_beta albefa move xval xmax o dx upp = beta_c albefa move xval xmax dx (shift_c o dx) upp.
  Proof. reflexivity. Qed.
  Lemma gen_arg_P_1987_eq o dx dg : gen_arg_P_1987 o dx dg = P87_c (dx2_c (shift_c o dx)) (dg_plus_c dg).
  Proof. reflexivity. Qed.
  Lemma gen_arg_Q_1987_eq o dx dg : gen_arg_Q_1987 o dx dg = Q87_c (dx2_c (shift_c o dx)) (dg_min_c dg).
  Proof. reflexivity. Qed.
  Lemma gen_arg_P_2007_eq o dx dg : gen_arg_P_2007 o dx dg = P07_c dx (dx2_c (shift_c o dx)) (dg_plus_c dg) (dg_min_c dg).
  Proof. reflexivity. Qed.
  Lemma gen_arg_Q_2007_eq o dx dg : gen_arg_Q_2007 o dx dg = Q07_c dx (dx2_c (shift_c o dx)) (dg_plus_c dg) (dg_min_c dg).
  Proof. reflexivity. Qed.
  (* composed with dx = xmax - xmin these are the functions the theorems are stated about *)
  Lemma gen_composed_eq albefa move xval xmin xmax o dg :
    let dx := gen_dx_init xmin xmax in
    gen_low xval o dx = low_of xval xmin xmax o /\ gen_upp xval o dx = upp_of xval xmin xmax o /\
    gen_arg_alfa albefa move xval xmin o dx (gen_low xval o dx) = alfa_of albefa move xval xmin xmax o /\
    gen_arg_beta albefa move xval xmax o dx (gen_upp xval o dx) = beta_of albefa move xval xmin xmax o /\
    gen_arg_P_1987 o dx dg = P_of V1987 xmin xmax o dg /\ gen_arg_Q_1987 o dx dg = Q_of V1987 xmin xmax o dg /\
    gen_arg_P_2007 o dx dg = P_of V2007 xmin xmax o dg /\ gen_arg_Q_2007 o dx dg = Q_of V2007 xmin xmax o dg.
  Proof. cbv zeta. repeat split; reflexivity. Qed.

  (* right-hand side: np.dot(P, 1/shift) + np.dot(Q, 1/shift) - g, the matrices being the ones handed to subsolv *)
  Lemma gen_rhs_ops_eq o dx dg :
    gen_rhs_op1_1987 o dx dg = gen_arg_P_1987 o dx dg /\ gen_rhs_op3_1987 o dx dg = gen_arg_Q_1987 o dx dg /\
    gen_rhs_op1_2007 o dx dg = gen_arg_P_2007 o dx dg /\ gen_rhs_op3_2007 o dx dg = gen_arg_Q_2007 o dx dg /\
    gen_rhs_op2_1987 o dx = ndiv (nofZ 1) (shift_c o dx) /\ gen_rhs_op4_1987 o dx = ndiv (nofZ 1) (shift_c o dx) /\
    gen_rhs_op2_2007 o dx = ndiv (nofZ 1) (shift_c o dx) /\ gen_rhs_op4_2007 o dx = ndiv (nofZ 1) (shift_c o dx).
  Proof. repeat split; reflexivity. Qed.
  Lemma gen_rhs_row_eq sh P Q g :
    gen_rhs_row P (map (fun s => ndiv (nofZ 1) s) sh) Q (map (fun s => ndiv (nofZ 1) s) sh) g = rhs_row sh P Q g.
  Proof. reflexivity. Qed.
  Lemma gen_b_eq (rhs : list K) : gen_b rhs = b_of_rhs rhs.
  Proof. reflexivity. Qed.
  Lemma gen_versions_eq : gen_versions = version_order.
  Proof. reflexivity. Qed.
  Lemma gen_subsolv_binding_eq : gen_subsolv_binding = subsolv_binding.
  Proof. reflexivity. Qed.
  Lemma gen_returned_index_eq : gen_returned_index = returned_index.
  Proof. reflexivity. Qed.

  (* ---- residual *)
  Lemma gen_residual_eq x y z lam xsi eta mu zet s upp low P0 P1 Q0 Q1 epsi a0 a b c d alfa beta :
    gen_residual x y z lam xsi eta mu zet s upp low P0 P1 Q0 Q1 epsi a0 a b c d alfa beta =
    residual x y z lam xsi eta mu zet s upp low P0 P1 Q0 Q1 epsi a0 a b c d alfa beta.
  Proof. reflexivity. Qed.

  (* ---- subsolv: initial point *)
  Lemma gen_epsi0_eq : gen_epsi0 = epsi0.
  Proof. reflexivity. Qed.
  Lemma gen_init_eq (D : sdata K) x0 :
    let st := init_state D x0 in
    sx st = match x0 with None => gen_x_init_mid (d_alfa D) (d_beta D) | Some v => gen_x_init_x0 (d_alfa D) (d_beta D) v end /\
    sy st = gen_y_init (d_a D) /\ sz st = gen_z_init /\ slam st = gen_lam_init (d_a D) /\
    sxsi st = gen_xsi_init (d_alfa D) (sx st) /\ seta st = gen_eta_init (d_beta D) (sx st) /\
    smu st = gen_mu_init (d_c D) /\ szet st = gen_zet_init /\ ss st = gen_s_init (d_a D).
  Proof. cbv zeta. destruct x0; repeat split; reflexivity. Qed.
  Lemma gen_rows_eq (P : list (list K)) :
    gen_P0 P = P0_of P /\ gen_Q0 P = P0_of P /\ gen_P1 P = P1_of P /\ gen_Q1 P = P1_of P.
  Proof. repeat split; reflexivity. Qed.

  (* ---- subsolv: loop tests *)
  Lemma gen_outer_test_eq epsimin epsi : gen_outer_test epsimin epsi = outer_test epsimin epsi.
  Proof. reflexivity. Qed.
  Lemma gen_epsi_next_eq epsi : gen_epsi_next epsi = epsi_next epsi.
  Proof. reflexivity. Qed.
  Lemma gen_inner_test_eq epsi residu ittt : gen_inner_test epsi residu ittt = inner_test epsi (residumax residu) ittt maxittt.
  Proof. reflexivity. Qed.
  Lemma gen_ls_fuel_eq : gen_ls_fuel = maxittt.
  Proof. reflexivity. Qed.
  Lemma gen_ls_accept_eq rn nn : gen_ls_accept rn nn = ls_accept rn nn.
  Proof. reflexivity. Qed.
  Lemma gen_steg_next_eq steg : gen_steg_next steg = steg_next steg.
  Proof. reflexivity. Qed.

  (* ---- subsolv: step length and line-search update *)
  Lemma gen_step_length_eq (D : sdata K) (st d : sstate K) :
    gen_steg (d_alfa D) (d_beta D) (sx st) (sy st) (sz st) (slam st) (sxsi st) (seta st) (smu st) (szet st) (ss st)
             (sx d) (sy d) (sz d) (slam d) (sxsi d) (seta d) (smu d) (szet d) (ss d)
    = step_length D st d.
  Proof. reflexivity. Qed.
  Lemma gen_advance_eq (st d : sstate K) steg :
    advance st d steg =
    {| sx := gen_new_x (sx st) (sx d) steg; sy := gen_new_y (sy st) (sy d) steg; sz := gen_new_z (sz st) (sz d) steg;
       slam := gen_new_lam (slam st) (slam d) steg; sxsi := gen_new_xsi (sxsi st) (sxsi d) steg;
       seta := gen_new_eta (seta st) (seta d) steg; smu := gen_new_mu (smu st) (smu d) steg;
       szet := gen_new_zet (szet st) (szet d) steg; ss := gen_new_s (ss st) (ss d) steg |}.
  Proof. reflexivity. Qed.
End Bridge.
