(* The definitions regenerated from pymoto/common/mma.py (GenC10.MMAGen) are the committed model
   (Model/MMAform.v), for ALL arguments and for every numeric instance (so in particular for R, which the theorems
   are about, and for Q, which is evaluated).  A semantic change of mmasub / residual / subsolv's initial point,
   loop tests, step length or line search breaks one of these lemmas before any input is tried. *)
From Coq Require Import ZArith String List Bool.
From Pymoto Require Import Base.Num Base.MMANum Model.MMAform.
From GenC10 Require Import MMAGen.
Import ListNotations.

Section Bridge.
  Context {K : Type} `{Num K} `{NumOrd K}.

  (* ---- MMA.mmasub *)
  Lemma gen_dx_init_eq xmin xmax : gen_dx_init xmin xmax = dx_c xmin xmax.
  Proof. reflexivity. Qed.
  Lemma gen_offset_init_eq a : gen_offset_init a = offset_init_c a.
  Proof. reflexivity. Qed.
  Lemma gen_offset_adapt_eq incr decr bound xval x1 x2 o :
    gen_offset_adapt incr decr bound xval x1 x2 o = offset_adapt_c incr decr bound xval x1 x2 o.
  Proof. reflexivity. Qed.
  Lemma gen_shift_eq o dx : gen_shift o dx = shift_c o dx.
  Proof. reflexivity. Qed.
  Lemma gen_low_eq xval sh : gen_low xval sh = low_c xval sh.
  Proof. reflexivity. Qed.
  Lemma gen_upp_eq xval sh : gen_upp xval sh = upp_c xval sh.
  Proof. reflexivity. Qed.
  Lemma gen_alfa_eq albefa move xval xmin dx sh low :
    gen_alfa albefa move xval xmin dx sh low = alfa_c albefa move xval xmin dx sh low.
  Proof. reflexivity. Qed.
  Lemma gen_beta_eq albefa move xval xmax dx sh upp :
    gen_beta albefa move xval xmax dx sh upp = beta_c albefa move xval xmax dx sh upp.
  Proof. reflexivity. Qed.
  Lemma gen_dg_plus_eq dg : gen_dg_plus dg = dg_plus_c dg.
  Proof. reflexivity. Qed.
  Lemma gen_dg_min_eq dg : gen_dg_min dg = dg_min_c dg.
  Proof. reflexivity. Qed.
  Lemma gen_dx2_eq sh : gen_dx2 sh = dx2_c sh.
  Proof. reflexivity. Qed.
  Lemma gen_P_1987_eq d2 dgp : gen_P_1987 d2 dgp = P87_c d2 dgp.
  Proof. reflexivity. Qed.
  Lemma gen_Q_1987_eq d2 dgm : gen_Q_1987 d2 dgm = Q87_c d2 dgm.
  Proof. reflexivity. Qed.
  Lemma gen_P_2007_eq dx d2 dgp dgm : gen_P_2007 dx d2 dgp dgm = P07_c dx d2 dgp dgm.
  Proof. reflexivity. Qed.
  Lemma gen_Q_2007_eq dx d2 dgp dgm : gen_Q_2007 dx d2 dgp dgm = Q07_c dx d2 dgp dgm.
  Proof. reflexivity. Qed.
  Lemma gen_rhs_row_eq sh P Q g : gen_rhs_row sh P Q g = rhs_row sh P Q g.
  Proof. reflexivity. Qed.
  Lemma gen_b_eq (rhs : list K) : gen_b rhs = b_of_rhs rhs.
  Proof. reflexivity. Qed.
  Lemma gen_xold2_next_eq (x1 : K) : gen_xold2_next x1 = xold2_next x1.
  Proof. reflexivity. Qed.
  Lemma gen_xold1_next_eq (xv : K) : gen_xold1_next xv = xold1_next xv.
  Proof. reflexivity. Qed.
  Lemma gen_versions_eq : gen_versions = version_order.
  Proof. reflexivity. Qed.
  Lemma gen_subsolv_binding_eq : gen_subsolv_binding = subsolv_binding.
  Proof. reflexivity. Qed.
  Lemma gen_returned_design_eq : gen_returned_design = returned_design.
  Proof. reflexivity. Qed.

  (* ---- residual *)
  Lemma gen_residual_eq x y z lam xsi eta mu zet s upp low P0 P1 Q0 Q1 epsi a0 a b c d alfa beta :
    gen_residual x y z lam xsi eta mu zet s upp low P0 P1 Q0 Q1 epsi a0 a b c d alfa beta =
    residual x y z lam xsi eta mu zet s upp low P0 P1 Q0 Q1 epsi a0 a b c d alfa beta.
  Proof. reflexivity. Qed.

  (* ---- subsolv: initial point *)
  Lemma gen_epsi0_eq : gen_epsi0 = epsi0.
  Proof. reflexivity. Qed.
  Lemma gen_maxittt_eq : gen_maxittt = maxittt.
  Proof. reflexivity. Qed.
  Lemma gen_x_init_mid_eq alfa beta : gen_x_init_mid alfa beta = x_init_mid alfa beta.
  Proof. reflexivity. Qed.
  Lemma gen_x_init_x0_eq alfa beta x0 : gen_x_init_x0 alfa beta x0 = x_init_x0 alfa beta x0.
  Proof. reflexivity. Qed.
  Lemma gen_init_rest_eq (D : sdata K) x0 :
    let st := init_state D x0 in let m := length (d_a D) in
    sy st = gen_y_init m /\ sz st = gen_z_init /\ slam st = gen_lam_init m /\
    sxsi st = gen_xsi_init (d_alfa D) (sx st) /\ seta st = gen_eta_init (d_beta D) (sx st) /\
    smu st = gen_mu_init (d_c D) /\ szet st = gen_zet_init /\ ss st = gen_s_init m /\
    sx st = match x0 with None => gen_x_init_mid (d_alfa D) (d_beta D) | Some v => gen_x_init_x0 (d_alfa D) (d_beta D) v end.
  Proof. cbv zeta. destruct x0; repeat split; reflexivity. Qed.
  Lemma gen_rows_eq (P : list (list K)) :
    gen_P0 P = P0_of P /\ gen_Q0 P = P0_of P /\ gen_P1 P = P1_of P /\ gen_Q1 P = P1_of P.
  Proof. repeat split; reflexivity. Qed.

  (* ---- subsolv: loop tests *)
  Lemma gen_outer_test_eq epsimin epsi : gen_outer_test epsimin epsi = outer_test epsimin epsi.
  Proof. reflexivity. Qed.
  Lemma gen_epsi_next_eq epsi : gen_epsi_next epsi = epsi_next epsi.
  Proof. reflexivity. Qed.
  Lemma gen_residumax_eq r : gen_residumax r = residumax r.
  Proof. reflexivity. Qed.
  Lemma gen_inner_test_eq epsi rmax ittt mx : gen_inner_test epsi rmax ittt mx = inner_test epsi rmax ittt mx.
  Proof. reflexivity. Qed.
  Lemma gen_ls_accept_eq rn nn : gen_ls_accept rn nn = ls_accept rn nn.
  Proof. reflexivity. Qed.
  Lemma gen_steg_next_eq steg : gen_steg_next steg = steg_next steg.
  Proof. reflexivity. Qed.

  (* ---- subsolv: step length and line-search update *)
  Lemma gen_step_length_eq (D : sdata K) (st d : sstate K) :
    gen_steg (gen_stmxx (gen_stmy (sy st) (sy d)) (gen_stmz (sz st) (sz d)) (gen_stmlam (slam st) (slam d))
                        (gen_stmxsi (sxsi st) (sxsi d)) (gen_stmeta (seta st) (seta d)) (gen_stmmu (smu st) (smu d))
                        (gen_stmzet (szet st) (szet d)) (gen_stms (ss st) (ss d)))
             (gen_stmalfa (d_alfa D) (sx st) (sx d)) (gen_stmbeta (d_beta D) (sx st) (sx d))
    = step_length D st d.
  Proof. reflexivity. Qed.
  Lemma gen_advance_eq (st d : sstate K) steg :
    advance st d steg =
    {| sx := gen_new_x (sx st) (sx d) steg; sy := gen_new_y (sy st) (sy d) steg; sz := gen_new_z (sz st) (sz d) steg;
       slam := gen_new_lam (slam st) (slam d) steg; sxsi := gen_new_xsi (sxsi st) (sxsi d) steg;
       seta := gen_new_eta (seta st) (seta d) steg; smu := gen_new_mu (smu st) (smu d) steg;
       szet := gen_new_zet (szet st) (szet d) steg; ss := gen_new_s (ss st) (ss d) steg |}.
  Proof. reflexivity. Qed.
End Bridge.
