(* The variable handling of MMA.response regenerated from pymoto/common/mma.py (GenC10.VarsGen: expansion of xmin / xmax / move
   against the design vector, conversion to float64, write-back of the design to the variable signals) is the committed typed
   model of Model/MMAvars.v (expand_bound_t / expand_move_t / writeback), for ALL arguments, every value type and every
   conversion function.  Hence the theorems about the model hold for the generated functions: whatever the dtype of the
   design vector and of the specification, what the generated code leaves in xmin / xmax is float64, and against a float64
   design vector (which the generated _concatenate_to_array always returns: UtilsBridge.gen_concat_dtype_float64) a per-signal
   value lands on the range of its signal without truncation.  A change of np.zeros_like(xval), of the per-signal test, of
   the slice bounds, of the length tests or of the float conversion breaks one of these lemmas before any input is tried. *)
From Coq Require Import Arith List Bool.
From Pymoto Require Import Model.MMAvars Proofs.MMAvarsP.
From GenC10 Require Import VarsGen.
Import ListNotations.

Section Bridge.
  Context {A : Type}.
  Variable d : A.
  Variable conv : dtype -> dtype -> A -> A.

  Theorem gen_expand_xmin_eq zero xval nvars cum s :
    gen_expand_xmin d conv zero xval nvars cum s = expand_bound_t d conv zero xval nvars cum s.
  Proof.
    unfold gen_expand_xmin, expand_bound_t, gen_xmin_len_bad, gen_xmin_final, gen_xmin_scalar, gen_xmin_is_per_signal,
      gen_xmin_fill_count, gen_xmin_fill_init, gen_xmin_fill_step, fill_ranges_t.
    destruct s as [sdt a | sdt l]; cbn [fst snd].
    - destruct (_ =? _); reflexivity.
    - destruct (length l =? nvars); cbn [fst snd]; destruct (_ =? _); reflexivity.
  Qed.

  Theorem gen_expand_xmax_eq zero xval nvars cum s :
    gen_expand_xmax d conv zero xval nvars cum s = expand_bound_t d conv zero xval nvars cum s.
  Proof.
    unfold gen_expand_xmax, expand_bound_t, gen_xmax_len_bad, gen_xmax_final, gen_xmax_scalar, gen_xmax_is_per_signal,
      gen_xmax_fill_count, gen_xmax_fill_init, gen_xmax_fill_step, fill_ranges_t.
    destruct s as [sdt a | sdt l]; cbn [fst snd].
    - destruct (_ =? _); reflexivity.
    - destruct (length l =? nvars); cbn [fst snd]; destruct (_ =? _); reflexivity.
  Qed.

  Theorem gen_expand_move_eq zero xval nvars cum s :
    gen_expand_move d conv zero xval nvars cum s = expand_move_t d conv zero xval nvars cum s.
  Proof.
    unfold gen_expand_move, expand_move_t, gen_move_len_bad, gen_move_final, gen_move_is_per_signal,
      gen_move_fill_count, gen_move_fill_init, gen_move_fill_step, fill_ranges_t.
    destruct s as [sdt a | sdt l]; cbn [fst snd]; [reflexivity|].
    destruct (length l =? nvars); [reflexivity|]. destruct (length l =? length (snd xval)); reflexivity.
  Qed.

  Theorem gen_writeback_eq (xval : list A) cum nvars :
    map (gen_writeback_item d xval cum) (seq 0 nvars) = writeback d xval cum nvars.
  Proof. reflexivity. Qed.

  (* "Calculate and save sensitivities": the generated row of one response is Model/MMAvars.sens_row, hence
     (MMAvarsP.sens_row_blocks) block i of the generated row is the sensitivity signal i holds in THIS iteration, or
     0*state when it holds none; a row / matrix kept across iterations, or entries left unwritten for a None, is rejected by
     the translator or breaks this lemma before any input is tried *)
  Theorem gen_sens_row_eq (zmul : A -> A) states sens : gen_sens_row zmul states sens = sens_row zmul states sens.
  Proof. reflexivity. Qed.

  Theorem gen_sens_row_blocks (zmul : A -> A) (states : list (sval A)) (sens : list (option (sval A))) :
    Forall2 sens_fits states sens ->
    length (gen_sens_row zmul states sens) = total states /\
    forall i, i < length states ->
      slice (gen_sens_row zmul states sens) (nth i (cumlens states) 0) (nth (S i) (cumlens states) 0)
      = match nth i sens None with Some g => flat g | None => map zmul (flat (nth i states (Arr []))) end.
  Proof. rewrite gen_sens_row_eq. apply sens_row_blocks. Qed.

  (* ---- consequences for the generated code *)
  Theorem gen_expand_dtype_float64 zero xval nvars cum s r :
    (gen_expand_xmin d conv zero xval nvars cum s = Some r -> fst r = F64) /\
    (gen_expand_xmax d conv zero xval nvars cum s = Some r -> fst r = F64).
  Proof. rewrite gen_expand_xmin_eq, gen_expand_xmax_eq. split; apply expand_t_dtype. Qed.

  Theorem gen_expand_per_signal_exact : (forall a, conv F64 F64 a = a) ->
    forall (vs : list (tstate A)) sdt (l : list A) zero, existsb is_tnone vs = false -> length l = length vs ->
    exists xs cum e,
      concat_to_array_t conv vs = Some ((F64, xs), cum) /\
      gen_expand_xmin d conv zero (F64, xs) (length vs) cum (TBList sdt l) = Some (F64, e) /\
      gen_expand_xmax d conv zero (F64, xs) (length vs) cum (TBList sdt l) = Some (F64, e) /\
      length e = length xs /\
      (forall i j, i < length vs -> nth i cum 0 <= j < nth (S i) cum 0 -> nth j e d = conv sdt F64 (nth i l d)).
  Proof.
    intros Hc vs sdt l zero Hn Hl.
    destruct (typed_per_signal_bound d conv Hc vs sdt l zero Hn Hl) as [xs [cum [e [E1 [E2 [E3 [E4 _]]]]]]].
    exists xs, cum, e. rewrite gen_expand_xmin_eq, gen_expand_xmax_eq. repeat split; assumption.
  Qed.
End Bridge.
