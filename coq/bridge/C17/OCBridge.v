(* The definitions regenerated from pymoto/routines.py (GenC17.OCGen) are the committed model (Model/OC.v) for
   ALL arguments and every instance of the number signature.  A semantic change of the source (update formula,
   bisection step, stopping tests, gradient clipping, defaults) changes the generated term and breaks a lemma. *)
From Coq Require Import ZArith List Bool PrimFloat.
From Pymoto Require Import Base.PyFloat Model.Concat Model.OC.
From GenC17 Require Import OCGen.
Import ListNotations.

Section Bridge.
  Context {K : Type} (P : OOps K).

  Lemma gen_oc_elem_eq lam mv xmn xmx x g : gen_oc_elem P lam mv xmn xmx x g = oc_elem P lam mv xmn xmx x g.
  Proof. reflexivity. Qed.

  Lemma gen_clip_grad_eq g : map (gen_clip_grad P) g = clip_grad P g.
  Proof. reflexivity. Qed.

  Lemma gen_rel_fchange_eq f fprev : gen_rel_fchange P f fprev = rel_fchange P f fprev.
  Proof. reflexivity. Qed.

  Lemma gen_rel_stepsize_eq xval xn : gen_rel_stepsize P xval xn = rel_stepsize P xval xn.
  Proof. reflexivity. Qed.

  (* one turn of the while loop, written with the generated pieces *)
  Lemma bisect_step pr maxvol x g fuel l1 l2 last :
    bisect P pr maxvol x g (S fuel) l1 l2 last =
    if gen_while_test P (l1l2tol pr) l1 l2 then
      let lmid := gen_lmid P l1 l2 in
      if gen_guard_test P l1 l2 lmid then BisDone l1 l2 last else
      let xn := map (fun q => match q with (i, (xi, gi)) =>
                       gen_oc_elem P lmid (move pr) (bget P (bmin pr) i) (bget P (bmax pr) i) xi gi end)
                    (combine (seq 0 (length x)) (combine x g)) in
      let ab := gen_bis_update P maxvol (osum P xn) l1 l2 lmid in
      bisect P pr maxvol x g fuel (fst ab) (snd ab) (Some xn)
    else BisDone l1 l2 last.
  Proof.
    cbn [bisect]. unfold gen_while_test, gen_bis_update, gen_lmid, gen_guard_test.
    destruct (oltb P (l1l2tol pr) (osub P l2 l1)); [|reflexivity].
    cbn zeta. destruct (_ || _); [reflexivity|].
    fold (oc_xnew P pr (omul P (ohalf P) (oadd P l1 l2)) x g).
    destruct (oltb P (o0 P) _); reflexivity.
  Qed.

  Lemma bisect_exit pr maxvol x g l1 l2 last :
    bisect P pr maxvol x g 0 l1 l2 last =
    if gen_while_test P (l1l2tol pr) l1 l2 then BisOutOfFuel else BisDone l1 l2 last.
  Proof. reflexivity. Qed.

  (* the bracket-growing loop (fix of F19): the update it evaluates, clipped to the precomputed bounds, is the same
     entry function as in the bisection; its lower bounds are oc_lower; one turn written with the generated pieces *)
  Lemma gen_grow_elem_eq l2 mv xmn xmx x g :
    gen_grow_elem P l2 (gen_lower P mv xmn x) (gen_upper P mv xmx x) x g = oc_elem P l2 mv xmn xmx x g.
  Proof. reflexivity. Qed.

  Lemma gen_lower_eq pr x :
    map (fun q => gen_lower P (move pr) (bget P (bmin pr) (fst q)) (snd q)) (combine (seq 0 (length x)) x) = oc_lower P pr x.
  Proof. reflexivity. Qed.

  Lemma grow_step pr maxvol x g fuel l2 xn :
    grow P pr maxvol x g (S fuel) l2 xn =
    if gen_grow_test P maxvol (osum P xn) (any_above P xn (oc_lower P pr x)) l2
    then let l2' := gen_grow_step P l2 in grow P pr maxvol x g fuel l2' (oc_xnew P pr l2' x g)
    else GrowDone l2 xn.
  Proof. reflexivity. Qed.

  Lemma grow_exit pr maxvol x g l2 xn :
    grow P pr maxvol x g 0 l2 xn =
    if gen_grow_test P maxvol (osum P xn) (any_above P xn (oc_lower P pr x)) l2 then GrowOutOfFuel else GrowDone l2 xn.
  Proof. reflexivity. Qed.

  (* one turn of the outer loop, written with the generated tests *)
  Lemma oc_loop_step pr obs maxvol bfuel cum n it xval states f :
    oc_loop P pr obs maxvol bfuel cum (S n) it xval states f =
    let fg := obs it states in
    cons_design xval states
      (if gen_tolf_test P (gen_rel_fchange P (fst fg) f) (tolf pr) then mkTrace [] [] StopTolF xval states
       else match concatenate_to_array (obtain_sensitivities P (snd fg) states) with
            | None => mkTrace [] [] StopValueError xval states
            | Some (g, _) =>
              cons_warn (gen_warn_test P (warn_eps pr) (omaxl P g))
                (let g' := map (gen_clip_grad P) g in
                 match grow P pr maxvol xval g' bfuel (l2init pr) (oc_xnew P pr (l2init pr) xval g') with
                 | GrowOutOfFuel => mkTrace [] [] StopOutOfFuel xval states
                 | GrowDone l2g xng =>
                 match bisect P pr maxvol xval g' bfuel (l1init pr) l2g (Some xng) with
                 | BisOutOfFuel => mkTrace [] [] StopOutOfFuel xval states
                 | BisDone _ _ None => mkTrace [] [] StopUnbound xval states
                 | BisDone _ _ (Some xn) =>
                     if gen_tolx_test P (gen_rel_stepsize P xval xn) (tolx pr) then mkTrace [] [] StopTolX xval states
                     else oc_loop P pr obs maxvol bfuel cum n (S it) xn (write_back (length states) xn cum) (fst fg)
                 end
                 end)
            end).
  Proof. reflexivity. Qed.
End Bridge.

Lemma gen_default_params_eq : gen_default_params = default_params.
Proof. reflexivity. Qed.

(* the cap of the bracket-growing loop *)
Lemma gen_huge_eq : PFlt gen_huge = ohuge PyOOps /\ gen_huge = ohuge FloatOOps.
Proof. split; reflexivity. Qed.
