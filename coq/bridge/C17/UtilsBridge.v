(* C17: minimize_oc builds its design vector with the same helpers as minimize_mma.
   The definitions regenerated from pymoto/utils.py (GenC17.UtilsGen: _concatenate_to_array, _split_from_array) are the
   committed typed model of Model/MMAvars.v, for ALL arguments, every value type and every conversion function.  Hence
   the theorems about the model hold for the generated functions: in particular the array returned by the generated
   _concatenate_to_array is float64 whatever the dtypes of the entries.  A change of these helpers (another initial
   array, another way of joining, a dropped None test, other index arithmetic) breaks one of these lemmas before any
   input is tried; renaming locals does not change the generated terms. *)
From Coq Require Import Arith List Bool.
From Coq Require Import ZArith Lia.
From Pymoto Require Import Model.Concat Proofs.ConcatP Model.MMAvars Proofs.MMAvarsP Proofs.ConcatTypedP.
From GenC17 Require Import UtilsGen.
Import ListNotations.

Section Bridge.
  Context {A : Type}.
  Variable conv : dtype -> dtype -> A -> A.

  Lemma gen_concat_init_eq nvars : gen_concat_init (A := A) nvars = concat_init nvars.
  Proof. reflexivity. Qed.
  Lemma gen_concat_body_eq i dt v st : gen_concat_body conv i dt v st = concat_body conv i dt v st.
  Proof. reflexivity. Qed.
  Lemma gen_concat_loop_eq vs : forall i st, gen_concat_loop conv i vs st = concat_loop conv i vs st.
  Proof. induction vs as [|[|dt v] vs IH]; intros i st; cbn; [reflexivity | reflexivity | apply IH]. Qed.
  Theorem gen_concatenate_to_array_eq vs : gen_concatenate_to_array conv vs = concat_to_array_t conv vs.
  Proof. apply gen_concat_loop_eq. Qed.

  Lemma gen_split_assert_eq (vals : list A) cum : gen_split_assert vals cum = split_assert vals cum.
  Proof. reflexivity. Qed.
  Lemma gen_split_count_eq cum : gen_split_count cum = split_count cum.
  Proof. reflexivity. Qed.
  Lemma gen_split_item_eq (vals : list A) cum i : gen_split_item vals cum i = split_item vals cum i.
  Proof. reflexivity. Qed.
  Theorem gen_split_from_array_eq (vals : list A) cum : gen_split_from_array vals cum = split_from_array vals cum.
  Proof. reflexivity. Qed.

  (* ---- consequences for the generated code *)
  Theorem gen_concat_dtype_float64 vs r : gen_concatenate_to_array conv vs = Some r -> fst (fst r) = F64.
  Proof. rewrite gen_concatenate_to_array_eq. apply concat_t_dtype. Qed.

  Theorem gen_concat_none_rejected vs : gen_concatenate_to_array conv vs = None <-> existsb is_tnone vs = true.
  Proof. rewrite gen_concatenate_to_array_eq. apply concat_t_none. Qed.

  Theorem gen_concat_values : (forall a, conv F64 F64 a = a) -> forall vs, existsb is_tnone vs = false ->
    gen_concatenate_to_array conv vs
    = Some ((F64, fst (concat_to_array (map (untag conv) vs))), snd (concat_to_array (map (untag conv) vs))).
  Proof. intros Hc vs Hn. rewrite gen_concatenate_to_array_eq. apply concat_t_spec; assumption. Qed.

  Theorem gen_split_concat : (forall a, conv F64 F64 a = a) -> forall vs r, gen_concatenate_to_array conv vs = Some r ->
    gen_split_from_array (snd (fst r)) (snd r) = Some (map flat (map (untag conv) vs)).
  Proof.
    intros Hc vs r E. rewrite gen_split_from_array_eq.
    destruct (existsb is_tnone vs) eqn:Hn.
    - apply gen_concat_none_rejected in Hn. rewrite Hn in E. discriminate.
    - rewrite (gen_concat_values Hc vs Hn) in E. injection E as <-. cbn [fst snd]. apply split_concat.
  Qed.
End Bridge.

(* ---- the tie to the hand model of C17 (Model/Concat.v, which carries no dtypes): forgetting the dtype tags, the
   generated _concatenate_to_array is Concat.concatenate_to_array (same values in the same order, same cumulative
   indices, ValueError for the same inputs). *)
Theorem gen_concat_is_Concat {K : Type} (vs : list (tstate K)) :
  option_map (fun r => (snd (fst r), map Z.of_nat (snd r))) (gen_concatenate_to_array idc vs)
  = Concat.concatenate_to_array (map to_pstate vs).
Proof. rewrite gen_concatenate_to_array_eq. apply typed_concat_is_Concat. Qed.
