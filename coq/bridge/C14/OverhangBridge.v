(* The tables and index arithmetic regenerated from pymoto/modules/filter.py (GenC14.OverhangGen: start index,
   orthogonal axes with the 2-D swap, loop condition and increment, support-offset table, support layer, masks)
   are the committed model (Model/Overhang.v), for ALL arguments.  A semantic change of the source breaks one of
   these lemmas before any input is tried. *)
From Coq Require Import ZArith List Bool Lia.
From Pymoto Require Import Model.Grid Model.Overhang Model.OverhangHist.
From GenC14 Require Import OverhangGen.
Import ListNotations.
Open Scope Z_scope.

Lemma gen_ind_start_eq g dl dx : gen_ind_start (nlay g dl) dx = ind_start g dl dx.
Proof. reflexivity. Qed.

Lemma gen_dir_orth_eq g dl : gen_dir_orth (dim g) dl = dir_orth g dl.
Proof. reflexivity. Qed.

Lemma gen_layer_offsets_eq n : gen_layer_offsets n = layer_offsets n.
Proof. reflexivity. Qed.

Lemma gen_mask_eq m1 m2 p : gen_mask m1 m2 (fst p) (snd p) = inside m1 m2 p.
Proof. unfold gen_mask, inside. rewrite !Z.geb_leb. reflexivity. Qed.

(* one unfolding of the model's loop is the generated condition / increment *)
Lemma gen_loop_eq {T} (smin : T -> T -> T) (smax : list T -> T) (dflt : T) g dl dx nsamp f x xp ind :
  sweep_loop smin smax dflt g dl dx nsamp (S f) x xp ind =
  if gen_loop_cond (nlay g dl) ind
  then sweep_loop smin smax dflt g dl dx nsamp f x (layer_step smin smax dflt g dl dx nsamp x xp ind) (gen_next_layer ind dx)
  else xp.
Proof. reflexivity. Qed.

(* the supports of the model are read from the generated support layer, through the generated masks and table *)
Lemma gen_supports_eq {T} (dflt : T) g dl dx nsamp (xprint : list T) L p :
  supports dflt g dl dx nsamp xprint L p =
  map (fun o => getT dflt xprint (elnum g dl (o1 g dl) (o2 g dl) (gen_support_layer L dx) (fst p + fst o) (snd p + snd o)))
      (filter (fun o => gen_mask (n1 g dl) (n2 g dl) (fst p + fst o) (snd p + snd o)) (gen_layer_offsets nsamp)).
Proof.
  unfold supports. change (gen_layer_offsets nsamp) with (layer_offsets nsamp). unfold gen_support_layer. f_equal.
  apply filter_ext. intros o. symmetry. apply (gen_mask_eq (n1 g dl) (n2 g dl) (padd p o)).
Qed.

(* the frame of an instance (Model/OverhangHist.v): the class has exactly these methods and no class-level attribute;
   _response writes self.smax only (+ q, shift, backshift through set_parameters), _sensitivity writes nothing on
   self; no other attribute of self is mentioned.  (The generator additionally refuses method calls on instance
   state, out= arguments on it, nested functions, global statements and reflective access.) *)
Lemma gen_frame_eq :
  gen_methods = filter_methods /\ gen_class_attrs = class_level_attrs /\
  gen_prepare_writes = prepare_writes /\ gen_set_parameters_writes = set_parameters_writes /\
  gen_response_writes = response_writes /\ gen_sensitivity_writes = sensitivity_writes /\
  gen_response_mentions = response_mentions /\ gen_sensitivity_mentions = sensitivity_mentions.
Proof. repeat split; reflexivity. Qed.
