(* The matrix predicates regenerated from pymoto/solvers/matrix_checks.py (GenC05.ChecksGen) are the committed
   model Model/MatrixChecks.v, for ALL values of the atoms (every container branch, every offsets array). *)
From Coq Require Import ZArith List Bool.
From Pymoto Require Import Model.MatrixChecks Proofs.MatrixChecksP.
From GenC05 Require Import ChecksGen.

Ltac split_ifs :=
  repeat (cbn [negb];
          match goal with
          | |- context [if negb ?b then _ else _] => destruct b
          | |- context [if ?b then _ else _] => destruct b
          end).

Lemma gen_is_cvxopt_spmatrix_eq a : gen_is_cvxopt_spmatrix a = is_cvxopt_spmatrix a.
Proof. reflexivity. Qed.

Lemma gen_matrix_is_sparse_eq a : gen_matrix_is_sparse a = matrix_is_sparse a.
Proof. reflexivity. Qed.

Lemma gen_matrix_is_complex_eq a : gen_matrix_is_complex a = matrix_is_complex a.
Proof.
  unfold gen_matrix_is_complex, matrix_is_complex. rewrite gen_is_cvxopt_spmatrix_eq.
  unfold is_cvxopt_spmatrix. split_ifs; reflexivity.
Qed.

Lemma gen_matrix_is_diagonal_eq a : gen_matrix_is_diagonal a = matrix_is_diagonal a.
Proof.
  unfold gen_matrix_is_diagonal, matrix_is_diagonal.
  rewrite gen_matrix_is_sparse_eq, gen_is_cvxopt_spmatrix_eq.
  unfold matrix_is_sparse, is_cvxopt_spmatrix.
  rewrite <- (offs_tests_main_only (at_offsets a)).
  split_ifs; reflexivity.
Qed.

Lemma gen_matrix_is_symmetric_eq a : gen_matrix_is_symmetric a = matrix_is_symmetric a.
Proof.
  unfold gen_matrix_is_symmetric, matrix_is_symmetric.
  rewrite gen_matrix_is_sparse_eq, gen_is_cvxopt_spmatrix_eq.
  unfold matrix_is_sparse, is_cvxopt_spmatrix. split_ifs; reflexivity.
Qed.

Lemma gen_matrix_is_hermitian_eq a : gen_matrix_is_hermitian a = matrix_is_hermitian a.
Proof.
  unfold gen_matrix_is_hermitian, matrix_is_hermitian.
  rewrite gen_matrix_is_complex_eq, gen_matrix_is_symmetric_eq, gen_matrix_is_sparse_eq, gen_is_cvxopt_spmatrix_eq.
  unfold matrix_is_sparse, is_cvxopt_spmatrix. split_ifs; reflexivity.
Qed.
