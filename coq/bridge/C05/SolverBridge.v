(* The solve() terms regenerated from pymoto/solvers/dense.py and sparse.py (GenC05.SolverGen) are the committed
   model terms (Model/SolverAlg.v) for ALL arguments.  A semantic change of a return expression (swapped factor,
   wrong trans flag, dropped conjugation, lower/upper flag, ...) changes the generated term and breaks one of
   these lemmas; renaming locals or splitting expressions does not. *)
From mathcomp Require Import all_ssreflect all_algebra.
From Pymoto Require Import Base.StarRing Model.SolverAlg.
From GenC05 Require Import SolverGen.
Set Implicit Arguments.
Unset Strict Implicit.
Local Open Scope ring_scope.

Section Bridge.
Variable M : ringType.
Variables tr cj : M -> M.
Variable tsolve : bool -> bool -> M -> trans -> M -> M.
Variable ddiv : M -> M -> M.
Variable splu : trans -> M -> M.

Lemma gen_sol_Diagonal_eq diag t rhs :
  gen_sol_Diagonal tr cj tsolve ddiv splu diag t rhs = sol_Diagonal cj ddiv diag t rhs.
Proof. by case: t. Qed.

Lemma gen_sol_QR_eq q r t rhs :
  gen_sol_QR tr cj tsolve ddiv splu q r t rhs = sol_QR tr cj tsolve q r t rhs.
Proof. by case: t. Qed.

Lemma gen_sol_LU_eq p l u t rhs :
  gen_sol_LU tr cj tsolve ddiv splu p l u t rhs = sol_LU tr tsolve p l u t rhs.
Proof. by case: t. Qed.

Lemma gen_sol_LDL_eq h l d1 Pm t rhs :
  gen_sol_LDL tr cj tsolve ddiv splu h l d1 Pm t rhs = sol_LDL tr cj tsolve h l d1 Pm t rhs.
Proof. by case: t; case: h. Qed.

Lemma gen_sol_Cholesky_eq success U hb l d1 Pm t rhs :
  gen_sol_Cholesky tr cj tsolve ddiv splu success U hb l d1 Pm t rhs =
  sol_Cholesky tr cj tsolve success U hb l d1 Pm t rhs.
Proof. by case: success; case: t => //=; rewrite gen_sol_LDL_eq. Qed.

Lemma gen_sol_SparseLU_eq t rhs :
  gen_sol_SparseLU tr cj tsolve ddiv splu t rhs = sol_SparseLU splu t rhs.
Proof. by case: t. Qed.

End Bridge.
