(* The convergence measure of CG.solve regenerated from pymoto/solvers/iterative.py (GenC05.CGExitGen) is the committed
   model Model/CGExit.v, for ALL tolerances and column-norm lists. *)
From Coq Require Import QArith List Bool.
From Pymoto Require Import Model.CGExit.
From GenC05 Require Import CGExitGen.

Lemma gen_cg_bnorm_eq nb : gen_cg_bnorm nb = bnorm_eff nb.
Proof. reflexivity. Qed.

Lemma gen_cg_tval_eq nr bn : gen_cg_tval nr bn = tval nr bn.
Proof. reflexivity. Qed.

Lemma gen_cg_exit_eq tol nr nb : gen_cg_exit tol nr nb = exit_test tol nr nb.
Proof. reflexivity. Qed.
