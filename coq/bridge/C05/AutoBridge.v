(* The decision procedure regenerated from pymoto/solvers/auto_determine.py (GenC05.AutoGen) is the committed
   model Model/AutoSolver.v : auto_solver, for ALL 2^13 * 3^6 argument combinations (by case analysis that follows
   the order in which the procedure inspects its arguments). *)
From Coq Require Import Bool.
From Pymoto Require Import Model.AutoSolver.
From GenC05 Require Import AutoGen.

Lemma gen_auto_solver_eq :
  forall f_sparse f_square f_diag f_lower f_upper f_complex f_herm f_sym f_dpos f_dneg
         has_pardiso has_scikit has_cvxopt o_diag o_lower o_upper o_herm o_sym o_pd,
  gen_auto_solver f_sparse f_square f_diag f_lower f_upper f_complex f_herm f_sym f_dpos f_dneg
                  has_pardiso has_scikit has_cvxopt o_diag o_lower o_upper o_herm o_sym o_pd =
  auto_solver f_sparse f_square f_diag f_complex f_herm f_sym f_dpos f_dneg
              has_pardiso has_scikit has_cvxopt o_diag o_herm o_sym o_pd.
Proof.
  intros f_sparse f_square.
  destruct f_square; [|intros; reflexivity].
  intros f_diag f_lower f_upper f_complex f_herm f_sym f_dpos f_dneg has_pardiso has_scikit has_cvxopt o_diag.
  destruct o_diag as [[|]|]; [intros; reflexivity| |destruct f_diag; [intros; reflexivity|]];
  intros o_lower o_upper o_herm o_sym o_pd;
  destruct f_complex, f_sparse, o_herm as [[|]|], o_sym as [[|]|]; try reflexivity;
  destruct f_herm, f_sym; try reflexivity;
  destruct has_pardiso; try reflexivity;
  destruct o_pd as [[|]|]; try reflexivity;
  destruct f_dpos, f_dneg; try reflexivity;
  destruct has_scikit, has_cvxopt; try reflexivity;
  destruct o_lower as [[|]|], o_upper as [[|]|], f_lower, f_upper; reflexivity.
Qed.
