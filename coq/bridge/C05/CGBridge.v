(* The body of the CG loop regenerated from pymoto/solvers/iterative.py (GenC05.CGGen) is the committed state
   machine Model/CGinv.v, for ALL arguments (by computation: the model is written with the same lets). *)
From mathcomp Require Import all_ssreflect all_algebra.
From Pymoto Require Import Base.StarRing Model.CGinv.
From GenC05 Require Import CGGen.
Set Implicit Arguments.
Unset Strict Implicit.
Local Open Scope ring_scope.

Section Bridge.
Variable M : ringType.
Variables tr cj : M -> M.
Variables precond orth1 orth2 inv : M -> M.
Variables A b : M.

Lemma gen_cg_mat_eq A0 t : gen_cg_mat tr cj A0 t = cg_mat tr cj A0 t.
Proof. by case: t. Qed.

(* the selected matrix is op_trans(A) of the property *)
Lemma gen_cg_mat_op A0 t : gen_cg_mat tr cj A0 t = op tr cj t A0.
Proof. by case: t. Qed.

Lemma gen_cg_r0_eq x : gen_cg_r0 tr cj precond orth1 orth2 inv A b x = cg_r0 A b x.
Proof. by []. Qed.

Lemma gen_cg_p0_eq r : gen_cg_p0 tr cj precond orth1 orth2 inv A b r = cg_p0 precond orth1 r.
Proof. by []. Qed.

Lemma gen_cg_step_x_eq x r p : gen_cg_step_x tr cj precond orth1 orth2 inv A b x r p = cg_step_x tr cj inv A x r p.
Proof. by []. Qed.

Lemma gen_cg_step_r_eq rn x r p :
  gen_cg_step_r rn tr cj precond orth1 orth2 inv A b x r p = cg_step_r tr cj inv A b rn x r p.
Proof. by case: rn. Qed.

Lemma gen_cg_step_p_eq rn x r p :
  gen_cg_step_p rn tr cj precond orth1 orth2 inv A b x r p = cg_step_p tr cj precond orth2 inv A b rn x r p.
Proof. by case: rn. Qed.

End Bridge.
