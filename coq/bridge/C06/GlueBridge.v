(* The statement of LinSolve._response that wraps the module's solver in an LDAWrapper, regenerated from the source on
   every run (GenC06.GlueGen, tools/gen_C06.py: condition, keyword table, tolerance expression read from the solver
   BEFORE it is replaced, default tolerance of LDAWrapper.__init__, acceptance test and per-column storage test of _do_solve_1rhs), is the
   committed model Model/LdaGlue.v for ALL arguments, and the tolerance theorems hold for the regenerated definitions. *)
From Coq Require Import QArith ZArith List Bool Lqa.
From Pymoto Require Import Model.LdaGlue Proofs.LdaGlueP.
From GenC06 Require Import GlueGen.
Import ListNotations.
Open Scope Q_scope.

Lemma gen_wrap_needed_eq a b : gen_wrap_needed a b = wrap_needed a b.
Proof. destruct a, b; reflexivity. Qed.

(* as a set of (keyword, attribute) pairs: the order of the keywords is irrelevant *)
Lemma gen_wrap_flags_eq p : In p gen_wrap_flags <-> In p wrap_flags.
Proof. unfold gen_wrap_flags, wrap_flags. cbn [In]. tauto. Qed.
Lemma gen_wrap_flags_functional : NoDup (map fst gen_wrap_flags) /\ length gen_wrap_flags = 2%nat.
Proof. split; [|reflexivity]. repeat constructor; cbn [In map fst gen_wrap_flags]; intuition discriminate. Qed.

Lemma gen_default_tol_eq : gen_default_tol == lda_default_tol.
Proof. reflexivity. Qed.

(* equal as rational functions of the inner tolerance (robust against re-association: 5 * tol, tol * 5, ...) *)
Lemma gen_wrapper_tol_eq it : gen_wrapper_tol it == linsolve_wrapper_tol it.
Proof. destruct it as [t|]; unfold gen_wrapper_tol, linsolve_wrapper_tol, gen_default_tol, lda_default_tol; [ring | reflexivity]. Qed.

Lemma gen_needs_inner_eq tol res : gen_needs_inner tol res = needs_inner tol res.
Proof. reflexivity. Qed.

(* the storage test of a freshly solved column, with the column's own norm as reference (equal as a function: robust
   against re-association of the product) *)
Lemma gen_stored_eq tol bnrm bnrm0 : gen_stored tol bnrm bnrm0 = stored tol bnrm bnrm0.
Proof.
  unfold gen_stored. destruct (stored tol bnrm bnrm0) eqn:E; [apply stored_true in E | apply stored_false in E].
  - apply negb_true_iff. destruct (Qle_bool bnrm _) eqn:F; [|reflexivity]. apply Qle_bool_iff in F. exfalso. lra.
  - apply negb_false_iff. apply Qle_bool_iff. lra.
Qed.

Theorem gen_stored_scale tol s bnrm bnrm0 : 0 < s -> gen_stored tol (s * bnrm) (s * bnrm0) = gen_stored tol bnrm bnrm0.
Proof. intros Hs. rewrite !gen_stored_eq. now apply stored_scale. Qed.

(* the theorems of Props/C06.v restated on the regenerated definitions *)
Theorem gen_inner_solution_recognised t res : 0 <= res -> res <= t -> gen_needs_inner (gen_wrapper_tol (Some t)) res = false.
Proof.
  intros H0 H1. rewrite gen_needs_inner_eq. apply needs_inner_false. rewrite gen_wrapper_tol_eq, wrapper_tol_iterative. lra.
Qed.

Theorem gen_database_answer_within_tol it res :
  gen_needs_inner (gen_wrapper_tol it) res = false -> res <= match it with Some t => 5 * t | None => 1 # 10000000 end.
Proof.
  intros H. rewrite gen_needs_inner_eq in H. apply needs_inner_false in H. rewrite gen_wrapper_tol_eq in H.
  apply database_answer_within_tol. apply needs_inner_false. exact H.
Qed.
Print Assumptions gen_database_answer_within_tol.
