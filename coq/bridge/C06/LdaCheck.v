(* Evaluation side of the C06 correspondence check: runs Model/Lda.v over the Gaussian rationals with an exact
   Gauss-Jordan elimination as (checked) inner solver and compares with the observations of the implementation.
   Compiled on every run; imported by the generated case files. *)
From Coq Require Import QArith Qcanon Qabs List Bool ZArith.
From Pymoto Require Import Base.Num Base.Fld Base.QI Model.Lda.
Import ListNotations.

(* checked oracle: the value handed to the model satisfies the inner-solver contract  op(A) X = R  by construction
   (an empty answer, which cannot match any observation, otherwise) *)
Definition inner_gen (I : Fld C) (A : mat C) (adj : bool) (R : list (vec C)) (X0 : option (list (vec C)))
  : list (vec C) :=
  let M := if adj then @mH C I A else A in
  match @gauss_solve C I M R with
  | Some X => if forallb (fun p => @veqb C I (@mv C I M (fst p)) (snd p)) (combine X R)
                 && (length X =? length R)%nat then X else []
  | None => []
  end.
Definition innerC := inner_gen FldC.

(* ---- observations written by the harness: numbers are round(value * 2^40) *)
Definition oblock := list (list (Z * Z)).
Inductive obs :=
| ONone                                                                   (* update *)
| OErr (e : Z)                                                            (* 1 TypeError 2 ValueError 3 other *)
| OSol (cplx : bool) (X : oblock) (call : option (bool * oblock * option oblock)).

Definition scale : Q := inject_Z (2 ^ 40).
Fixpoint all2 {A B} (f : A -> B -> bool) (a : list A) (b : list B) : bool :=
  match a, b with
  | [], [] => true
  | x :: a', y :: b' => f x y && all2 f a' b'
  | _, _ => false
  end.
Definition close_block (slack : Q) (M : list (vec C)) (O : oblock) : bool :=
  all2 (all2 (Cclose scale slack)) M O.
Definition err_code (e : err) : Z := match e with ETypeError => 1 | EValueError => 2 | EOther => 3 end.

Definition check_one (I : Fld C) (slack : Q) (r : option (err + @sres C)) (o : obs) : bool :=
  match r, o with
  | None, ONone => true
  | Some (inl e), OErr c => (err_code e =? c)%Z
  | Some (inr s), OSol cplx X call =>
      Bool.eqb (r_cplx s) cplx && close_block slack (r_x s) X &&
      match r_call s, call with
      | None, None => true
      | Some c, Some (adj, R, X0) =>
          Bool.eqb (c_adj c) adj && close_block slack (c_rhs c) R &&
          match c_x0 c, X0 with
          | None, None => true
          | Some a, Some b => close_block slack a b
          | _, _ => false
          end
      | _, _ => false
      end
  | _, _ => false
  end.

Definition run_with (I : Fld C) (sym herm : option bool) (ops : list (@op C)) :=
  @run C I (inner_gen I) (@init_state C sym herm) ops.

(* slackz = ceil(1e-9 * magnitude * 2^40) + 1 (the +1 absorbs the rounding of the observation to the 2^-40 grid) *)
Definition check_hist (sym herm : option bool) (ops : list (@op C)) (o : list obs) (slackz : Z) : bool :=
  all2 (check_one FldC (inject_Z slackz)) (run_with FldC sym herm ops) o.

(* ---- separation guard: the exact run and the run in which everything of size <= 1e-6 counts as zero agree *)
Definition guard_eps : Q := 1 # 1000000.
Definition Ceqb (a b : C) : bool := Qc_eq_bool (fst a) (fst b) && Qc_eq_bool (snd a) (snd b).
Definition block_eqb := all2 (all2 Ceqb).
Definition call_eqb (a b : option (@call C)) : bool :=
  match a, b with
  | None, None => true
  | Some c, Some d => Bool.eqb (c_adj c) (c_adj d) && block_eqb (c_rhs c) (c_rhs d) &&
                      match c_x0 c, c_x0 d with
                      | None, None => true | Some u, Some v => block_eqb u v | _, _ => false end
  | _, _ => false
  end.
Definition res_eqb (a b : option (err + @sres C)) : bool :=
  match a, b with
  | None, None => true
  | Some (inl e), Some (inl e') => (err_code e =? err_code e')%Z
  | Some (inr s), Some (inr t) => block_eqb (r_x s) (r_x t) && call_eqb (r_call s) (r_call t)
  | _, _ => false
  end.
Definition separated (sym herm : option bool) (ops : list (@op C)) : bool :=
  all2 res_eqb (run_with FldC sym herm ops) (run_with (FldCg guard_eps) sym herm ops).

(* one evaluation per history: 0 = separated and model == implementation, 1 = separated and different,
   2 = not separated (dropped, counted) *)
Definition verdict sym herm ops o slackz : Z :=
  let rx := run_with FldC sym herm ops in
  if all2 res_eqb rx (run_with (FldCg guard_eps) sym herm ops)
  then (if all2 (check_one FldC (inject_Z slackz)) rx o then 0 else 1)%Z
  else 2%Z.
Definition verdicts (v : list Z) : list nat * list nat :=
  (failing (map (fun z => negb (z =? 1)%Z) v), failing (map (fun z => negb (z =? 2)%Z) v)).
