(* The mode logic regenerated from LDAWrapper.solve (GenC06.ModeGen, tools/gen_C06.py) is the committed model
   (Model/Lda.v) for ALL arguments, and the mode-table theorem holds for the regenerated booleans.
   A semantic change of the source breaks one of these lemmas. *)
From Coq Require Import ZArith List Bool.
From Pymoto Require Import Base.Fld Base.FldP Model.Lda Proofs.LdaP.
From GenC06 Require Import ModeGen.
Import ListNotations.
Open Scope Z_scope.

(* equal as boolean functions (robust against reordering / re-association of the source expression) *)
Ltac boolcases :=
  intros; cbv beta delta [gen_trans_valid gen_adjoint_mode gen_conj_mode gen_storage
                          trans_valid adjoint_mode conj_mode storage_of];
  repeat match goal with |- context [Z.eqb ?a ?b] => destruct (Z.eqb a b) end;
  repeat match goal with x : bool |- _ => destruct x end; reflexivity.
Lemma gen_trans_valid_eq t : gen_trans_valid t = trans_valid t.
Proof. boolcases. Qed.
Lemma gen_adjoint_mode_eq s h t : gen_adjoint_mode s h t = adjoint_mode s h t.
Proof. boolcases. Qed.
Lemma gen_conj_mode_eq s h t : gen_conj_mode s h t = conj_mode s h t.
Proof. boolcases. Qed.
Lemma gen_storage_eq am : gen_storage am = storage_of am.
Proof. boolcases. Qed.
Lemma gen_conj_rhs_eq cm : gen_conj_rhs cm = cm /\ gen_conj_ret cm = cm.
Proof. split; reflexivity. Qed.
Lemma gen_dispatch_eq : gen_dispatch = dispatch_table.
Proof. reflexivity. Qed.

(* each storage value is dispatched to the branch the model takes: adjoint mode -> (A.conj().T, adjoint database,
   inner trans 'H'), otherwise (A, normal database, inner trans 'N') *)
Lemma gen_dispatch_branch (am : bool) :
  In (gen_storage am, if am then 2 else 0, if am then 1 else 0, if am then 2 else 0) gen_dispatch.
Proof. rewrite gen_storage_eq, gen_dispatch_eq. destruct am; simpl; auto. Qed.

Theorem gen_mode_table : forall (F : Type) (I : Fld F), FldLaws F ->
  forall (sym herm : bool) (t : Z) (A : mat F) (y b : vec F),
  gen_trans_valid t = true -> truthful sym herm A ->
  mv (if gen_adjoint_mode sym herm t then mH A else A) y =
    (if gen_conj_rhs (gen_conj_mode sym herm t) then vconj b else b) ->
  mv (op_mat t A) (if gen_conj_ret (gen_conj_mode sym herm t) then vconj y else y) = b.
Proof.
  intros F I L sym herm t A y b. rewrite gen_trans_valid_eq, gen_adjoint_mode_eq, gen_conj_mode_eq.
  destruct (gen_conj_rhs_eq (conj_mode sym herm t)) as [-> ->].
  exact (@mode_table F I L sym herm t A y b).
Qed.
Print Assumptions gen_mode_table.
