(* The mode logic regenerated from LDAWrapper.solve (GenC06.ModeGen) is the committed model (Model/Lda.v),
   for ALL arguments.  A semantic change of the source breaks one of these lemmas. *)
From Coq Require Import ZArith List Bool.
From Pymoto Require Import Base.Fld Model.Lda.
From GenC06 Require Import ModeGen.
Import ListNotations.
Open Scope Z_scope.

Lemma gen_trans_valid_eq t : gen_trans_valid t = trans_valid t.
Proof. reflexivity. Qed.
Lemma gen_adjoint_mode_eq s h t : gen_adjoint_mode s h t = adjoint_mode s h t.
Proof. reflexivity. Qed.
Lemma gen_conj_mode_eq s h t : gen_conj_mode s h t = conj_mode s h t.
Proof. reflexivity. Qed.
Lemma gen_storage_eq am : gen_storage am = storage_of am.
Proof. reflexivity. Qed.
Lemma gen_conj_rhs_eq cm : gen_conj_rhs cm = cm /\ gen_conj_ret cm = cm.
Proof. split; reflexivity. Qed.
Lemma gen_dispatch_eq : gen_dispatch = dispatch_table.
Proof. reflexivity. Qed.
