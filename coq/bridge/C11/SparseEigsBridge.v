(* The state machine of EigenSolve._sparse_eigs regenerated from the source on every run (GenC11.SparseEigsGen,
   tools/gen_C11.py: defaults of nmodes / sigma, the "no shift" test, B = identity when absent and shifted, creation of
   the solver, forced refactorisation, update) IS the committed model Model/Eig.v (sparse_eigs), for every scalar type,
   every state and every pencil.  In particular the test that decides whether A or A - sigma B is factorised is the
   EXACT equality `sigma == 0` on the scalars (keqb): a shift of 1e-9 is a shift. *)
From Coq Require Import ZArith List Bool.
From Pymoto Require Import Base.Num Base.QMat Model.Eig.
From GenC11 Require Import SparseEigsGen.
Import ListNotations.

Section Bridge.
  Context {K : Type} `{Num K}.
  Variable ops : EigOps K.
  Variable auto_solver : @QMat.mat K -> bool -> nat.
  Local Notation mat := (@QMat.mat K).

  Lemma gen_no_shift_eq s : gen_no_shift (keqb ops) nzero s = truthy_sigma_zero ops s.
  Proof. reflexivity. Qed.

  Lemma gen_force_solve_eq s : gen_force_solve (keqb ops) nzero s = negb (truthy_sigma_zero ops s).
  Proof. reflexivity. Qed.

  Definition is_none {A : Type} (o : option A) : bool := match o with None => true | Some _ => false end.

  (* the matrix the regenerated machine factorises *)
  Definition gen_shifted (sigma : K) (A : mat) (B : option mat) : mat :=
    if gen_no_shift (keqb ops) nzero sigma then A
    else mshift A sigma (match B with None => eye (length A) | Some b => b end).
  (* what it passes as M to ARPACK: the input B, or the identity it made for the shift *)
  Definition gen_M (sigma : K) (A : mat) (B : option mat) : option mat :=
    if gen_b_identity (keqb ops) nzero sigma (is_none B) then Some (eye (length A))
    else B.

  Theorem sparse_eigs_is_generated_machine (st : estate) (herm : bool) (A : mat) (B : option mat) :
    let sigma := match sSigma st with None => gen_default_sigma nzero | Some s => s end in
    let nmodes := match sNmodes st with None => gen_default_nmodes | Some k => k end in
    let ds := gen_do_solve (keqb ops) nzero sigma (is_none (sAinv st)) (sDoSolve st) in
    let shifted := gen_shifted sigma A B in
    let st' := fst (sparse_eigs ops auto_solver st herm A B) in
    sSigma st' = Some sigma /\ sNmodes st' = Some nmodes /\ sDoSolve st' = ds /\
    sAinv st' = Some (match sAinv st with None => auto_solver shifted herm | Some s => fst s end,
                      if ds then Some shifted else match sAinv st with None => None | Some s => snd s end) /\
    (forall c, snd (sparse_eigs ops auto_solver st herm A B) = Ok c ->
       cM c = gen_M sigma A B /\ cK c = Some nmodes /\ cSigma c = Some sigma /\ cOPinv c = sAinv st' /\ cA c = A).
  Proof.
    cbv zeta. unfold sparse_eigs, gen_shifted, gen_M, gen_b_identity, gen_do_solve, gen_force_solve, gen_no_shift,
      gen_default_sigma, gen_default_nmodes, truthy_sigma_zero, is_none.
    destruct (keqb ops match sSigma st with Some s => s | None => nzero end nzero) eqn:Ez;
      destruct (sAinv st) as [[kind upd]|]; destruct B as [b|]; destruct herm; cbn;
      try (destruct (negb (Nat.eqb (sMode st) 0)); cbn);
      (split; [reflexivity|]; split; [reflexivity|]; split; [reflexivity|];
       split; [try (destruct (sDoSolve st)); reflexivity|];
       intros c Ec; inversion Ec; subst; cbn; repeat split; try (destruct (sDoSolve st)); reflexivity).
  Qed.

  (* consequence used by Props/C11.v (C11_sparse_operator_current): a non-zero shift, however small, is never dropped *)
  Corollary nonzero_shift_is_factorised (st : estate) (herm : bool) (A : mat) (B : option mat) (s : K) :
    sSigma st = Some s -> keqb ops s nzero = false ->
    exists kind, sAinv (fst (sparse_eigs ops auto_solver st herm A B)) =
                 Some (kind, Some (mshift A s (match B with None => eye (length A) | Some b => b end))).
  Proof.
    intros Hs Hz. destruct (sparse_eigs_is_generated_machine st herm A B) as (_ & _ & _ & HA & _).
    rewrite Hs in HA. unfold gen_shifted, gen_do_solve, gen_force_solve, gen_no_shift in HA. rewrite Hz in HA. cbn in HA.
    eexists. exact HA.
  Qed.
End Bridge.
