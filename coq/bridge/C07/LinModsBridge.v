(* The _response terms regenerated from pymoto/modules/linalg.py (GenC07.LinModsGen) are the committed model terms
   (Model/LinMods.v) for ALL arguments, by computation. *)
From mathcomp Require Import all_ssreflect all_algebra.
From Pymoto Require Import Base.StarRing Model.LinMods.
From GenC07 Require Import LinModsGen.
Set Implicit Arguments.
Unset Strict Implicit.
Local Open Scope ring_scope.

Section Bridge.
Variable M : ringType.
Variables (Df Dp Dm : M) (solve_ff : M -> M) (A Bf Xp : M).

Lemma gen_soe_inner_matrix_eq : gen_soe_inner_matrix Df Dp solve_ff A Bf Xp = soe_Aff Df A.
Proof. by []. Qed.
Lemma gen_soe_x_eq : gen_soe_x Df Dp solve_ff A Bf Xp = soe_x Df Dp solve_ff A Bf Xp.
Proof. by []. Qed.
Lemma gen_soe_b_eq : gen_soe_b Df Dp solve_ff A Bf Xp = soe_b Df Dp solve_ff A Bf Xp.
Proof. by []. Qed.
(* the inner system of StaticCondensation is A_ff X = A_fm *)
Lemma gen_sc_inner_eq : gen_sc_inner_matrix Dm Df solve_ff A = Df * A * Df /\ gen_sc_inner_rhs Dm Df solve_ff A = Df * A * Dm.
Proof. by []. Qed.
Lemma gen_sc_Ared_eq : gen_sc_Ared Dm Df solve_ff A = sc_Ared Dm Df solve_ff A.
Proof. by []. Qed.
Lemma gen_linsolve_eq (solve : trans -> M -> M) b : gen_linsolve solve b = linsolve solve b.
Proof. by []. Qed.
Lemma gen_linsolve_adjoint_eq (solve : trans -> M -> M) g : gen_linsolve_adjoint solve g = linsolve_adjoint solve g.
Proof. by []. Qed.
Lemma gen_inverse_eq (inv : M -> M) : gen_inverse inv A = inverse inv A.
Proof. by []. Qed.
End Bridge.
