(* The dtype reading regenerated from pymoto/modules/linalg.py (GenC07.LinDtypeGen: the dtype every output buffer of
   SystemOfEquations._response is allocated with, the dtype of every value stored into it, the dtypes handed to the inner
   LinSolve, the dtype of the StaticCondensation result) equals the committed model (Model/LinDtype.v) for ALL
   arguments (case analysis over the dtypes, so that a reordering of the operands of np.result_type is accepted); and with
   the generated terms themselves every store is lossless. *)
From Coq Require Import List Bool.
From Pymoto Require Import Model.LinDtype Proofs.LinDtypeP.
From GenC07 Require Import LinDtypeGen.
Import ListNotations.

Section Bridge.
Variable sol : dtype -> dtype -> dtype.
Variables dA dBf dXp : dtype.

Lemma gen_soe_x_buf_eq : gen_soe_x_buf sol dA dBf dXp = soe_x_buf dA dBf dXp.
Proof. destruct dA, dBf, dXp; reflexivity. Qed.
Lemma gen_soe_b_buf_eq : gen_soe_b_buf sol dA dBf dXp = soe_b_buf dA dBf dXp.
Proof. destruct dA, dBf, dXp; reflexivity. Qed.
Lemma gen_soe_x_stores_eq : gen_soe_x_stores sol dA dBf dXp = soe_x_stores sol dA dBf dXp.
Proof. destruct dA, dBf, dXp; reflexivity. Qed.
Lemma gen_soe_b_stores_eq : gen_soe_b_stores sol dA dBf dXp = soe_b_stores sol dA dBf dXp.
Proof. destruct dA, dBf, dXp; reflexivity. Qed.
Lemma gen_soe_inner_eq : gen_soe_inner sol dA dBf dXp = (soe_inner_mat dA, soe_inner_rhs dA dBf dXp).
Proof. destruct dA, dBf, dXp; reflexivity. Qed.
Lemma gen_sc_out_eq : gen_sc_out sol dA = sc_out_dtype sol dA.
Proof. destruct dA; reflexivity. Qed.
Lemma gen_sc_inner_eq : gen_sc_inner sol dA = (sc_inner_mat dA, sc_inner_rhs dA).
Proof. destruct dA; reflexivity. Qed.
End Bridge.

(* independent of the committed model: the GENERATED buffers hold the GENERATED stores without loss, for all dtypes *)
Lemma gen_soe_stores_lossless dA dBf dXp :
  stores_lossless (gen_soe_x_buf linsolve_dtype dA dBf dXp) (gen_soe_x_stores linsolve_dtype dA dBf dXp) = true /\
  stores_lossless (gen_soe_b_buf linsolve_dtype dA dBf dXp) (gen_soe_b_stores linsolve_dtype dA dBf dXp) = true.
Proof. destruct dA, dBf, dXp; split; reflexivity. Qed.
