(* The definitions regenerated from pymoto/modules/aggregation.py (GenC16.AggGen) are the committed models
   (Model/Agg.v, Model/ActiveSet.v) for ALL arguments.  A semantic change of the source changes the
   generated term and breaks one of these lemmas. *)
From Coq Require Import Reals List ZArith.
From Pymoto Require Import Base.Num Model.Agg Model.ActiveSet.
From GenC16 Require Import AggGen.
Import ListNotations.

Lemma gen_pnorm_eq p x : gen_pnorm p x = pnorm p x.
Proof. reflexivity. Qed.

Lemma gen_ks_eq rho x : gen_ks rho x = ks rho x.
Proof. reflexivity. Qed.

Lemma gen_softminmax_eq alpha x : gen_softminmax alpha x = softminmax alpha x.
Proof. reflexivity. Qed.

Lemma gen_scaling_step_eq {K} `{Num K} d sf t a : gen_scaling_step d sf t a = scaling_step d sf t a.
Proof. reflexivity. Qed.

Lemma gen_n_lower_eq {K} (O : FOps K) c n : gen_n_lower O (lower_amt c) (upper_amt c) n = n_lower O c n.
Proof. reflexivity. Qed.

Lemma gen_n_upper_eq {K} (O : FOps K) c n : gen_n_upper O (lower_amt c) (upper_amt c) n = n_upper O c n.
Proof. reflexivity. Qed.

Lemma gen_xrel_eq {K} (O : FOps K) xmin xmax v : gen_xrel O xmin xmax v = xrel_of O xmin xmax v.
Proof. reflexivity. Qed.
