"""Fail-closed translator from small dialects of Python (ast) to Coq text.

Dialect T-int  : integer / boolean expressions and integer-array expressions built from
                 + - * // % ** max min, comparisons, and/or/not, conditional expressions, self.<attr>,
                 np.repeat(x, n, axis=-1), np.tile(x, n), np.arange(n), list literals, and
                 list comprehensions over a named table -> Coq terms over Z / bool / list Z.
Dialect T-real : elementwise real arithmetic (see RealEmitter) -> Coq terms generic over the Num class
                 (instantiated with R for theorems and with Q for evaluation).

Anything outside the dialect raises Unsupported: the caller reports the broken tie, it is never skipped.
Local variables are resolved by substitution (SSA), so renaming a variable or splitting an expression
over several statements does not change the generated term.
"""
import ast, os, textwrap


class Unsupported(Exception):
    pass


def parse_file(path):
    with open(path) as f:
        src = f.read()
    return ast.parse(src), src


def find_class(tree, cls):
    for n in tree.body:
        if isinstance(n, ast.ClassDef) and n.name == cls:
            return n
    raise Unsupported(f'class {cls} not found')


def find_func(node, name):
    for n in node.body:
        if isinstance(n, (ast.FunctionDef,)) and n.name == name:
            return n
    raise Unsupported(f'function {name} not found')


def src_of(node):
    return ast.unparse(node)


# ----------------------------------------------------------------------------------------- T-int
class IntEmitter:
    """Translate integer expressions.  `env` maps local names to already translated Coq terms (with type);
    `selfmap` maps self.<attr> to Coq terms; `calls` maps self.<method> to (coq function name, extra leading args)."""

    def __init__(self, env=None, selfmap=None, calls=None):
        self.env = dict(env or {})
        self.selfmap = dict(selfmap or {})
        self.calls = dict(calls or {})

    def fail(self, node, why=''):
        raise Unsupported(f'T-int: unsupported {type(node).__name__} {why}: {ast.unparse(node)[:120]}')

    # returns (coq_text, type) with type in {'Z','B','V'}  (V = list Z)
    def tr(self, n):
        if isinstance(n, ast.Constant):
            if isinstance(n.value, bool):
                return ('true' if n.value else 'false'), 'B'
            if isinstance(n.value, int):
                return (f'({n.value})' if n.value < 0 else str(n.value)), 'Z'
            self.fail(n, 'constant')
        if isinstance(n, ast.Name):
            if n.id in self.env:
                return self.env[n.id]
            self.fail(n, 'unbound name')
        if isinstance(n, ast.Attribute):
            if isinstance(n.value, ast.Name) and n.value.id == 'self' and n.attr in self.selfmap:
                return self.selfmap[n.attr]
            self.fail(n, 'attribute')
        if isinstance(n, ast.UnaryOp):
            a, t = self.tr(n.operand)
            if isinstance(n.op, ast.USub) and t == 'Z':
                return f'(- {a})', 'Z'
            if isinstance(n.op, ast.UAdd) and t == 'Z':
                return a, 'Z'
            if isinstance(n.op, ast.Not) and t == 'B':
                return f'(negb {a})', 'B'
            self.fail(n)
        if isinstance(n, ast.BinOp):
            a, ta = self.tr(n.left)
            b, tb = self.tr(n.right)
            ops = {ast.Add: '+', ast.Sub: '-', ast.Mult: '*', ast.FloorDiv: '/', ast.Mod: 'mod', ast.Pow: '^'}
            if type(n.op) not in ops:
                self.fail(n, 'operator')
            o = ops[type(n.op)]
            if ta == 'Z' and tb == 'Z':
                return f'({a} {o} {b})', 'Z'
            if ta == 'V' and tb == 'Z':
                return f'(map (fun v_ => v_ {o} {b}) {a})', 'V'
            if ta == 'Z' and tb == 'V':
                return f'(map (fun v_ => {a} {o} v_) {b})', 'V'
            if ta == 'V' and tb == 'V' and o == '+':
                return f'(zip_add {a} {b})', 'V'
            self.fail(n, 'operand types')
        if isinstance(n, ast.Compare):
            if len(n.ops) != 1:
                self.fail(n, 'chained comparison')
            a, ta = self.tr(n.left)
            b, tb = self.tr(n.comparators[0])
            if ta != 'Z' or tb != 'Z':
                self.fail(n, 'comparison types')
            ops = {ast.Eq: '=?', ast.Lt: '<?', ast.LtE: '<=?', ast.Gt: '>?', ast.GtE: '>=?'}
            if isinstance(n.ops[0], ast.NotEq):
                return f'(negb ({a} =? {b}))', 'B'
            if type(n.ops[0]) not in ops:
                self.fail(n, 'comparison')
            return f'({a} {ops[type(n.ops[0])]} {b})', 'B'
        if isinstance(n, ast.BoolOp):
            parts = [self.tr(v) for v in n.values]
            if any(t != 'B' for _, t in parts):
                self.fail(n, 'boolop types')
            o = ' && ' if isinstance(n.op, ast.And) else ' || '
            return '(' + o.join(p for p, _ in parts) + ')', 'B'
        if isinstance(n, ast.IfExp):
            c, tc = self.tr(n.test)
            a, ta = self.tr(n.body)
            b, tb = self.tr(n.orelse)
            if tc != 'B' or ta != tb:
                self.fail(n, 'ifexp types')
            return f'(if {c} then {a} else {b})', ta
        if isinstance(n, ast.Subscript):
            # n[0] style access of a bound tuple variable
            if isinstance(n.value, ast.Name) and isinstance(n.slice, ast.Constant) and \
                    (n.value.id, n.slice.value) in self.env:
                return self.env[(n.value.id, n.slice.value)]
            self.fail(n, 'subscript')
        if isinstance(n, ast.List):
            parts = [self.tr(e) for e in n.elts]
            if all(t == 'Z' for _, t in parts):
                return '[' + '; '.join(p for p, _ in parts) + ']', 'V'
            self.fail(n, 'list literal')
        if isinstance(n, ast.Call):
            f = n.func
            args = n.args
            if isinstance(f, ast.Name) and f.id in ('max', 'min') and len(args) == 2 and not n.keywords:
                a, ta = self.tr(args[0])
                b, tb = self.tr(args[1])
                if ta == tb == 'Z':
                    return f'(Z.{f.id} {a} {b})', 'Z'
                self.fail(n)
            if isinstance(f, ast.Attribute) and isinstance(f.value, ast.Name) and f.value.id == 'self' \
                    and f.attr in self.calls and not n.keywords:
                name, lead = self.calls[f.attr]
                parts = [self.tr(a) for a in args]
                if any(t != 'Z' for _, t in parts):
                    self.fail(n, 'call argument types')
                return '(' + ' '.join([name] + lead + [p for p, _ in parts]) + ')', 'Z'
            if isinstance(f, ast.Attribute) and isinstance(f.value, ast.Name) and f.value.id == 'np':
                if f.attr == 'arange' and len(args) == 1 and not n.keywords:
                    a, ta = self.tr(args[0])
                    if ta == 'Z':
                        return f'(zrange {a})', 'V'
                if f.attr == 'repeat' and len(args) == 2 and self._axis_last(n):
                    a, ta = self.tr(args[0])
                    b, tb = self.tr(args[1])
                    if ta == 'V' and tb == 'Z':
                        return f'(rep_each (Z.to_nat {b}) {a})', 'V'
                if f.attr == 'tile' and len(args) == 2 and not n.keywords:
                    a, ta = self.tr(args[0])
                    b, tb = self.tr(args[1])
                    if ta == 'V' and tb == 'Z':
                        return f'(tile (Z.to_nat {b}) {a})', 'V'
            self.fail(n, 'call')
        self.fail(n)

    @staticmethod
    def _axis_last(call):
        return len(call.keywords) == 1 and call.keywords[0].arg == 'axis' and \
            isinstance(call.keywords[0].value, ast.UnaryOp) and ast.unparse(call.keywords[0].value) == '-1'

    # straight-line body: Assign* Return ; returns translated return expression(s)
    def body(self, stmts, allow_if_return=True):
        for s in stmts:
            if isinstance(s, ast.Expr) and isinstance(s.value, ast.Constant) and isinstance(s.value.value, str):
                continue  # docstring
            if isinstance(s, ast.Assign) and len(s.targets) == 1 and isinstance(s.targets[0], ast.Name):
                self.env[s.targets[0].id] = self.tr(s.value)
                continue
            if isinstance(s, ast.Return):
                return s.value
            if isinstance(s, ast.If):
                return s  # caller handles
            self.fail(s, 'statement')
        raise Unsupported('no return')


def coq_def(name, params, rtype, body):
    ps = ' '.join(f'({p} : {t})' for p, t in params)
    return f'Definition {name} {ps} : {rtype} :=\n  {body}.\n'


HEADER_INT = '''(* GENERATED by tools/py2coq.py from {src} -- do not edit *)
From Coq Require Import ZArith List Bool.
From Pymoto Require Import Model.Grid.
Import ListNotations.
Open Scope Z_scope.
'''


def gen_domain(repo):
    """pymoto/common/domain.py -> coq text (T-int): numbering formulas, tables, dof connectivity"""
    path = os.path.join(repo, 'pymoto/common/domain.py')
    tree, _ = parse_file(path)
    cls = find_class(tree, 'DomainDefinition')
    out = [HEADER_INT.format(src='pymoto/common/domain.py')]
    G = [('nelx', 'Z'), ('nely', 'Z'), ('nelz', 'Z')]
    selfmap = {k: (k, 'Z') for k, _ in G}

    # --- __init__: dim, nel, nnodes, elemnodes, node_numbering
    init = find_func(cls, '__init__')
    em = IntEmitter(selfmap=selfmap)
    table = {}      # index -> (guard text or None, triple)
    found = {}
    for s in init.body:
        if isinstance(s, ast.Assign) and len(s.targets) == 1:
            t = s.targets[0]
            if isinstance(t, ast.Attribute) and isinstance(t.value, ast.Name) and t.value.id == 'self' and \
                    t.attr in ('dim', 'nel', 'nnodes', 'elemnodes'):
                e, ty = em.tr(s.value)
                if ty != 'Z':
                    raise Unsupported(f'{t.attr} not integer')
                found[t.attr] = e
                em.selfmap[t.attr] = (e, 'Z')

    def collect_nn(stmts, guard):
        for s in stmts:
            if isinstance(s, ast.Assign) and len(s.targets) == 1 and isinstance(s.targets[0], ast.Subscript):
                t = s.targets[0]
                if ast.unparse(t.value) == 'self.node_numbering':
                    if not isinstance(t.slice, ast.Constant):
                        raise Unsupported('node_numbering index')
                    vals = ast.literal_eval(ast.unparse(s.value))
                    if not (isinstance(vals, list) and len(vals) == 3 and all(isinstance(v, int) for v in vals)):
                        raise Unsupported('node_numbering entry')
                    if t.slice.value in table:
                        raise Unsupported('node_numbering entry assigned twice')
                    table[t.slice.value] = (guard, vals)
            elif isinstance(s, ast.Assign) and ast.unparse(s.targets[0]) == 'self.node_numbering':
                if ast.unparse(s.value) != '[[0, 0, 0] for _ in range(self.elemnodes)]':
                    raise Unsupported('node_numbering initialiser changed: ' + ast.unparse(s.value))
            elif isinstance(s, ast.If) and 'node_numbering' in ast.unparse(s):
                if s.orelse:
                    raise Unsupported('node_numbering else-branch')
                g, ty = IntEmitter(selfmap={'dim': ('d', 'Z')}).tr(s.test)
                collect_nn(s.body, g if guard is None else f'({guard} && {g})')
    collect_nn(init.body, None)
    for k in ('dim', 'nel', 'nnodes', 'elemnodes'):
        if k not in found:
            raise Unsupported(f'self.{k} assignment not found')
    out.append(coq_def('gen_dim', G, 'Z', found['dim']))
    out.append(coq_def('gen_nel', G, 'Z', found['nel']))
    out.append(coq_def('gen_nnodes', G, 'Z', found['nnodes']))
    out.append(coq_def('gen_elemnodes', G, 'Z', found['elemnodes']))
    if sorted(table) != list(range(len(table))):
        raise Unsupported('node_numbering indices not contiguous')
    rows = []
    for k in sorted(table):
        g, v = table[k]
        trip = '(' + ', '.join(f'({x})' if x < 0 else str(x) for x in v) + ')'
        rows.append(f'({k}, {g if g else "true"}, {trip})')
    out.append('(* (index, guard on dim d, entry); entries whose guard is false stay [0,0,0]; the table has 2^d rows *)\n'
               'Definition gen_node_numbering (d : Z) : list (Z * Z * Z) :=\n'
               '  map (fun r => match r with (_, g, t) => if (g : bool) then t else (0, 0, 0) end)\n'
               '      (firstn (Z.to_nat (2 ^ d)) [' + ';\n        '.join(rows) + ']).\n')

    # --- get_elemnumber / get_nodenumber
    for fn, name in (('get_elemnumber', 'gen_elemnumber'), ('get_nodenumber', 'gen_nodenumber')):
        f = find_func(cls, fn)
        args = [a.arg for a in f.args.args[1:]]
        em = IntEmitter(env={a: (a, 'Z') for a in args}, selfmap=selfmap)
        ret = em.body(f.body)
        e, ty = em.tr(ret)
        if ty != 'Z':
            raise Unsupported(fn)
        out.append(coq_def(name, G + [(a, 'Z') for a in args], 'Z', e))

    # --- get_node_indices
    f = find_func(cls, 'get_node_indices')
    arg = f.args.args[1].arg
    em = IntEmitter(env={arg: (arg, 'Z')}, selfmap=dict(selfmap, dim=('(gen_dim nelx nely nelz)', 'Z')))
    rets = []
    for s in f.body:
        if isinstance(s, ast.Expr):
            continue
        if isinstance(s, ast.If) and ast.unparse(s.test) == f'{arg} is None':
            continue  # default argument: all nodes
        if isinstance(s, ast.Assign) and isinstance(s.targets[0], ast.Name):
            em.env[s.targets[0].id] = em.tr(s.value)
        elif isinstance(s, ast.If):
            c, _ = em.tr(s.test)
            if len(s.body) != 1 or not isinstance(s.body[0], ast.Return) or s.orelse:
                raise Unsupported('get_node_indices if')
            rets.append((c, s.body[0].value))
        elif isinstance(s, ast.Return):
            rets.append((None, s.value))
        else:
            raise Unsupported('get_node_indices statement ' + ast.unparse(s))

    def stack(v):
        if not (isinstance(v, ast.Call) and ast.unparse(v.func) == 'np.stack' and isinstance(v.args[0], ast.List)
                and ast.unparse(v.keywords[0].value) == '0'):
            raise Unsupported('get_node_indices return')
        return '[' + '; '.join(em.tr(e)[0] for e in v.args[0].elts) + ']'
    if len(rets) != 2 or rets[0][0] is None or rets[1][0] is not None:
        raise Unsupported('get_node_indices shape')
    out.append(coq_def('gen_node_indices', G + [(arg, 'Z')], 'list Z',
                       f'if {rets[0][0]} then {stack(rets[0][1])} else {stack(rets[1][1])}'))

    # --- get_elemconnectivity
    f = find_func(cls, 'get_elemconnectivity')
    args = [a.arg for a in f.args.args[1:]]
    body = [s for s in f.body if not isinstance(s, ast.Expr)]
    if len(body) != 2 or not isinstance(body[0], ast.Assign) or not isinstance(body[1], ast.Return):
        raise Unsupported('get_elemconnectivity body')
    lc = body[0].value
    if not (isinstance(lc, ast.ListComp) and len(lc.generators) == 1 and
            ast.unparse(lc.generators[0].iter) == 'self.node_numbering' and not lc.generators[0].ifs and
            isinstance(lc.generators[0].target, ast.Name)):
        raise Unsupported('get_elemconnectivity comprehension')
    if ast.unparse(body[1].value) != f'np.stack({body[0].targets[0].id}, axis=-1)':
        raise Unsupported('get_elemconnectivity return')
    nv = lc.generators[0].target.id
    env = {a: (a, 'Z') for a in args}
    env.update({(nv, 0): ('n0', 'Z'), (nv, 1): ('n1', 'Z'), (nv, 2): ('n2', 'Z')})
    em = IntEmitter(env=env, selfmap=selfmap, calls={'get_nodenumber': ('gen_nodenumber', ['nelx', 'nely', 'nelz'])})
    e, ty = em.tr(lc.elt)
    out.append(coq_def('gen_elemconn', G + [(a, 'Z') for a in args], 'list Z',
                       f'map (fun n => match n with (n0, n1, n2) => {e} end) (gen_node_numbering (gen_dim nelx nely nelz))'))

    # --- get_dofconnectivity (one row of conn)
    f = find_func(cls, 'get_dofconnectivity')
    arg = f.args.args[1].arg
    em = IntEmitter(env={arg: (arg, 'Z')}, selfmap={'conn': ('row', 'V'), 'elemnodes': ('(Z.of_nat (length row))', 'Z')})
    ret = em.body(f.body)
    e, ty = em.tr(ret)
    if ty != 'V':
        raise Unsupported('get_dofconnectivity')
    out.append(coq_def('gen_dofconn_row', [(arg, 'Z'), ('row', 'list Z')], 'list Z', e))
    return '\n'.join(out)


if __name__ == '__main__':
    import sys
    print(gen_domain(sys.argv[1] if len(sys.argv) > 1 else '/repo'))
