#!/usr/bin/env python3
"""tools/seed_intake.py <pid> <dir with m1..mk>  -- confirm each proposed seeded change ourselves and keep it as
seeded/<pid>-m<k>/ (patch.diff, demo.py, meta.json with a `confirmed` record).
Confirmation (in a fresh scratch worktree of /repo, removed afterwards): patch applies; demo passes WITHOUT the change;
demo fails WITH the change; the pinned baseline suite (159 stable tests of /root/.vp/BASELINE.json) passes WITH the change."""
import json, os, shutil, subprocess, sys, tempfile, xml.etree.ElementTree as ET
ROOT = os.path.dirname(os.path.dirname(os.path.abspath(__file__)))
pid, src = sys.argv[1], sys.argv[2]
base = set(json.load(open('/root/.vp/BASELINE.json'))['stable_pass'])
ENV = dict(os.environ, OMP_NUM_THREADS='1', OPENBLAS_NUM_THREADS='1', MKL_NUM_THREADS='1', MPLBACKEND='Agg', PYTHONDONTWRITEBYTECODE='1')


def run_suite(wt):
    xml = os.path.join(wt, 'junit_intake.xml')
    subprocess.run(['/venv/bin/python', '-m', 'pytest', '-q', '-p', 'no:cacheprovider', '--timeout=900', '--continue-on-collection-errors',
                    '--junitxml=' + xml, 'tests'], cwd=wt, env=dict(ENV, PYTHONPATH=wt), capture_output=True, text=True)
    ok = set()
    for tc in ET.parse(xml).getroot().iter('testcase'):
        if not any(ch.tag in ('failure', 'error', 'skipped') for ch in tc):
            ok.add(tc.get('classname') + '::' + tc.get('name'))
    os.remove(xml)
    return sorted(base - ok)


existing = [d for d in os.listdir(os.path.join(ROOT, 'seeded')) if d.startswith(pid + '-m')]
nxt = 1 + max([int(d.split('-m')[1]) for d in existing] or [0])
wt = tempfile.mkdtemp(prefix='intake_wt_', dir='/tmp')
os.rmdir(wt)
subprocess.check_call(['git', '-C', '/repo', 'worktree', 'add', '-q', wt, 'HEAD'])
try:
    for m in sorted(os.listdir(src)):
        d = os.path.join(src, m)
        if not (os.path.isdir(d) and os.path.exists(os.path.join(d, 'patch.diff')) and os.path.exists(os.path.join(d, 'demo.py'))):
            continue
        rec = {}
        demo = lambda: subprocess.run(['/venv/bin/python', '-W', 'ignore', os.path.join(d, 'demo.py')], cwd=wt,
                                      env=dict(ENV, PYTHONPATH=wt), capture_output=True, text=True, timeout=1800)
        r0 = demo()
        rec['demo_without_change_exit'] = r0.returncode
        ap = subprocess.run(['git', '-C', wt, 'apply', os.path.join(d, 'patch.diff')], capture_output=True, text=True)
        rec['patch_applies'] = ap.returncode == 0
        if ap.returncode == 0:
            r1 = demo()
            rec['demo_with_change_exit'] = r1.returncode
            rec['demo_with_change_tail'] = (r1.stdout + r1.stderr)[-400:]
            missing = run_suite(wt)
            if missing:   # one retry: a known flaky sparse-eigenvalue FD test exists on the unchanged tree
                missing = sorted(set(missing) & set(run_suite(wt)))
            rec['baseline_tests_not_passing_with_change'] = missing
        subprocess.check_call(['git', '-C', wt, 'checkout', '-q', '--', '.'])
        subprocess.run(['git', '-C', wt, 'clean', '-fdq'])
        good = rec.get('patch_applies') and rec['demo_without_change_exit'] == 0 and rec.get('demo_with_change_exit', 0) != 0 \
            and not rec.get('baseline_tests_not_passing_with_change')
        rec['kept'] = bool(good)
        print(pid, m, 'KEPT' if good else 'REJECTED', {k: v for k, v in rec.items() if k != 'demo_with_change_tail'})
        if good:
            dst = os.path.join(ROOT, 'seeded', f'{pid}-m{nxt}')
            nxt += 1
            os.makedirs(dst)
            shutil.copy(os.path.join(d, 'patch.diff'), dst)
            shutil.copy(os.path.join(d, 'demo.py'), dst)
            try:
                meta = json.load(open(os.path.join(d, 'meta.json')))
            except Exception:
                meta = {}
            meta['property'] = pid
            meta['confirmed'] = dict(rec, how='tools/seed_intake.py: scratch worktree of /repo HEAD; demo without change (exit 0), git apply, demo with change '
                                              '(non-zero exit), pinned baseline suite with change (all 159 stable tests pass), git checkout')
            json.dump(meta, open(os.path.join(dst, 'meta.json'), 'w'), indent=1)
finally:
    subprocess.run(['git', '-C', '/repo', 'worktree', 'remove', '--force', wt])
    shutil.rmtree(wt, ignore_errors=True)
