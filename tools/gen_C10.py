"""C10 translator (T-real): pymoto/common/mma.py  ->  coq/gen/C10/MMAGen.v

Fail-closed: everything that is not understood raises py2coq.Unsupported (reported as a broken tie).

Two dialects, both emitting terms generic over the classes Num (Base/Num.v) and NumOrd (Base/MMANum.v):

* component dialect (MMA.mmasub): every numpy operation in mmasub is elementwise, so each array variable is read
  as its j-th (or (i,j)-th) component and the statements become scalar formulas.  Kinds track the numpy shapes
  (S scalar option, V per variable j, M per response i and variable j, R per response i) to validate broadcasting.
  The only reduction (np.dot(P, 1/shift)) is emitted at row level.  Local names are resolved by substitution;
  the names in CUTS are re-bound to fresh symbols after their definition has been emitted, which gives one small
  definition per named quantity of the algorithm (shift, low, upp, alfa, beta, P, Q, rhs ...).
* vector dialect (subsolv, residual): expressions are typed S (scalar), V (vector), M (matrix = list of rows),
  N (length) and emitted with map / vmap2 / vmap3 / dot / matvec / vecmat / lmin / lmax.

Decimal literals are read as the rationals they denote (1.001 -> 1001/1000, 1e-5 -> 1/100000).
"""
import ast
import os
from fractions import Fraction
from py2coq import Unsupported, parse_file, find_class, find_func


class Val:
    def __init__(self, text, kind, syms=()):
        self.text, self.kind, self.syms = text, kind, frozenset(syms)


def lit(value):
    """python numeric constant -> Coq term over K"""
    if isinstance(value, bool) or not isinstance(value, (int, float)):
        raise Unsupported(f'T-real: constant {value!r}')
    f = Fraction(repr(value)) if isinstance(value, float) else Fraction(value)
    if f < 0:
        raise Unsupported('negative literal')
    if f.denominator == 1:
        return f'(nofZ {f.numerator})'
    return f'(dec {f.numerator} {f.denominator})'


BIN = {ast.Add: 'nadd', ast.Sub: 'nsub', ast.Mult: 'nmul', ast.Div: 'ndiv'}


def fname(call):
    return ast.unparse(call.func)


def is_self_attr(n, attr=None):
    return isinstance(n, ast.Attribute) and isinstance(n.value, ast.Name) and n.value.id == 'self' and \
        (attr is None or n.attr == attr)


# ======================================================================================= component dialect
JOIN = {}
for a, b, r in (('S', 'S', 'S'), ('S', 'V', 'V'), ('V', 'V', 'V'), ('V', 'M', 'M'), ('S', 'M', 'M'), ('M', 'M', 'M'),
                ('S', 'R', 'R'), ('R', 'R', 'R')):
    JOIN[(a, b)] = r
    JOIN[(b, a)] = r


class CompEmitter:
    def __init__(self, env):
        self.env = dict(env)     # name or 'self.attr' -> Val

    def fail(self, n, why=''):
        raise Unsupported(f'T-real(component): unsupported {type(n).__name__} {why}: {ast.unparse(n)[:140]}')

    def join(self, n, *vals):
        k = vals[0].kind
        for v in vals[1:]:
            if (k, v.kind) not in JOIN:
                self.fail(n, f'broadcast {k} with {v.kind}')
            k = JOIN[(k, v.kind)]
        return k

    def mk(self, n, fmt, *vals, kind=None):
        s = frozenset().union(*[v.syms for v in vals]) if vals else frozenset()
        return Val(fmt.format(*[v.text for v in vals]), kind or self.join(n, *vals), s)

    def tr(self, n):
        if isinstance(n, ast.Constant):
            return Val(lit(n.value), 'S')
        if isinstance(n, ast.Name):
            if n.id in self.env:
                return self.env[n.id]
            self.fail(n, 'unbound name')
        if isinstance(n, ast.Attribute):
            key = ast.unparse(n)
            if key in self.env:
                return self.env[key]
            self.fail(n, 'attribute')
        if isinstance(n, ast.UnaryOp):
            a = self.tr(n.operand)
            if isinstance(n.op, ast.USub):
                return self.mk(n, '(nopp {})', a)
            if isinstance(n.op, ast.UAdd):
                return a
            self.fail(n)
        if isinstance(n, ast.BinOp):
            if isinstance(n.op, ast.Pow):
                if isinstance(n.right, ast.Constant) and n.right.value == 2 and not isinstance(n.right.value, bool):
                    return self.mk(n, '(sq {})', self.tr(n.left))
                self.fail(n, 'power')
            if type(n.op) not in BIN:
                self.fail(n, 'operator')
            return self.mk(n, '(' + BIN[type(n.op)] + ' {} {})', self.tr(n.left), self.tr(n.right))
        if isinstance(n, ast.Compare):
            if len(n.ops) != 1:
                self.fail(n, 'chained comparison')
            a, b = self.tr(n.left), self.tr(n.comparators[0])
            op = type(n.ops[0])
            fm = {ast.Lt: '(nltb {0} {1})', ast.Gt: '(nltb {1} {0})', ast.LtE: '(nleb {0} {1})', ast.GtE: '(nleb {1} {0})'}
            if op not in fm:
                self.fail(n, 'comparison')
            v = self.mk(n, fm[op], a, b)
            return Val(v.text, 'B' + v.kind, v.syms)
        if isinstance(n, ast.Call):
            f = fname(n)
            if n.keywords:
                self.fail(n, 'keyword arguments')
            args = n.args
            if f in ('np.maximum', 'np.minimum') and len(args) == 2:
                return self.mk(n, '(' + ('nmax' if f == 'np.maximum' else 'nmin') + ' {} {})', self.tr(args[0]), self.tr(args[1]))
            if f in ('np.maximum.reduce', 'np.minimum.reduce') and len(args) == 1 and isinstance(args[0], ast.List) \
                    and len(args[0].elts) >= 2:
                op = 'nmax' if 'maximum' in f else 'nmin'
                acc = self.tr(args[0].elts[0])
                for e in args[0].elts[1:]:
                    acc = self.mk(n, '(' + op + ' {} {})', acc, self.tr(e))
                return acc
            if f == 'np.abs' and len(args) == 1:
                return self.mk(n, '(nabs {})', self.tr(args[0]))
            if f == 'np.clip' and len(args) == 3:
                return self.mk(n, '(clip {} {} {})', *[self.tr(a) for a in args])
            if f == 'np.ones' and len(args) == 1 and ast.unparse(args[0]) == 'self.n':
                return Val('(nofZ 1)', 'V')
            if isinstance(n.func, ast.Attribute) and n.func.attr == 'copy' and not args:
                return self.tr(n.func.value)
            self.fail(n, 'call')
        self.fail(n)


# canonical parameter order of the generated component definitions
ORDER = ['asyinit', 'asyincr', 'asydecr', 'asybound', 'albefa', 'move', 'xval', 'xmin', 'xmax', 'xold1', 'xold2',
         'offset', 'dx', 'shift', 'low', 'upp', 'dx2', 'dg', 'dg_plus', 'dg_min', 'P', 'Q', 'g', 'rhs', 'alfa', 'beta', 'b']


def cdef(name, val):
    ps = [s for s in ORDER if s in val.syms]
    if set(ps) != set(val.syms):
        raise Unsupported(f'unknown symbols in {name}: {sorted(val.syms)}')
    args = ''.join(f' ({p} : K)' for p in ps)
    return f'  Definition {name}{args} : K :=\n    {val.text}.\n'


def sym(name, kind):
    return Val(name, kind, [name])


def assigned_attrs(func):
    """self.<attr> names assigned (or augmented / tuple-assigned / subscript-assigned) anywhere in a function"""
    out = []
    for n in ast.walk(func):
        tg = []
        if isinstance(n, ast.Assign):
            tg = n.targets
        elif isinstance(n, (ast.AugAssign, ast.AnnAssign)):
            tg = [n.target]
        for t in tg:
            for e in (t.elts if isinstance(t, ast.Tuple) else [t]):
                while isinstance(e, ast.Subscript):
                    e = e.value
                if is_self_attr(e):
                    out.append(e.attr)
    return out


def gen_mmasub(cls, subsolv_fn, out):
    f = find_func(cls, 'mmasub')
    argn = [a.arg for a in f.args.args]
    if argn != ['self', 'xval', 'g', 'dg']:
        raise Unsupported(f'mmasub signature {argn}')
    # attributes that must be constant during the iterations: only __init__ / response (bound expansion) set them
    for fn in cls.body:
        if isinstance(fn, ast.FunctionDef):
            asg = assigned_attrs(fn)
            for a in ('asyinit', 'asyincr', 'asydecr', 'asybound', 'albefa', 'mmaversion'):
                if a in asg and fn.name != '__init__':
                    raise Unsupported(f'self.{a} assigned in {fn.name}')
            for a in ('xmin', 'xmax', 'move'):
                if a in asg and fn.name not in ('__init__', 'response'):
                    raise Unsupported(f'self.{a} assigned in {fn.name}')
            for a in ('dx', 'offset', 'low', 'upp', 'xold1', 'xold2'):
                if a in asg and fn.name not in ('__init__', 'mmasub'):
                    raise Unsupported(f'self.{a} assigned in {fn.name}')
    init = find_func(cls, '__init__')
    for s in init.body:
        if isinstance(s, ast.Assign) and len(s.targets) == 1 and is_self_attr(s.targets[0]) and \
                s.targets[0].attr in ('dx', 'offset', 'low', 'upp', 'xold1', 'xold2'):
            if ast.unparse(s.value) != 'None':
                raise Unsupported(f'__init__: self.{s.targets[0].attr} = {ast.unparse(s.value)}')
    env = {'xval': sym('xval', 'V'), 'g': sym('g', 'R'), 'dg': sym('dg', 'M')}
    for a in ('asyinit', 'asyincr', 'asydecr', 'asybound', 'albefa'):
        env['self.' + a] = sym(a, 'S')
    # self.move is a scalar or a per-variable array: per component it is the component's move limit
    for a in ('move', 'xmin', 'xmax', 'xold1', 'xold2'):
        env['self.' + a] = sym(a, 'V')
    em = CompEmitter(env)
    CUTS = {'shift': 'V', 'self.low': 'V', 'self.upp': 'V', 'alfa': 'V', 'beta': 'V', 'dg_plus': 'M', 'dg_min': 'M',
            'dx2': 'V'}
    emitted = {}
    versions = []
    state = dict(seen_call=False, ret=None, hist=None, args=None)

    def emit(name, val):
        if name in emitted:
            raise Unsupported(f'{name} defined twice')
        emitted[name] = val
        out.append(cdef(name, val))

    def assign(target, val):
        key = ast.unparse(target)
        cname = key.replace('self.', '')
        if key in CUTS:
            if val.kind != CUTS[key]:
                raise Unsupported(f'{key} has kind {val.kind}, expected {CUTS[key]}')
            emit('gen_' + cname, val)
            em.env[key] = sym(cname, CUTS[key])
        else:
            em.env[key] = val

    def do_block(stmts, masked_ok=False):
        for s in stmts:
            if isinstance(s, ast.Expr) and isinstance(s.value, ast.Constant) and isinstance(s.value.value, str):
                continue
            # ---- if self.X is None: self.X = expr      (lazy initialisation)
            if isinstance(s, ast.If) and isinstance(s.test, ast.Compare) and len(s.test.ops) == 1 and \
                    isinstance(s.test.ops[0], ast.Is) and ast.unparse(s.test.comparators[0]) == 'None' and \
                    is_self_attr(s.test.left) and s.test.left.attr in ('dx', 'offset'):
                a = s.test.left.attr
                if s.orelse or len(s.body) != 1 or not isinstance(s.body[0], ast.Assign) or \
                        ast.unparse(s.body[0].targets[0]) != 'self.' + a:
                    raise Unsupported('lazy initialisation of self.' + a)
                emit(f'gen_{a}_init', em.tr(s.body[0].value))
                em.env['self.' + a] = sym(a, 'V')
                continue
            # ---- if self.xold1 is not None and self.xold2 is not None:   (asymptote adaptation)
            if isinstance(s, ast.If) and ast.unparse(s.test) == 'self.xold1 is not None and self.xold2 is not None':
                if s.orelse or 'self.offset' not in em.env:
                    raise Unsupported('asymptote adaptation block')
                do_block(s.body, masked_ok=True)
                emit('gen_offset_adapt', em.env['self.offset'])
                em.env['self.offset'] = sym('offset', 'V')
                for k in list(em.env):
                    if k not in env and not k.startswith('self.'):
                        del em.env[k]      # locals of the conditional block are not visible afterwards
                continue
            # ---- self.offset[mask] *= c
            if masked_ok and isinstance(s, ast.AugAssign) and isinstance(s.target, ast.Subscript) and \
                    ast.unparse(s.target.value) == 'self.offset' and isinstance(s.op, ast.Mult):
                mask = em.tr(s.target.slice)
                if mask.kind != 'BV':
                    raise Unsupported('mask kind ' + mask.kind)
                old = em.env['self.offset']
                c = em.tr(s.value)
                if c.kind != 'S':
                    raise Unsupported('masked update by a non-scalar')
                em.env['self.offset'] = Val(f'(if {mask.text} then (nmul {old.text} {c.text}) else {old.text})', 'V',
                                            mask.syms | old.syms | c.syms)
                continue
            # ---- MMA version dispatch
            if isinstance(s, ast.If) and isinstance(s.test, ast.Compare) and isinstance(s.test.ops[0], ast.In):
                node = s
                while True:
                    t = node.test
                    if not (isinstance(t, ast.Compare) and len(t.ops) == 1 and isinstance(t.ops[0], ast.In) and
                            isinstance(t.left, ast.Constant) and isinstance(t.left.value, str) and
                            ast.unparse(t.comparators[0]) == 'self.mmaversion'):
                        raise Unsupported('version test ' + ast.unparse(t))
                    tag = t.left.value
                    versions.append(tag)
                    saved = dict(em.env)
                    for st in node.body:
                        if not (isinstance(st, ast.Assign) and len(st.targets) == 1 and isinstance(st.targets[0], ast.Name)
                                and st.targets[0].id in ('P', 'Q')):
                            raise Unsupported('version branch statement ' + ast.unparse(st))
                        v = em.tr(st.value)
                        if v.kind != 'M':
                            raise Unsupported('P/Q kind')
                        emit(f'gen_{st.targets[0].id}_{tag}', v)
                    if sorted(st.targets[0].id for st in node.body) != ['P', 'Q']:
                        raise Unsupported('version branch must assign P and Q')
                    em.env = saved
                    if len(node.orelse) == 1 and isinstance(node.orelse[0], ast.If):
                        node = node.orelse[0]
                        continue
                    if not (len(node.orelse) == 1 and isinstance(node.orelse[0], ast.Raise) and
                            ast.unparse(node.orelse[0].exc).startswith('ValueError(')):
                        raise Unsupported('version dispatch must end in raise ValueError')
                    break
                em.env['P'] = sym('P', 'M')
                em.env['Q'] = sym('Q', 'M')
                continue
            # ---- rhs = np.dot(P, 1 / shift) + np.dot(Q, 1 / shift) - g      (row level)
            if isinstance(s, ast.Assign) and ast.unparse(s.targets[0]) == 'rhs':
                out.append(row_def('gen_rhs_row', s.value, em))
                em.env['rhs'] = sym('rhs', 'R')
                continue
            if isinstance(s, ast.Assign) and ast.unparse(s.targets[0]) == 'b':
                v = s.value
                if not (isinstance(v, ast.Subscript) and ast.unparse(v.value) == 'rhs' and ast.unparse(v.slice) == '1:'):
                    raise Unsupported('b = ' + ast.unparse(v))
                out.append('  Definition gen_b (rhs : list K) : list K := skipn 1 rhs.\n')
                em.env['b'] = sym('b', 'R')
                continue
            # ---- the subproblem solve
            if isinstance(s, ast.Assign) and isinstance(s.value, ast.Call) and fname(s.value) == 'subsolv':
                if state['seen_call']:
                    raise Unsupported('second subsolv call')
                state['seen_call'] = True
                params = [a.arg for a in subsolv_fn.args.args]
                call = s.value
                bound = dict(zip(params, call.args))
                for kw in call.keywords:
                    bound[kw.arg] = kw.value
                binding = []
                for p in ('low', 'upp', 'alfa', 'beta', 'P', 'Q', 'b', 'x0'):
                    if p not in bound:
                        raise Unsupported(f'subsolv argument {p} missing')
                    v = em.tr(bound[p])
                    if len(v.syms) != 1 or v.text not in v.syms:
                        raise Unsupported(f'subsolv argument {p} is not a plain quantity: {v.text}')
                    binding.append((p, v.text))
                state['args'] = binding
                t = s.targets[0]
                if not (isinstance(t, ast.Tuple) and all(isinstance(e, ast.Name) for e in t.elts)):
                    raise Unsupported('subsolv result unpacking')
                state['unpack'] = [e.id for e in t.elts]
                for e in t.elts:
                    em.env[e.id] = Val(e.id, 'X', [e.id])
                continue
            # ---- history update
            if isinstance(s, ast.Assign) and isinstance(s.targets[0], ast.Tuple) and isinstance(s.value, ast.Tuple):
                tg = [ast.unparse(e) for e in s.targets[0].elts]
                if tg == ['self.xold2', 'self.xold1']:
                    if not state['seen_call']:
                        raise Unsupported('history updated before the subproblem is solved')
                    vals = [em.tr(e) for e in s.value.elts]
                    out.append(cdef('gen_xold2_next', vals[0]))
                    out.append(cdef('gen_xold1_next', vals[1]))
                    state['hist'] = True
                    continue
                if tg == ['self.gold2', 'self.gold1']:
                    continue          # not used by the algorithm
                raise Unsupported('tuple assignment ' + ast.unparse(s))
            if isinstance(s, ast.Assign) and ast.unparse(s.targets[0]) == 'change':
                continue              # reporting only (returned second, unused by response())
            if isinstance(s, ast.Assign) and ast.unparse(s.targets[0]) == 'epsimin_scaled':
                continue              # tolerance handed to subsolv; recorded, not modelled
            if isinstance(s, ast.If) and ast.unparse(s.test).startswith('self.verbosity >='):
                for n in ast.walk(s):
                    if isinstance(n, (ast.Assign, ast.AugAssign)):
                        tgs = n.targets if isinstance(n, ast.Assign) else [n.target]
                        for t in tgs:
                            if 'self' in ast.unparse(t) or ast.unparse(t) in ('xmma', 'xval'):
                                raise Unsupported('printing block assigns state: ' + ast.unparse(n))
                continue
            if isinstance(s, ast.Return):
                if not (isinstance(s.value, ast.Tuple) and len(s.value.elts) == 2 and isinstance(s.value.elts[0], ast.Name)):
                    raise Unsupported('return ' + ast.unparse(s))
                state['ret'] = s.value.elts[0].id
                continue
            if isinstance(s, ast.Assign) and len(s.targets) == 1:
                t = s.targets[0]
                if isinstance(t, ast.Name) or is_self_attr(t):
                    if is_self_attr(t) and t.attr not in ('offset', 'low', 'upp'):
                        raise Unsupported('assignment to self.' + t.attr)
                    assign(t, em.tr(s.value))
                    continue
            raise Unsupported('mmasub statement: ' + ast.unparse(s)[:160])

    do_block(f.body)
    need = ['gen_dx_init', 'gen_offset_init', 'gen_offset_adapt', 'gen_shift', 'gen_low', 'gen_upp', 'gen_alfa', 'gen_beta',
            'gen_dg_plus', 'gen_dg_min', 'gen_dx2']
    for nme in need:
        if nme not in emitted:
            raise Unsupported(nme + ' not found in mmasub')
    if not (state['seen_call'] and state['hist'] and state['ret']):
        raise Unsupported('mmasub: subsolv call / history update / return not found')
    # the value returned as the new design is the first component of what subsolv returns
    idx = state['unpack'].index(state['ret']) if state['ret'] in state['unpack'] else None
    if idx is None:
        raise Unsupported('mmasub does not return a subsolv result')
    sret = [s for s in subsolv_fn.body if isinstance(s, ast.Return)]
    if len(sret) != 1 or not isinstance(sret[0].value, ast.Tuple):
        raise Unsupported('subsolv return')
    rnames = [ast.unparse(e) for e in sret[0].value.elts]
    out.append('  Definition gen_versions : list string := [' + '; '.join(f'"{v}"' for v in versions) + ']%string.\n')
    out.append('  Definition gen_subsolv_binding : list (string * string) := [' +
               '; '.join(f'("{p}", "{v}")' for p, v in state['args']) + ']%string.\n')
    out.append(f'  Definition gen_returned_design : string := "{rnames[idx]}"%string.\n')
    return rnames


def row_def(name, expr, em):
    """row-level definition: np.dot(M, E) with M a matrix symbol and E an expression over ONE per-variable symbol"""
    syms = {}

    def tr(n):
        if isinstance(n, ast.BinOp) and type(n.op) in BIN:
            return f'({BIN[type(n.op)]} {tr(n.left)} {tr(n.right)})'
        if isinstance(n, ast.Call) and fname(n) == 'np.dot' and len(n.args) == 2 and not n.keywords:
            m = em.tr(n.args[0])
            e = em.tr(n.args[1])
            if m.kind != 'M' or m.text not in m.syms or e.kind != 'V' or len(e.syms) != 1:
                raise Unsupported('np.dot operands: ' + ast.unparse(n))
            (v,) = e.syms
            syms[m.text] = 'list K'
            syms[v] = 'list K'
            return f'(dot {m.text} (map (fun {v} => {e.text}) {v}))'
        v = em.tr(n)
        if v.kind != 'R' or v.text not in v.syms:
            raise Unsupported('row-level operand: ' + ast.unparse(n))
        syms[v.text] = 'K'
        return v.text
    body = tr(expr)
    ps = [s for s in ORDER if s in syms]
    args = ''.join(f' ({p} : {syms[p]})' for p in ps)
    return f'  Definition {name}{args} : K :=\n    {body}.\n'


# ======================================================================================= vector dialect
class VecEmitter:
    """types: S scalar, V vector, M matrix, N length (nat), B boolean"""

    def __init__(self, env):
        self.env = dict(env)

    def fail(self, n, why=''):
        raise Unsupported(f'T-real(vector): unsupported {type(n).__name__} {why}: {ast.unparse(n)[:140]}')

    def binop(self, n, op, a, b):
        s = a.syms | b.syms
        if a.kind == 'S' and b.kind == 'S':
            return Val(f'({op} {a.text} {b.text})', 'S', s)
        if a.kind == 'V' and b.kind == 'V':
            return Val(f'(vmap2 {op} {a.text} {b.text})', 'V', s)
        if a.kind == 'S' and b.kind == 'V':
            return Val(f'(map (fun v_ => {op} {a.text} v_) {b.text})', 'V', s)
        if a.kind == 'V' and b.kind == 'S':
            return Val(f'(map (fun v_ => {op} v_ {b.text}) {a.text})', 'V', s)
        self.fail(n, f'operand types {a.kind},{b.kind}')

    def tr(self, n):
        if isinstance(n, ast.Constant):
            return Val(lit(n.value), 'S')
        if isinstance(n, ast.Name):
            if n.id in self.env:
                return self.env[n.id]
            self.fail(n, 'unbound name')
        if isinstance(n, ast.UnaryOp):
            a = self.tr(n.operand)
            if isinstance(n.op, ast.USub):
                if a.kind == 'S':
                    return Val(f'(nopp {a.text})', 'S', a.syms)
                if a.kind == 'V':
                    return Val(f'(map nopp {a.text})', 'V', a.syms)
            if isinstance(n.op, ast.UAdd):
                return a
            self.fail(n)
        if isinstance(n, ast.BinOp):
            if isinstance(n.op, ast.Pow):
                if isinstance(n.right, ast.Constant) and n.right.value == 2 and not isinstance(n.right.value, bool):
                    a = self.tr(n.left)
                    if a.kind == 'S':
                        return Val(f'(sq {a.text})', 'S', a.syms)
                    if a.kind == 'V':
                        return Val(f'(map sq {a.text})', 'V', a.syms)
                self.fail(n, 'power')
            if type(n.op) not in BIN:
                self.fail(n, 'operator')
            return self.binop(n, BIN[type(n.op)], self.tr(n.left), self.tr(n.right))
        if isinstance(n, ast.Compare):
            if len(n.ops) != 1:
                self.fail(n, 'chained comparison')
            a, b = self.tr(n.left), self.tr(n.comparators[0])
            op = type(n.ops[0])
            if a.kind == 'S' and b.kind == 'S':
                fm = {ast.Lt: '(nltb {0} {1})', ast.Gt: '(nltb {1} {0})', ast.LtE: '(nleb {0} {1})', ast.GtE: '(nleb {1} {0})'}
                if op in fm:
                    return Val(fm[op].format(a.text, b.text), 'B', a.syms | b.syms)
            if a.kind == 'N' and b.kind == 'N':
                fm = {ast.Lt: '(Nat.ltb {0} {1})', ast.Gt: '(Nat.ltb {1} {0})', ast.LtE: '(Nat.leb {0} {1})', ast.GtE: '(Nat.leb {1} {0})'}
                if op in fm:
                    return Val(fm[op].format(a.text, b.text), 'B', a.syms | b.syms)
            self.fail(n, 'comparison')
        if isinstance(n, ast.BoolOp) and isinstance(n.op, ast.And):
            vs = [self.tr(v) for v in n.values]
            if any(v.kind != 'B' for v in vs):
                self.fail(n, 'boolop')
            return Val('(' + ' && '.join(v.text for v in vs) + ')', 'B', frozenset().union(*[v.syms for v in vs]))
        if isinstance(n, ast.Call):
            f = fname(n)
            args = n.args
            if n.keywords:
                self.fail(n, 'keyword arguments')
            if f in ('np.maximum', 'np.minimum') and len(args) == 2:
                return self.binop(n, 'nmax' if f == 'np.maximum' else 'nmin', self.tr(args[0]), self.tr(args[1]))
            if f in ('max', 'min') and len(args) >= 2:
                vs = [self.tr(a) for a in args]
                if any(v.kind != 'S' for v in vs):
                    self.fail(n, 'builtin max/min of non-scalars')
                acc = vs[0]
                for v in vs[1:]:
                    acc = Val(f'({"nmax" if f == "max" else "nmin"} {acc.text} {v.text})', 'S', acc.syms | v.syms)
                return acc
            if f in ('np.min', 'np.max') and len(args) == 1:
                a = self.tr(args[0])
                if a.kind != 'V':
                    self.fail(n, 'reduction of a non-vector')
                return Val(f'({"lmin" if f == "np.min" else "lmax"} {a.text})', 'S', a.syms)
            if f == 'np.abs' and len(args) == 1:
                a = self.tr(args[0])
                if a.kind == 'V':
                    return Val(f'(map nabs {a.text})', 'V', a.syms)
                if a.kind == 'S':
                    return Val(f'(nabs {a.text})', 'S', a.syms)
            if f == 'np.clip' and len(args) == 3:
                vs = [self.tr(a) for a in args]
                if all(v.kind == 'V' for v in vs):
                    return Val(f'(vmap3 clip {vs[0].text} {vs[1].text} {vs[2].text})', 'V', vs[0].syms | vs[1].syms | vs[2].syms)
            if f == 'np.ones' and len(args) == 1:
                a = self.tr(args[0])
                if a.kind == 'N':
                    return Val(f'(repeat (nofZ 1) {a.text})', 'V', a.syms)
            if f == 'len' and len(args) == 1:
                a = self.tr(args[0])
                if a.kind == 'V':
                    return Val(f'(length {a.text})', 'N', a.syms)
            if f == 'np.dot' and len(args) == 2:
                a, b = self.tr(args[0]), self.tr(args[1])
                s = a.syms | b.syms
                if (a.kind, b.kind) == ('V', 'V'):
                    return Val(f'(dot {a.text} {b.text})', 'S', s)
                if (a.kind, b.kind) == ('M', 'V'):
                    return Val(f'(matvec {a.text} {b.text})', 'V', s)
                if (a.kind, b.kind) == ('V', 'M'):
                    return Val(f'(vecmat {a.text} {b.text})', 'V', s)
            if f == 'np.array' and len(args) == 1 and isinstance(args[0], ast.List) and len(args[0].elts) == 1:
                a = self.tr(args[0].elts[0])
                if a.kind == 'S':
                    return Val(f'[{a.text}]', 'V', a.syms)
            if f == 'np.concatenate' and len(args) == 1 and isinstance(args[0], ast.List):
                vs = [self.tr(a) for a in args[0].elts]
                if all(v.kind == 'V' for v in vs):
                    return Val('(concat [' + ';\n      '.join(v.text for v in vs) + '])', 'V',
                               frozenset().union(*[v.syms for v in vs]))
            if f == 'np.ascontiguousarray' and len(args) == 1 and isinstance(args[0], ast.Subscript):
                m = self.tr(args[0].value)
                sl = ast.unparse(args[0].slice)
                if m.kind == 'M' and sl in ('0, :', '(0, :)'):
                    return Val(f'(nthL {m.text} 0)', 'V', m.syms)
                if m.kind == 'M' and sl in ('1:, :', '(1:, :)'):
                    return Val(f'(skipn 1 {m.text})', 'M', m.syms)
            if isinstance(n.func, ast.Attribute) and n.func.attr == 'copy' and not args:
                return self.tr(n.func.value)
            self.fail(n, 'call')
        self.fail(n)


TY = {'S': 'K', 'V': 'list K', 'M': 'list (list K)', 'N': 'nat', 'B': 'bool'}


def vdef(name, val, order):
    ps = [s for s in order if s in val.syms]
    if set(ps) != set(val.syms):
        raise Unsupported(f'unknown symbols in {name}: {sorted(val.syms)}')
    args = ''.join(f' ({p} : {TY[order[p]]})' for p in ps)
    return f'  Definition {name}{args} : {TY[val.kind]} :=\n    {val.text}.\n'


RES_PARAMS = ['x', 'y', 'z', 'lam', 'xsi', 'eta', 'mu', 'zet', 's', 'upp', 'low', 'P0', 'P1', 'Q0', 'Q1', 'epsi', 'a0',
              'a', 'b', 'c', 'd', 'alfa', 'beta']
RES_KINDS = dict(x='V', y='V', z='S', lam='V', xsi='V', eta='V', mu='V', zet='S', s='V', upp='V', low='V', P0='V',
                 P1='M', Q0='V', Q1='M', epsi='S', a0='S', a='V', b='V', c='V', d='V', alfa='V', beta='V')


def gen_residual(tree, out):
    f = find_func(tree, 'residual')
    params = [a.arg for a in f.args.args]
    if params != RES_PARAMS:
        raise Unsupported(f'residual signature {params}')
    em = VecEmitter({p: Val(p, RES_KINDS[p], [p]) for p in params})
    ret = None
    for s in f.body:
        if isinstance(s, ast.Assign) and len(s.targets) == 1 and isinstance(s.targets[0], ast.Name):
            if s.targets[0].id in params:
                raise Unsupported('residual re-binds a parameter')
            em.env[s.targets[0].id] = em.tr(s.value)
        elif isinstance(s, ast.Return):
            ret = em.tr(s.value)
        else:
            raise Unsupported('residual statement ' + ast.unparse(s)[:100])
    if ret is None or ret.kind != 'V':
        raise Unsupported('residual return')
    out.append(vdef('gen_residual', Val(ret.text, 'V', RES_PARAMS), RES_KINDS))


STATE = ['x', 'y', 'z', 'lam', 'xsi', 'eta', 'mu', 'zet', 's']
DIRS = ['dx', 'dy', 'dz', 'dlam', 'dxsi', 'deta', 'dmu', 'dzet', 'ds']
OLDS = ['xold', 'yold', 'zold', 'lamold', 'xsiold', 'etaold', 'muold', 'zetold', 'sold']
STEPS = ['stmy', 'stmz', 'stmlam', 'stmxsi', 'stmeta', 'stmmu', 'stmzet', 'stms', 'stmxx', 'stmalfa', 'stmbeta', 'steg']


def targets_of(s):
    tg = s.targets if isinstance(s, ast.Assign) else [s.target] if isinstance(s, (ast.AugAssign,)) else []
    outl = []
    for t in tg:
        for e in (t.elts if isinstance(t, ast.Tuple) else [t]):
            while isinstance(e, ast.Subscript):
                e = e.value
            outl.append(ast.unparse(e))
    return outl


def check_residual_call(call):
    if not (isinstance(call, ast.Call) and fname(call) == 'residual' and not call.keywords and
            [ast.unparse(a) for a in call.args] == RES_PARAMS):
        raise Unsupported('residual call does not pass the state in order: ' + ast.unparse(call)[:200])


def gen_subsolv(tree, out):
    f = find_func(tree, 'subsolv')
    params = [a.arg for a in f.args.args]
    if params != ['epsimin', 'low', 'upp', 'alfa', 'beta', 'P', 'Q', 'a0', 'a', 'b', 'c', 'd', 'x0']:
        raise Unsupported(f'subsolv signature {params}')
    kinds = dict(epsimin='S', low='V', upp='V', alfa='V', beta='V', P='M', Q='M', a0='S', a='V', b='V', c='V', d='V',
                 x0='V', n='N', m='N', epsi='S', residumax='S', residunorm='S', residu='V', normnew='S',
                 ittt='N', maxittt='N')
    kinds.update({k: RES_KINDS[k] for k in STATE})
    kinds.update({k: 'S' for k in STEPS})
    kinds.update({d: RES_KINDS[k] for d, k in zip(DIRS, STATE)})
    order = {k: kinds[k] for k in ['epsimin', 'epsi', 'n', 'm', 'low', 'upp', 'alfa', 'beta', 'P', 'Q', 'a0', 'a', 'b', 'c',
                                   'd', 'x0'] + STATE + DIRS + STEPS + ['residu', 'residumax', 'residunorm', 'normnew',
                                                                'ittt', 'maxittt']}
    em = VecEmitter({p: Val(p, kinds[p], [p]) for p in params})
    body = [s for s in f.body if not (isinstance(s, ast.Expr) and isinstance(s.value, ast.Constant))]
    outer = [s for s in body if isinstance(s, ast.While)]
    if len(outer) != 1:
        raise Unsupported('subsolv: exactly one outer while expected')
    outer = outer[0]
    pre = body[:body.index(outer)]
    post = body[body.index(outer) + 1:]
    if len(post) != 1 or not isinstance(post[0], ast.Return) or \
            [ast.unparse(e) for e in post[0].value.elts] != STATE:
        raise Unsupported('subsolv: return statement')
    # ---------------- initial point
    consts = {}
    for s in pre:
        if isinstance(s, ast.Assign) and isinstance(s.targets[0], ast.Tuple) and ast.unparse(s.targets[0]) == '(n, m)' or \
                (isinstance(s, ast.Assign) and ast.unparse(s.targets[0]) == 'n, m'):
            vals = s.value.elts
            if [ast.unparse(v) for v in vals] != ['len(alfa)', 'len(a)']:
                raise Unsupported('n, m = ' + ast.unparse(s.value))
            em.env['n'] = Val('n', 'N', ['n'])
            em.env['m'] = Val('m', 'N', ['m'])
            continue
        if not (isinstance(s, ast.Assign) and len(s.targets) == 1 and isinstance(s.targets[0], ast.Name)):
            raise Unsupported('subsolv preamble: ' + ast.unparse(s)[:100])
        name = s.targets[0].id
        if name in ('GG', 'bb', 'AA', 'itera'):
            continue           # work arrays of the Newton system (abstract in the model)
        if name == 'maxittt':
            if not (isinstance(s.value, ast.Constant) and isinstance(s.value.value, int)):
                raise Unsupported('maxittt')
            out.append(f'  Definition gen_maxittt : nat := {s.value.value}.\n')
            em.env['maxittt'] = Val('maxittt', 'N', ['maxittt'])
            continue
        if name == 'epsi':
            out.append(vdef('gen_epsi0', em.tr(s.value), order))
            em.env['epsi'] = Val('epsi', 'S', ['epsi'])
            continue
        if name == 'x':
            v = s.value
            if not (isinstance(v, ast.IfExp) and ast.unparse(v.test) == 'x0 is None'):
                raise Unsupported('x initialisation')
            out.append(vdef('gen_x_init_mid', em.tr(v.body), order))
            out.append(vdef('gen_x_init_x0', em.tr(v.orelse), order))
            em.env['x'] = Val('x', 'V', ['x'])
            continue
        if name in STATE:
            out.append(vdef('gen_' + name + '_init', em.tr(s.value), order))
            em.env[name] = Val(name, kinds[name], [name])
            continue
        if name in ('P0', 'Q0', 'P1', 'Q1'):
            out.append(vdef('gen_' + name, em.tr(s.value), order))
            em.env[name] = Val(name, RES_KINDS[name], [name])
            continue
        raise Unsupported('subsolv preamble: ' + ast.unparse(s)[:100])
    for k in STATE + ['P0', 'Q0', 'P1', 'Q1', 'epsi', 'maxittt']:
        if k not in em.env:
            raise Unsupported(f'subsolv: {k} not initialised')
    # ---------------- outer loop
    out.append(vdef('gen_outer_test', em.tr(outer.test), order))
    ob = outer.body
    inner = [s for s in ob if isinstance(s, ast.While)]
    if len(inner) != 1 or outer.orelse:
        raise Unsupported('subsolv: exactly one inner while expected')
    inner = inner[0]
    i0 = ob.index(inner)
    seen = set()
    for s in ob[:i0]:
        src = ast.unparse(s)
        if src == 'itera = itera + 1':
            continue
        if isinstance(s, ast.Assign) and ast.unparse(s.targets[0]) == 'residu':
            check_residual_call(s.value)
        elif src == 'residunorm = np.linalg.norm(residu)':
            pass
        elif isinstance(s, ast.Assign) and ast.unparse(s.targets[0]) == 'residumax':
            e2 = VecEmitter({'residu': Val('residu', 'V', ['residu'])})
            out.append(vdef('gen_residumax', e2.tr(s.value), order))
        elif src == 'ittt = 0':
            pass
        else:
            raise Unsupported('outer loop statement: ' + src[:100])
        seen.add(ast.unparse(s.targets[0]))
    if seen != {'residu', 'residunorm', 'residumax', 'ittt'}:
        raise Unsupported('outer loop prologue incomplete')
    tail = ob[i0 + 1:]
    if len(tail) != 2 or not (isinstance(tail[0], ast.If) and 'print' in ast.unparse(tail[0]) and
                              not any(isinstance(n, (ast.Assign, ast.AugAssign)) for n in ast.walk(tail[0]))):
        raise Unsupported('outer loop tail')
    if not (isinstance(tail[1], ast.AugAssign) and ast.unparse(tail[1].target) == 'epsi' and isinstance(tail[1].op, ast.Div)):
        raise Unsupported('epsi update')
    em.env['ittt'] = Val('ittt', 'N', ['ittt'])
    em.env['residumax'] = Val('residumax', 'S', ['residumax'])
    em.env['residunorm'] = Val('residunorm', 'S', ['residunorm'])
    out.append(vdef('gen_epsi_next', em.binop(tail[1], 'ndiv', em.env['epsi'], em.tr(tail[1].value)), order))
    out.append(vdef('gen_inner_test', em.tr(inner.test), order))
    # ---------------- inner loop body
    ib = inner.body
    if inner.orelse or ast.unparse(ib[0]) != 'ittt = ittt + 1':
        raise Unsupported('inner loop must start with ittt = ittt + 1')
    fors = [s for s in ib if isinstance(s, ast.For)]
    if len(fors) != 1:
        raise Unsupported('line search loop')
    ls = fors[0]
    k_ls = ib.index(ls)
    assigned_once = {}
    for s in ib[1:k_ls]:
        for t in targets_of(s):
            assigned_once[t] = assigned_once.get(t, 0) + 1
        if not isinstance(s, (ast.Assign,)):
            raise Unsupported('inner loop statement: ' + ast.unparse(s)[:100])
    for v in STATE + ['alfa', 'beta', 'epsi', 'low', 'upp']:
        if v in assigned_once:
            raise Unsupported(f'{v} is modified inside the Newton step before the line search')
    for d in DIRS + STEPS + OLDS:
        if assigned_once.get(d, 0) != 1:
            raise Unsupported(f'{d} must be assigned exactly once per Newton step')
    # the Newton direction is abstract: bind the direction names to symbols once all of them have been assigned
    names_in_order = [t for s in ib[1:k_ls] for t in targets_of(s)]
    last_dir = max(i for i, t in enumerate(names_in_order) if t in DIRS)
    first_step = min(i for i, t in enumerate(names_in_order) if t in STEPS + OLDS)
    if last_dir > first_step:
        raise Unsupported('step-length block interleaved with the Newton direction')
    for d in DIRS:
        em.env[d] = Val(d, kinds[d], [d])
    for s in ib[1:k_ls]:
        tg = targets_of(s)
        if len(tg) == 1 and tg[0] in STEPS:
            v = em.tr(s.value)
            if v.kind != 'S':
                raise Unsupported(tg[0] + ' not scalar')
            # one definition per named step bound; later uses refer to it by name
            out.append(vdef('gen_' + tg[0], v, order))
            em.env[tg[0]] = Val(tg[0], 'S', [tg[0]])
        elif len(tg) == 1 and tg[0] in OLDS:
            v = em.tr(s.value)
            st = STATE[OLDS.index(tg[0])]
            if v.text != st:
                raise Unsupported(f'{tg[0]} is not a copy of {st}')
            em.env[tg[0]] = v
    # ---------------- line search
    if ast.unparse(ls.iter) != 'range(maxittt)' or ls.orelse:
        raise Unsupported('line search range')
    em.env['steg'] = Val('steg', 'S', ['steg'])
    lb = ls.body
    upd = {}
    k = 0
    while k < len(lb) and isinstance(lb[k], ast.Assign) and targets_of(lb[k])[0] in STATE:
        t = lb[k].targets[0]
        nme = targets_of(lb[k])[0]
        if isinstance(t, ast.Subscript) and ast.unparse(t.slice) != ':':
            raise Unsupported('line search update target ' + ast.unparse(t))
        if nme in upd:
            raise Unsupported('line search updates ' + nme + ' twice')
        v = em.tr(lb[k].value)
        if v.kind != kinds[nme]:
            raise Unsupported('line search update kind')
        upd[nme] = v
        k += 1
    if sorted(upd) != sorted(STATE):
        raise Unsupported('line search must update every variable')
    for nme in STATE:
        out.append(vdef('gen_new_' + nme, upd[nme], order))
    rest = lb[k:]
    if len(rest) != 3:
        raise Unsupported('line search tail')
    if not (isinstance(rest[0], ast.Assign) and ast.unparse(rest[0].targets[0]) == 'residu'):
        raise Unsupported('line search residual')
    check_residual_call(rest[0].value)
    t = rest[1]
    if not (isinstance(t, ast.If) and len(t.body) == 1 and isinstance(t.body[0], ast.Break) and not t.orelse and
            isinstance(t.test, ast.Compare) and ast.unparse(t.test.left) == 'np.linalg.norm(residu)'):
        raise Unsupported('line search acceptance test')
    em.env['normnew'] = Val('normnew', 'S', ['normnew'])
    tst = ast.Compare(left=ast.Name(id='normnew'), ops=t.test.ops, comparators=t.test.comparators)
    out.append(vdef('gen_ls_accept', em.tr(tst), order))
    if not (isinstance(rest[2], ast.AugAssign) and ast.unparse(rest[2].target) == 'steg' and isinstance(rest[2].op, ast.Div)):
        raise Unsupported('step halving')
    out.append(vdef('gen_steg_next', em.binop(rest[2], 'ndiv', em.env['steg'], em.tr(rest[2].value)), order))
    after = ib[k_ls + 1:]
    if [ast.unparse(s) for s in after] != ['residunorm = np.linalg.norm(residu)', 'residumax = np.max(np.abs(residu))']:
        raise Unsupported('inner loop epilogue')


HEADER = '''(* GENERATED by tools/gen_C10.py from pymoto/common/mma.py -- do not edit *)
From Coq Require Import ZArith String List Bool.
From Pymoto Require Import Base.Num Base.MMANum.
Import ListNotations.

Section Gen.
  Context {K : Type} `{Num K} `{NumOrd K}.
'''


def generate(repo):
    tree, _ = parse_file(os.path.join(repo, 'pymoto/common/mma.py'))
    out = [HEADER]
    cls = find_class(tree, 'MMA')
    sub = find_func(tree, 'subsolv')
    out.append('  (* ---- MMA.mmasub, component dialect *)\n')
    gen_mmasub(cls, sub, out)
    out.append('  (* ---- residual, vector dialect *)\n')
    gen_residual(tree, out)
    out.append('  (* ---- subsolv: initial point, loop tests, step length, line search *)\n')
    gen_subsolv(tree, out)
    out.append('End Gen.\n')
    return '\n'.join(out)


if __name__ == '__main__':
    import sys
    print(generate(sys.argv[1] if len(sys.argv) > 1 else '/repo'))
